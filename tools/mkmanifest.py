#!/usr/bin/env python3
"""Writes MANIFEST.json from tools/props.py (claimed) and the property list (rest: not_applicable)."""
import json, os, sys
V = os.path.dirname(os.path.dirname(os.path.abspath(__file__)))
sys.path.insert(0, os.path.join(V, "tools"))
import props as P
ids = [json.loads(l)["id"] for l in open(os.path.join(V, "properties.jsonl"))]
checks, na = [], []
for pid in ids:
    c = P.PROPS.get(pid)
    if not c or not c.get("claimed", True):
        na.append({"property_id": pid, "reason": (c or {}).get("na_reason", "check not built yet in this session (work in progress; see DESIGN.md section 5)")})
        continue
    checks.append({
        "property_id": pid,
        "quick_cmd": "./check %s quick" % pid,
        "thorough_cmd": "./check %s thorough" % pid,
        "evidence_file": "/verif/evidence/%s.json" % pid,
        "replay_cmd_template": "./check %s --replay {path}" % pid,
        "engine": "coq-model+correspondence",
        "level_claimed": {"category": "proof", "text": c["level_text"], "design_ref": c.get("design_ref", "DESIGN.md section 5")},
        "level_note": c["level_note"],
        "technique": c.get("technique", "Coq 8.16 theorems over an executable Gallina model; model tied to /repo by differential correspondence (Go harness vs extracted model) on every run"),
    })
m = {
    "version": 1,
    "setup_cmd": "./check setup",
    "hooks": {"guard": "verif", "enable": "go build -tags verif (harness module /verif/harness with replace => /repo)",
              "baseline_off_cmd": "cd /repo && go test -mod=mod -json -vet=off -count=1 -timeout 25m ./...",
              "source_commits": P.HOOK_COMMITS, "add_only": True},
    "engines": [{"name": "coq-model+correspondence", "path": "/verif/coq", "serves_properties": [c["property_id"] for c in checks],
                 "kind_free_text": "Rocq/Coq 8.16.1 development (Model, Proofs, Props) + extracted OCaml driver + Go differential harness + srcfacts translator"}],
    "checks": checks,
    "not_applicable": na,
    "notes": "See DESIGN.md. Every check rebuilds the harness from /repo's working tree, recompiles Props/<id>.v with Print Assumptions, runs generated histories on implementation and extracted model, evaluates the property's boolean oracle on the implementation's observations.",
}
json.dump(m, open(os.path.join(V, "MANIFEST.json"), "w"), indent=1)
print("claimed:", len(checks), "not_applicable:", len(na))
