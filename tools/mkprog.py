#!/usr/bin/env python3
"""Helpers to write hand-made corpus programs (readable python lists -> encoded .prog)."""
import os, re
V = os.path.dirname(os.path.dirname(os.path.abspath(__file__)))
def enc(s):
    b = s.encode("utf-8", "surrogateescape") if isinstance(s, str) else s
    if b and b[0:1] != b"x" and re.fullmatch(rb"[0-9A-Za-z\-_.:]+", b):
        return b.decode()
    return "x" + b.hex()
def L(*items): return [str(len(items))] + list(items)
def write(pid, name, ops):
    d = os.path.join(V, "corpus", pid); os.makedirs(d, exist_ok=True)
    with open(os.path.join(d, name + ".prog"), "w") as f:
        for o in ops:
            f.write("O " + " ".join(enc(x) for x in o) + "\n")
def cfg(trace=False, name="main", domain="", ic=()):
    return ["cfg", "1" if trace else "0", name, domain] + L(*ic)
def handle(p, hid, methods=("GET",), mws=(), tgt="r"): return ["handle", tgt, p, hid] + L(*mws) + L(*methods)
def remove(p, methods=(), tgt="r"): return ["remove", tgt, p] + L(*methods)
def serve(m, path, w=None, vals=()):
    o = ["serve", m, path]
    if w is not None: o += ["w", w] + L(*vals)
    return o
def url(strict, p, kv=(), tgt="r"): return ["url", tgt, "1" if strict else "0", p] + L(*kv)
