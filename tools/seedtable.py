#!/usr/bin/env python3
"""Print the markdown table of DESIGN.md section 14 from seeded/*/meta.json (last recorded run of every seeded change)."""
import json, os, re, sys
V = os.path.dirname(os.path.dirname(os.path.abspath(__file__)))
rows, tot, fi, nf, missed = [], 0, 0, 0, []
def first_line(txt):
    for l in txt.splitlines():
        l = l.strip()
        if not l or set(l) <= set("=-~*# "):
            continue
        if re.match(r"(?i)^(mutant|m\d|c\d\d)\b.{0,12}$", l):
            continue
        return l[:110]
    return ""
for sid in sorted(os.listdir(os.path.join(V, "seeded"))):
    mf = os.path.join(V, "seeded", sid, "meta.json")
    if not os.path.exists(mf):
        continue
    m = json.load(open(mf))
    cb = m.get("caught_by", {})
    cells = []
    for pid, r in sorted(cb.items()):
        cl = ", ".join(c.split(":", 1)[-1] for c in r.get("clauses", [])[:3])
        res = r["result"]
        if res == "missed" and pid != m["property"]:
            res = "silent (another property's check)"
        cells.append("%s: %s%s" % (pid, res, " – " + cl if cl else ""))
    own = cb.get(m["property"]) or (list(cb.values())[0] if cb else {"result": "not run"})
    best = "missed"
    for r in cb.values():
        if r["result"] == "failing-input": best = "failing-input"
        elif r["result"] == "no-failing-input-found" and best == "missed": best = r["result"]
    tot += 1; fi += best == "failing-input"; nf += best == "no-failing-input-found"
    if best == "missed": missed.append(sid)
    rows.append("| %s | %s | %s |" % (sid, first_line(m.get("needs_to_manifest", "")).replace("|", "/"), "; ".join(cells).replace("|", "/")))
print("| id | what it is (first line of the sub-agent's notes) | quick check(s) that ran and what they reported |")
print("|---|---|---|")
print("\n".join(rows))
print("\n%d seeded changes: %d reported with a failing input, %d as no-failing-input-found, %d missed %s" % (tot, fi, nf, len(missed), missed), file=sys.stderr)
