#!/usr/bin/env python3
"""seed.py confirm <mutant-dir> <seed-id> <property> : confirm a sub-agent's mutant in a scratch worktree and store it under seeded/<seed-id>/
   seed.py run <seed-id> [pids...]                  : apply seeded/<seed-id>/patch.diff to /repo, run the quick checks, undo, record who caught it
"""
import json, os, re, shutil, subprocess, sys, time
V = os.path.dirname(os.path.dirname(os.path.abspath(__file__)))
ENV = dict(os.environ, GOFLAGS="-mod=mod", GOPROXY="off", GOSUMDB="off", GOTOOLCHAIN="local")

def sh(cmd, cwd=None, timeout=1800):
    p = subprocess.run(cmd, cwd=cwd, env=ENV, shell=isinstance(cmd, str), stdout=subprocess.PIPE, stderr=subprocess.STDOUT, text=True, timeout=timeout)
    return p.returncode, p.stdout

def confirm(mdir, sid, pid):
    wt = "/tmp/wt-confirm-%d" % os.getpid()
    sh(["git", "-C", "/repo", "worktree", "add", "-q", "--detach", wt, "HEAD"])
    ran = []
    try:
        patch = os.path.join(mdir, "patch.diff")
        rc, out = sh(["git", "apply", patch], cwd=wt); ran.append(("git apply patch.diff", rc))
        if rc != 0:
            return False, "patch does not apply: " + out
        rc1, out1 = sh("go build ./... && go test -vet=off -count=1 ./...", cwd=wt); ran.append(("go test ./... with mutant", rc1))
        pkg = re.search(r"^package\s+(\w+)", open(os.path.join(mdir, "demo_test.go")).read(), re.M).group(1)
        sub = {"types_test": "types", "types": "types", "tree": "internal/tree", "tree_test": "internal/tree",
               "syntax": "internal/syntax", "syntax_test": "internal/syntax", "trace": "internal/trace", "trace_test": "internal/trace"}.get(pkg, "")
        shutil.copy(os.path.join(mdir, "demo_test.go"), os.path.join(wt, sub, "zz_demo_test.go"))
        notes0 = open(os.path.join(mdir, "notes.txt")).read() if os.path.exists(os.path.join(mdir, "notes.txt")) else ""
        race = "-race " if notes0.lstrip().startswith("RACE") else ""
        rc2, out2 = sh("go test %s-vet=off -count=1 ./%s" % (race, sub), cwd=wt); ran.append(("go test %s. with mutant + demo" % race, rc2))
        sh("git checkout -- .", cwd=wt)
        rc3, out3 = sh("go test %s-vet=off -count=1 ./%s" % (race, sub), cwd=wt); ran.append(("go test %s. clean + demo" % race, rc3))
        ok = rc1 == 0 and rc2 != 0 and rc3 == 0
        if not ok:
            return False, "suite-with-mutant rc=%d demo-with-mutant rc=%d demo-clean rc=%d\n%s" % (rc1, rc2, rc3, (out1 if rc1 else out3)[-1500:])
    finally:
        sh(["git", "-C", "/repo", "worktree", "remove", "--force", wt])
    d = os.path.join(V, "seeded", sid)
    os.makedirs(d, exist_ok=True)
    shutil.copy(os.path.join(mdir, "patch.diff"), d)
    shutil.copy(os.path.join(mdir, "demo_test.go"), d)
    notes = open(os.path.join(mdir, "notes.txt")).read() if os.path.exists(os.path.join(mdir, "notes.txt")) else ""
    json.dump({"property": pid, "source": "independent sub-agent given only the property text and a scratch worktree",
               "needs_to_manifest": notes[:1500], "confirmed": [{"cmd": c, "exit": r} for c, r in ran],
               "confirmed_at_repo_commit": sh(["git", "-C", "/repo", "rev-parse", "--short", "HEAD"])[1].strip(),
               "caught_by": {}}, open(os.path.join(d, "meta.json"), "w"), indent=1)
    return True, d

def run(sid, pids):
    d = os.path.join(V, "seeded", sid)
    meta = json.load(open(os.path.join(d, "meta.json")))
    pids = pids or [meta["property"]]
    rc, out = sh(["git", "-C", "/repo", "status", "--porcelain"])
    if out.strip():
        print("/repo is not clean"); return 2
    rc, out = sh(["git", "-C", "/repo", "apply", os.path.join(d, "patch.diff")])
    if rc != 0:
        # /repo has moved on since the sub-agent's worktree was taken: try a three-way merge
        rc, out = sh(["git", "-C", "/repo", "apply", "--3way", os.path.join(d, "patch.diff")])
        sh(["git", "-C", "/repo", "reset", "-q"])
        if rc != 0:
            sh(["git", "-C", "/repo", "checkout", "--", "."])
            print("patch does not apply:", out); return 2
    try:
        for pid in pids:
            t0 = time.time()
            rc, out = sh([os.path.join(V, "check"), pid, "quick"], cwd=V)
            viol = [l for l in out.splitlines() if l.startswith("VIOLATION")]
            kind = "missed"
            if viol:
                kind = "no-failing-input-found" if all("no-failing-input-found" in v for v in viol) else "failing-input"
            clauses = []
            for v in viol[:3]:
                m = re.search(r"replay=(\S+)", v)
                if m and os.path.exists(m.group(1)):
                    try:
                        rp = json.load(open(m.group(1)))
                        clauses += rp.get("falsified_clauses", [])
                        # keep the minimised failing program in the corpus (run first on every check, independent of
                        # the generators' random stream): the change stays detected when the generators move on
                        cf = os.path.join(V, "corpus", pid, "seeded-%s.prog" % sid)
                        prog = rp.get("shrunk_program") or rp.get("program")
                        if pid == "C19":
                            # the executor of this suite appends its own comparison step: keep the whole program without it
                            prog = "".join(l + "\n" for l in (rp.get("program") or "").splitlines() if not l.startswith("O c19eq"))
                        if prog and rp.get("suite") == pid and rp.get("falsified_clauses") and not os.path.exists(cf):
                            os.makedirs(os.path.dirname(cf), exist_ok=True)
                            open(cf, "w").write(prog if prog.endswith("\n") else prog + "\n")
                    except Exception:
                        pass
            meta["caught_by"][pid] = {"result": kind, "exit": rc, "clauses": sorted(set(clauses))[:6], "wall_s": round(time.time() - t0, 1)}
            print(sid, pid, kind, sorted(set(clauses))[:4], out.splitlines()[-1] if out else "")
    finally:
        sh(["git", "-C", "/repo", "checkout", "--", "."])
        # rebuild against the clean tree so later runs do not see the mutant's harness
    json.dump(meta, open(os.path.join(d, "meta.json"), "w"), indent=1)
    return 0

if __name__ == "__main__":
    if sys.argv[1] == "confirm":
        ok, msg = confirm(sys.argv[2], sys.argv[3], sys.argv[4]); print("CONFIRMED" if ok else "REJECTED", msg); sys.exit(0 if ok else 1)
    sys.exit(run(sys.argv[2], sys.argv[3:]))
