#!/usr/bin/env python3
"""show.py cases.txt out.txt [n]: print the first n mismatches / oracle failures readably."""
import sys
def dec(f):
    if f.startswith("x"):
        try: return bytes.fromhex(f[1:]).decode("utf-8","backslashreplace") or "''"
        except ValueError: return f
    return f
cases={}; cid=None
for ln in open(sys.argv[1]):
    if ln.startswith("C "): cid=ln.split()[1]; cases[cid]=[]
    elif ln.startswith("E"): pass
    else: cases[cid].append(ln.rstrip("\n"))
n=int(sys.argv[3]) if len(sys.argv)>3 else 5
kinds=sys.argv[4] if len(sys.argv)>4 else "MF"
cid=None; shown=0
for ln in open(sys.argv[2]):
    f=ln.split()
    if f[0]=="C": cid=f[1]; continue
    if f[0] in kinds:
        idx=int(f[1])
        lines=cases[cid]
        ops=[i for i,l in enumerate(lines) if l.startswith("O ")]
        print("== case",cid,"op",idx, f[0], " ".join(dec(x) for x in f[2:]) if f[0]=="F" else "")
        for l in lines:
            if l.startswith("H "): print("   ", " ".join(dec(x) for x in l.split()))
        for j in ops[:idx+1]:
            l=lines[j]
            if l.split()[1] in ("serve","dump","routes","url") and j!=ops[idx]: continue
            print("   ", " ".join(dec(x) for x in l.split()))
        print("  impl :", " ".join(dec(x) for x in lines[ops[idx]+1].split()[1:]))
        if f[0]=="M": print("  model:", " ".join(dec(x) for x in f[2:]))
        shown+=1
        if shown>=n: break
