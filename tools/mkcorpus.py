#!/usr/bin/env python3
"""mkcorpus.py <suite> <seed> <n>: run the suite on the current tree, and for every falsified clause not yet in
the corpus save the (cut) program of the first failing case as corpus/<Cxx>/<clause>.prog."""
import os, re, subprocess, sys
V = os.path.dirname(os.path.dirname(os.path.abspath(__file__)))
B = os.path.join(V, "build")
suite, seed, n = sys.argv[1], sys.argv[2], sys.argv[3]
cases_f = os.path.join(B, "mk_%s.txt" % suite)
subprocess.run([os.path.join(B, "harness"), "-suite", suite, "-seed", seed, "-n", n, "-out", cases_f], check=True)
out = subprocess.run([os.path.join(B, "driver"), "RT"], stdin=open(cases_f), stdout=subprocess.PIPE, text=True).stdout
cases, cid = {}, None
for ln in open(cases_f):
    if ln.startswith("C "): cid = ln.split()[1]; cases[cid] = []
    elif ln.startswith("E"): pass
    else: cases[cid].append(ln)
def dec(f):
    return bytes.fromhex(f[1:]).decode() if f.startswith("x") else f
best = {}
for ln in out.splitlines():
    f = ln.split()
    if f[0] == "C": cid = f[1]
    elif f[0] == "F":
        clause = dec(f[2]); idx = int(f[1])
        # prefer short programs
        if clause not in best or idx < best[clause][1]:
            best[clause] = (cid, idx)
for clause, (cid, idx) in sorted(best.items()):
    pid = clause.split(":")[0]
    slug = re.sub(r"[^a-z0-9]+", "-", clause.split(":", 1)[1].lower()).strip("-")
    d = os.path.join(V, "corpus", pid)
    os.makedirs(d, exist_ok=True)
    path = os.path.join(d, slug + ".prog")
    prog, k = [], -1
    for l in cases[cid]:
        if l.startswith("O "):
            k += 1
            if k > idx: break
            prog.append(l)
    if os.path.exists(path) and len(open(path).readlines()) <= len(prog):
        continue
    open(path, "w").write("".join(prog))
    print("saved", path, len(prog), "ops")
