#!/bin/sh
# fsum.sh out.txt : histogram of falsified clauses
grep '^F' "$1" | awk '{print $3}' | sort | uniq -c | sort -rn | python3 -c "
import sys
for l in sys.stdin:
    n,f=l.split(); print(n, bytes.fromhex(f[1:]).decode() if f.startswith('x') else f)"
