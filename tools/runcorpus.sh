#!/bin/sh
# runcorpus.sh [files...] : run corpus programs on the current build, print falsified clauses / mismatches per file
cd /verif/build
for f in "$@"; do
  ./harness -suite RT -replay "$f" -out corpus_tmp.txt >/dev/null 2>&1 || echo "HARNESS DIED on $f"
  ./driver RT < corpus_tmp.txt > corpus_tmp.out
  fs=$(grep '^F' corpus_tmp.out | awk '{print $3}' | sort -u | python3 -c "
import sys
print(' '.join(bytes.fromhex(l.strip()[1:]).decode() if l.startswith('x') else l.strip() for l in sys.stdin))")
  echo "$(basename $(dirname $f))/$(basename $f): M=$(grep -c '^[MX]' corpus_tmp.out) $fs"
done
