"""Per-property configuration of the checks (suite, case counts, evidence texts)."""

STD_AXIOMS = {
    # axioms declared by Coq's standard library that the development may rely on; each one
    # actually used is printed by Print Assumptions and copied into the evidence
    "functional_extensionality_dep", "proof_irrelevance", "classic", "JMeq_eq", "eq_rect_eq",
    "FunctionalExtensionality.functional_extensionality_dep", "Eqdep.Eq_rect_eq.eq_rect_eq",
    "ClassicalDedekindReals.sig_forall_dec", "ClassicalDedekindReals.sig_not_dec",
}


def axiom_allowed(a):
    return a in STD_AXIOMS or a.split(".")[-1] in STD_AXIOMS


BASE_TRUST = [
    "Coq 8.16.1 kernel (coqc, full .vo build; vm_compute used, native_compute not used)",
    "extraction to OCaml with ExtrOcamlBasic only (Extract Inductive bool/option/unit/list/prod/sumbool/sumor; no Extract Constant); "
    "cross-checked on a slice of every run by evaluating the same cases inside Coq with vm_compute",
    "ocaml/driver.ml (generic line reader/printer, hex decoding; no interpretation of cases)",
    "Go harness /verif/harness (generators, executors, observation printers) built against /repo with -tags verif",
    "hand-written Gallina model tied to the code only by the differential correspondence of this run",
]


def trusted_base(pid, axioms):
    tb = list(BASE_TRUST)
    tb.append("Print Assumptions: " + ("Closed under the global context (no axioms)" if not axioms else ", ".join(axioms)))
    tb += PROPS[pid].get("trust", [])
    return tb


HOOK_COMMITS = []

PROPS = {
    "C20": {
        "level_text": "Machine-checked theorems (C20_agree, C20_map_laws, C20_count_*, C20_pool_empty, C20_keys_unique) over all parameter sets, keys, defaults and all histories of Set/Delete/Reset/Destroy/NewContext of the Gallina model of types/context.go, relative to an arbitrary strconv; the model is tied to the code by running the same histories on both and comparing all 19 accessor results.",
        "level_note": "strconv is a theorem parameter (fed with Go's own results); sync.Pool modelled as a list; model/code tie is differential testing, not proof.",
        "quick": {"n": 400}, "thorough": {"n": 6000, "shards": 8},
        "nontrivial_tags": ["probe-hit"],
        "rule": "random histories of Set/Delete/Reset/Destroy+NewContext over 9 keys (incl. empty, NUL, 0xff) and ~45 values "
                "(numeric edge cases, non-UTF-8, random bytes), probed with all 19 accessor results; a case is non-trivial when at "
                "least one probe hits a present key; distinct = SHA-1 of the operation lines",
        "trust": ["strconv is a parameter of the theorems (record strconv); the harness feeds Go's own strconv results per case",
                  "sync.Pool modelled as a list of dirty contexts; which element Get returns is unobservable after Reset"],
        "assumptions": ["floats compared by bit pattern", "strconv itself is not verified"],
    },
}
