"""Per-property configuration of the checks (suite, case counts, evidence texts)."""

STD_AXIOMS = {
    # axioms declared by Coq's standard library that the development may rely on; each one
    # actually used is printed by Print Assumptions and copied into the evidence
    "functional_extensionality_dep", "proof_irrelevance", "classic", "JMeq_eq", "eq_rect_eq",
    "FunctionalExtensionality.functional_extensionality_dep", "Eqdep.Eq_rect_eq.eq_rect_eq",
    "ClassicalDedekindReals.sig_forall_dec", "ClassicalDedekindReals.sig_not_dec",
}


def axiom_allowed(a):
    return a in STD_AXIOMS or a.split(".")[-1] in STD_AXIOMS


BASE_TRUST = [
    "Coq 8.16.1 kernel (coqc, full .vo build; vm_compute used, native_compute not used)",
    "extraction to OCaml with ExtrOcamlBasic only (Extract Inductive bool/option/unit/list/prod/sumbool/sumor; no Extract Constant); "
    "cross-checked on a slice of every run by evaluating the same cases inside Coq with vm_compute",
    "ocaml/driver.ml (generic line reader/printer, hex decoding; no interpretation of cases)",
    "Go harness /verif/harness (generators, executors, observation printers) built against /repo with -tags verif",
    "hand-written Gallina model tied to the code only by the differential correspondence of this run",
]


def trusted_base(pid, axioms):
    tb = list(BASE_TRUST)
    tb.append("Print Assumptions: " + ("Closed under the global context (no axioms)" if not axioms else ", ".join(axioms)))
    tb += PROPS[pid].get("trust", [])
    return tb


HOOK_COMMITS = ["297256b"]

RT_TRUST = [
    "regexp: only a byte-level fragment of RE2 is modelled (classes, ., concatenation, alternation, * + ? greedy/lazy, groups); "
    "rules outside it mark the case 'unsup' (counted, not compared); the router only asks whether a whole value is in the rule's language",
    "interceptor functions are parameters of the theorems; the harness uses digit/word/any and five custom predicates",
    "Go maps are association lists; only sorted projections are observed; slices.SortStableFunc = stable insertion sort",
]

def rt(n_quick, n_thorough, tags, rule, **kw):
    d = {"quick": {"n": n_quick}, "thorough": {"n": n_thorough, "shards": 8}, "nontrivial_tags": tags, "rule": rule,
         "trust": RT_TRUST + kw.pop("trust", []), "assumptions": kw.pop("assumptions", [])}
    d.update(kw)
    return d

TECH = "Coq 8.16 theorems over an executable Gallina model; model tied to /repo by differential correspondence (Go harness vs extracted model) on every run; property oracles extracted from the same development judge the implementation's observations"

PROPS = {
    "C01": rt(700, 12000, ["serve-with-params", "serve-user"],
        "random route tables (1-12 routes, shared prefixes, sibling parameter branches, '-' names, interceptors, regexps) after Handle/Remove/Clean histories; "
        "6-30 probes per table (instantiated patterns, mutated paths, raw bytes); non-trivial = a probe that captured parameters or reached a user handler",
        props=["TreeMatch", "C01text", "C02order", "C01names", "C10tokens", "C03router"], extra_runs=[("C13", "C01g", 0.3)],
        level_text="Over EVERY history of Handle/Remove/Clean/Use and every request: C01_dispatch_text(_strong) - the reported node's pattern is the concatenation of the labels on the way down and the request path is the same chain with every label replaced by what it consumed (literal text byte for byte; a value its constraint accepts followed by the label's literal suffix) - from C01_pat_reachable (a child's pattern = parent's pattern ++ label, proved preserved through the CPS add_segment/split, remove, clean, use), C01_labels_reachable (every label is literal text or one {..} token + suffix), C01_idx_lit_reachable (the index jump never lands on a capturing child) and C01_match_children_sound_partial / C01_seg_match_sound. C01_404_exact_params / C01_404_no_new_params: a 404 reports no parameter it did not start with. *_refuted theorems show each side condition is necessary on arbitrary (unreachable) trees.",
        level_note="C01_dispatch_text_wf_partial: the full statement with NO side condition for every history whose registered patterns pass the decidable check hist_wf (every '{'-piece of the pattern contains no second '{'); C01_tokens_imply_pat_wf / C01_dispatch_text_tokens: every pattern the independent tokenizer accepts (the property's well-formed patterns) passes it, so the theorem covers the property's whole quantifier, through C01_names_fresh_reachable_partial (the abandoned child's undo is exact because parameter names along a chain are distinct) and C01_idx_lit_reachable. C01_names_fresh_refuted / C01_dispatch_text_unconditional_refuted: with a '{' inside a token ('{a{b}c/') the library cuts the token in two and the statement is false - outside the property's quantifier. The token-level oracle (independent tokenizer, keys exactly the capturing ones) judges the implementation on every probe.",
        partial=[]),
    "C02": rt(700, 12000, ["serve-with-params", "serve-user"],
        "add-only tables of 1-14 routes in random registration orders incl. >=5 literal siblings; probes as C01, ASCII; the table-only resolver `resolve` (Spec/Resolve.v) is evaluated on every probe",
        props=["TreeMatch", "C02order", "C02dfs", "C03lit", "C02resolve", "C03router", "Consts", "PureFuns"],
        level_text="C02_shortest_capture: for every matcher function, suffix and path, a parameter takes the SHORTEST accepted value that is followed by its literal suffix (no widening) - all inputs. C02_order_reachable / C02_literal_children_first / C02_sort_node_sorted: in every reachable tree the children of every node are ordered literal < interceptor < regexp < named and every index entry points at a literal child, so depth-first search tries the kinds in the documented priority (proved preserved through registration incl. splits, removal, clean, use). C02_first_successful_child(_precise) / C02_404_iff_all_fail: the answer comes from the FIRST child in search order (indexed literal, then the non-indexed children in kind order) whose subtree matches, every earlier child having failed - falling back, never widening (C02_no_widening, C02_outcome_independent_of_params); C02_kind_priority_no_index, C02_literal_indexed_wins, C02_sort_node_idx_complete. The full refinement 'match on the tree built from a table = outcomes(table)' is stated as the executable resolver Spec/Resolve.v and decided on the implementation on every probe.",
        level_note="C02_tree_refines_resolver_canon / _any_order (Proofs/TreeResolve*.v): on EVERY add-only history of well-formed, canonically spelled patterns and every path, the router's answer (route, parameters) is one of the answers of the table-only documented resolver (Spec/Resolve.v), 404 iff the resolver has none, never a fault; the guard on spellings is shown necessary (C02_tree_refines_resolver_refuted: {id:} vs {id}). C02_priority_is_source / C02_source_priority_separates_kinds / C02_type_order_is_source / C02_similarity_is_source: the sibling sort key, the kind order and Segment.Similarity are translated from the CURRENT source on every run (Gen/PureFuns.v) and proved equal to the model's. Router and facade programs: C02_router_refines_resolver_canon.",
        partial=["C02_priority (refinement tree -> outcomes) not proved"]),
    "C03": rt(350, 6000, ["remove", "clean"],
        "histories of 1-14 mutations (40% Remove/Clean, facades, >=5 literal siblings) with state dump, Routes() and one simple witness per pool pattern after every step",
        props=["C03", "C03find", "C03lit", "C03frame", "C03gone", "C03witness", "C03abs", "C03router"],
        level_text="At tree level, every reachable tree: C03_find_sound / C03_find_complete (the lookup used by Remove, URL and the duplicate check finds a node spelling the pattern iff one exists), C03_add_registers (an accepted Handle leaves a node with that pattern carrying the methods, OPTIONS and the 405 handler), C03_remove_effect / C03_remove_others_kept (Remove changes exactly the one node it looked up; every other node keeps pattern, handlers and method set), C03_remove_all_clears_partial, C03_absent_not_found; C03_pattern_once_refuted: with literal text containing unbalanced braces two nodes can spell the same pattern (outside the well-formed quantifier). On the abstract route table (C03_remove_frame, C03_remove_all, C03_clean_exact, C03_handle_frame, C03_use_keeps_routes): removal touches exactly the named pattern, Clean(prefix) exactly the patterns with that prefix. Routes()/dispatch of the implementation are compared with this table after every step, with the documented resolver deciding the winner on simple witnesses, and earlier dispatches are re-checked after removals (frame).",
        level_note="C03_tree_is_table (Proofs/TreeAbs.v): on every history of well-formed patterns the tree's handler maps ARE the entries of the abstract table machine run in lock step (same keys, same handler terms), C03_tree_table_perm, C03_routes_exact_partial. C03_remove_frame*/C03_clean_frame* (a request dispatched to another route / method / 404 is answered identically after Remove or Clean), C03_removed_pair_not_served, C03_removed_get_removes_head, C03_removed_route_gone, C03_cleaned_not_served_partial, C03_pattern_once_reachable, C03_remove_total/C03_clean_total, C03_literal_route_method, C03_simple_witness_served/_exact (every live route still serves its witnesses). All lifted to Router and Prefix/Resource programs (C03_router_*, C03_facade_*, C19_facade_history_is_router_history). Not proved: which of several matching live routes wins after removals beyond the first-successful-child / kind-order theorems (C02).",
        partial=["C03_refinement (abs_tree (step t op) = table_step (abs_tree t) op) not proved"]),
    "C04": rt(350, 6000, ["serve-options", "serve-405"],
        "histories as C03 (40% removals, WithTrace 50%) with OPTIONS and an unused method on every pool pattern and OPTIONS * after every step",
        props=["C04", "C04hist", "C04count", "Consts", "PureFuns"],
        level_text="C04_allow_exact_reachable: in EVERY reachable tree (any history of Handle/Remove/Clean/Use incl. rejected calls) the method set rendered for every route node is exactly its registered methods (+HEAD iff GET, OPTIONS always) plus TRACE iff configured - from the node invariant hs_ok proved preserved by tree_add/remove/clean/use (C04_hs_*) and the bit-set rendering lemma C04_bits_render (finite sweep over all key subsets); C08_head_iff_get_reachable. C04_spec_exact etc.: the specified Allow set on the abstract table. C04_counters_reachable / C04_options_star_exact: in every reachable state the tree-wide counters are exactly the per-method numbers of live routes, and OPTIONS * lists exactly OPTIONS, TRACE when configured and the methods registered on at least one live route (HEAD never).",
        level_note="proved at tree level for every history; that Routes()/Node().Methods() read the same bit-sets is the model's tree_routes/serve_obs, compared on every step.",
        partial=[]),
    "C05": rt(500, 10000, ["serve", "handle-rejected"],
        "40% malformed / arbitrary-byte patterns, reserved/unknown/duplicate methods, raw paths ('', '*', NUL, 0xff, long), Remove/Clean histories, URL and CheckSyntax on the same strings; every call under recover()",
        props=["TreeMatch", "C05hist", "C05parse", "C05reg", "Consts", "C03router", "PureFuns"], extra_runs=[("C14", "C05m", 0.4), ("C15", "C05m", 0.3), ("C13", "C05g", 0.3)],
        level_text="C05_serve_total: for EVERY history of Handle/Remove/Clean/Use from a new tree (any patterns, any methods, rejected calls included) and every request (any method bytes, any path bytes incl. '' and '*'), dispatch returns a handler and never faults - by the invariant tree_safe (index entries in range, 405 handler wherever handlers exist, root answers) proved for new_tree and preserved by tree_add (through the continuation-passing add_segment/split), tree_remove, tree_clean and tree_apply_mw (C05_add_safe, C05_remove_safe, C05_clean_safe, C05_use_safe, C05_handler_total); C05_match_no_panic, C05_build_indexes_ok, C05_sort_node_idx_ok underneath. C05_check_syntax_no_panic / C05_split_no_panic / C05_url_nonstrict_no_panic / C05_mux_url_no_panic: CheckSyntax and URL never fault on ANY byte string; C05_new_segment_panic_iff characterises exactly when the internal NewSegment would fault (a ':' before the first '{' - refuted for arbitrary input, proved unreachable through Split). Every Go fault site of the modelled code is an explicit Panic result in the model, compared with the implementation's recover() classification.",
        level_note="C05_tree_match_is_source: Tree.match of the CURRENT source (TRACE short-circuit, root for '*'/'', nil/size()==0 -> notFound, registered method -> found, else the 405 handler), translated on every run by tools/srcfacts (returns mode: index and text of the return statement reached), takes exactly the decision of the model's tree_handler for all trees, methods, paths and parameters; proved for dispatch (C05_serve_total), for registration/removal/cleaning on every reachable table and every byte string (C05_add_never_faults, C05_remove_never_faults, C05_clean_never_faults: Handle either registers or returns an error value; the fuel handed out by tree_add is always sufficient; labels of reachable trees never hit the one input class on which NewSegment faults), for CheckSyntax/URL on every byte string, and for Hosts.Match on every reachable hosts tree (C14_hosts_match_total). Version matchers are total by construction (no partial operation in the model); net/http glue (request construction, ResponseWriter) is exercised, not proved.",
        partial=[]),
    "C06": {"kind": "conc", "scenario": "c06", "props": ["C06", "ConcGeneric"],
        "quick": {"seconds": 4, "seeds": 1}, "thorough": {"seconds": 60, "seeds": 5},
        "rule": "3 writer goroutines toggling 7 routes (Handle/Remove, incl. registrations that split and re-merge the nodes of the 4 untouched routes) x 6 reader goroutines (ServeHTTP on untouched and toggled routes, OPTIONS, Routes(), strict URL) on a WithLock(true) router, in a subprocess built with -race; every response checked for admissibility",
        "level_text": "C06_race_free (generic, all schedules of any number of threads over a reader/writer lock: threads that follow the discipline never race), C06_ok_concat / C06_well_started_of_summaries / C06_access_only_inside_region, and - re-proved on every run against Gen/LockFacts.v regenerated from /repo by tools/srcfacts - C06_current_tree_discipline, C06_current_tree_memo_discipline, C06_current_tree_race_free: every entry point a user goroutine can reach touches routing state only inside one critical section of Tree.locker (writes inside an exclusive one).",
        "level_note": "partial by nature: the theorem is about the lock protocol extracted syntactically from the source (may-write analysis, package-local inlining); Go's memory model and sync.RWMutex are trusted; linearizability of responses ('one the router could have produced sequentially') is checked only by the stress run's admissibility predicate; aliasing through user closures is what the race detector run is for.",
        "partial": ["serializability of responses not proved (stress run only)"],
        "trust": ["tools/srcfacts (go/ast + go/types translator: lock regions, field read/write classification)", "sync.RWMutex, the Go memory model and the race detector"],
        "assumptions": ["deadlock freedom is not claimed"]},
    "C07": {"kind": "conc", "scenario": "c07", "props": ["C07"],
        "quick": {"seconds": 4, "seeds": 1}, "thorough": {"seconds": 60, "seeds": 5},
        "rule": "3 goroutines each building, mutating and serving their own Router/Hosts/Group while 8 goroutines serve one frozen router (no lock), each request checking its own parameters (pooled contexts); then fresh-router answers compared before/after unrelated activity; subprocess built with -race",
        "level_text": "Re-proved on every run against Gen/GlobalFacts.v and Gen/LockFacts.v regenerated from /repo: C07_globals_benign (every package-level variable of the library is constant after init, a sync.Pool, a mutex, or only touched inside its mutex), C07_memo_discipline (the rendered-method-set memo is accessed under its mutex in every method), C07_quiescent_readonly (serving entry points never write routing state); C07_pool_fresh (a pooled context always starts empty, all histories).",
        "level_note": "partial by nature: instance isolation = no shared mutable state (generated inventory) + per-instance functional model (tied to the code by the other suites' correspondence) + the stress run; sync.Pool and the memory model are trusted.",
        "partial": ["isolation of observable answers across instances is not a theorem about the Go code (model has no cross-instance state by construction)"],
        "trust": ["tools/srcfacts (package-level variable inventory and write sites)", "sync.Pool, sync.RWMutex, the Go memory model and the race detector"],
        "assumptions": []},
    "C08": rt(300, 5000, ["script"],
        "add/remove histories of GET/POST/HEAD/OPTIONS/TRACE/BOGUS on three patterns; after every step HEAD/GET/OPTIONS probes and a random handler script (0-6 events: Set/Add/Del header, WriteHeader, Write 0/1/2/13/1000) run under GET and HEAD on a non-sniffing writer",
        props=["C08head", "C17", "C04hist"], extra_runs=[("C16", "C08g", 0.5)],
        level_text="Theorems over ALL handler scripts (induction with a simulation invariant): C08_head_no_body, C08_head_same_status_and_headers (guard: no header mutation/WriteHeader after the first un-preceded Write), C08_head_content_length, C08_get_body; C08_late_event_refutes_unguarded shows the guard is necessary (known finding F20). C08_reserved_rejected: OPTIONS/HEAD/(TRACE)/unknown methods are always rejected.",
        level_note="the writer is the documented http.ResponseWriter contract (first WriteHeader/Write freezes status+headers), tied to the harness's own recording writer; HEAD iff GET over histories is judged by the oracle on the abstract table.",
        trust=["http.ResponseWriter contract modelled (Model/Http.v), net/http itself not verified"]),
    "C09": rt(350, 6000, ["serve-user", "serve-405", "serve-options"],
        "programs interleaving Use, Prefix/Resource creation (nesting <= 4) and Handle with per-route middlewares; every handler kind probed; the full wrapped handler term is compared",
        props=["C09table", "C09tree"], extra_runs=[("C13", "C09g", 0.5)],
        level_text="C09_router_reachable (TREE level, every history of Handle/Remove/Clean/Use on a router): every handler stored at a node under method m is a core wrapped by the registration's middlewares and then by ALL Router.Use middlewares in the order given (most recent outermost) whatever the interleaving, every layer carrying exactly (m, the node's full pattern, the router name) - C09_layers_carry_arguments, C09_use_outermost, C09_404_trace_only_use; it uses C09_reached_pattern (registration reaches the node whose pattern is the registered text, proved through the CPS add_segment/split) and C09_split_spells_pattern. On the abstract table: C09_table_is_rendered_records, C09_auto_handlers_keep_first_registration, C09_apply_mw_nesting.",
        level_note="proved for Router; Prefix/Resource lists are concatenated in front of the router's (C19 theorems); Group.Use is r_use on every router (C13 theorems) and compared structurally in the group suite.",
        trust=["middleware factories are symbolic (HWrap terms); the harness's factories record their arguments"]),
    "C10": rt(500, 8000, ["url-ok", "url-err"],
        "well-formed and documented-malformed patterns x params maps (present/missing/extra keys, arbitrary bytes, prefix/suffix/infix matches) x strict/non-strict x live/non-live; through Router and facades",
        props=["C10", "C03find", "C10tokens", "PureFuns"],
        level_text="C10_url_segs_closed_form (URL = segments with parameters substituted, fails iff one is missing), C10_roundtrip (building a matched route from its captured parameters reproduces the path), C10_strict_validates (every parameter kind validated over its whole length), C10_strict_not_a_route.",
        level_note="C10_nonstrict_is_instantiate_partial: for every pattern the independent tokenizer accepts (up to the 32767-byte segment limit, C10_*_refuted shows the limit matters) non-strict URL building IS 'replace every {..} token by params[name], keep literal text, fail iff a parameter is missing'; C10_tokens_split_agree_partial / C10_tokens_split_names / C10_tokens_split_kinds: the model's Split and the tokenizer agree on segments, names and kinds; C10_empty_name_rejected, C10_adjacent_rejected, C10_dupname_rejected: the documented syntax errors are rejected."),
    "C11": rt(250, 4000, ["creq"],
        "CORS configurations (origins none/*/list/list+*, allow-headers none/*/list, exposed, max-age, credentials) x 40 random requests per case over method, path (live, unknown, *), Origin, ACRM, ACRH classes; thorough tier adds the exhaustive product (suite C11x)",
        suite="C11", props=["C11", "PureFuns"],
        level_text="C11_acao_sound, C11_acao_single, C11_credentials, C11_no_origins_no_grant, C11_unserved_preflight_method, C11_disallowed_header, C11_header_check_is_case_insensitive over every configuration, node method set and request (all byte strings).",
        level_note="C11_cors_handle_is_source (Proofs/PureCors.v): cors.handle of the CURRENT source, translated statement by statement on every run (Gen/PureFuns.v: the sequence of header writes as a function of its inputs), IS the model's decision procedure, for all inputs. 404/405 never reach the CORS code (serveContext calls it only when a handler was found): part of the model's creq_obs, compared on every case. Header-name comparison is modelled for ASCII (strings.EqualFold / TrimSpace are Unicode-aware: non-ASCII requested names are outside the model)."),
    "C12": rt(250, 4000, ["creq"],
        "as C11", suite="C12", props=["C12", "PureFuns"],
        level_text="C12_grant_partial(_hyp), C12_preflight_partial(_hyp), C12_not_preflight, C12_vary, C12_sanitize_rejects: exact header values for allowed requests, over every configuration and request.",
        level_note="C12_grant / C12_preflight as first stated are false for a configured header list consisting of one empty string (joined to \"\" = not configured); proved with that case excluded (_partial_hyp) and in closed form (_partial); C12_cors_handle_is_source: the header writes of cors.handle, translated from the current source on every run, are the model's (all inputs)."),
    "C13": rt(300, 5000, ["greq-U:h1", "greq-U:h2", "greq-NA", "greq-OP"],
        "groups of 1-4 routers with Hosts / path-version / header-version / nil / And-Or nests (depth <= 2) in which an early member mutates and a later one rejects; Add/New/Remove/Use histories; 14 requests per case over hosts x version prefixes x Accept x paths",
        suite="C13", props=["C13", "C14tree"],
        level_text="C13_reject_clean (by induction over the matcher AST: a rejecting matcher, also inside And/Or, leaves request and parameters untouched), C13_first_accepting, C13_none_accepts, C13_or_first, C13_and_accepts_all, C13_names_unique, C13_add_duplicate_rejected, C13_remove, C13_notfound_wrapped.",
        level_note="matcher_ok asks of a Hosts member that a rejection leaves a duplicate-free parameter list as it was and that an answer keeps it duplicate-free; since the repair of F28 (Hosts.Match puts back what its lookup deleted; model: hosts_match = restore_missing after hosts_match_raw) this is PROVED for every reachable Hosts tree with no side condition on parameter names (C13_hosts_clean_reachable, C14_hosts_reject_clean, C14_hosts_nodup), so C13_reject_clean applies to every matcher built from reachable Hosts trees; C13_match_nodup: every matcher keeps the list duplicate-free; C14_hosts_lookup_alone_loses_refuted: the tree lookup alone does lose parameters, i.e. the repair is necessary. Custom matchers are outside the model."),
    "C14": rt(300, 5000, ["hmatch-accept"],
        "Add/Delete/RegisterInterceptor histories over >=6 literal domains + parameterised domains in mixed case; hosts in any case, with ports, brackets, invalid ports, '', '*'; dump after every step",
        suite="C14", props=["C14", "C14tree", "C14resolve", "C02order", "PureFuns"],
        level_text="C14_normalise_is_lower, C14_strip_port_valid/_invalid, C14_strip_brackets, C14_add_ci, C14_delete_ci, C14_match_uses_normalised; matching itself is the shared tree (C01/C02 theorems).",
        level_note="C14_hosts_bridge: a hosts history whose interceptor registrations precede the first Add is a tree history (the other order is shown to differ: C14_hosts_bridge_refuted); on such histories C14_hosts_refines_resolver / C14_hosts_accepts_iff_resolves (add-only: Match accepts iff the C02 resolver finds a domain, with exactly its parameters; '' and '*' always rejected), C14_hosts_delete_frame, C14_hosts_deleted_gone_ci, C14_hosts_sound, C14_hosts_live_served. Non-ASCII hosts/domains are outside the model (strings.ToLower is Unicode-aware). F28 repaired: C14_hosts_reject_clean (any duplicate-free context, no disjointness), C14_hosts_accept_keeps_earlier (no earlier parameter is ever lost, any tree), C14_hosts_restore_get; the raw lookup alone loses parameters (C14_hosts_lookup_alone_loses_refuted)."),
    "C15": rt(300, 5000, ["pv-accept", "hv-accept"],
        "version lists with/without slashes, overlapping names (v1, v11, v1/x), paths with recurring version text, arbitrary bytes; Accept headers well-formed/garbage (mime.ParseMediaType result supplied by Go)",
        suite="C15", props=["C15"],
        level_text="C15_path_closed_form, C15_path_one_segment, C15_path_first_wins, C15_path_reject_untouched, C15_norm, C15_header_accept, C15_header_complete, C15_header_reject_untouched over all byte strings.",
        level_note="mime.ParseMediaType is a parameter (its result is part of the case)."),
    "C16": rt(300, 5000, ["recovered", "escaped"],
        "Router, Group and Group.New routers with/without recovery (inherited / overridden); panics (string, error, int, struct) raised in route handlers, 404/405/OPTIONS/TRACE/group-404 handlers and before/after every middleware layer; sequences of raising and normal requests",
        suite="C16", props=["C16"],
        level_text="C16_contained, C16_passthrough, C16_router, C16_first_value_wins, C16_inner_before_after, C16_after_phase, C16_no_raise_no_recovery, C16_group_notfound over every handler term and raise table.",
        level_note="user functions are symbolic (raise tables); panic(nil) excluded; a panicking matcher or recovery function is outside the property."),
    "C17": rt(300, 1500, ["handle-rejected"],
        "tables x Handle calls with valid/duplicate/reserved/unknown methods in every position (45%), malformed patterns (25%), patterns equal up to names; dump + Routes + witnesses + Allow + OPTIONS * before and after every call",
        props=["C17", "C03find", "C17amb", "PureFuns"],
        level_text="C17_check_methods_ok_iff (a method list is accepted iff all methods are known, not reserved, not registered and not repeated), C17_duplicate_rejected_tree (on every tree: the same pattern+method again is rejected with an error value, never a fault), C17_rejected_add_is_noop (a rejected call returns no new state), C17_tree_add_ambiguous_iff / C17_check_amb_sound / C17_ambiguous_names_live_route_reachable (an 'ambiguous' rejection always names a live route whose text differs from the new pattern only at labels that are twins differing in name or '-' flag), C17_not_ambiguous_when_flag_false, C17_single_chain + C17_twin_of_only_route_rejected_canon (a pattern identical up to parameter names / '-' flags to the ONLY route is always rejected, for canonically spelled patterns).",
        level_note="C17_twin_of_only_route_rejected_refuted: '/{id:}/{a}' then '/{id}/{b}' is accepted - the empty-rule spelling {id:} is a different text with the same parse, so the walk neither takes the identical-text branch nor the ambiguous branch; such pairs are not 'identical up to parameter names' textually and are excluded from the oracle's must-reject clause. 'Nothing observable changes' is decided by comparing every observation before/after rejected calls on the implementation (the functional model has no partial mutation: this is how F26 was found).",
        partial=["text-level pat_twin from the ambiguity walk on general trees (exported as amb_walk / twin_text)"]),
    "C18": rt(300, 5000, ["serve-trace", "tracehelper"],
        "routers with WithTrace 70%: TRACE on live/unknown/raw paths, Allow probes, Use; the Trace helper on requests with HTML metacharacters, with/without body",
        props=["C18", "C08head", "Consts"], extra_runs=[("C13", "C18g", 0.4)],
        level_text="C18_trace_any_path, C18_trace_only_use_middlewares, C18_trace_cannot_be_registered, C18_without_option_trace_is_ordinary, C18_new_tree_trace, C18_trace_helper (status 200, Content-Type message/http in the SENT headers, body = escaped dump).",
        level_note="httputil.DumpRequest and html.EscapeString are parameters of C18_trace_helper."),
    "C19": rt(300, 5000, ["handle-ok"],
        "programs of facade calls (Prefix/Prefix.Prefix/Resource with middlewares, Handle, Remove, Clean, URL; empty prefixes, prefixes ending inside a token) run as written and desugared to Router calls on a twin router",
        suite="C19", props=["C19", "C03router"],
        level_text="C19_prefix_handle, C19_nested_prefix_handle, C19_resource_handle, C19_prefix_remove/_clean/_url, C19_resource_remove/_clean/_url, C19_prefix_clean_table: every facade call equals the Router call on the concatenated pattern and middleware list.",
        level_note="C19_facade_history_is_router_history / C19_nested_any_depth / C03_router_history_is_tree_history (Proofs/RouterLift.v): a whole program of facade calls, nested to any depth, runs exactly like its desugaring into Router calls and that like a tree history, so every tree-level theorem holds for facade programs (C03_facade_*). On the implementation: three-way differential (facade run vs desugared run vs model); a difference is tolerated only at a request for which the documented resolver admits several answers."),
    "C20": {
        "level_text": "Machine-checked theorems (C20_agree, C20_map_laws, C20_count_*, C20_pool_empty, C20_keys_unique) over all parameter sets, keys, defaults and all histories of Set/Delete/Reset/Destroy/NewContext of the Gallina model of types/context.go, relative to an arbitrary strconv; the model is tied to the code by running the same histories on both and comparing all 19 accessor results.",
        "level_note": "strconv is a theorem parameter (fed with Go's own results); sync.Pool modelled as a list; model/code tie is differential testing, not proof.",
        "quick": {"n": 400}, "thorough": {"n": 6000, "shards": 8},
        "nontrivial_tags": ["probe-hit"], "props": ["C20"],
        "rule": "random histories of Set/Delete/Reset/Destroy+NewContext over 9 keys (incl. empty, NUL, 0xff) and ~45 values "
                "(numeric edge cases, non-UTF-8, random bytes), probed with all 19 accessor results; a case is non-trivial when at "
                "least one probe hits a present key; distinct = SHA-1 of the operation lines",
        "trust": ["strconv is a parameter of the theorems (record strconv); the harness feeds Go's own strconv results per case",
                  "sync.Pool modelled as a list of dirty contexts; which element Get returns is unobservable after Reset"],
        "assumptions": ["floats compared by bit pattern", "strconv itself is not verified"],
    },
}
