// returns.go: the "returns mode" of the pure translator (pure.go).
//
// A function with several results is translated to WHICH return statement it reaches: the value is
// `MRet i [e1; ..; ek]`, i the 0-based index of the return statement in source order and e1..ek the
// source text of the returned expressions.  Conditions are translated as in the other modes (atoms
// for what the fragment does not interpret).  On top of the common fragment this mode has
//
//   - locals of an uninterpreted type (pointers, handlers, ..): `var x T`, `x := e`, `x = e`.  Their
//     value is kept symbolically, as the source expression assigned (itself substituted), and every
//     text emitted afterwards (atoms, returned expressions) has the local replaced by that expression;
//     an if/else that assigns such a local duplicates the continuation, as the common fragment does;
//   - `if v, ok := m[k]; cond {..}`: ok is a boolean atom "_, ok := <m[k] substituted>", v is the
//     symbolic value m[k]; both are in scope of the if statement only;
//   - `if x.locker != nil { x.locker.RLock(); defer x.locker.RUnlock() }`: a block made only of
//     Lock/RLock/Unlock/RUnlock calls (or defers of them) on the very x.locker that the condition
//     compares with nil is skipped: the lock statements are covered by Gen/LockFacts.v.
//
// Anything else makes the function untranslatable, never a guess.
package main

import (
	"go/ast"
	"go/token"
	"go/types"
	"strings"
)

func copySym(m map[types.Object]ast.Expr) map[types.Object]ast.Expr {
	r := map[types.Object]ast.Expr{}
	for k, v := range m {
		r[k] = v
	}
	return r
}

func returnIndexes(body *ast.BlockStmt) map[*ast.ReturnStmt]int {
	r := map[*ast.ReturnStmt]int{}
	ast.Inspect(body, func(n ast.Node) bool {
		if _, ok := n.(*ast.FuncLit); ok {
			return false
		}
		if rs, ok := n.(*ast.ReturnStmt); ok {
			r[rs] = len(r)
		}
		return true
	})
	return r
}

func hasFuncLit(body *ast.BlockStmt) bool {
	found := false
	ast.Inspect(body, func(n ast.Node) bool {
		if _, ok := n.(*ast.FuncLit); ok {
			found = true
		}
		return !found
	})
	return found
}

// the object an identifier denotes, if it is a variable declared inside the function body
func (t *pureTr) bodyLocal(id *ast.Ident) types.Object {
	obj := t.pi.info.Uses[id]
	if obj == nil {
		obj = t.pi.info.Defs[id]
	}
	if v, ok := obj.(*types.Var); ok && !v.IsField() && t.body != nil && v.Pos() >= t.body.Pos() && v.Pos() < t.body.End() {
		return obj
	}
	return nil
}

// e with every symbolic local replaced by the expression it holds.  A local of the function body
// that is not symbolic (an interpreted integer/boolean, whose value is a Gallina term, not a text)
// cannot appear in an emitted text.
func (t *pureTr) subst(e ast.Expr) ast.Expr {
	switch x := e.(type) {
	case nil:
		return nil
	case *ast.Ident:
		if obj := t.bodyLocal(x); obj != nil {
			if v, ok := t.sym[obj]; ok {
				switch v.(type) {
				case *ast.BinaryExpr, *ast.UnaryExpr, *ast.StarExpr:
					return &ast.ParenExpr{X: v}
				}
				return v
			}
			t.fail("the text of an uninterpreted expression mentions the interpreted local %s", x.Name)
		}
		return x
	case *ast.BasicLit:
		return x
	case *ast.ParenExpr:
		return &ast.ParenExpr{X: t.subst(x.X)}
	case *ast.SelectorExpr:
		return &ast.SelectorExpr{X: t.subst(x.X), Sel: x.Sel}
	case *ast.StarExpr:
		return &ast.StarExpr{X: t.subst(x.X)}
	case *ast.UnaryExpr:
		return &ast.UnaryExpr{Op: x.Op, X: t.subst(x.X)}
	case *ast.BinaryExpr:
		return &ast.BinaryExpr{X: t.subst(x.X), Op: x.Op, Y: t.subst(x.Y)}
	case *ast.IndexExpr:
		return &ast.IndexExpr{X: t.subst(x.X), Index: t.subst(x.Index)}
	case *ast.CallExpr:
		if x.Ellipsis != token.NoPos {
			t.fail("call with ... in an uninterpreted expression")
		}
		args := make([]ast.Expr, len(x.Args))
		for i, a := range x.Args {
			args[i] = t.subst(a)
		}
		return &ast.CallExpr{Fun: t.subst(x.Fun), Args: args}
	}
	// any other form is emitted as written, provided it mentions no local of the body
	ast.Inspect(e, func(n ast.Node) bool {
		if id, ok := n.(*ast.Ident); ok && t.bodyLocal(id) != nil {
			t.fail("expression form %T mentions the local %s", e, id.Name)
		}
		return true
	})
	return e
}

func (t *pureTr) uninterpreted(e ast.Expr) bool {
	tv, ok := t.pi.info.Types[e]
	if !ok || tv.Type == nil {
		return false
	}
	_, basic := tv.Type.Underlying().(*types.Basic)
	return !basic
}

// var x T  (no initial value, T a pointer type): x holds nil
func (t *pureTr) declSym(d *ast.DeclStmt) bool {
	gd, ok := d.Decl.(*ast.GenDecl)
	if !ok || gd.Tok != token.VAR {
		t.fail("declaration statement other than var")
		return false
	}
	for _, sp := range gd.Specs {
		vs := sp.(*ast.ValueSpec)
		if len(vs.Values) != 0 || vs.Type == nil {
			t.fail("var declaration with an initial value")
			return false
		}
		tv, ok := t.pi.info.Types[vs.Type]
		if !ok || tv.Type == nil {
			t.fail("var declaration of an unknown type")
			return false
		}
		if _, ok := tv.Type.Underlying().(*types.Pointer); !ok {
			t.fail("var declaration of the non-pointer type %s", types.ExprString(vs.Type))
			return false
		}
		for _, id := range vs.Names {
			obj := t.pi.info.Defs[id]
			if obj == nil {
				t.fail("var declaration of %s", id.Name)
				return false
			}
			t.sym[obj] = &ast.Ident{Name: "nil"}
		}
	}
	return true
}

// x := e / x = e with x a local of an uninterpreted type; false: not this form (the caller goes on)
func (t *pureTr) assignSym(x *ast.AssignStmt) bool {
	if len(x.Lhs) != 1 || len(x.Rhs) != 1 {
		return false
	}
	id, ok := x.Lhs[0].(*ast.Ident)
	if !ok || id.Name == "_" {
		return false
	}
	switch x.Tok {
	case token.DEFINE:
		obj := t.pi.info.Defs[id]
		if obj == nil || !t.uninterpreted(x.Rhs[0]) {
			return false
		}
		t.sym[obj] = t.subst(x.Rhs[0])
		return true
	case token.ASSIGN:
		obj := t.bodyLocal(id)
		if obj == nil {
			return false
		}
		if _, ok := t.sym[obj]; !ok {
			return false
		}
		t.sym[obj] = t.subst(x.Rhs[0])
		return true
	}
	return false
}

// the init statement of an if: v, ok := m[k] with m a map.  The result is the Gallina prefix that
// binds ok.  The names are in scope of the if statement only, while the translation carries the
// rest of the block inside both arms: the rest must not use the same names for something else.
func (t *pureTr) ifInit(s ast.Stmt, rest []ast.Stmt) (string, bool) {
	as, ok := s.(*ast.AssignStmt)
	if !ok || as.Tok != token.DEFINE || len(as.Lhs) != 2 || len(as.Rhs) != 1 {
		t.fail("if with an init statement other than v, ok := m[k]")
		return "", false
	}
	ix, ok := as.Rhs[0].(*ast.IndexExpr)
	if !ok {
		t.fail("if with an init statement other than v, ok := m[k]")
		return "", false
	}
	if tv, ok := t.pi.info.Types[ix.X]; !ok || tv.Type == nil {
		t.fail("if init: unknown type of %s", types.ExprString(ix.X))
		return "", false
	} else if _, isMap := tv.Type.Underlying().(*types.Map); !isMap {
		t.fail("if init: %s is not a map", types.ExprString(ix.X))
		return "", false
	}
	vid, ok1 := as.Lhs[0].(*ast.Ident)
	oid, ok2 := as.Lhs[1].(*ast.Ident)
	if !ok1 || !ok2 {
		t.fail("if init: assignment to a non-identifier")
		return "", false
	}
	for _, id := range []*ast.Ident{vid, oid} {
		if id.Name == "_" {
			continue
		}
		if t.pi.info.Defs[id] == nil {
			t.fail("if init: %s is not a new variable", id.Name)
			return "", false
		}
		for _, r := range rest {
			clash := false
			ast.Inspect(r, func(n ast.Node) bool {
				if i, ok := n.(*ast.Ident); ok && i.Name == id.Name {
					clash = true
				}
				return !clash
			})
			if clash {
				t.fail("the name %s of an if init statement is used again after the if", id.Name)
				return "", false
			}
		}
	}
	lookup := t.subst(ix)
	pre := ""
	if oid.Name != "_" {
		a := t.atom("_, "+oid.Name+" := "+types.ExprString(lookup), "bool")
		t.locals[oid.Name] = "bool"
		pre = "let v_" + oid.Name + " := " + a + " in\n  "
	}
	if vid.Name != "_" {
		if !t.uninterpreted(ix) {
			t.fail("if init: the map value %s has an interpreted type", vid.Name)
			return "", false
		}
		t.sym[t.pi.info.Defs[vid]] = lookup
	}
	return pre, t.err == nil
}

var lockCalls = map[string]bool{"Lock": true, "RLock": true, "Unlock": true, "RUnlock": true}

// (skip, ok): an if whose condition is `x.locker != nil`.  skip: the body is only lock calls on
// x.locker; !ok: the condition has that shape but the statement is anything else.
func (t *pureTr) lockOnlyIf(x *ast.IfStmt) (bool, bool) {
	be, ok := x.Cond.(*ast.BinaryExpr)
	if !ok || be.Op != token.NEQ {
		return false, true
	}
	sel, ok := be.X.(*ast.SelectorExpr)
	if !ok || sel.Sel.Name != "locker" {
		return false, true
	}
	if id, ok := be.Y.(*ast.Ident); !ok || id.Name != "nil" {
		return false, true
	}
	if _, isNil := t.pi.info.Uses[be.Y.(*ast.Ident)].(*types.Nil); !isNil {
		return false, true
	}
	locker := types.ExprString(sel)
	if x.Init != nil || x.Else != nil || len(x.Body.List) == 0 {
		t.fail("if %s != nil with an init statement, an else or an empty body", locker)
		return false, false
	}
	for _, s := range x.Body.List {
		var call *ast.CallExpr
		switch y := s.(type) {
		case *ast.ExprStmt:
			call, _ = y.X.(*ast.CallExpr)
		case *ast.DeferStmt:
			call = y.Call
		}
		if call == nil {
			t.fail("if %s != nil: statement form %T in a lock block", locker, s)
			return false, false
		}
		fs, ok := call.Fun.(*ast.SelectorExpr)
		if !ok || !lockCalls[fs.Sel.Name] || len(call.Args) != 0 || types.ExprString(fs.X) != locker {
			t.fail("if %s != nil: %s is not a lock call on %s", locker, types.ExprString(call), locker)
			return false, false
		}
	}
	return true, true
}

func (t *pureTr) retStmt(x *ast.ReturnStmt) string {
	i, ok := t.retIdx[x]
	if !ok {
		return t.fail("return statement without an index")
	}
	if len(x.Results) < 2 {
		return t.fail("return with %d results in returns mode", len(x.Results))
	}
	var es []string
	for _, e := range x.Results {
		es = append(es, q(t.text(e)))
	}
	return "MRet " + itoa(i) + "%Z [" + strings.Join(es, "; ") + "]"
}

func itoa(i int) string {
	if i == 0 {
		return "0"
	}
	s := ""
	for ; i > 0; i /= 10 {
		s = string(rune('0'+i%10)) + s
	}
	return s
}
