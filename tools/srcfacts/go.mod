module srcfacts

go 1.23
