// srcfacts re-reads the router's source on every run and regenerates the Coq files the
// concurrency theorems (C06, C07) are checked against:
//
//	Gen/LockFacts.v   – for every entry point of internal/tree: the sequence of lock
//	                    acquisitions / releases and field accesses in program order, with
//	                    package-local calls inlined;
//	Gen/GlobalFacts.v – every package-level variable of the non-test packages, where it is
//	                    written, and whether those accesses are inside a package mutex.
//
// The analysis is syntactic (go/ast) with go/types used only to resolve selectors.
package main

import (
	"flag"
	"fmt"
	"go/ast"
	"go/importer"
	"go/parser"
	"go/token"
	"go/types"
	"os"
	"path/filepath"
	"sort"
	"strings"
)

type event struct {
	kind  string // acqW acqR rel accR accW
	loc   string
	where string
}

type pkgInfo struct {
	fset  *token.FileSet
	files []*ast.File
	info  *types.Info
	pkg   *types.Package
	funcs map[*types.Func]*ast.FuncDecl
}

func load(dir, path string) (*pkgInfo, error) {
	fset := token.NewFileSet()
	pkgs, err := parser.ParseDir(fset, dir, func(fi os.FileInfo) bool {
		return !strings.HasSuffix(fi.Name(), "_test.go") && !strings.HasPrefix(fi.Name(), "verif_")
	}, parser.ParseComments)
	if err != nil {
		return nil, err
	}
	var files []*ast.File
	for _, p := range pkgs {
		if strings.HasSuffix(p.Name, "_test") {
			continue
		}
		names := make([]string, 0, len(p.Files))
		for n := range p.Files {
			names = append(names, n)
		}
		sort.Strings(names)
		for _, n := range names {
			files = append(files, p.Files[n])
		}
	}
	info := &types.Info{Uses: map[*ast.Ident]types.Object{}, Defs: map[*ast.Ident]types.Object{},
		Selections: map[*ast.SelectorExpr]*types.Selection{}, Types: map[ast.Expr]types.TypeAndValue{}}
	conf := types.Config{Importer: importer.ForCompiler(fset, "source", nil), Error: func(error) {}}
	pkg, _ := conf.Check(path, fset, files, info)
	pi := &pkgInfo{fset: fset, files: files, info: info, pkg: pkg, funcs: map[*types.Func]*ast.FuncDecl{}}
	for _, f := range files {
		for _, d := range f.Decls {
			if fd, ok := d.(*ast.FuncDecl); ok && fd.Body != nil {
				if obj, ok := info.Defs[fd.Name].(*types.Func); ok {
					pi.funcs[obj] = fd
				}
			}
		}
	}
	return pi, nil
}

func ownerName(t types.Type) string {
	for {
		switch x := t.(type) {
		case *types.Pointer:
			t = x.Elem()
			continue
		case *types.Named:
			return x.Origin().Obj().Name()
		}
		return ""
	}
}

type walker struct {
	pi      *pkgInfo
	events  []event
	stack   map[*types.Func]bool
	pending [][]string // locks with a deferred unlock, per active function frame
	globals map[types.Object]bool
	mutexes map[types.Object]bool
}

func (w *walker) pos(n ast.Node) string {
	p := w.pi.fset.Position(n.Pos())
	return fmt.Sprintf("%s:%d", filepath.Base(p.Filename), p.Line)
}

// field returns "Owner.field" when e (possibly under index expressions) selects a struct field
// of a type of this package, or "global.name" for a package-level variable.
func (w *walker) field(e ast.Expr) (string, ast.Expr) {
	for {
		switch x := e.(type) {
		case *ast.ParenExpr:
			e = x.X
			continue
		case *ast.IndexExpr:
			e = x.X
			continue
		case *ast.StarExpr:
			e = x.X
			continue
		case *ast.SelectorExpr:
			if sel, ok := w.pi.info.Selections[x]; ok && sel.Kind() == types.FieldVal {
				if v, ok := sel.Obj().(*types.Var); ok && v.Pkg() == w.pi.pkg {
					return ownerName(sel.Recv()) + "." + v.Name(), x
				}
			}
			return "", nil
		case *ast.Ident:
			if obj, ok := w.pi.info.Uses[x]; ok && w.globals[obj] {
				return "global." + obj.Name(), x
			}
			return "", nil
		}
		return "", nil
	}
}

func (w *walker) emit(kind, loc string, n ast.Node) {
	w.events = append(w.events, event{kind, loc, w.pos(n)})
}

func isLockCall(call *ast.CallExpr) (string, ast.Expr) {
	if sel, ok := call.Fun.(*ast.SelectorExpr); ok {
		switch sel.Sel.Name {
		case "Lock", "RLock", "Unlock", "RUnlock":
			return sel.Sel.Name, sel.X
		}
	}
	return "", nil
}

func (w *walker) lockName(x ast.Expr) string {
	if loc, _ := w.field(x); loc != "" {
		return loc
	}
	return "?"
}

func (w *walker) expr(e ast.Expr) {
	if e == nil {
		return
	}
	switch x := e.(type) {
	case *ast.CallExpr:
		if name, recv := isLockCall(x); name != "" {
			switch name {
			case "Lock":
				w.emit("acqW", w.lockName(recv), x)
			case "RLock":
				w.emit("acqR", w.lockName(recv), x)
			default:
				w.emit("rel", w.lockName(recv), x)
			}
			return
		}
		// builtins that mutate their first argument
		if id, ok := x.Fun.(*ast.Ident); ok && (id.Name == "delete" || id.Name == "clear") && len(x.Args) > 0 {
			if loc, _ := w.field(x.Args[0]); loc != "" {
				w.emit("accW", loc, x)
			}
			for _, a := range x.Args[1:] {
				w.expr(a)
			}
			return
		}
		// library functions working in place on a slice / map field
		if sel, ok := x.Fun.(*ast.SelectorExpr); ok {
			if pid, ok := sel.X.(*ast.Ident); ok {
				if pn, ok := w.pi.info.Uses[pid].(*types.PkgName); ok {
					p := pn.Imported().Path()
					if p == "slices" || p == "sort" || p == "maps" {
						for _, a := range x.Args {
							if loc, _ := w.field(a); loc != "" && (strings.HasPrefix(sel.Sel.Name, "Sort") || sel.Sel.Name == "Delete" || sel.Sel.Name == "DeleteFunc" || sel.Sel.Name == "Reverse") {
								w.emit("accW", loc, x)
							} else {
								w.expr(a)
							}
						}
						return
					}
				}
			}
		}
		w.expr(x.Fun)
		for _, a := range x.Args {
			w.expr(a)
		}
		// inline package-local callees
		var callee *types.Func
		switch f := x.Fun.(type) {
		case *ast.SelectorExpr:
			if sel, ok := w.pi.info.Selections[f]; ok {
				callee, _ = sel.Obj().(*types.Func)
			}
		case *ast.Ident:
			callee, _ = w.pi.info.Uses[f].(*types.Func)
		case *ast.IndexExpr: // explicit instantiation f[T](…)
			if id, ok := f.X.(*ast.Ident); ok {
				callee, _ = w.pi.info.Uses[id].(*types.Func)
			}
		}
		if callee != nil {
			callee = callee.Origin()
			if fd, ok := w.pi.funcs[callee]; ok && !w.stack[callee] {
				w.function(callee, fd)
			}
		}
	case *ast.FuncLit:
		w.block(x.Body)
	case *ast.SelectorExpr:
		if loc, _ := w.field(x); loc != "" {
			w.expr(x.X)
			w.emit("accR", loc, x)
			return
		}
		w.expr(x.X)
	case *ast.Ident:
		if loc, _ := w.field(x); loc != "" {
			w.emit("accR", loc, x)
		}
	case *ast.IndexExpr:
		w.expr(x.X)
		w.expr(x.Index)
	case *ast.SliceExpr:
		w.expr(x.X)
		w.expr(x.Low)
		w.expr(x.High)
		w.expr(x.Max)
	case *ast.StarExpr:
		w.expr(x.X)
	case *ast.UnaryExpr:
		w.expr(x.X)
	case *ast.BinaryExpr:
		w.expr(x.X)
		w.expr(x.Y)
	case *ast.ParenExpr:
		w.expr(x.X)
	case *ast.TypeAssertExpr:
		w.expr(x.X)
	case *ast.CompositeLit:
		for _, el := range x.Elts {
			if kv, ok := el.(*ast.KeyValueExpr); ok {
				w.expr(kv.Value)
			} else {
				w.expr(el)
			}
		}
	case *ast.KeyValueExpr:
		w.expr(x.Value)
	}
}

func (w *walker) lhs(e ast.Expr) {
	if loc, sel := w.field(e); loc != "" {
		// the base of the selector chain is read, index expressions are evaluated
		switch s := sel.(type) {
		case *ast.SelectorExpr:
			w.expr(s.X)
		}
		for x := e; ; {
			if ix, ok := x.(*ast.IndexExpr); ok {
				w.expr(ix.Index)
				x = ix.X
				continue
			}
			break
		}
		w.emit("accW", loc, e)
		return
	}
	w.expr(e)
}

func (w *walker) stmt(s ast.Stmt) {
	switch x := s.(type) {
	case nil:
	case *ast.ExprStmt:
		w.expr(x.X)
	case *ast.AssignStmt:
		for _, r := range x.Rhs {
			w.expr(r)
		}
		for _, l := range x.Lhs {
			w.lhs(l)
		}
	case *ast.IncDecStmt:
		w.expr(x.X)
		w.lhs(x.X)
	case *ast.DeclStmt:
		if gd, ok := x.Decl.(*ast.GenDecl); ok {
			for _, sp := range gd.Specs {
				if vs, ok := sp.(*ast.ValueSpec); ok {
					for _, v := range vs.Values {
						w.expr(v)
					}
				}
			}
		}
	case *ast.DeferStmt:
		if name, recv := isLockCall(x.Call); name == "Unlock" || name == "RUnlock" {
			w.pending[len(w.pending)-1] = append(w.pending[len(w.pending)-1], w.lockName(recv))
			return
		}
		w.expr(x.Call)
	case *ast.GoStmt:
		w.expr(x.Call)
	case *ast.ReturnStmt:
		for _, r := range x.Results {
			w.expr(r)
		}
	case *ast.BlockStmt:
		w.block(x)
	case *ast.IfStmt:
		w.stmt(x.Init)
		w.expr(x.Cond)
		w.block(x.Body)
		w.stmt(x.Else)
	case *ast.ForStmt:
		w.stmt(x.Init)
		w.expr(x.Cond)
		w.block(x.Body)
		w.stmt(x.Post)
	case *ast.RangeStmt:
		w.expr(x.X)
		w.block(x.Body)
	case *ast.SwitchStmt:
		w.stmt(x.Init)
		w.expr(x.Tag)
		w.block(x.Body)
	case *ast.TypeSwitchStmt:
		w.stmt(x.Init)
		w.stmt(x.Assign)
		w.block(x.Body)
	case *ast.CaseClause:
		for _, e := range x.List {
			w.expr(e)
		}
		for _, st := range x.Body {
			w.stmt(st)
		}
	case *ast.LabeledStmt:
		w.stmt(x.Stmt)
	case *ast.SendStmt:
		w.expr(x.Chan)
		w.expr(x.Value)
	}
}

func (w *walker) block(b *ast.BlockStmt) {
	if b == nil {
		return
	}
	for _, s := range b.List {
		w.stmt(s)
	}
}

func (w *walker) function(obj *types.Func, fd *ast.FuncDecl) {
	w.stack[obj] = true
	w.pending = append(w.pending, nil)
	w.block(fd.Body)
	locks := w.pending[len(w.pending)-1]
	w.pending = w.pending[:len(w.pending)-1]
	for i := len(locks) - 1; i >= 0; i-- { // deferred calls run in reverse order
		w.events = append(w.events, event{"rel", locks[i], w.pos(fd.Body)})
	}
	delete(w.stack, obj)
}

func writeIfChanged(path, content string) {
	if old, err := os.ReadFile(path); err == nil && string(old) == content {
		return
	}
	os.WriteFile(path, []byte(content), 0o644)
}

func q(s string) string { return "\"" + strings.ReplaceAll(s, "\"", "\"\"") + "\"" }

func main() {
	repo := flag.String("repo", "/repo", "repository root")
	out := flag.String("out", ".", "output directory")
	flag.Parse()
	os.MkdirAll(*out, 0o755)

	// ---------------------------------------------------------------- lock summaries (internal/tree)
	pi, err := load(filepath.Join(*repo, "internal/tree"), "github.com/issue9/mux/v9/internal/tree")
	if err != nil {
		fmt.Fprintln(os.Stderr, err)
		os.Exit(1)
	}
	globals := map[types.Object]bool{}
	for _, name := range pi.pkg.Scope().Names() {
		if v, ok := pi.pkg.Scope().Lookup(name).(*types.Var); ok {
			globals[v] = true
		}
	}
	type summary struct {
		name   string
		events []event
	}
	var sums []summary
	var objs []*types.Func
	for obj := range pi.funcs {
		objs = append(objs, obj)
	}
	sort.Slice(objs, func(i, j int) bool { return objs[i].FullName() < objs[j].FullName() })
	for _, obj := range objs {
		fd := pi.funcs[obj]
		if fd.Recv == nil || !obj.Exported() {
			continue
		}
		recv := ownerName(obj.Type().(*types.Signature).Recv().Type())
		w := &walker{pi: pi, stack: map[*types.Func]bool{}, globals: globals}
		w.function(obj, fd)
		sums = append(sums, summary{recv + "." + obj.Name(), w.events})
	}
	var sb strings.Builder
	sb.WriteString("(* GENERATED by tools/srcfacts from /repo/internal/tree on every run. Do not edit. *)\n")
	sb.WriteString("From Coq Require Import String List.\nFrom Mux Require Import Model.Conc.\nImport ListNotations.\nOpen Scope string_scope.\n\n")
	sb.WriteString("Definition summaries : list (string * list sev) := [\n")
	for i, s := range sums {
		sb.WriteString("  (" + q(s.name) + ", [")
		for j, e := range s.events {
			if j > 0 {
				sb.WriteString("; ")
			}
			switch e.kind {
			case "acqW":
				sb.WriteString("SAcq true " + q(e.loc))
			case "acqR":
				sb.WriteString("SAcq false " + q(e.loc))
			case "rel":
				sb.WriteString("SRel " + q(e.loc))
			case "accR":
				sb.WriteString("SAcc false " + q(e.loc) + " " + q(e.where))
			case "accW":
				sb.WriteString("SAcc true " + q(e.loc) + " " + q(e.where))
			}
		}
		sb.WriteString("])")
		if i < len(sums)-1 {
			sb.WriteString(";")
		}
		sb.WriteString("\n")
	}
	sb.WriteString("].\n")
	writeIfChanged(filepath.Join(*out, "LockFacts.v"), sb.String())

	// ---------------------------------------------------------------- constants the model is written against
	{
		var cb strings.Builder
		cb.WriteString("(* GENERATED by tools/srcfacts from /repo on every run. Do not edit. *)\n")
		cb.WriteString("From Coq Require Import String List ZArith.\nImport ListNotations.\nOpen Scope string_scope.\n\n")
		// tree.Methods (composite literal of net/http constants) and the integer constants of internal/tree
		var methods []string
		consts := map[string]string{}
		collect := func(pi *pkgInfo) {
			for _, f := range pi.files {
				for _, d := range f.Decls {
					gd, ok := d.(*ast.GenDecl)
					if !ok {
						continue
					}
					for _, sp := range gd.Specs {
						vs, ok := sp.(*ast.ValueSpec)
						if !ok {
							continue
						}
						for i, n := range vs.Names {
							if i >= len(vs.Values) {
								continue
							}
							if n.Name == "Methods" {
								if cl, ok := vs.Values[i].(*ast.CompositeLit); ok {
									for _, el := range cl.Elts {
										if tv, ok := pi.info.Types[el]; ok && tv.Value != nil {
											methods = append(methods, strings.Trim(tv.Value.ExactString(), "\""))
										}
									}
								}
							}
						}
						// constants by their definitions (iota groups repeat one expression: the expression's
						// recorded value is that of its last use, the definition's is right)
						for _, n := range vs.Names {
							if c, ok := pi.info.Defs[n].(*types.Const); ok && gd.Tok == token.CONST && n.Name != "_" {
								consts[pi.pkg.Name()+"."+n.Name] = c.Val().ExactString()
							}
						}
					}
				}
			}
		}
		collect(pi)
		if sp, err := load(filepath.Join(*repo, "internal/syntax"), "github.com/issue9/mux/v9/internal/syntax"); err == nil {
			collect(sp)
		}
		cb.WriteString("Definition src_methods : list string := [")
		for i, m := range methods {
			if i > 0 {
				cb.WriteString("; ")
			}
			cb.WriteString(q(m))
		}
		cb.WriteString("].\n")
		names := make([]string, 0, len(consts))
		for k := range consts {
			names = append(names, k)
		}
		sort.Strings(names)
		cb.WriteString("Definition src_consts : list (string * string) := [")
		for i, k := range names {
			if i > 0 {
				cb.WriteString("; ")
			}
			cb.WriteString("(" + q(k) + ", " + q(consts[k]) + ")")
		}
		cb.WriteString("].\n")
		writeIfChanged(filepath.Join(*out, "Consts.v"), cb.String())
		writeIfChanged(filepath.Join(*out, "PureFuns.v"), translatePure(*repo, load))
	}

	// ---------------------------------------------------------------- package-level state
	var gb strings.Builder
	gb.WriteString("(* GENERATED by tools/srcfacts from /repo on every run. Do not edit. *)\n")
	gb.WriteString("From Coq Require Import String List.\nFrom Mux Require Import Model.Conc.\nImport ListNotations.\nOpen Scope string_scope.\n\n")
	gb.WriteString("Definition globals : list gfact := [\n")
	first := true
	for _, p := range []struct{ dir, path string }{
		{"", "github.com/issue9/mux/v9"}, {"internal/tree", "github.com/issue9/mux/v9/internal/tree"},
		{"internal/syntax", "github.com/issue9/mux/v9/internal/syntax"}, {"internal/trace", "github.com/issue9/mux/v9/internal/trace"},
		{"types", "github.com/issue9/mux/v9/types"}, {"header", "github.com/issue9/mux/v9/header"}} {
		gp, err := load(filepath.Join(*repo, p.dir), p.path)
		if err != nil || gp.pkg == nil {
			fmt.Fprintln(os.Stderr, "cannot load", p.path, err)
			os.Exit(1)
		}
		gl := map[types.Object]bool{}
		for _, name := range gp.pkg.Scope().Names() {
			if v, ok := gp.pkg.Scope().Lookup(name).(*types.Var); ok {
				gl[v] = true
			}
		}
		names := gp.pkg.Scope().Names()
		for _, name := range names {
			v, ok := gp.pkg.Scope().Lookup(name).(*types.Var)
			if !ok {
				continue
			}
			kind := "value"
			ts := v.Type().String()
			switch {
			case strings.Contains(ts, "sync.Pool"):
				kind = "pool"
			case strings.Contains(ts, "sync.RWMutex") || strings.Contains(ts, "sync.Mutex"):
				kind = "mutex"
			case strings.HasPrefix(ts, "map["):
				kind = "map"
			case strings.HasPrefix(ts, "[]"):
				kind = "slice"
			case strings.HasPrefix(ts, "*"):
				kind = "pointer"
			}
			// accesses of v in every function of the package: (function, write?, inside a package mutex region?)
			var acc []string
			var fobjs []*types.Func
			for obj := range gp.funcs {
				fobjs = append(fobjs, obj)
			}
			sort.Slice(fobjs, func(i, j int) bool { return fobjs[i].FullName() < fobjs[j].FullName() })
			for _, obj := range fobjs {
				w := &walker{pi: gp, stack: map[*types.Func]bool{}, globals: gl}
				// no inlining here: every function is inspected on its own
				for o := range gp.funcs {
					if o != obj {
						w.stack[o] = true
					}
				}
				w.function(obj, gp.funcs[obj])
				held := ""
				for _, e := range w.events {
					switch e.kind {
					case "acqW", "acqR":
						if strings.HasPrefix(e.loc, "global.") {
							held = e.kind
						}
					case "rel":
						held = ""
					case "accR", "accW":
						if e.loc == "global."+name {
							g := "false"
							if held == "acqW" || (held == "acqR" && e.kind == "accR") {
								g = "true"
							}
							wr := "false"
							if e.kind == "accW" {
								wr = "true"
							}
							fn := obj.Name()
							acc = append(acc, fmt.Sprintf("(%s, %s, %s)", q(fn), wr, g))
						}
					}
				}
			}
			if !first {
				gb.WriteString(";\n")
			}
			first = false
			gb.WriteString(fmt.Sprintf("  {| g_pkg := %s; g_name := %s; g_kind := %s; g_acc := [%s] |}", q(p.path), q(name), q(kind), strings.Join(acc, "; ")))
		}
	}
	gb.WriteString("\n].\n")
	writeIfChanged(filepath.Join(*out, "GlobalFacts.v"), gb.String())
}
