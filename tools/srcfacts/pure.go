// pure.go: a translator for small loop-free Go functions that decide or compute with integers,
// booleans and (in)equalities.  Each listed function of the CURRENT source becomes a Gallina
// definition over "atoms": the sub-expressions the fragment does not interpret (field
// selections, len(..), calls, comparisons of non-integer values) become parameters, in order of
// first appearance, and their source text is emitted next to the definition so that the
// theorems can pin their interpretation.
//
// Fragment: := = += -= ++ -- if/else switch (tagged or not, no fallthrough) return, blocks;
// integer literals and typed integer constants, + - * << >> == != < <= > >= && || ! unary -,
// integer conversions (treated as the identity: the translated functions stay far from the
// range limits, see DESIGN section 6), len(..) as an integer atom.
package main

import (
	"fmt"
	"go/ast"
	"go/constant"
	"go/token"
	"go/types"
	"regexp"
	"strings"
)

type pureTarget struct {
	pkgdir, pkgpath string
	recv, name      string // receiver type name ("" for plain functions) and function name
	coqName         string
	effects         bool // a procedure: translated to the list of calls it makes (strings are an abstract type S)
	returns         bool // a function with several results: translated to WHICH return statement is reached (see returns mode below)
}

var pureTargets = []pureTarget{
	{"internal/tree", "github.com/issue9/mux/v9/internal/tree", "node", "priority", "src_node_priority", false, false},
	{"internal/tree", "github.com/issue9/mux/v9/internal/tree", "", "isAutoMethod", "src_is_auto_method", false, false},
	{"internal/syntax", "github.com/issue9/mux/v9/internal/syntax", "Segment", "IsAmbiguous", "src_is_ambiguous", false, false},
	{"internal/syntax", "github.com/issue9/mux/v9/internal/syntax", "Segment", "AmbiguousLen", "src_ambiguous_len", false, false},
	{"internal/syntax", "github.com/issue9/mux/v9/internal/syntax", "Segment", "Similarity", "src_similarity", false, false},
	{"internal/syntax", "github.com/issue9/mux/v9/internal/syntax", "Segment", "Valid", "src_seg_valid", false, false},
	{".", "github.com/issue9/mux/v9", "cors", "handle", "src_cors_handle", true, false},
	{"internal/tree", "github.com/issue9/mux/v9/internal/tree", "Tree", "match", "src_tree_match", false, true},
}

type atom struct {
	text, name, typ string
}

type pureTr struct {
	effects bool
	pi      *pkgInfo
	atoms   []atom
	byText  map[string]int
	locals  map[string]string // local variable -> Coq type
	err     error

	// returns mode (returns.go)
	returns bool
	body    *ast.BlockStmt
	sym     map[types.Object]ast.Expr // local of an uninterpreted type -> its value as a source expression
	retIdx  map[*ast.ReturnStmt]int   // return statement -> its index in source order
}

var nonIdent = regexp.MustCompile(`[^A-Za-z0-9]+`)

func (t *pureTr) fail(format string, a ...any) string {
	if t.err == nil {
		t.err = fmt.Errorf(format, a...)
	}
	return "ERR"
}

func (t *pureTr) atom(text, typ string) string {
	if i, ok := t.byText[text]; ok {
		if t.atoms[i].typ != typ {
			return t.fail("atom %q used at two types", text)
		}
		return t.atoms[i].name
	}
	name := "a" + fmt.Sprint(len(t.atoms)) + "_" + strings.Trim(nonIdent.ReplaceAllString(text, "_"), "_")
	t.byText[text] = len(t.atoms)
	t.atoms = append(t.atoms, atom{text, name, typ})
	return name
}

func (t *pureTr) kind(e ast.Expr) string {
	tv, ok := t.pi.info.Types[e]
	if !ok || tv.Type == nil {
		return "?"
	}
	if b, ok := tv.Type.Underlying().(*types.Basic); ok {
		switch {
		case b.Info()&types.IsInteger != 0:
			return "Z"
		case b.Info()&types.IsBoolean != 0:
			return "bool"
		case b.Info()&types.IsString != 0:
			return "string"
		}
	}
	return "?"
}

func (t *pureTr) text(e ast.Expr) string {
	if t.returns {
		return types.ExprString(t.subst(e))
	}
	return types.ExprString(e)
}

// expression of kind string (effects mode only): constants, locals, atoms of the abstract type S
func (t *pureTr) sexpr(e ast.Expr) string {
	if tv, ok := t.pi.info.Types[e]; ok && tv.Value != nil && tv.Value.Kind() == constant.String {
		return "(lit " + q(constant.StringVal(tv.Value)) + ")"
	}
	switch x := e.(type) {
	case *ast.ParenExpr:
		return t.sexpr(x.X)
	case *ast.Ident:
		if k, ok := t.locals[x.Name]; ok && k == "string" {
			return "v_" + x.Name
		}
	}
	if t.kind(e) != "string" {
		return t.fail("%s is not a string", t.text(e))
	}
	return t.atom(t.text(e), "S")
}

// expression of kind Z or bool
func (t *pureTr) expr(e ast.Expr) string {
	if tv, ok := t.pi.info.Types[e]; ok && tv.Value != nil {
		switch tv.Value.Kind() {
		case constant.Int:
			return "(" + tv.Value.ExactString() + ")%Z"
		case constant.Bool:
			return tv.Value.ExactString()
		}
	}
	switch x := e.(type) {
	case *ast.ParenExpr:
		return t.expr(x.X)
	case *ast.Ident:
		if _, ok := t.locals[x.Name]; ok {
			return "v_" + x.Name
		}
		k := t.kind(x)
		if k == "Z" || k == "bool" {
			return t.atom(t.text(x), k)
		}
		return t.fail("identifier %s of an uninterpreted type used as a value", x.Name)
	case *ast.UnaryExpr:
		switch x.Op {
		case token.NOT:
			return "(negb " + t.expr(x.X) + ")"
		case token.SUB:
			return "(- " + t.expr(x.X) + ")%Z"
		}
		return t.fail("unary operator %s", x.Op)
	case *ast.BinaryExpr:
		switch x.Op {
		case token.LAND:
			return "(" + t.expr(x.X) + " && " + t.expr(x.Y) + ")%bool"
		case token.LOR:
			return "(" + t.expr(x.X) + " || " + t.expr(x.Y) + ")%bool"
		case token.ADD, token.SUB, token.MUL:
			return "(" + t.expr(x.X) + " " + x.Op.String() + " " + t.expr(x.Y) + ")%Z"
		case token.SHL:
			return "(Z.shiftl " + t.expr(x.X) + " " + t.expr(x.Y) + ")"
		case token.SHR:
			return "(Z.shiftr " + t.expr(x.X) + " " + t.expr(x.Y) + ")"
		case token.EQL, token.NEQ, token.LSS, token.LEQ, token.GTR, token.GEQ:
			kx, ky := t.kind(x.X), t.kind(x.Y)
			if kx == "Z" && ky == "Z" {
				op := map[token.Token]string{token.EQL: "=?", token.LSS: "<?", token.LEQ: "<=?", token.GTR: ">?", token.GEQ: ">=?"}[x.Op]
				if x.Op == token.NEQ {
					return "(negb (" + t.expr(x.X) + " =? " + t.expr(x.Y) + ")%Z)"
				}
				return "(" + t.expr(x.X) + " " + op + " " + t.expr(x.Y) + ")%Z"
			}
			if kx == "bool" && ky == "bool" && (x.Op == token.EQL || x.Op == token.NEQ) {
				s := "(Bool.eqb " + t.expr(x.X) + " " + t.expr(x.Y) + ")"
				if x.Op == token.NEQ {
					s = "(negb " + s + ")"
				}
				return s
			}
			if t.effects && kx == "string" && ky == "string" && (x.Op == token.EQL || x.Op == token.NEQ) {
				s := "(eqS " + t.sexpr(x.X) + " " + t.sexpr(x.Y) + ")"
				if x.Op == token.NEQ {
					s = "(negb " + s + ")"
				}
				return s
			}
			if x.Op == token.EQL || x.Op == token.NEQ { // equality of uninterpreted values: one boolean atom per pair
				s := t.atom(t.text(x.X)+" == "+t.text(x.Y), "bool")
				if x.Op == token.NEQ {
					s = "(negb " + s + ")"
				}
				return s
			}
			return t.fail("ordering of uninterpreted values: %s", t.text(x))
		}
		return t.fail("binary operator %s", x.Op)
	case *ast.CallExpr:
		if tv, ok := t.pi.info.Types[x.Fun]; ok && tv.IsType() && len(x.Args) == 1 { // conversion
			if t.kind(x) == "Z" && t.kind(x.Args[0]) == "Z" {
				return t.expr(x.Args[0])
			}
			return t.fail("conversion %s", t.text(x))
		}
		k := t.kind(x)
		if k == "Z" || k == "bool" {
			return t.atom(t.text(x), k)
		}
		return t.fail("call of uninterpreted result type: %s", t.text(x))
	case *ast.SelectorExpr, *ast.IndexExpr:
		k := t.kind(e)
		if k == "Z" || k == "bool" {
			return t.atom(t.text(e), k)
		}
		return t.fail("%s has an uninterpreted type and is used as a value", t.text(e))
	}
	return t.fail("expression form %T", e)
}

// statements followed by the rest of the enclosing blocks; the value is the function's result
func (t *pureTr) stmts(ss []ast.Stmt, resKind string) string {
	if len(ss) == 0 {
		if t.effects {
			return "[]"
		}
		return t.fail("control reaches the end of the function without a return")
	}
	s, rest := ss[0], ss[1:]
	switch x := s.(type) {
	case *ast.ExprStmt:
		call, ok := x.X.(*ast.CallExpr)
		if !ok || !t.effects {
			return t.fail("expression statement %s", t.text(x.X))
		}
		var args []string
		for _, a := range call.Args {
			args = append(args, t.sexpr(a))
		}
		return "SCall " + q(t.text(call.Fun)) + " [" + strings.Join(args, "; ") + "] ::\n  " + t.stmts(rest, resKind)
	case *ast.DeclStmt:
		if !t.returns {
			return t.fail("declaration statement")
		}
		if !t.declSym(x) {
			return "ERR"
		}
		return t.stmts(rest, resKind)
	case *ast.ReturnStmt:
		if t.returns {
			return t.retStmt(x)
		}
		if t.effects && len(x.Results) == 0 {
			return "[]"
		}
		if len(x.Results) != 1 {
			return t.fail("return with %d results", len(x.Results))
		}
		return t.expr(x.Results[0])
	case *ast.BlockStmt:
		return t.stmts(append(append([]ast.Stmt{}, x.List...), rest...), resKind)
	case *ast.AssignStmt:
		if t.returns && t.assignSym(x) {
			return t.stmts(rest, resKind)
		}
		if len(x.Lhs) != 1 || len(x.Rhs) != 1 {
			return t.fail("multiple assignment")
		}
		id, ok := x.Lhs[0].(*ast.Ident)
		if !ok {
			return t.fail("assignment to %s", t.text(x.Lhs[0]))
		}
		var rhs string
		isStr := t.effects && t.kind(x.Rhs[0]) == "string"
		switch x.Tok {
		case token.DEFINE:
			if isStr {
				rhs = t.sexpr(x.Rhs[0])
			} else {
				rhs = t.expr(x.Rhs[0])
			}
			t.locals[id.Name] = t.kind(x.Rhs[0])
		case token.ASSIGN:
			if isStr {
				rhs = t.sexpr(x.Rhs[0])
			} else {
				rhs = t.expr(x.Rhs[0])
			}
		case token.ADD_ASSIGN, token.SUB_ASSIGN:
			op := "+"
			if x.Tok == token.SUB_ASSIGN {
				op = "-"
			}
			rhs = "(v_" + id.Name + " " + op + " " + t.expr(x.Rhs[0]) + ")%Z"
		default:
			return t.fail("assignment operator %s", x.Tok)
		}
		if _, ok := t.locals[id.Name]; !ok {
			return t.fail("assignment to non-local %s", id.Name)
		}
		return "let v_" + id.Name + " := " + rhs + " in\n  " + t.stmts(rest, resKind)
	case *ast.IncDecStmt:
		id, ok := x.X.(*ast.Ident)
		if !ok || t.locals[id.Name] != "Z" {
			return t.fail("++/-- on %s", t.text(x.X))
		}
		op := "+"
		if x.Tok == token.DEC {
			op = "-"
		}
		return "let v_" + id.Name + " := (v_" + id.Name + " " + op + " 1)%Z in\n  " + t.stmts(rest, resKind)
	case *ast.IfStmt:
		if t.returns {
			if skip, ok := t.lockOnlyIf(x); !ok {
				return "ERR"
			} else if skip {
				return t.stmts(rest, resKind)
			}
		}
		saved, savedSym := copyMap(t.locals), copySym(t.sym)
		pre := ""
		if x.Init != nil {
			if !t.returns {
				return t.fail("if with an init statement")
			}
			var ok bool
			if pre, ok = t.ifInit(x.Init, rest); !ok {
				return "ERR"
			}
		}
		c := t.expr(x.Cond)
		inner, innerSym := copyMap(t.locals), copySym(t.sym)
		th := t.stmts(append(append([]ast.Stmt{}, x.Body.List...), rest...), resKind)
		t.locals, t.sym = copyMap(inner), copySym(innerSym)
		var el string
		if x.Else != nil {
			el = t.stmts(append([]ast.Stmt{x.Else}, rest...), resKind)
		} else {
			el = t.stmts(rest, resKind)
		}
		t.locals, t.sym = saved, savedSym
		return pre + "(if " + c + "\n   then " + th + "\n   else " + el + ")"
	case *ast.SwitchStmt:
		if x.Init != nil {
			return t.fail("switch with an init statement")
		}
		var def []ast.Stmt
		hasDef := false
		type arm struct {
			cond string
			body []ast.Stmt
		}
		var arms []arm
		for _, c := range x.Body.List {
			cc := c.(*ast.CaseClause)
			for _, b := range cc.Body {
				if br, ok := b.(*ast.BranchStmt); ok {
					return t.fail("branch statement %s in a switch", br.Tok)
				}
			}
			if cc.List == nil {
				def, hasDef = cc.Body, true
				continue
			}
			var alts []string
			for _, e := range cc.List {
				if x.Tag == nil {
					alts = append(alts, t.expr(e))
				} else {
					alts = append(alts, t.expr(&ast.BinaryExpr{X: x.Tag, Op: token.EQL, Y: e}))
				}
			}
			arms = append(arms, arm{"(" + strings.Join(alts, " || ") + ")%bool", cc.Body})
		}
		_ = hasDef
		saved, savedSym := copyMap(t.locals), copySym(t.sym)
		out := t.stmts(append(append([]ast.Stmt{}, def...), rest...), resKind)
		for i := len(arms) - 1; i >= 0; i-- {
			t.locals, t.sym = copyMap(saved), copySym(savedSym)
			b := t.stmts(append(append([]ast.Stmt{}, arms[i].body...), rest...), resKind)
			out = "(if " + arms[i].cond + "\n   then " + b + "\n   else " + out + ")"
		}
		t.locals, t.sym = saved, savedSym
		return out
	}
	return t.fail("statement form %T", s)
}

func copyMap(m map[string]string) map[string]string {
	r := map[string]string{}
	for k, v := range m {
		r[k] = v
	}
	return r
}

// the synthesized tag comparison of a tagged switch has no entry in info.Types: give kind() a way to see it
func (t *pureTr) kindBin(x *ast.BinaryExpr) (string, string) { return t.kind(x.X), t.kind(x.Y) }

func translatePure(repo string, loadPkg func(dir, path string) (*pkgInfo, error)) string {
	var sb strings.Builder
	sb.WriteString("(* GENERATED by tools/srcfacts (pure.go) from /repo on every run. Do not edit. *)\n")
	sb.WriteString("From Coq Require Import String List ZArith Bool.\nImport ListNotations.\nOpen Scope string_scope.\n\n")
	sb.WriteString("(* a call made by a translated procedure: callee as written in the source, string arguments *)\n")
	sb.WriteString("Inductive sev (S : Type) := SCall (callee : string) (args : list S).\nArguments SCall {S}.\n\n")
	sb.WriteString("(* returns mode: which return statement a function with several results reaches (0-based index in\n   source order) and the source text of the returned expressions, locals of uninterpreted types replaced\n   by the expressions they hold *)\n")
	sb.WriteString("Inductive mret := MRet (index : Z) (exprs : list string).\n\n")
	cache := map[string]*pkgInfo{}
	for _, tg := range pureTargets {
		pi := cache[tg.pkgdir]
		if pi == nil {
			p, err := loadPkg(repo+"/"+tg.pkgdir, tg.pkgpath)
			if err != nil {
				sb.WriteString("Definition " + tg.coqName + "_untranslatable : string := " + q("package does not load: "+err.Error()) + ".\n\n")
				continue
			}
			pi, cache[tg.pkgdir] = p, p
		}
		var fd *ast.FuncDecl
		for fn, d := range pi.funcs {
			if fn.Name() != tg.name {
				continue
			}
			r := ""
			if sig := fn.Type().(*types.Signature); sig.Recv() != nil {
				r = ownerName(sig.Recv().Type())
			}
			if r == tg.recv {
				fd = d
			}
		}
		if fd == nil {
			sb.WriteString("Definition " + tg.coqName + "_untranslatable : string := " + q("function not found in the source") + ".\n\n")
			continue
		}
		t := &pureTr{pi: pi, byText: map[string]int{}, locals: map[string]string{}, effects: tg.effects,
			returns: tg.returns, body: fd.Body, sym: map[types.Object]ast.Expr{}, retIdx: returnIndexes(fd.Body)}
		resKind := "?"
		if tg.effects {
			resKind = "E"
		}
		if fd.Type.Results != nil && len(fd.Type.Results.List) == 1 {
			resKind = t.kind(fd.Type.Results.List[0].Type)
			if tv, ok := pi.info.Types[fd.Type.Results.List[0].Type]; ok && tv.Type != nil {
				if b, ok := tv.Type.Underlying().(*types.Basic); ok {
					if b.Info()&types.IsInteger != 0 {
						resKind = "Z"
					} else if b.Info()&types.IsBoolean != 0 {
						resKind = "bool"
					}
				}
			}
		}
		body := "ERR"
		if tg.effects {
			if fd.Type.Results != nil && len(fd.Type.Results.List) > 0 {
				t.fail("a procedure translated by its calls must not return a value")
			} else {
				body = t.stmts(fd.Body.List, resKind)
			}
		} else if tg.returns {
			resKind = "mret"
			if fd.Type.Results == nil || fd.Type.Results.NumFields() < 2 {
				t.fail("returns mode is for functions with several results")
			} else if hasFuncLit(fd.Body) {
				t.fail("function literal in the body")
			} else {
				for _, f := range fd.Type.Results.List {
					if len(f.Names) > 0 {
						t.fail("named results")
					}
				}
				body = t.stmts(fd.Body.List, resKind)
			}
		} else if resKind != "Z" && resKind != "bool" {
			t.fail("result type is neither an integer nor a boolean")
		} else {
			body = t.stmts(fd.Body.List, resKind)
		}
		pos := pi.fset.Position(fd.Pos())
		rel := strings.TrimPrefix(pos.Filename, repo+"/")
		if t.err != nil {
			sb.WriteString("(* " + rel + ": " + tg.name + " *)\nDefinition " + tg.coqName + "_untranslatable : string := " + q(t.err.Error()) + ".\n\n")
			continue
		}
		sb.WriteString("(* " + rel + ": func " + tg.name + " *)\n")
		sb.WriteString("Definition " + tg.coqName)
		if tg.effects {
			sb.WriteString(" (S : Type) (lit : string -> S) (eqS : S -> S -> bool)")
			resKind = "list (sev S)"
		}
		for _, a := range t.atoms {
			sb.WriteString(" (" + a.name + " : " + a.typ + ")")
		}
		sb.WriteString(" : " + resKind + " :=\n  " + body + ".\n")
		sb.WriteString("Definition " + tg.coqName + "_atoms : list string := [")
		for i, a := range t.atoms {
			if i > 0 {
				sb.WriteString("; ")
			}
			sb.WriteString(q(a.text))
		}
		sb.WriteString("].\n\n")
	}
	return sb.String()
}
