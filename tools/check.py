#!/usr/bin/env python3
"""Orchestrator for one property check (see DESIGN.md section 2 and 4).

  check.py <Cxx> quick|thorough      run the check, write evidence/<Cxx>.json
  check.py <Cxx> --replay <file>     re-run one recorded case on the current tree
  check.py setup                     build everything from a fresh restore
"""
import fcntl, hashlib, json, os, re, subprocess, sys, time, glob, shutil

V = os.path.dirname(os.path.dirname(os.path.abspath(__file__)))
sys.path.insert(0, os.path.join(V, "tools"))
import props as P  # noqa: E402

COQ = os.path.join(V, "coq")
BUILD = os.path.join(V, "build")
GOENV = dict(os.environ, GOFLAGS="-mod=mod", GOPROXY="off", GOSUMDB="off", GOTOOLCHAIN="local",
             GOCACHE=os.environ.get("GOCACHE", os.path.join(BUILD, "gocache")))


def sh(cmd, cwd=None, env=None, timeout=3600, inp=None):
    p = subprocess.run(cmd, cwd=cwd, env=env, timeout=timeout, input=inp,
                       stdout=subprocess.PIPE, stderr=subprocess.STDOUT, text=True, shell=isinstance(cmd, str))
    return p.returncode, p.stdout


class Lock:
    def __enter__(self):
        os.makedirs(BUILD, exist_ok=True)
        self.f = open(os.path.join(BUILD, ".lock"), "w")
        fcntl.flock(self.f, fcntl.LOCK_EX)

    def __exit__(self, *a):
        fcntl.flock(self.f, fcntl.LOCK_UN)
        self.f.close()


def write_if_changed(path, content):
    try:
        if open(path).read() == content:
            return False
    except FileNotFoundError:
        pass
    os.makedirs(os.path.dirname(path), exist_ok=True)
    open(path, "w").write(content)
    return True


# ---------------------------------------------------------------- build steps
def build_srcfacts():
    """Regenerate coq/Gen/*.v from /repo's current source (translator link)."""
    exe = os.path.join(BUILD, "srcfacts")
    src = os.path.join(V, "tools", "srcfacts")
    if not os.path.isdir(src):
        return True, ""
    rc, out = sh(["go", "build", "-o", exe, "."], cwd=src, env=GOENV)
    if rc != 0:
        return False, "srcfacts build failed:\n" + out
    rc, out = sh([exe, "-repo", "/repo", "-out", os.path.join(BUILD, "gen")], cwd="/repo", env=GOENV)
    if rc != 0:
        return False, "srcfacts failed on /repo:\n" + out
    for f in glob.glob(os.path.join(BUILD, "gen", "*.v")):
        write_if_changed(os.path.join(COQ, "Gen", os.path.basename(f)), open(f).read())
    return True, out


def build_coq():
    if not os.path.exists(os.path.join(COQ, "Makefile.coq")) or \
            os.path.getmtime(os.path.join(COQ, "_CoqProject")) > os.path.getmtime(os.path.join(COQ, "Makefile.coq")):
        sh("coq_makefile -f _CoqProject -o Makefile.coq", cwd=COQ)
    rc, out = sh("timeout 3000 make -f Makefile.coq -j16 -k", cwd=COQ, timeout=3100)
    return rc == 0, out


def build_driver():
    oc = os.path.join(V, "ocaml")
    vo = os.path.join(COQ, "Suites", "All.vo")
    drv = os.path.join(BUILD, "driver")
    if os.path.exists(drv) and os.path.exists(vo) and os.path.getmtime(drv) >= os.path.getmtime(vo) \
            and os.path.getmtime(drv) >= os.path.getmtime(os.path.join(oc, "driver.ml")):
        return True, ""
    if not os.path.exists(vo):
        return False, "Suites/All.vo missing (model does not compile)"
    tmp = os.path.join(BUILD, "extract")
    os.makedirs(tmp, exist_ok=True)
    rc, out = sh(["coqc", "-Q", COQ, "Mux", os.path.join(COQ, "Extract.v")], cwd=tmp, timeout=900)
    if rc != 0:
        return False, "extraction failed:\n" + out
    shutil.copy(os.path.join(oc, "driver.ml"), tmp)
    rc, out = sh("ocamlfind ocamlopt -O2 -w -a -package str model.mli model.ml driver.ml -o " + drv, cwd=tmp, timeout=900)
    return rc == 0, out


def build_harness(race=False):
    exe = os.path.join(BUILD, "harness-race" if race else "harness")
    shutil.copy("/repo/go.sum", os.path.join(V, "harness", "go.sum"))
    cmd = ["go", "build", "-tags", "verif", "-o", exe] + (["-race"] if race else []) + ["."]
    rc, out = sh(cmd, cwd=os.path.join(V, "harness"), env=GOENV, timeout=1200)
    return rc == 0, out, exe


# ---------------------------------------------------------------- theorems
def compile_props(pid):
    """Compile the property's theorem files afresh; count the theorems named <pid>_* and how many of
    them Print Assumptions reports closed (or resting only on std-lib axioms)."""
    files = P.PROPS[pid].get("props", [pid])
    names_all, discharged, axioms_all, log_all, broken = [], 0, set(), "", None
    from concurrent.futures import ThreadPoolExecutor
    present = [fn for fn in files if os.path.exists(os.path.join(COQ, "Props", fn + ".v"))]
    with ThreadPoolExecutor(max_workers=8) as ex:   # the theorem files are independent of each other
        compiled = dict(zip(present, ex.map(
            lambda fn: sh(["coqc", "-Q", COQ, "Mux", os.path.join(COQ, "Props", fn + ".v")], cwd=COQ, timeout=1800), present)))
    for fn in files:
        f = os.path.join(COQ, "Props", fn + ".v")
        if not os.path.exists(f):
            broken = (broken + "; " if broken else "") + "Props/%s.v is missing" % fn
            continue
        src = open(f).read()
        order = re.findall(r"^\s*Print Assumptions\s+(\w+)\s*\.", src, re.M)
        declared = re.findall(r"^\s*(?:Theorem|Corollary)\s+(\w+)", src, re.M)
        rc, out = compiled[fn]
        log_all += out
        blocks = re.findall(r"(Closed under the global context|Axioms:\n(?:.+\n?)+?(?=\n|\Z))", out)
        mine = [n for n in declared if n.startswith(pid + "_")]
        names_all += mine
        for k, name in enumerate(order):
            if name not in mine or k >= len(blocks):
                continue
            b = blocks[k]
            if b.startswith("Closed"):
                discharged += 1
            else:
                ax = sorted(set(l.split(":")[0].strip() for l in b.splitlines()[1:] if l and not l.startswith(" ")))
                axioms_all.update(ax)
                if all(P.axiom_allowed(a) for a in ax):
                    discharged += 1
                else:
                    broken = (broken + "; " if broken else "") + "theorem %s depends on axioms outside the declared trusted base: %s" % (name, ", ".join(ax))
        missing = [n for n in mine if n not in order]
        if missing and rc == 0:
            broken = (broken + "; " if broken else "") + "no Print Assumptions for " + ", ".join(missing)
        if rc != 0:
            m = re.search(r'File "([^"]+)", line (\d+)', out)
            msg = "Props/%s.v does not compile: %s" % (fn, out.strip().splitlines()[-1] if out.strip() else "?")
            if m:
                ln = int(m.group(2))
                before = [n for n in re.finditer(r"^\s*(?:Theorem|Corollary)\s+(\w+)", src, re.M) if src[:n.start()].count("\n") < ln]
                if before and os.path.basename(m.group(1)) == fn + ".v":
                    msg = "theorem %s (Props/%s.v line %d) no longer checks" % (before[-1].group(1), fn, ln)
                else:
                    msg = "%s line %d no longer checks (needed by Props/%s.v)" % (m.group(1), ln, fn)
            broken = (broken + "; " if broken else "") + msg
    return len(names_all), discharged, sorted(axioms_all), log_all, broken, names_all


def coqchk(pid):
    """Thorough tier: re-check the property's compiled theorem files and everything they depend on with
    Coq's independent checker; returns (ok, summary)."""
    mods = ["Mux.Props." + fn for fn in P.PROPS[pid].get("props", [pid])]
    try:
        rc, out = sh(["coqchk", "-silent", "-o", "-Q", COQ, "Mux"] + mods, cwd=COQ, timeout=3000)
    except subprocess.TimeoutExpired:
        return False, "coqchk timed out"
    m = re.search(r"\* Axioms:(.*?)\n\s*\n", out, re.S)
    ax = re.sub(r"\s+", " ", m.group(1)).strip() if m else "?"
    return rc == 0 and ax == "<none>", "coqchk -o on %s: exit %d, axioms: %s" % (" ".join(mods), rc, ax)


def lint():
    """No declared axioms, no admitted proofs, no disabled kernel checks anywhere in the development
    (comments are ignored: the words may be used in prose)."""
    bad = []
    decl = re.compile(r"^\s*(?:Local\s+|Global\s+|#\[[^\]]*\]\s*)*(Axiom|Axioms|Parameter|Parameters|Conjecture|Conjectures|Admit\s+Obligations|"
                      r"Unset\s+Guard\s+Checking|Unset\s+Positivity\s+Checking|Unset\s+Universe\s+Checking|Set\s+Bypass)\b")
    anywhere = re.compile(r"\b(Admitted|admit|give_up|bypass_check)\b")
    for f in sorted(glob.glob(os.path.join(COQ, "**", "*.v"), recursive=True)):
        txt = open(f).read()
        txt = re.sub(r"\(\*.*?\*\)", lambda m: "\n" * m.group(0).count("\n"), txt, flags=re.S)   # drop comments, keep line numbers
        in_section = 0
        for ln, line in enumerate(txt.splitlines(), 1):
            if re.match(r"^\s*Section\b", line):
                in_section += 1
            elif re.match(r"^\s*End\b", line) and in_section:
                in_section -= 1
            if decl.match(line) or anywhere.search(line) or \
                    (not in_section and re.match(r"^\s*(Variable|Variables|Hypothesis|Hypotheses)\b", line)):
                bad.append("%s:%d:%s" % (os.path.relpath(f, COQ), ln, line.strip()[:80]))
    # no flag that weakens the kernel, in the project file or in the way this script calls coqc
    for f in [os.path.join(COQ, "_CoqProject"), os.path.abspath(__file__)]:
        for ln, line in enumerate(open(f).read().splitlines(), 1):
            if f.endswith("check.py") and "FORBIDDEN_FLAGS" in line:
                continue
            if any(flag in line for flag in FORBIDDEN_FLAGS):
                bad.append("%s:%d:%s" % (os.path.basename(f), ln, line.strip()[:80]))
    return "\n".join(bad)


FORBIDDEN_FLAGS = ["-type-in-" + "type", "-impredicative-" + "set", "-bypass-" + "guard", "-allow-" + "sprop-off", "-vos", "-vok"]


# ---------------------------------------------------------------- running
def parse_cases(path):
    """-> list of (id, text)"""
    cases, cur, cid = [], [], None
    for ln in open(path):
        if ln.startswith("C "):
            cid, cur = ln.split()[1], []
        elif ln.startswith("E"):
            cases.append((cid, "".join(cur)))
        else:
            cur.append(ln)
    return cases


def run_driver(suite, path):
    rc, out = sh([os.path.join(BUILD, "driver"), suite], inp=open(path).read(), timeout=3600)
    res, cid = {}, None
    for ln in out.splitlines():
        f = ln.split()
        if not f:
            continue
        if f[0] == "C":
            cid = f[1]
            res[cid] = []
        elif cid is not None:
            res[cid].append(f)
    return rc, res, out


def dec(f):
    if f.startswith("x"):
        try:
            return bytes.fromhex(f[1:]).decode("utf-8", "backslashreplace")
        except ValueError:
            return f
    return f


def coq_sample(suite, cases, driver_res, rundir):
    """Evaluate a slice of the cases inside Coq (vm_compute) and compare with the extracted run."""
    tot, chosen = 0, []
    for cid, text in cases:
        n = len(text)
        if tot + n > 120000:
            break
        tot += n
        chosen.append((cid, text))
    if not chosen:
        chosen = cases[:1]

    def q(s):
        return '"' + s.replace('"', '""') + '"'
    items = []
    for cid, text in chosen:
        exp = "\n".join(" ".join(l) for l in driver_res.get(cid, []))
        items.append("(%s, %s)" % (q(text), q(exp)))
    v = ("From Coq Require Import String.\nFrom Mux Require Import Model.Bytes Model.Wire Model.Text Suites.All.\n"
         "Open Scope string_scope.\nDefinition sample : list (string * string) := [\n%s\n].\n"
         "Definition agree := Eval vm_compute in\n"
         "  forallb (fun ce => lines_list_eqb (run_suite (bs \"%s\") (parse_text (fst ce))) (parse_text (snd ce))) sample.\n"
         "Print agree.\n") % (";\n".join(items), suite)
    f = os.path.join(rundir, "Sample.v")
    open(f, "w").write(v)
    rc, out = sh("ulimit -s unlimited 2>/dev/null || ulimit -s 1000000; coqc -Q %s Mux %s" % (COQ, f), cwd=rundir, timeout=1200)
    ok = rc == 0 and re.search(r"agree\s*=\s*true", out) is not None
    return ok, len(chosen), out[-400:]


def known_findings():
    kf = {"finding": [], "fixed": []}
    p = os.path.join(V, "known_findings.txt")
    if os.path.exists(p):
        for ln in open(p):
            ln = ln.strip()
            m = re.match(r"(finding|fixed):\s+property=(\w+)\s+(.*)", ln)
            if m:
                kf[m.group(1)].append((m.group(2), m.group(3)))
    return kf


def main():
    if len(sys.argv) >= 2 and sys.argv[1] == "setup":
        return setup()
    pid = sys.argv[1]
    replay = None
    tier = "quick"
    if len(sys.argv) >= 4 and sys.argv[2] == "--replay":
        replay = sys.argv[3]
    elif len(sys.argv) >= 3:
        tier = sys.argv[2]
    tier = os.environ.get("VERIF_TIER", tier) if tier not in ("quick", "thorough") else tier
    seed = int(os.environ.get("VERIF_SEED", "1"))
    cfg = P.PROPS[pid]
    if cfg.get("kind") == "conc":
        return main_conc(pid, tier, replay, seed)
    t0 = time.time()
    rundir = os.path.join(BUILD, "run", pid)
    shutil.rmtree(rundir, ignore_errors=True)
    os.makedirs(rundir)
    os.makedirs(os.path.join(V, "replays"), exist_ok=True)
    os.makedirs(os.path.join(V, "evidence"), exist_ok=True)
    ev_path = os.path.join(V, "evidence", pid + ".json")

    violations = []   # (replay_path, tail)
    known_hits = {}
    notes = []

    def add_violation(name, obj, tail=""):
        path = os.path.join(V, "replays", "%s-%s.json" % (pid, name))
        json.dump(obj, open(path, "w"), indent=1)
        violations.append((path, tail))

    with Lock():
        ok, out = build_srcfacts()
        if not ok:
            print(out)
            return 2
        coq_ok, coq_out = build_coq()
        drv_ok, drv_out = build_driver()
        h_ok, h_out, hexe = build_harness()
        obligations, discharged, axioms, plog, broken, thm_names = compile_props(pid)
    if not h_ok:
        print("harness does not build against /repo:\n" + h_out)
        return 2
    if not drv_ok:
        print("model driver does not build:\n" + drv_out + "\n" + coq_out[-2000:])
        return 2
    lint_out = lint()
    if lint_out:
        broken = (broken + "; " if broken else "") + "forbidden keyword in development: " + lint_out.splitlines()[0]
    chk_note = None
    if tier == "thorough" and not replay and not broken:
        with Lock():
            ok_chk, chk_note = coqchk(pid)
        if not ok_chk:
            broken = "independent checker: " + chk_note
        notes.append(chk_note)

    # ---- cases
    suite = cfg.get("suite", pid)
    files = []
    if replay:
        rp = json.load(open(replay))
        f = os.path.join(rundir, "replay.txt")
        if "program" in rp:
            # re-execute the recorded (shrunk, when available) program on the current implementation
            open(os.path.join(rundir, "prog.txt"), "w").write(rp.get("shrunk_program") or rp["program"])
            rc, out = sh([hexe, "-suite", suite, "-replay", os.path.join(rundir, "prog.txt"), "-out", f], env=GOENV, timeout=600)
            if rc != 0:
                print(out)
                return 2
        else:
            open(f, "w").write("C replay\n" + rp.get("case", "") + "E\n")
        files.append(("replay", f, suite))
    else:
        for i, c in enumerate(sorted(glob.glob(os.path.join(V, "corpus", pid, "*.prog")))):
            f = os.path.join(rundir, "corpus%d.txt" % i)
            rc, out = sh([hexe, "-suite", suite, "-replay", c, "-out", f], env=GOENV, timeout=600)
            if rc == 0:
                files.append(("corpus:" + os.path.basename(c), f, suite))
        n = cfg[tier]["n"]
        shards = cfg[tier].get("shards", 1)
        procs = []
        runs = [(suite, suite, 1.0)] + [tuple(x) for x in cfg.get("extra_runs", [])]   # (generator, model suite, share of n)
        for ri, (gen_suite, model_suite, share) in enumerate(runs):
            for s in range(shards):
                f = os.path.join(rundir, "cases%d_%d.txt" % (ri, s))
                st = os.path.join(rundir, "stats%d_%d.json" % (ri, s))
                extra = cfg[tier].get("args", [])
                procs.append((ri * 100 + s, f, st, model_suite, subprocess.Popen(
                    [hexe, "-suite", gen_suite, "-seed", str(seed * 1000 + ri * 100 + s), "-n", str(max(1, int(n * share))), "-out", f, "-stats", st] + extra,
                    env=GOENV, stdout=subprocess.PIPE, stderr=subprocess.STDOUT, text=True)))
        for s, f, st, model_suite, p in procs:
            out, _ = p.communicate(timeout=cfg[tier].get("timeout", 3000))
            if p.returncode != 0:
                # the implementation crashed outside recover(): that is an observation
                add_violation("harness-crash-%d-%d" % (seed, s), {"property": pid, "seed": seed * 1000 + s,
                              "what": "harness process died", "output": out[-4000:]})
                notes.append("harness shard %d died" % s)
            if os.path.exists(f):
                files.append(("gen:%d" % (seed * 1000 + s), f, model_suite))

    evaluations = 0
    ops = 0
    hashes = set()
    tagcount = {}
    mism_cases, fail_cases = [], []
    samples = []
    dist = {}
    sample_ok, sample_n = True, 0
    for origin, f, model_suite in files:
        cases = parse_cases(f)
        rc, res, raw = run_driver(model_suite, f)
        if rc != 0:
            print("driver failed:\n" + raw[-2000:])
            return 2
        if origin.startswith("gen:") and not samples:
            ok_s, sample_n, slog = coq_sample(model_suite, cases, res, rundir)
            if not ok_s:
                sample_ok = False
                notes.append("in-Coq evaluation disagrees with extracted run: " + slog)
        st = os.path.join(os.path.dirname(f), os.path.basename(f).replace("cases", "stats").replace(".txt", ".json"))
        if os.path.exists(st):
            for k, v in json.load(open(st)).get("dist", {}).items():
                dist[k] = dist.get(k, 0) + v
        for cid, text in cases:
            evaluations += 1
            ops += text.count("\nO ") + (1 if text.startswith("O ") else 0)
            lines = res.get(cid, [])
            tags = set()
            F, M, X = [], [], []
            for l in lines:
                if l[0] == "T":
                    for t in l[2:]:
                        t = dec(t)
                        tags.add(t)
                        tagcount[t] = tagcount.get(t, 0) + 1
                elif l[0] == "F":
                    F.append(l)
                elif l[0] == "M":
                    M.append(l)
                elif l[0] == "X":
                    X.append(l)
            nontrivial = bool(tags & set(cfg["nontrivial_tags"])) if cfg.get("nontrivial_tags") else bool(tags)
            if nontrivial:
                # distinct = hash of the operations only (not of the implementation's answers)
                hashes.add(hashlib.sha1("\n".join(l for l in text.splitlines() if not l.startswith("R")).encode()).hexdigest())
            if len(samples) < 3 and nontrivial and origin.startswith("gen:"):
                samples.append({"case": cid, "origin": origin, "lines": [" ".join(dec(x) for x in l.split()) for l in text.splitlines()[:14]]})
            realF = []
            for l in F:
                clause = dec(l[2])
                if clause.startswith("known:"):
                    known_hits.setdefault(clause[6:], (origin, cid, text, l))
                else:
                    realF.append(l)
            if realF:
                fail_cases.append((origin, cid, text, realF, M))
            elif M or X:
                mism_cases.append((origin, cid, text, M + X))

    # ---- verdict
    kf = known_findings()
    listed = {d.split()[0].split("=", 1)[1]: d for (p_, d) in kf["finding"] if p_ == pid and d.startswith("class=")}
    for cls, (origin, cid, text, l) in sorted(known_hits.items()):
        if cls in listed:
            print("KNOWN-FINDING: property=%s %s" % (pid, listed[cls]))
        else:
            add_violation("%d-unlisted-%s" % (seed, cls), {"property": pid, "origin": origin, "case_id": cid, "clause": "known:" + cls,
                          "case": text, "what": "finding class not listed in known_findings.txt"})
    seen_clause = {}
    for origin, cid, text, F, M in fail_cases:
        clause = dec(F[0][2])
        if seen_clause.get(clause, 0) >= 2:
            seen_clause[clause] += 1
            continue
        seen_clause[clause] = seen_clause.get(clause, 0) + 1
        # shrink: cut the case after the failing operation
        idx = int(F[0][1])
        prog0 = program_of(cut_case(text, idx))
        try:
            msuite = [m for (o_, f_, m) in files if o_ == origin][0]
            gsuite = {m_: g_ for (g_, m_, _s) in ([(suite, suite, 1.0)] + [tuple(x) for x in cfg.get("extra_runs", [])])}.get(msuite, suite)
            small = shrink(hexe, gsuite, msuite, prog0, clause, rundir)
        except Exception as ex:   # shrinking is best effort
            small, msuite = prog0, suite
            notes.append("shrinking failed: %r" % (ex,))
        add_violation("%d-%s-%s-%d" % (seed, origin.replace(":", "_"), cid, idx), {
            "shrunk_program": small,
            "shrunk_readable": [" ".join(dec(x) for x in l.split()) for l in small.splitlines()],
            "property": pid, "suite": suite, "origin": origin, "case_id": cid, "failing_op_index": idx,
            "falsified_clauses": sorted(set(dec(l[2]) for l in F)),
            "model_disagreements": [[dec(x) for x in l] for l in M][:5],
            "case": cut_case(text, idx), "program": program_of(cut_case(text, idx)),
            "readable": [" ".join(dec(x) for x in l.split()) for l in cut_case(text, idx).splitlines()][-12:]})
    if not fail_cases and (mism_cases or broken or not sample_ok):
        # correspondence or a proof obligation broke but no failing input: report it as such
        obj = {"property": pid, "suite": suite, "what": "no failing input found",
               "broken_obligation": broken, "sample_agree": sample_ok}
        if mism_cases:
            origin, cid, text, M = mism_cases[0]
            idx = int(M[0][1]) if len(M[0]) > 1 and M[0][1].isdigit() else 0
            obj.update({"correspondence": "model and implementation differ", "origin": origin, "case_id": cid,
                        "first_diverging_op": idx, "model_says": [dec(x) for x in M[0]],
                        "case": cut_case(text, idx), "program": program_of(cut_case(text, idx)),
                        "readable": [" ".join(dec(x) for x in l.split()) for l in cut_case(text, idx).splitlines()][-12:],
                        "diverging_cases": len(mism_cases)})
        add_violation("%d-unproved" % seed, obj, " no-failing-input-found")

    wall = time.time() - t0
    evidence = {
        "property_id": pid, "tier": tier, "seed": seed, "level": "proof",
        "coverage": {
            "obligations": obligations, "discharged": discharged if not broken else min(discharged, max(obligations - 1, 0)),
            "checker_cmd": "coqc -Q coq Mux coq/Props/%s.v (after make -f Makefile.coq; Print Assumptions under every theorem)" % pid,
            "trusted_base": P.trusted_base(pid, axioms),
            "theorems": thm_names,
            "partial_theorems": cfg.get("partial", []),
            "evaluations": evaluations, "operations": ops,
            "distinct_nontrivial": len(hashes),
            "rule": cfg["rule"],
            "traces_validated_against_impl": evaluations,
            "correspondence_mismatching_cases": len(mism_cases) + sum(1 for x in fail_cases if x[4]),
            "oracle_failing_cases": len(fail_cases),
            "in_coq_sample_cases": sample_n, "in_coq_sample_agrees": sample_ok,
            "tag_histogram": dict(sorted(tagcount.items())),
            "generator_distribution": dict(sorted(dist.items())),
            "known_findings_hit": sorted(known_hits),
            "samples": samples or [{"note": "no generated case in this run (replay)"}],
            "exhaustive": bool(cfg[tier].get("exhaustive", False)) if not replay else False,
            "notes": notes,
        },
        "assumptions": cfg.get("assumptions", []),
        "wall_s": round(wall, 2),
        "violations": len(violations),
    }
    json.dump(evidence, open(ev_path, "w"), indent=1)
    for path, tail in violations:
        print("VIOLATION property=%s replay=%s%s" % (pid, path, tail))
    print("%s %s: %d cases, %d ops, %d/%d obligations, %d mismatching, %d failing, %.1fs" % (
        pid, tier, evaluations, ops, evidence["coverage"]["discharged"], obligations,
        len(mism_cases), len(fail_cases), wall))
    return 1 if violations else 0


def main_conc(pid, tier, replay, seed):
    """C06 / C07: theorems over the facts regenerated from the source + race-detector stress run."""
    cfg = P.PROPS[pid]
    t0 = time.time()
    os.makedirs(os.path.join(V, "replays"), exist_ok=True)
    os.makedirs(os.path.join(V, "evidence"), exist_ok=True)
    rundir = os.path.join(BUILD, "run", pid)
    shutil.rmtree(rundir, ignore_errors=True)
    os.makedirs(rundir)
    violations, notes = [], []
    with Lock():
        ok, out = build_srcfacts()
        if not ok:
            print(out)
            return 2
        coq_ok, coq_out = build_coq()
        obligations, discharged, axioms, plog, broken, thm_names = compile_props(pid)
        h_ok, h_out, hexe = build_harness(race=True)
    if not h_ok:
        print("race harness does not build against /repo:\n" + h_out)
        return 2
    lint_out = lint()
    if lint_out:
        broken = (broken + "; " if broken else "") + "forbidden keyword in development: " + lint_out.splitlines()[0]
    if tier == "thorough" and not replay and not broken:
        with Lock():
            ok_chk, chk_note = coqchk(pid)
        if not ok_chk:
            broken = "independent checker: " + chk_note
        notes.append(chk_note)
    diag = re.findall(r"= (\[\(.*?\)\])\s*:\s*list \(string \* option sev\)", plog, re.S) + \
        re.findall(r"= (\[\{\|.*?\|\}\])\s*:\s*list gfact", plog, re.S)
    diag = [re.sub(r"\s+", " ", d) for d in diag if d.strip() != "[]"]
    # ---- stress run under the race detector (searches the failing schedule when an obligation broke)
    scen = cfg["scenario"]
    secs = cfg[tier]["seconds"]
    seeds = cfg[tier].get("seeds", 1)
    if replay:
        rp = json.load(open(replay))
        seeds, secs = 1, rp.get("seconds", secs)
        seed = rp.get("seed", seed)
    served, race_found = 0, None
    for k in range(seeds):
        env = dict(GOENV, GORACE="halt_on_error=1 exitcode=66")
        try:
            rc, out = sh([hexe, "-race", scen, "-seconds", str(secs), "-seed", str(seed * 100 + k)], env=env, timeout=secs * 4 + 90)
        except subprocess.TimeoutExpired as ex:
            # the scenario did not finish long after its deadline: goroutines are stuck (e.g. a recursive read
            # lock with a writer waiting) - a liveness failure of the lock protocol
            rc, out = 124, "the stress scenario hung (deadlock): no exit %ds after its %ss deadline\n%s" % (secs * 3 + 90, secs, (ex.stdout or "")[-2000:] if isinstance(ex.stdout, str) else "")
        m = re.search(r"(?:served|iterations)=(\d+)", out)
        served += int(m.group(1)) if m else 0
        if rc != 0:
            kind = "data race reported by the race detector" if rc == 66 or "DATA RACE" in out else \
                ("inadmissible response" if rc == 3 else ("hang / deadlock" if rc == 124 else "runtime fault (exit %d)" % rc))
            race_found = {"property": pid, "scenario": scen, "seed": seed * 100 + k, "seconds": secs, "what": kind,
                          "broken_obligation": broken, "discipline_violations": diag, "output": out[-6000:]}
            break
    if race_found:
        path = os.path.join(V, "replays", "%s-%d-schedule.json" % (pid, seed))
        json.dump(race_found, open(path, "w"), indent=1)
        violations.append((path, ""))
    elif broken:
        path = os.path.join(V, "replays", "%s-%d-unproved.json" % (pid, seed))
        json.dump({"property": pid, "what": "no failing schedule found", "broken_obligation": broken,
                   "discipline_violations": diag, "stress": {"scenario": scen, "seconds": secs, "seeds": seeds, "requests": served}},
                  open(path, "w"), indent=1)
        violations.append((path, " no-failing-input-found"))
    gen_sha = hashlib.sha1(b"".join(open(f, "rb").read() for f in sorted(glob.glob(os.path.join(COQ, "Gen", "*.v"))))).hexdigest()[:12]
    n_events = sum(open(f).read().count("SAcc") + open(f).read().count("SAcq") for f in glob.glob(os.path.join(COQ, "Gen", "LockFacts.v")))
    evidence = {
        "property_id": pid, "tier": tier, "seed": seed, "level": "proof",
        "coverage": {
            "obligations": obligations, "discharged": discharged if not broken else min(discharged, max(obligations - 1, 0)),
            "checker_cmd": "tools/srcfacts /repo -> coq/Gen/*.v; coqc -Q coq Mux coq/Props/%s.v (Print Assumptions under every theorem)" % "/".join(cfg["props"]),
            "trusted_base": P.trusted_base(pid, axioms), "theorems": thm_names,
            "partial_theorems": cfg.get("partial", []),
            "generated_facts_sha1": gen_sha, "generated_lock_events": n_events,
            "evaluations": served, "distinct_nontrivial": n_events,
            "rule": cfg["rule"] + "; evaluations = requests/iterations of the stress run; distinct_nontrivial = number of distinct lock/access "
                    "events (program points) in the regenerated entry-point summaries that the discipline theorems were checked against",
            "traces_validated_against_impl": served,
            "stress": {"scenario": scen, "seconds_per_seed": secs, "seeds": seeds, "race_detector": True},
            "discipline_violations": diag, "exhaustive": False, "notes": notes,
            "samples": [{"note": "stress scenario " + scen + ": every reader response checked for admissibility; see harness/race.go"}],
        },
        "assumptions": cfg.get("assumptions", []), "wall_s": round(time.time() - t0, 2), "violations": len(violations),
    }
    json.dump(evidence, open(os.path.join(V, "evidence", pid + ".json"), "w"), indent=1)
    for path, tail in violations:
        print("VIOLATION property=%s replay=%s%s" % (pid, path, tail))
    print("%s %s: %d/%d obligations, %d requests under the race detector, %.1fs" % (pid, tier, evidence["coverage"]["discharged"], obligations, served, time.time() - t0))
    return 1 if violations else 0


def shrink(hexe, gen_suite, model_suite, program, clause, rundir, budget=120):
    """Delta-debugging over the operations of a failing program: drop operations (never the cfg line, never
    the last one) as long as the same clause is still falsified when the program is re-executed on the
    implementation and re-judged by the extracted oracle."""
    lines = [l for l in program.splitlines(True) if l.startswith("O ")]
    if len(lines) <= 2:
        return program

    def fails(ls):
        pf = os.path.join(rundir, "shrink.prog")
        of = os.path.join(rundir, "shrink.txt")
        open(pf, "w").write("".join(ls))
        rc, _ = sh([hexe, "-suite", gen_suite, "-replay", pf, "-out", of], env=GOENV, timeout=120)
        if rc != 0 or not os.path.exists(of):
            return False
        rc, res, _ = run_driver(model_suite, of)
        for cid, ls_ in res.items():
            for l in ls_:
                if l[0] == "F" and dec(l[2]) == clause:
                    return True
        return False

    first = 1 if lines[0].split()[1:2] == ["cfg"] else 0
    chunk = max(1, (len(lines) - first - 1) // 2)
    steps = 0
    while chunk >= 1 and steps < budget:
        i = first
        changed = False
        while i < len(lines) - 1 and steps < budget:
            cand = lines[:i] + lines[min(i + chunk, len(lines) - 1):]
            steps += 1
            if len(cand) < len(lines) and fails(cand):
                lines = cand
                changed = True
            else:
                i += chunk
        if not changed:
            chunk //= 2
    return "".join(lines)


def cut_case(text, idx):
    """keep header + operations 0..idx (with their R lines)"""
    out, k = [], -1
    for ln in text.splitlines(True):
        if ln.startswith("O "):
            k += 1
            if k > idx:
                break
        out.append(ln)
    return "".join(out)


def program_of(text):
    return "".join(l for l in text.splitlines(True) if not l.startswith("R"))


def setup():
    with Lock():
        ok, out = build_srcfacts()
        if not ok:
            print(out)
            return 1
        sh("coq_makefile -f _CoqProject -o Makefile.coq", cwd=COQ)
        ok, out = build_coq()
        if not ok:
            print(out[-3000:])
            return 1
        ok, out = build_driver()
        if not ok:
            print(out[-3000:])
            return 1
        ok, out, _ = build_harness()
        if not ok:
            print(out[-3000:])
            return 1
    print("setup ok")
    return 0


if __name__ == "__main__":
    sys.exit(main())
