From Mux Require Import Suites.All.
From Coq Require Import ExtrOcamlBasic.
Extraction Language OCaml.
Extraction "model.ml" run_suite.
