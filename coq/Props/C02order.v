(* C02 (documented priority: literal children first) and the side condition H1 = [idx_lit] of
   C01_match_children_sound_partial, for every reachable tree.  Theorems only; definitions
   (is_lit, kind_sorted, idx_points_to_lit, order_ok, tree_order_ok) and proofs are in
   Proofs/TreeOrder.v; the history vocabulary (top, tstep) is the one of Proofs/TreeSafe.v.

   C02_sort_node_sorted is the statement about [sort_node] that holds: the keys only have to
   determine the kind rank of the node they travel with (key / 10 = rank), which is what
   [add_segment] guarantees although the node stored next to the key [priority nn] is the
   updated node [nn'] (same segment). *)
From Coq Require Import String.
From Mux Require Import Model.Bytes Model.Regex Model.Context Model.Syntax Model.Tree
  Proofs.MatchSound Proofs.TreeSafe Proofs.TreeOrder.

Theorem C02_sort_node_sorted : forall n keyed n',
  (forall k x, In (k, x) keyed -> (k / 10 = stype_rank (styp (nseg x)))%nat) ->
  sort_node n keyed = Ok n' -> order_ok n'.
Proof. exact sort_node_sorted. Qed.
Print Assumptions C02_sort_node_sorted.

Theorem C02_sinsert_keeps_sorted : forall l, sorted_keys (fold_right sinsert [] l).
Proof. exact fold_sinsert_sorted. Qed.
Print Assumptions C02_sinsert_keeps_sorted.

Theorem C02_order_new_tree : forall name ic trace, tree_order_ok (new_tree name ic trace).
Proof. exact order_new_tree. Qed.
Print Assumptions C02_order_new_tree.

Theorem C02_order_add : forall t p h mws ms t', tree_order_ok t ->
  tree_add t p h mws ms = Ok t' -> tree_order_ok t'.
Proof. exact order_add. Qed.
Print Assumptions C02_order_add.

Theorem C02_order_remove : forall t p ms t', tree_order_ok t ->
  tree_remove t p ms = Ok t' -> tree_order_ok t'.
Proof. exact order_remove. Qed.
Print Assumptions C02_order_remove.

Theorem C02_order_clean : forall t prefix t', tree_order_ok t ->
  tree_clean t prefix = Ok t' -> tree_order_ok t'.
Proof. exact order_clean. Qed.
Print Assumptions C02_order_clean.

Theorem C02_order_use : forall t mws, tree_order_ok t -> tree_order_ok (tree_apply_mw t mws).
Proof. exact order_use. Qed.
Print Assumptions C02_order_use.

Theorem C02_order_reachable : forall name ic trace hist,
  tree_order_ok (fold_left tstep hist (new_tree name ic trace)).
Proof. exact order_reachable. Qed.
Print Assumptions C02_order_reachable.

Theorem C02_literal_children_first : forall n, order_ok n -> forall i j a b, (i < j)%nat ->
  nth_error (nchildren n) i = Some a -> nth_error (nchildren n) j = Some b ->
  is_lit b = true -> is_lit a = true.
Proof. exact literal_children_first. Qed.
Print Assumptions C02_literal_children_first.

Theorem C01_idx_lit_of_order : forall n, order_ok n -> idx_lit n.
Proof. exact order_ok_idx_lit. Qed.
Print Assumptions C01_idx_lit_of_order.

Theorem C01_idx_lit_reachable : forall name ic trace hist,
  all_nodes idx_lit (troot (fold_left tstep hist (new_tree name ic trace))).
Proof. exact idx_lit_reachable. Qed.
Print Assumptions C01_idx_lit_reachable.
