(* C03 - the abstract table: removal, Clean, Handle and Use touch exactly what they should. Theorems only. *)
From Coq Require Import String.
From Mux Require Import Model.Bytes Model.Tree Spec.Table Proofs.Misc4.

Theorem C03_remove_frame : forall t p ms q, beqb q p = false -> alookup q (t_remove t p ms) = alookup q t.
Proof. exact C03_remove_frame_l. Qed.
Print Assumptions C03_remove_frame.

Theorem C03_remove_all : forall t p, alookup p (t_remove t p []) = None.
Proof. exact C03_remove_all_l. Qed.
Print Assumptions C03_remove_all.

Theorem C03_clean_exact : forall t prefix q e,
    In (q, e) (t_clean t prefix) <-> In (q, e) t /\ has_prefix q prefix = false.
Proof. exact C03_clean_exact_l. Qed.
Print Assumptions C03_clean_exact.

Theorem C03_handle_frame : forall c t p h mws ms q,
    beqb q p = false -> alookup q (t_handle c t p h mws ms) = alookup q t.
Proof. exact C03_handle_frame_l. Qed.
Print Assumptions C03_handle_frame.

Theorem C03_use_keeps_routes : forall c t mws, map fst (t_use c t mws) = map fst t /\
    forall p e, In (p, e) (t_use c t mws) -> exists e0, In (p, e0) t /\ map fst e = map fst e0.
Proof. exact C03_use_keeps_routes_l. Qed.
Print Assumptions C03_use_keeps_routes.
