(* C14 "Hosts.Match accepts a request iff its Host, lower-cased and stripped of a valid ':port' and of
   IPv6 brackets, resolves under the route-resolution rules of C02 against the domain patterns currently
   registered, and it reports exactly that pattern's parameters.  Add and Delete treat domain names
   case-insensitively; Delete removes exactly the named domain and leaves every other domain matching
   as before."
   Theorems only (definitions and proofs: Proofs/HostsResolve.v; histories [hop] = HAdd / HDel / HReg and
   [hosts_reach] are those of Proofs/HostsTree.v, Props/C14tree.v).

   VOCABULARY
   - [regs_first hist]: every RegisterInterceptor comes before the first Add / Delete
     (C14_regs_first_spec).  [hist_ic hist] is the interceptor table the registrations build
     (C14_hist_ic_reg; it IS the table of the tree, C14_hist_ic_is_tic), [hist_ops hist] the tree
     operations the Adds / Deletes are (C14_hist_ops_cons: lower-cased domain, handler HUser "",
     no middleware, methods [GET]; Delete removes every method).
   - [hosts_tokens hist] / [hosts_canonb hist]: every added domain (lower-cased) is accepted by the
     specification's tokenizer / spells no empty rule "{x:}" (C14_hosts_tokens_spec, _canonb_spec).
   - [hosts_answer t host] = Some (domain pattern of the answering node, parameters)
     (C14_hosts_answer_spec); Hosts.Match accepts with ps iff it is Some (_, ps) (C14_match_answer).
   - [hosts_domains hist]: the keys of the table the test oracle keeps (entered when Add accepted,
     removed by Delete); tree-free characterisation C14_hosts_domains_spec ([added_live]: accepted by
     some Add, in any spelling, and named by no later Delete); it is the set of patterns of the
     nodes with handlers (C14_hosts_domain_node) and the first column of [hosts_table hist], the
     table (pattern, tokens) the resolver of Spec/Resolve.v runs on (C14_hosts_table_spec).
   - [special h]: h = "" or h = "*".

   BRIDGE (C14_hosts_bridge).  For [regs_first] histories the Hosts tree IS the router tree of the
   translated history from new_tree "host" (hist_ic hist) true (NewHosts registers a TRACE handler:
   hasTrace = true; invisible to Match, which asks for GET).  A registration made AFTER an Add is
   outside: the earlier domain keeps the meaning its rule had when it was added
   (C14_hosts_bridge_refuted, C14_bridge_counterexample: "{x:digit}.com" added while "digit" is no
   interceptor stays the regular expression "digit").  All theorems below are for [regs_first]
   histories.

   WHAT DIFFERS FROM THE INFORMAL STATEMENT
   - The hosts "" and "*" are always rejected (C14_hosts_special_rejected, every history) although the
     documented procedure resolves them when a domain "*" / a one-parameter domain is registered:
     the refinement without the carve-out is false (C14_hosts_resolver_unrestricted_refuted), and a
     live domain "*" does not accept the host "*" (hypothesis [wpath chain <> "*"] / [d <> "*"] in
     the served theorems).
   - The refinement needs the guards of C02_tree_refines_resolver_canon: add-only, tokenisable and
     canonically spelled domains.  The incoming parameters are [] (as in the C02 / C03 theorems).
   - A live domain is served by SOME live domain (C14_hosts_live_served); by itself when no earlier
     parameter sibling accepts the text (C14_hosts_live_served_exact), cf. C03_simple_witness_*. *)
From Coq Require Import String Permutation.
From Mux Require Import Model.Bytes Model.Regex Model.Context Model.Syntax Model.Tree Model.Match
     Spec.Table Spec.Resolve
     Proofs.MatchSound Proofs.TreeSafe Proofs.TokensSplit Proofs.TreeNames Proofs.TreeLit Proofs.TreeWitness
     Proofs.TreeAbs Proofs.TreeResolve2 Proofs.HostsTree Proofs.HostsResolve Proofs.HostsRestore.

(* ================================================================ the definitions, spelled out *)
Theorem C14_hist_ops_cons : forall op hist, hist_ops (op :: hist) =
  (match op with
   | HAdd d => [OAdd (to_lower d) (HUser []) [] [GET]]
   | HDel d => [ORemove (to_lower d) []]
   | HReg _ _ => []
   end ++ hist_ops hist)%list.
Proof. exact hist_ops_cons. Qed.
Print Assumptions C14_hist_ops_cons.

Theorem C14_hist_ic_reg : forall hist rule f,
  hist_ic (hist ++ [HReg rule f]) = (rule, f) :: adelete rule (hist_ic hist).
Proof. exact hist_ic_reg. Qed.
Print Assumptions C14_hist_ic_reg.

Theorem C14_hist_ic_other : forall hist op, is_reg op = false -> hist_ic (hist ++ [op]) = hist_ic hist.
Proof. exact hist_ic_snoc. Qed.
Print Assumptions C14_hist_ic_other.

(* for EVERY history (registrations anywhere) *)
Theorem C14_hist_ic_is_tic : forall hist, tic (hosts_reach hist) = hist_ic hist.
Proof. exact hist_ic_is_tic. Qed.
Print Assumptions C14_hist_ic_is_tic.

Theorem C14_regs_first_spec : forall hist, regs_first hist = true <->
  exists regs ops, hist = (regs ++ ops)%list /\ forallb is_reg regs = true /\ no_reg ops = true.
Proof. exact regs_first_spec. Qed.
Print Assumptions C14_regs_first_spec.

Theorem C14_hosts_tokens_spec : forall hist, hosts_tokens hist = true <->
  forall d, In (HAdd d) hist -> exists ts, tokens (to_lower d) = Some ts.
Proof. exact hosts_tokens_spec. Qed.
Print Assumptions C14_hosts_tokens_spec.

Theorem C14_hosts_canonb_spec : forall hist, hosts_canonb hist = true <->
  forall d, In (HAdd d) hist -> colon_ok 0 (to_lower d) = true.
Proof. exact hosts_canonb_spec. Qed.
Print Assumptions C14_hosts_canonb_spec.

Theorem C14_hosts_answer_spec : forall t host dom ps, hosts_answer t host = Some (dom, ps) <->
  exists n h, tree_handler t GET (normalise_host host) [] = HFound true (Some n) h ps /\ npat n = dom.
Proof. exact hosts_answer_spec. Qed.
Print Assumptions C14_hosts_answer_spec.

Theorem C14_match_answer : forall t host ps,
  hosts_match t host [] = Some (true, ps) <-> exists dom, hosts_answer t host = Some (dom, ps).
Proof. exact hosts_match_answer_r. Qed.
Print Assumptions C14_match_answer.

Theorem C14_match_reject : forall t host, tree_safe t ->
  (exists ps, hosts_match t host [] = Some (false, ps)) <-> hosts_answer t host = None.
Proof. exact hosts_match_reject_r. Qed.
Print Assumptions C14_match_reject.

(* ================================================================ 1. the bridge *)
Theorem C14_hosts_bridge : forall hist, regs_first hist = true ->
  hosts_reach hist = fold_left tstep (hist_ops hist) (new_tree (bs "host") (hist_ic hist) true).
Proof. exact hosts_bridge. Qed.
Print Assumptions C14_hosts_bridge.

Theorem C14_hosts_bridge_refuted :
  ~ (forall hist, hosts_reach hist = fold_left tstep (hist_ops hist) (new_tree (bs "host") (hist_ic hist) true)).
Proof. exact hosts_bridge_refuted. Qed.
Print Assumptions C14_hosts_bridge_refuted.

Theorem C14_bridge_counterexample :
  regs_first cx_bridge_hist = false /\
  hosts_match (hosts_reach cx_bridge_hist) (bs "digit.com") [] = Some (true, [(bs "x", bs "digit")]) /\
  hosts_match (hosts_reach cx_bridge_hist) (bs "5.com") [] = Some (false, []) /\
  let t := fold_left tstep (hist_ops cx_bridge_hist) (new_tree (bs "host") (hist_ic cx_bridge_hist) true) in
  hosts_match t (bs "digit.com") [] = Some (false, []) /\
  hosts_match t (bs "5.com") [] = Some (true, [(bs "x", bs "5")]).
Proof. exact cx_bridge_facts_r. Qed.
Print Assumptions C14_bridge_counterexample.

(* ================================================================ the registered domains *)
Theorem C14_hosts_domains_spec : forall hist d, regs_first hist = true ->
  (In d (hosts_domains hist) <->
   exists pre d0 post, hist = (pre ++ HAdd d0 :: post)%list /\ to_lower d0 = d /\
     (exists t', hosts_add (hosts_reach pre) d0 = Ok t') /\
     (forall d1, In (HDel d1) post -> to_lower d1 <> d)).
Proof. exact hosts_domains_spec. Qed.
Print Assumptions C14_hosts_domains_spec.

Theorem C14_hosts_domain_node : forall hist d, regs_first hist = true -> hosts_tokens hist = true ->
  (In d (hosts_domains hist) <->
   exists n, desc (troot (hosts_reach hist)) n /\ npat n = d /\ nhandlers n <> []).
Proof. exact hosts_domain_node. Qed.
Print Assumptions C14_hosts_domain_node.

Theorem C14_hosts_table_spec : forall hist d ts, regs_first hist = true -> hosts_tokens hist = true ->
  (In (d, ts) (hosts_table hist) <-> In d (hosts_domains hist) /\ tokens d = Some ts).
Proof. exact hosts_table_spec. Qed.
Print Assumptions C14_hosts_table_spec.

Theorem C14_hosts_tables_agree : forall hist d, regs_first hist = true -> hosts_tokens hist = true ->
  (In d (map fst (hosts_table hist)) <-> In d (hosts_domains hist)).
Proof. exact hosts_tables_agree. Qed.
Print Assumptions C14_hosts_tables_agree.

Theorem C14_hosts_domain_nonempty : forall hist d, regs_first hist = true -> In d (hosts_domains hist) -> d <> [].
Proof. exact hosts_domain_nonempty. Qed.
Print Assumptions C14_hosts_domain_nonempty.

(* Delete takes exactly the named domain (in any spelling: to_lower) out of the table *)
Theorem C14_hosts_domains_delete : forall hist d x, regs_first hist = true ->
  (In x (hosts_domains (hist ++ [HDel d])) <-> x <> to_lower d /\ In x (hosts_domains hist)).
Proof. exact hosts_domains_delete. Qed.
Print Assumptions C14_hosts_domains_delete.

(* ================================================================ "" and "*" *)
(* [ctx_nodup ps]: the incoming context is a map (no key twice), which Hosts.Match rebuilds key by key *)
Theorem C14_hosts_special_rejected : forall hist host ps, ctx_nodup ps -> special (normalise_host host) ->
  hosts_match (hosts_reach hist) host ps = Some (false, ps).
Proof. exact hosts_special_rejected_r. Qed.
Print Assumptions C14_hosts_special_rejected.

(* everything Hosts.Match can do on a reachable tree (every history) *)
Theorem C14_hosts_match_cases : forall hist host,
  let t := hosts_reach hist in
  let host' := normalise_host host in
  (special host' /\ hosts_match t host [] = Some (false, []) /\ hosts_answer t host = None) \/
  (~ special host' /\
   ((exists n h ps, tree_handler t GET host' [] = HFound true (Some n) h ps /\
                    desc (troot t) n /\ nhandlers n <> [] /\
                    hosts_match t host [] = Some (true, ps) /\ hosts_answer t host = Some (npat n, ps)) \/
    (exists h, tree_handler t GET host' [] = HFound false None h [] /\
               hosts_match t host [] = Some (false, []) /\ hosts_answer t host = None))).
Proof. exact hosts_match_cases_r. Qed.
Print Assumptions C14_hosts_match_cases.

(* ================================================================ 2. refinement to the documented resolver *)
Theorem C14_hosts_refines_resolver : forall hist host,
  regs_first hist = true -> no_del hist = true -> hosts_tokens hist = true -> hosts_canonb hist = true ->
  let host' := normalise_host host in
  match hosts_match (hosts_reach hist) host [] with
  | Some (true, ps) => ~ special host' /\
      exists d, In d (hosts_domains hist) /\ In (d, ps) (resolve (hist_ic hist) (hosts_table hist) host')
  | Some (false, ps) => ps = [] /\ (special host' \/ resolve (hist_ic hist) (hosts_table hist) host' = [])
  | None => False
  end.
Proof. exact hosts_refines_resolver_r. Qed.
Print Assumptions C14_hosts_refines_resolver.

Theorem C14_hosts_refines_resolver_any_order : forall hist host table,
  regs_first hist = true -> no_del hist = true -> hosts_tokens hist = true -> hosts_canonb hist = true ->
  Permutation table (hosts_table hist) ->
  let host' := normalise_host host in
  match hosts_match (hosts_reach hist) host [] with
  | Some (true, ps) => ~ special host' /\
      exists d, In d (hosts_domains hist) /\ In (d, ps) (resolve (hist_ic hist) table host')
  | Some (false, ps) => ps = [] /\ (special host' \/ resolve (hist_ic hist) table host' = [])
  | None => False
  end.
Proof. exact hosts_refines_resolver_any_order_r. Qed.
Print Assumptions C14_hosts_refines_resolver_any_order.

Theorem C14_hosts_accepts_iff_resolves : forall hist host,
  regs_first hist = true -> no_del hist = true -> hosts_tokens hist = true -> hosts_canonb hist = true ->
  ~ special (normalise_host host) ->
  ((exists ps, hosts_match (hosts_reach hist) host [] = Some (true, ps)) <->
   resolve (hist_ic hist) (hosts_table hist) (normalise_host host) <> []).
Proof. exact hosts_accepts_iff_resolves_r. Qed.
Print Assumptions C14_hosts_accepts_iff_resolves.

Theorem C14_hosts_resolver_unrestricted_refuted :
  ~ (forall hist host ps,
       regs_first hist = true -> no_del hist = true -> hosts_tokens hist = true -> hosts_canonb hist = true ->
       hosts_match (hosts_reach hist) host [] = Some (false, ps) ->
       resolve (hist_ic hist) (hosts_table hist) (normalise_host host) = []).
Proof. exact hosts_resolver_unrestricted_refuted_r. Qed.
Print Assumptions C14_hosts_resolver_unrestricted_refuted.

Theorem C14_special_counterexample :
  regs_first cx_special_hist = true /\ no_del cx_special_hist = true /\
  hosts_tokens cx_special_hist = true /\ hosts_canonb cx_special_hist = true /\
  hosts_domains cx_special_hist = [bs "*"; bs "{any}"] /\
  hosts_match (hosts_reach cx_special_hist) (bs "*") [] = Some (false, []) /\
  hosts_match (hosts_reach cx_special_hist) [] [] = Some (false, []) /\
  resolve (hist_ic cx_special_hist) (hosts_table cx_special_hist) (normalise_host (bs "*")) = [(bs "*", [])] /\
  resolve (hist_ic cx_special_hist) (hosts_table cx_special_hist) (normalise_host []) = [(bs "{any}", [(bs "any", [])])].
Proof. exact cx_special_facts_r. Qed.
Print Assumptions C14_special_counterexample.

(* ================================================================ 3. Delete: frame and gone (histories with Deletes) *)
Theorem C14_hosts_delete_frame : forall hist d host,
  regs_first hist = true -> hosts_tokens hist = true ->
  let t := hosts_reach hist in
  let t' := hosts_reach (hist ++ [HDel d]) in
  (forall dom ps, hosts_answer t host = Some (dom, ps) -> dom <> to_lower d ->
     hosts_answer t' host = Some (dom, ps) /\ hosts_match t' host [] = Some (true, ps)) /\
  (forall ps, hosts_match t host [] = Some (false, ps) -> hosts_match t' host [] = Some (false, ps)).
Proof. exact hosts_delete_frame_r. Qed.
Print Assumptions C14_hosts_delete_frame.

Theorem C14_hosts_deleted_gone : forall hist d host dom ps,
  regs_first hist = true -> hosts_tokens hist = true ->
  hosts_answer (hosts_reach (hist ++ [HDel d])) host = Some (dom, ps) -> dom <> to_lower d.
Proof. exact hosts_deleted_gone. Qed.
Print Assumptions C14_hosts_deleted_gone.

Theorem C14_hosts_deleted_gone_ci : forall hist d d' host dom ps,
  regs_first hist = true -> hosts_tokens hist = true -> to_lower d = to_lower d' ->
  hosts_answer (hosts_reach (hist ++ [HDel d])) host = Some (dom, ps) -> dom <> to_lower d'.
Proof. exact hosts_deleted_gone_ci. Qed.
Print Assumptions C14_hosts_deleted_gone_ci.

(* ================================================================ 4. soundness (histories with Deletes) *)
(* [value_ok (c, v)]: at a parameter node the value is accepted by the node's constraint *)
Theorem C14_value_ok_spec : forall c v, value_ok (c, v) <-> (isparam (nseg c) = true -> smatch (nseg c) v = true).
Proof. exact value_ok_spec. Qed.
Print Assumptions C14_value_ok_spec.

Theorem C14_hosts_sound : forall hist host dom ps,
  regs_first hist = true -> hosts_tokens hist = true ->
  hosts_answer (hosts_reach hist) host = Some (dom, ps) ->
  In dom (hosts_domains hist) /\ added_live hist dom /\
  exists chain n, chain_to (troot (hosts_reach hist)) chain n /\ npat n = dom /\
    dom = concat (map (fun cv => sval (nseg (fst cv))) chain) /\
    normalise_host host = wpath chain /\ ps = wparams chain [] /\ Forall value_ok chain /\
    Forall (fun cv => nbseg (hist_ic hist) (nseg (fst cv))) chain.
Proof. exact hosts_sound. Qed.
Print Assumptions C14_hosts_sound.

Theorem C14_hosts_sound_match : forall hist host ps,
  regs_first hist = true -> hosts_tokens hist = true ->
  hosts_match (hosts_reach hist) host [] = Some (true, ps) ->
  exists dom, In dom (hosts_domains hist) /\
  exists chain n, chain_to (troot (hosts_reach hist)) chain n /\ npat n = dom /\
    dom = concat (map (fun cv => sval (nseg (fst cv))) chain) /\
    normalise_host host = wpath chain /\ ps = wparams chain [] /\ Forall value_ok chain.
Proof. exact hosts_sound_match_r. Qed.
Print Assumptions C14_hosts_sound_match.

(* a walk of the tree is a chain (used for C14_hosts_sound; any tree) *)
Theorem C14_walk_is_chain : forall n path ps r ps', walk n path ps r ps' ->
  (forall d, desc n d -> seg_wf (nseg d)) ->
  (r = n /\ path = [] /\ ps' = ps) \/
  exists chain, chain_to n chain r /\ path = wpath chain /\ ps' = wparams chain ps /\ Forall value_ok chain.
Proof. exact walk_chain. Qed.
Print Assumptions C14_walk_is_chain.

Theorem C14_chain_pattern : forall m chain n, chain_to m chain n -> all_nodes TreeText.pat_ok m ->
  npat n = npat m ++ concat (map (fun cv => sval (nseg (fst cv))) chain).
Proof. exact chain_pattern. Qed.
Print Assumptions C14_chain_pattern.

(* ================================================================ 5. live domains are served (histories with Deletes) *)
Theorem C14_hosts_live_served : forall hist chain n host,
  regs_first hist = true -> hosts_tokens hist = true ->
  let t := hosts_reach hist in
  chain_to (troot t) chain n -> In (npat n) (hosts_domains hist) -> simple t chain ->
  normalise_host host = wpath chain -> wpath chain <> bs "*" ->
  exists dom ps, hosts_answer t host = Some (dom, ps) /\ hosts_match t host [] = Some (true, ps) /\
                 In dom (hosts_domains hist).
Proof. exact hosts_live_served_r. Qed.
Print Assumptions C14_hosts_live_served.

Theorem C14_hosts_live_served_exact : forall hist chain n host,
  regs_first hist = true -> hosts_tokens hist = true ->
  let t := hosts_reach hist in
  chain_to (troot t) chain n -> In (npat n) (hosts_domains hist) -> simple t chain -> first_at (troot t) chain ->
  normalise_host host = wpath chain -> wpath chain <> bs "*" ->
  hosts_answer t host = Some (npat n, wparams chain []) /\
  hosts_match t host [] = Some (true, wparams chain []).
Proof. exact hosts_live_served_exact_r. Qed.
Print Assumptions C14_hosts_live_served_exact.

Theorem C14_hosts_literal_served : forall hist d n host,
  regs_first hist = true -> hosts_tokens hist = true ->
  let t := hosts_reach hist in
  desc (troot t) n -> npat n = d -> In d (hosts_domains hist) -> no_brace d -> d <> bs "*" ->
  no_empty_param n -> normalise_host host = d ->
  hosts_answer t host = Some (d, []) /\ hosts_match t host [] = Some (true, []).
Proof. exact hosts_literal_served_r. Qed.
Print Assumptions C14_hosts_literal_served.

(* every node below the root ends a chain, with any choice of values: the theorems are not vacuous *)
Theorem C14_desc_chain : forall (val : node -> bytes) m n, desc m n ->
  exists chain, chain_to m chain n /\ forall c v, In (c, v) chain -> v = val c.
Proof. exact desc_chain. Qed.
Print Assumptions C14_desc_chain.

(* ================================================================ examples *)
(* two interceptors registered first, eight literal domains, "{sub}.example.com", "{id:\d+}.example.com",
   "{n:digit}.shard.example.com", "{Tenant}.{region:word}.cloud.example.com", upper-case spellings
   in Add ("Example.com", "WWW.example.com") and Delete ("WWW.Example.COM") *)
Theorem C14_example_premises :
  regs_first exr_adds = true /\ no_del exr_adds = true /\ hosts_tokens exr_adds = true /\
  hosts_canonb exr_adds = true /\ regs_first exr_hist = true /\ hosts_tokens exr_hist = true /\
  no_del exr_hist = false /\
  length (hist_ic exr_adds) = 2%nat /\ length (nindexes (troot (hosts_reach exr_adds))) = 7%nat /\
  length (nchildren (troot (hosts_reach exr_adds))) = 11%nat.
Proof. exact exr_premises. Qed.
Print Assumptions C14_example_premises.

Theorem C14_example_domains :
  hosts_domains exr_adds =
    map bs ["example.com"; "api.example.com"; "www.example.com"; "static.example.com"; "admin.example.org";
            "localhost"; "blog.example.net"; "::1"; "{sub}.example.com"; "{id:\d+}.example.com";
            "{n:digit}.shard.example.com"; "{tenant}.{region:word}.cloud.example.com"]%string /\
  hosts_domains exr_hist =
    map bs ["example.com"; "api.example.com"; "static.example.com"; "admin.example.org";
            "localhost"; "blog.example.net"; "::1"; "{sub}.example.com"; "{id:\d+}.example.com";
            "{n:digit}.shard.example.com"; "{tenant}.{region:word}.cloud.example.com"]%string /\
  length (hosts_table exr_adds) = 12%nat.
Proof. exact exr_domains. Qed.
Print Assumptions C14_example_domains.

Theorem C14_example_answers_before :
  map (hosts_answer (hosts_reach exr_adds)) exr_hosts =
  [exr_some "example.com" []; exr_some "example.com" []; exr_some "api.example.com" [];
   exr_some "www.example.com" []; exr_some "www.example.com" [];
   exr_some "{sub}.example.com" [("sub", "x")]; exr_some "{id:\d+}.example.com" [("id", "42")];
   exr_some "{n:digit}.shard.example.com" [("n", "7")]; exr_some "{sub}.example.com" [("sub", "a7.shard")];
   exr_some "{sub}.example.com" [("sub", "acme.eu.cloud")];
   exr_some "::1" []; exr_some "::1" []; None; None; None; None; exr_some "admin.example.org" []]%string.
Proof. exact exr_answers_before. Qed.
Print Assumptions C14_example_answers_before.

Theorem C14_example_answers_after :
  map (hosts_answer (hosts_reach exr_hist)) exr_hosts =
  [exr_some "example.com" []; exr_some "example.com" []; exr_some "api.example.com" [];
   exr_some "{sub}.example.com" [("sub", "www")]; exr_some "{sub}.example.com" [("sub", "www")];
   exr_some "{sub}.example.com" [("sub", "x")]; exr_some "{id:\d+}.example.com" [("id", "42")];
   exr_some "{n:digit}.shard.example.com" [("n", "7")]; exr_some "{sub}.example.com" [("sub", "a7.shard")];
   exr_some "{sub}.example.com" [("sub", "acme.eu.cloud")];
   exr_some "::1" []; exr_some "::1" []; None; None; None; None; exr_some "admin.example.org" []]%string.
Proof. exact exr_answers_after. Qed.
Print Assumptions C14_example_answers_after.

Theorem C14_example_agrees_with_resolver : forallb (exr_agree exr_adds) exr_hosts = true.
Proof. exact exr_all_agree. Qed.
Print Assumptions C14_example_agrees_with_resolver.

Theorem C14_example_either_may_win :
  map fst (resolve (hist_ic exr_adds) (hosts_table exr_adds) (bs "acme.eu.cloud.example.com")) =
    [bs "{sub}.example.com"; bs "{tenant}.{region:word}.cloud.example.com"] /\
  hosts_match (hosts_reach exr_adds) (bs "Acme.EU.cloud.example.com:8443") [] =
    Some (true, [(bs "sub", bs "acme.eu.cloud")]).
Proof. exact exr_either_may_win_r. Qed.
Print Assumptions C14_example_either_may_win.

Theorem C14_example_frame : forall host dom ps,
  hosts_answer (hosts_reach exr_adds) host = Some (dom, ps) -> dom <> bs "www.example.com" ->
  hosts_match (hosts_reach exr_hist) host [] = Some (true, ps).
Proof. exact exr_frame_r. Qed.
Print Assumptions C14_example_frame.

Theorem C14_example_gone : forall host dom ps,
  hosts_answer (hosts_reach exr_hist) host = Some (dom, ps) -> dom <> bs "www.example.com".
Proof. exact exr_gone. Qed.
Print Assumptions C14_example_gone.

Theorem C14_example_chain_texts :
  wpath exr_ch_sub = bs "zz.example.com" /\ wparams exr_ch_sub [] = [(bs "sub", bs "zz")] /\
  npat exr_sub = bs "{sub}.example.com" /\
  wpath exr_ch_region = bs "qq.zz.cloud.example.com" /\
  wparams exr_ch_region [] = [(bs "tenant", bs "qq"); (bs "region", bs "zz")] /\
  npat exr_region = bs "{tenant}.{region:word}.cloud.example.com" /\
  npat exr_api = bs "api.example.com".
Proof. exact exr_chain_texts. Qed.
Print Assumptions C14_example_chain_texts.

Theorem C14_example_chain_premises :
  chain_to (troot (hosts_reach exr_hist)) exr_ch_sub exr_sub /\ In (npat exr_sub) (hosts_domains exr_hist) /\
  simple (hosts_reach exr_hist) exr_ch_sub /\ first_at (troot (hosts_reach exr_hist)) exr_ch_sub /\
  chain_to (troot (hosts_reach exr_hist)) exr_ch_region exr_region /\ In (npat exr_region) (hosts_domains exr_hist) /\
  simple (hosts_reach exr_hist) exr_ch_region /\
  desc (troot (hosts_reach exr_hist)) exr_api /\ In (npat exr_api) (hosts_domains exr_hist) /\ no_brace (npat exr_api) /\
  no_empty_param exr_api.
Proof. exact exr_chain_premises. Qed.
Print Assumptions C14_example_chain_premises.

Theorem C14_example_served :
  hosts_match (hosts_reach exr_hist) (bs "ZZ.Example.com:8080") [] = Some (true, [(bs "sub", bs "zz")]) /\
  (exists dom ps, hosts_answer (hosts_reach exr_hist) (bs "qq.zz.cloud.example.com") = Some (dom, ps) /\
                  In dom (hosts_domains exr_hist)) /\
  hosts_match (hosts_reach exr_hist) (bs "API.example.com") [] = Some (true, []).
Proof. exact exr_served_r. Qed.
Print Assumptions C14_example_served.
