(* C02 "literal text is tried before parameters" / C03 "every live route still serves the requests
   built from its pattern", for LITERAL (brace-free) routes, on every tree reached by a history of
   registrations, removals, cleans and middleware applications whose registered patterns are accepted
   by the specification's tokenizer ([hist_tokens], Proofs/TokensSplit.v).
   Theorems only (proofs: Proofs/TreeLit.v).
   - Guard: [hist_tokens] is needed; under the weaker [hist_wf] of Proofs/TreeNames.v the first
     statement is FALSE (C02_lit_first_distinct_hist_wf_refuted: "/x{a" and "/x{b").
   - C03_literal_route_served as first stated is FALSE (C03_literal_route_served_refuted: with "/a"
     and "/a{id}" registered, GET "/a" is answered by "/a{id}" with id = ""); it holds when no
     parameter child of the route's node accepts the empty rest ([no_empty_param]), and then the
     answering node is the route's node itself (C03_literal_route_method); without the proviso the
     request is still never a 404 and is answered from the route's node or below it
     (C03_literal_route_not_404). *)
From Coq Require Import String.
From Mux Require Import Model.Bytes Model.Regex Model.Context Model.Syntax Model.Tree
     Proofs.MatchSound Proofs.TreeSafe Proofs.TreeOrder Proofs.MatchOrder Proofs.TreeNames
     Proofs.TokensSplit Proofs.TreeLit.

(* ================================================================ Part 1 : first bytes *)
Theorem C02_lit_first_distinct_reachable : forall name ic trace hist, hist_tokens hist = true ->
  all_nodes lit_first_distinct (troot (fold_left tstep hist (new_tree name ic trace))).
Proof. exact lit_first_distinct_reachable. Qed.
Print Assumptions C02_lit_first_distinct_reachable.

Theorem C02_lit_first_distinct_hist_wf_refuted :
  ~ (forall name ic trace hist, hist_wf hist = true ->
       all_nodes lit_first_distinct (troot (fold_left tstep hist (new_tree name ic trace)))).
Proof. exact lfd_hist_wf_refuted. Qed.
Print Assumptions C02_lit_first_distinct_hist_wf_refuted.

Theorem C02_hist_wf_counterexample :
  hist_wf cx_wf_hist = true /\ hist_tokens cx_wf_hist = false /\
  all_accepted (new_tree (bs "r") [] false) cx_wf_hist = true /\
  map (fun c => (sval (nseg c), map (fun d => sval (nseg d)) (nchildren c))) (nchildren (troot cx_wf_tree)) =
    [(bs "/x", [bs "{a"; bs "{b"])].
Proof. exact cx_wf_hist_facts. Qed.
Print Assumptions C02_hist_wf_counterexample.

(* ================================================================ Part 2 : the index is exact *)
Theorem C02_idx_complete_reachable : forall name ic trace hist, hist_tokens hist = true ->
  all_nodes idx_complete (troot (fold_left tstep hist (new_tree name ic trace))) /\
  all_nodes lit_nonempty (troot (fold_left tstep hist (new_tree name ic trace))) /\
  all_nodes idx_exact (troot (fold_left tstep hist (new_tree name ic trace))).
Proof. exact idx_complete_reachable. Qed.
Print Assumptions C02_idx_complete_reachable.

Theorem C02_idx_exact_complete : forall n, idx_exact n -> idx_complete n.
Proof. exact idx_exact_complete. Qed.
Print Assumptions C02_idx_exact_complete.

(* every label of a reachable tree is non-empty; a literal label has no brace, a parameter label
   is one token followed by brace-free text; the first bytes of the literal children are distinct *)
Theorem C02_labels_reachable : forall name ic trace hist, hist_tokens hist = true ->
  all_nodes (good ic) (troot (fold_left tstep hist (new_tree name ic trace))).
Proof. exact lit_reachable. Qed.
Print Assumptions C02_labels_reachable.

(* one step of the search: the literal child spelling the next part of the path wins *)
Theorem C02_literal_child_wins : forall ic f m c rest r q, good ic m -> order_ok m ->
  In c (nchildren m) -> is_lit c = true -> match_children f c rest [] = MFound r q ->
  match_children (S f) m (sval (nseg c) ++ rest) [] = MFound r q.
Proof. exact lit_step. Qed.
Print Assumptions C02_literal_child_wins.

(* ================================================================ Part 3 : a literal route is served *)
Theorem C03_literal_route_served_partial : forall name ic trace hist p n method,
  hist_tokens hist = true ->
  let t := fold_left tstep hist (new_tree name ic trace) in
  desc (troot t) n -> npat n = p -> nhandlers n <> [] -> (forall c, In c p -> c <> 123 /\ c <> 125) ->
  p <> [] -> p <> bs "*" -> (ttrace t = None \/ method <> TRACE) ->
  (forall c, In c (nchildren n) -> is_lit c = true \/ seg_match (nseg c) [] [] = None) ->
  exists ok n' h ps, tree_handler t method p [] = HFound ok (Some n') h ps /\ npat n' = p /\
    nhandlers n' <> [] /\ ps = [].
Proof. exact literal_route_served_partial. Qed.
Print Assumptions C03_literal_route_served_partial.

Theorem C03_literal_route_served_refuted :
  ~ (forall name ic trace hist p n method, hist_tokens hist = true ->
       let t := fold_left tstep hist (new_tree name ic trace) in
       desc (troot t) n -> npat n = p -> nhandlers n <> [] -> (forall c, In c p -> c <> 123 /\ c <> 125) ->
       p <> [] -> p <> bs "*" -> (ttrace t = None \/ method <> TRACE) ->
       exists ok n' h ps, tree_handler t method p [] = HFound ok (Some n') h ps /\ npat n' = p /\
         nhandlers n' <> [] /\ ps = []).
Proof. exact literal_route_served_refuted. Qed.
Print Assumptions C03_literal_route_served_refuted.

Theorem C03_literal_route_counterexample :
  hist_tokens cx_served_hist = true /\
  all_accepted (new_tree (bs "r") [] false) cx_served_hist = true /\
  match tree_handler cx_served_tree GET (bs "/a") [] with
  | HFound true (Some n) (HUser u) ps => npat n = bs "/a{id}" /\ u = bs "/a{id}" /\ ps = [(bs "id", [])]
  | _ => False
  end.
Proof. exact cx_served_facts. Qed.
Print Assumptions C03_literal_route_counterexample.

(* method level: the route's own node answers, with the handler of the method (ok = true) or, when
   the method is not registered there, with the node's 405 handler (ok = false) *)
Theorem C03_literal_route_method : forall name ic trace hist p n method,
  hist_tokens hist = true ->
  let t := fold_left tstep hist (new_tree name ic trace) in
  desc (troot t) n -> npat n = p -> nhandlers n <> [] -> (forall c, In c p -> c <> 123 /\ c <> 125) ->
  p <> [] -> p <> bs "*" -> (ttrace t = None \/ method <> TRACE) ->
  (forall c, In c (nchildren n) -> is_lit c = true \/ seg_match (nseg c) [] [] = None) ->
  exists h405, alookup M405 (nhandlers n) = Some h405 /\
    tree_handler t method p [] =
    match lookup_handler method (nhandlers n) with
    | Some h => HFound true (Some n) h []
    | None => HFound false (Some n) h405 []
    end.
Proof. exact literal_route_method. Qed.
Print Assumptions C03_literal_route_method.

(* without the proviso: never a 404 *)
Theorem C03_literal_route_not_404 : forall name ic trace hist p n method,
  hist_tokens hist = true ->
  let t := fold_left tstep hist (new_tree name ic trace) in
  desc (troot t) n -> npat n = p -> nhandlers n <> [] -> (forall c, In c p -> c <> 123 /\ c <> 125) ->
  p <> [] -> p <> bs "*" -> (ttrace t = None \/ method <> TRACE) ->
  exists n' ps, (n' = n \/ desc n n') /\ nhandlers n' <> [] /\
    exists h405, alookup M405 (nhandlers n') = Some h405 /\
      tree_handler t method p [] =
      match lookup_handler method (nhandlers n') with
      | Some h => HFound true (Some n') h ps
      | None => HFound false (Some n') h405 ps
      end.
Proof. exact literal_route_not_404. Qed.
Print Assumptions C03_literal_route_not_404.

(* ================================================================ example *)
Theorem C03_literal_example_accepted : hist_tokens ex_lit_hist = true /\
  all_accepted (new_tree (bs "r") [] false) ex_lit_hist = true /\
  length (nindexes (kid 0 (troot ex_lit_tree))) = 4%nat.
Proof. exact ex_lit_accepted. Qed.
Print Assumptions C03_literal_example_accepted.

Theorem C03_literal_example_dispatch :
  tree_handler ex_lit_tree GET (bs "/ab/c") [] = HFound true (Some ex_node_abc) (HUser (bs "/ab/c")) [] /\
  tree_handler ex_lit_tree GET (bs "/e") [] = HFound true (Some ex_node_e) (HUser (bs "/e")) [] /\
  tree_handler ex_lit_tree POST (bs "/e") [] = HFound false (Some ex_node_e) HNotAllowed [] /\
  npat ex_node_abc = bs "/ab/c" /\ npat ex_node_e = bs "/e" /\
  match tree_handler ex_lit_tree GET (bs "/c") [] with
  | HFound true (Some n) _ ps => npat n = bs "/{id}" /\ ps = [(bs "id", bs "c")]
  | _ => False
  end.
Proof. exact ex_lit_dispatch. Qed.
Print Assumptions C03_literal_example_dispatch.

Theorem C03_literal_example_premises :
  desc (troot ex_lit_tree) ex_node_e /\ npat ex_node_e = bs "/e" /\ nhandlers ex_node_e <> [] /\
  no_brace (bs "/e") /\ no_empty_param ex_node_e /\
  desc (troot ex_lit_tree) ex_node_abc /\ npat ex_node_abc = bs "/ab/c" /\ nhandlers ex_node_abc <> [] /\
  no_brace (bs "/ab/c") /\ no_empty_param ex_node_abc.
Proof. exact ex_lit_premises. Qed.
Print Assumptions C03_literal_example_premises.

Theorem C03_literal_example_served :
  served ex_lit_tree GET (bs "/e") ex_node_e [] /\ served ex_lit_tree POST (bs "/ab/c") ex_node_abc [].
Proof. exact ex_lit_served. Qed.
Print Assumptions C03_literal_example_served.
