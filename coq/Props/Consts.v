(* The constants the model is written against are those of the CURRENT source
   (Gen/Consts.v is regenerated from /repo by tools/srcfacts on every run). *)
From Coq Require Import String List.
From Mux Require Import Model.Bytes Model.Syntax Model.Tree Gen.Consts.
Import ListNotations.

Fixpoint src_const (k : string) (l : list (string * string)) : option string :=
  match l with
  | [] => None
  | (k', v) :: l' => if String.eqb k k' then Some v else src_const k l'
  end.

(* the method list and its bit order (GET … OPTIONS; the last three are the automatic / reserved ones) *)
Theorem C04_methods_match_source : map bs src_methods = methods_list.
Proof. vm_compute. reflexivity. Qed.
Print Assumptions C04_methods_match_source.

Theorem C18_trace_is_the_third_last_method : nth_error (rev methods_list) 2 = Some TRACE /\ nth_error (rev (map bs src_methods)) 2 = Some TRACE.
Proof. vm_compute. split; reflexivity. Qed.
Print Assumptions C18_trace_is_the_third_last_method.

(* the threshold at which a node switches to its first-byte index *)
Theorem C05_index_threshold_matches_source :
  option_map bs (src_const "tree.indexesSize" src_consts) = Some (nat_to_dec indexes_size).
Proof. vm_compute. reflexivity. Qed.
Print Assumptions C05_index_threshold_matches_source.

(* the special bytes of the pattern syntax and the key of the 405 handler *)
Theorem C02_syntax_bytes_match_source :
  option_map bs (src_const "syntax.startByte" src_consts) = Some (N_to_dec 123) /\
  option_map bs (src_const "syntax.endByte" src_consts) = Some (N_to_dec 125) /\
  option_map bs (src_const "syntax.separatorByte" src_consts) = Some (N_to_dec 58) /\
  option_map bs (src_const "syntax.ignoreByte" src_consts) = Some (N_to_dec 45).
Proof. vm_compute. repeat split; reflexivity. Qed.
Print Assumptions C02_syntax_bytes_match_source.

Theorem C08_method_not_allowed_key_matches_source :
  src_const "tree.methodNotAllowed" src_consts = Some """"""%string /\ M405 = [].
Proof. vm_compute. split; reflexivity. Qed.
Print Assumptions C08_method_not_allowed_key_matches_source.
