(* C06: the lock protocol of internal/tree — generic theorems over Model/Conc.v. *)
From Coq Require Import String List Bool.
From Mux Require Import Model.Conc Proofs.Conc.
Import ListNotations.
Open Scope string_scope.
Open Scope list_scope.

Theorem C06_race_free : forall init s, well_started init -> reachable init s -> ~ race s.
Proof. exact race_free. Qed.
Print Assumptions C06_race_free.

Theorem C06_disc_app : forall a b h1 h2 h3,
  disc h1 a = Some h2 -> disc h2 b = Some h3 -> disc h1 (a ++ b) = Some h3.
Proof. exact disc_app. Qed.
Print Assumptions C06_disc_app.

Theorem C06_ok_concat : forall (l : list (list ev)),
  Forall (fun s => summary_ok s = true) l -> disc None (concat l) = Some None.
Proof. exact ok_concat. Qed.
Print Assumptions C06_ok_concat.

Theorem C06_well_started_of_summaries : forall (progs : list (list (list ev))),
  Forall (Forall (fun s => summary_ok s = true)) progs ->
  well_started (map (fun p => {| prog := concat p; held := None |}) progs).
Proof. exact well_started_of_summaries. Qed.
Print Assumptions C06_well_started_of_summaries.

Theorem C06_access_only_inside_region : forall es, disc None es <> None ->
  forall pre wr l post, es = pre ++ Acc wr l :: post ->
  exists m, disc None pre = Some (Some m) /\ (wr = true -> m = true).
Proof. exact access_only_inside_region. Qed.
Print Assumptions C06_access_only_inside_region.

(* the split-based exclusion invariant, on every reachable state *)
Theorem C06_reachable_exclusive : forall init s, well_started init -> reachable init s ->
  exclusive s /\ reader_excludes_writer s.
Proof. exact reachable_exclusive. Qed.
Print Assumptions C06_reachable_exclusive.

Theorem C06_example_well_started : well_started [ex_writer; ex_reader].
Proof. exact ex_well_started. Qed.
Print Assumptions C06_example_well_started.

Theorem C06_example_violation : disc None [Acc true "x"] = None.
Proof. exact ex_violation. Qed.
Print Assumptions C06_example_violation.
