(* C07 – instance isolation and the quiescent router, on the facts regenerated from the source. *)
From Coq Require Import String List Bool.
From Mux Require Import Model.Bytes Model.Context Model.Conc Proofs.Conc Proofs.ConcFacts Proofs.C20 Gen.LockFacts Gen.GlobalFacts.
Import ListNotations.
Open Scope string_scope.

(* every package-level variable of the library: constant after init, a sync.Pool, a mutex, or only touched under its mutex *)
Eval vm_compute in filter (fun g => negb (benign g)) globals.
Theorem C07_globals_benign : forallb benign globals = true.
Proof. vm_compute. reflexivity. Qed.
Print Assumptions C07_globals_benign.

(* the one piece of shared mutable state besides the pool: the memo of rendered method sets, under its own mutex everywhere *)
Theorem C07_memo_discipline : forallb (fun ns => summary_ok (project memo_lock memo_prot (snd ns))) summaries = true.
Proof. vm_compute. reflexivity. Qed.
Print Assumptions C07_memo_discipline.

(* serving never writes routing state: a router that is no longer modified is read-only *)
Theorem C07_quiescent_readonly : forallb readonly serve_entries = true.
Proof. vm_compute. reflexivity. Qed.
Print Assumptions C07_quiescent_readonly.

(* a context taken from the pool always starts empty, whatever was done to pooled contexts before *)
Theorem C07_pool_fresh : forall (s : cstate) (h : list cop), cur (cstep (fold_left cstep h s) CNew) = [].
Proof. exact pool_fresh. Qed.
Print Assumptions C07_pool_fresh.
