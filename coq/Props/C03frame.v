(* C03 (frame / non-interference): "removing or cleaning routes never changes the handling of a
   request that was previously dispatched to a different route or method" on every tree reached by
   a history of registrations, removals, cleans and middleware applications whose registered
   patterns are accepted by the specification's tokenizer ([hist_tokens], Proofs/TokensSplit.v).
   (The no-panic half of the property is Props/C05hist.v.)
   Theorems only (proofs: Proofs/TreeFrame.v).
   - "Same handling" = same ok flag, same handler term, same parameters, and an answering node
     with the same route pattern (the node VALUE differs in general: children / index of the image
     may have shrunk); the _handlers variants add that the answering node keeps its whole handler
     table.  For ok = false the handler term is the node's own 405 entry
     ([apply_mw HNotAllowed M405 pattern router mws], installed by add_methods): it does not embed
     the Allow list, so the statement holds for the full term.
   - C03_remove_frame_method: the hypothesis [npat n = p] is not used by the proof; the side
     conditions on the method are needed (C03_method_conditions_needed: removing GET also removes
     HEAD, and removing the last user method of a node also removes its automatic OPTIONS handler).
   - Clean takes no method list; C03_clean_frame_method is the case ok = true of C03_clean_frame.
   - A new invariant of reachable trees was needed and is proved over all histories
     (C03_index_sync_reachable): the first-byte index of every node IS [build_indexes] of its
     children; with it the indexed search equals the plain ordered scan (C03_indexed_search_is_scan). *)
From Coq Require Import String.
From Mux Require Import Model.Bytes Model.Regex Model.Context Model.Syntax Model.Tree
     Proofs.MatchSound Proofs.TreeSafe Proofs.TreeOrder Proofs.MatchOrder Proofs.TreeNames
     Proofs.TokensSplit Proofs.TreeLit Proofs.TreeFrame.

(* ================================================================ Remove *)
Theorem C03_remove_frame : forall name ic trace hist p ms method path ok n h ps t',
  hist_tokens hist = true ->
  let t := fold_left tstep hist (new_tree name ic trace) in
  tree_handler t method path [] = HFound ok (Some n) h ps ->
  npat n <> p ->
  tree_remove t p ms = Ok t' ->
  exists n', tree_handler t' method path [] = HFound ok (Some n') h ps /\ npat n' = npat n.
Proof. exact C03_remove_frame_l. Qed.
Print Assumptions C03_remove_frame.

Theorem C03_remove_frame_handlers : forall name ic trace hist p ms method path ok n h ps t',
  hist_tokens hist = true ->
  let t := fold_left tstep hist (new_tree name ic trace) in
  tree_handler t method path [] = HFound ok (Some n) h ps ->
  npat n <> p ->
  tree_remove t p ms = Ok t' ->
  exists n', tree_handler t' method path [] = HFound ok (Some n') h ps /\ npat n' = npat n /\
    nhandlers n' = nhandlers n.
Proof. exact C03_remove_frame_handlers_l. Qed.
Print Assumptions C03_remove_frame_handlers.

Theorem C03_remove_frame_method : forall name ic trace hist p ms method path n h ps t',
  hist_tokens hist = true ->
  let t := fold_left tstep hist (new_tree name ic trace) in
  tree_handler t method path [] = HFound true (Some n) h ps ->
  npat n = p ->
  ms <> [] -> ~ In method ms -> (In GET ms -> method <> HEAD) -> method <> OPTIONS ->
  tree_remove t p ms = Ok t' ->
  exists n', tree_handler t' method path [] = HFound true (Some n') h ps /\ npat n' = npat n.
Proof. exact C03_remove_frame_method_l. Qed.
Print Assumptions C03_remove_frame_method.

Theorem C03_remove_frame_404 : forall name ic trace hist p ms method path h ps t',
  hist_tokens hist = true ->
  let t := fold_left tstep hist (new_tree name ic trace) in
  tree_handler t method path [] = HFound false None h ps ->
  tree_remove t p ms = Ok t' ->
  tree_handler t' method path [] = HFound false None h ps.
Proof. exact C03_remove_frame_404_l. Qed.
Print Assumptions C03_remove_frame_404.

(* ================================================================ Clean *)
Theorem C03_clean_frame : forall name ic trace hist prefix method path ok n h ps t',
  hist_tokens hist = true ->
  let t := fold_left tstep hist (new_tree name ic trace) in
  tree_handler t method path [] = HFound ok (Some n) h ps ->
  has_prefix (npat n) prefix = false ->
  tree_clean t prefix = Ok t' ->
  exists n', tree_handler t' method path [] = HFound ok (Some n') h ps /\ npat n' = npat n.
Proof. exact C03_clean_frame_l. Qed.
Print Assumptions C03_clean_frame.

Theorem C03_clean_frame_handlers : forall name ic trace hist prefix method path ok n h ps t',
  hist_tokens hist = true ->
  let t := fold_left tstep hist (new_tree name ic trace) in
  tree_handler t method path [] = HFound ok (Some n) h ps ->
  has_prefix (npat n) prefix = false ->
  tree_clean t prefix = Ok t' ->
  exists n', tree_handler t' method path [] = HFound ok (Some n') h ps /\ npat n' = npat n /\
    nhandlers n' = nhandlers n.
Proof. exact C03_clean_frame_handlers_l. Qed.
Print Assumptions C03_clean_frame_handlers.

Theorem C03_clean_frame_method : forall name ic trace hist prefix method path n h ps t',
  hist_tokens hist = true ->
  let t := fold_left tstep hist (new_tree name ic trace) in
  tree_handler t method path [] = HFound true (Some n) h ps ->
  has_prefix (npat n) prefix = false ->
  tree_clean t prefix = Ok t' ->
  exists n', tree_handler t' method path [] = HFound true (Some n') h ps /\ npat n' = npat n.
Proof. exact C03_clean_frame_method_l. Qed.
Print Assumptions C03_clean_frame_method.

Theorem C03_clean_frame_404 : forall name ic trace hist prefix method path h ps t',
  hist_tokens hist = true ->
  let t := fold_left tstep hist (new_tree name ic trace) in
  tree_handler t method path [] = HFound false None h ps ->
  tree_clean t prefix = Ok t' ->
  tree_handler t' method path [] = HFound false None h ps.
Proof. exact C03_clean_frame_404_l. Qed.
Print Assumptions C03_clean_frame_404.

(* ================================================================ the invariant and the scan *)
Theorem C03_index_sync_reachable : forall name ic trace hist,
  all_nodes sync (troot (fold_left tstep hist (new_tree name ic trace))).
Proof. exact sync_reachable. Qed.
Print Assumptions C03_index_sync_reachable.

Theorem C03_reachable_invariants : forall name ic trace hist, hist_tokens hist = true ->
  INV ic (troot (fold_left tstep hist (new_tree name ic trace))).
Proof. exact reach_INV. Qed.
Print Assumptions C03_reachable_invariants.

Theorem C03_indexed_search_is_scan : forall ic f n path ps, INV ic n -> params_fresh n ps ->
  match_children (S f) n path ps = mc_loop f n path (nchildren n) ps.
Proof. exact mc_full. Qed.
Print Assumptions C03_indexed_search_is_scan.

(* the simulation behind the frame theorems *)
Theorem C03_shrink_simulation : forall (ic : icpts) (keep : node -> Prop)
    (hrel : node -> list (bytes * hterm) -> Prop),
  (forall x hs, hrel x hs -> nsize x = O -> hs = []) ->
  (forall x hs, hrel x hs -> keep x -> (0 < nsize x)%nat -> (0 < length hs)%nat) ->
  forall f f' n n' path ps, shr keep hrel n n' -> INV ic n -> INV ic n' -> params_fresh n ps ->
  (height n' <= f')%nat ->
  (forall q, match_children f n path ps = MNone q -> match_children f' n' path ps = MNone ps) /\
  (forall r q, match_children f n path ps = MFound r q -> keep r ->
     exists r', match_children f' n' path ps = MFound r' q /\ shr keep hrel r r').
Proof. exact sim. Qed.
Print Assumptions C03_shrink_simulation.

(* ================================================================ examples *)
Theorem C03_frame_example_accepted :
  hist_tokens ex_hist = true /\ all_accepted (new_tree (bs "r") [] true) ex_hist = true /\
  hist_tokens ex_hist4 = true /\ all_accepted (new_tree (bs "r") [] true) ex_hist4 = true /\
  length (nchildren (ex_slash (fold_left tstep ex_hist (new_tree (bs "r") [] true)))) = 7%nat /\
  length (nindexes (ex_slash (fold_left tstep ex_hist (new_tree (bs "r") [] true)))) = 6%nat /\
  length (nchildren (ex_slash ex_t1)) = 6%nat /\ length (nindexes (ex_slash ex_t1)) = 5%nat /\
  length (nchildren (ex_slash (fold_left tstep ex_hist4 (new_tree (bs "r") [] true)))) = 5%nat /\
  length (nindexes (ex_slash (fold_left tstep ex_hist4 (new_tree (bs "r") [] true)))) = 4%nat /\
  length (nchildren (ex_slash ex_t5)) = 4%nat /\ length (nindexes (ex_slash ex_t5)) = 0%nat.
Proof. exact ex_frame_accepted. Qed.
Print Assumptions C03_frame_example_accepted.

Theorem C03_frame_example_applied :
  (exists n', tree_handler ex_t1 GET (bs "/a/7/y") [] =
              HFound true (Some n') (HUser (bs "/a/{id}/y")) [(bs "id", bs "7")] /\ npat n' = bs "/a/{id}/y") /\
  (exists n', tree_handler ex_t1 PUT (bs "/b") [] = HFound false (Some n') HNotAllowed [] /\ npat n' = bs "/b") /\
  (exists n', tree_handler ex_t2 GET (bs "/b") [] = HFound true (Some n') (HUser (bs "/b")) [] /\ npat n' = bs "/b") /\
  tree_handler ex_t1 GET (bs "nope") [] = HFound false None HNotFound [] /\
  (exists n', tree_handler ex_t3 GET (bs "/q") [] =
              HFound true (Some n') (HUser (bs "/{id}")) [(bs "id", bs "q")] /\ npat n' = bs "/{id}") /\
  tree_handler ex_t3 GET (bs "nope") [] = HFound false None HNotFound [] /\
  (exists n', tree_handler ex_t5 GET (bs "/c/z") [] = HFound true (Some n') (HUser (bs "/c/z")) [] /\
              npat n' = bs "/c/z").
Proof. exact ex_frame_applied. Qed.
Print Assumptions C03_frame_example_applied.

Theorem C03_method_conditions_needed :
  let ex_t := fold_left tstep ex_hist (new_tree (bs "r") [] true) in
  (exists n, tree_handler ex_t HEAD (bs "/c") [] = HFound true (Some n) (HUser (bs "/c")) [] /\ npat n = bs "/c") /\
  match tree_remove ex_t (bs "/c") [GET] with
  | Ok t' => match tree_handler t' HEAD (bs "/c") [] with
             | HFound true (Some n) (HUser u) ps => npat n = bs "/{id}"
             | _ => False end
  | _ => False end /\
  (exists n, tree_handler ex_t OPTIONS (bs "/c") [] = HFound true (Some n) HOptions [] /\ npat n = bs "/c") /\
  match tree_remove ex_t (bs "/c") [GET] with
  | Ok t' => match tree_handler t' OPTIONS (bs "/c") [] with
             | HFound true (Some n) HOptions ps => npat n = bs "/{id}"
             | _ => False end
  | _ => False end.
Proof. exact ex_method_conditions_needed. Qed.
Print Assumptions C03_method_conditions_needed.
