(* C01, side condition H2 = [names_fresh_at] of C01_match_children_sound_partial /
   C01_dispatch_text_strong.  Theorems only; definitions (isparam, plain, tok1, tok_name, lab_ok,
   ext, fresh, tree_names_ok, piece_wf, pat_wf, op_wf, hist_wf, to_tt, the counterexample
   histories) and proofs are in Proofs/TreeNames.v; the history vocabulary (top, tstep) is the
   one of Proofs/TreeSafe.v.

   Statements that differ from the requested ones:
   - C01_names_fresh_reachable as requested,
         forall name ic trace hist,
           all_nodes names_fresh_at (troot (fold_left tstep hist (new_tree name ic trace))),
     is FALSE: C01_names_fresh_refuted.  History: Add "/x/{a{b}c/{b}" (parameters "a{b" and "b",
     accepted by Split), Add "/x/{a{b}d".  longest_prefix only remembers the last '{' it saw and
     reports the common prefix 2 for "{a{b}c/" and "{a{b}d"; the label is cut into the literal
     "{a" and the parameter label "{b}c/", whose name "b" is used again by the child "{b}".
   - Consequently C01_dispatch_text_unconditional (C01_dispatch_text_strong without its side
     conditions) is FALSE as well: C01_dispatch_text_unconditional_refuted, on the history
     cx_hist4 (four registrations, all accepted) the request "/x/{a1c/2/z" is served by the route
     "/x/{a{b}c/{k}" with the parameters {k} only: the "b" written by "{b}c/" was deleted when
     the sibling chain "{b}/" was abandoned.
   - What holds: C01_names_fresh_reachable_partial adds the hypothesis [hist_wf hist = true]
     (every registered pattern passes the decidable check [pat_wf]: no piece of split_string
     that starts with '{' contains a second '{'), and C01_dispatch_text_wf_partial is
     C01_dispatch_text_strong with both side conditions replaced by that hypothesis. *)
From Coq Require Import String.
From Mux Require Import Model.Bytes Model.Regex Model.Context Model.Syntax Model.Tree
  Proofs.MatchSound Proofs.TreeSafe Proofs.TreeNames.
From Mux Require Proofs.TreeText.

(* ---------------------------------------------------------------- text facts *)
Theorem C01_new_segment_name_of_token : forall ic v s e, new_segment ic v = Ok s ->
  index_byte v 123 = Some O -> index_byte v 125 = Some e ->
  sname s = tok_name (firstn e v) /\ (signore s = false -> sname s <> []).
Proof. exact new_segment_sname. Qed.
Print Assumptions C01_new_segment_name_of_token.

Theorem C01_longest_prefix_keeps_token : forall w v ew, tok1 w -> index_byte w 125 = Some ew ->
  index_byte v 123 = Some O -> In 125 v ->
  (longest_prefix w v <= 0)%Z \/ (Z.of_nat ew < longest_prefix w v)%Z.
Proof. exact longest_prefix_tok. Qed.
Print Assumptions C01_longest_prefix_keeps_token.

Theorem C01_split_names_nodup : forall ic p segs, split ic p = Ok segs -> pat_wf p = true ->
  Forall (lab_ok ic) segs /\ NoDup (pnames segs).
Proof. exact split_ok. Qed.
Print Assumptions C01_split_names_nodup.

(* ---------------------------------------------------------------- the invariant *)
Theorem C01_fresh_implies_names_fresh : forall ic t, tree_names_ok ic t ->
  all_nodes names_fresh_at (troot t).
Proof. exact tree_names_fresh. Qed.
Print Assumptions C01_fresh_implies_names_fresh.

Theorem C01_names_new_tree : forall ic name trace, tree_names_ok ic (new_tree name ic trace).
Proof. exact names_new_tree. Qed.
Print Assumptions C01_names_new_tree.

Theorem C01_names_add : forall ic t p h mws ms t', tree_names_ok ic t -> pat_wf p = true ->
  tree_add t p h mws ms = Ok t' -> tree_names_ok ic t'.
Proof. exact names_add. Qed.
Print Assumptions C01_names_add.

Theorem C01_names_remove : forall ic t p ms t', tree_names_ok ic t ->
  tree_remove t p ms = Ok t' -> tree_names_ok ic t'.
Proof. exact names_remove. Qed.
Print Assumptions C01_names_remove.

Theorem C01_names_clean : forall ic t prefix t', tree_names_ok ic t ->
  tree_clean t prefix = Ok t' -> tree_names_ok ic t'.
Proof. exact names_clean. Qed.
Print Assumptions C01_names_clean.

Theorem C01_names_use : forall ic t mws, tree_names_ok ic t -> tree_names_ok ic (tree_apply_mw t mws).
Proof. exact names_use. Qed.
Print Assumptions C01_names_use.

(* ---------------------------------------------------------------- every well-formed history *)
Theorem C01_names_fresh_reachable_partial : forall name ic trace hist, hist_wf hist = true ->
  all_nodes names_fresh_at (troot (fold_left tstep hist (new_tree name ic trace))).
Proof. exact names_fresh_reachable_partial. Qed.
Print Assumptions C01_names_fresh_reachable_partial.

Theorem C01_dispatch_text_wf_partial : forall name ic trace hist method path n h ps ok,
  hist_wf hist = true ->
  let t := fold_left tstep hist (new_tree name ic trace) in
  tree_handler t method path [] = HFound ok (Some n) h ps ->
  ttrace t = None \/ method <> TRACE -> path <> bs "*" -> path <> [] ->
  walk (troot t) path [] n ps /\
  exists chain pieces, npat n = concat (map (fun c => sval (nseg c)) chain) /\
    path = concat pieces /\ length pieces = length chain /\
    Forall TreeText.node_label_ok chain /\ Forall2 TreeText.piece_ok chain pieces.
Proof. exact dispatch_text_wf_partial. Qed.
Print Assumptions C01_dispatch_text_wf_partial.

(* ---------------------------------------------------------------- the requested statements are false *)
Theorem C01_names_fresh_refuted :
  ~ (forall name ic trace hist,
       all_nodes names_fresh_at (troot (fold_left tstep hist (new_tree name ic trace)))).
Proof. exact names_fresh_refuted. Qed.
Print Assumptions C01_names_fresh_refuted.

Theorem C01_dispatch_walk_refuted :
  ~ (forall name ic trace hist method path n h ps ok,
       let t := fold_left tstep hist (new_tree name ic trace) in
       tree_handler t method path [] = HFound ok (Some n) h ps ->
       ttrace t = None \/ method <> TRACE -> path <> bs "*" -> path <> [] ->
       walk (troot t) path [] n ps).
Proof. exact dispatch_walk_refuted. Qed.
Print Assumptions C01_dispatch_walk_refuted.

Theorem C01_dispatch_text_unconditional_refuted :
  ~ (forall name ic trace hist method path n h ps ok,
       let t := fold_left tstep hist (new_tree name ic trace) in
       tree_handler t method path [] = HFound ok (Some n) h ps ->
       ttrace t = None \/ method <> TRACE -> path <> bs "*" -> path <> [] ->
       walk (troot t) path [] n ps /\
       exists chain pieces, npat n = concat (map (fun c => sval (nseg c)) chain) /\
         path = concat pieces /\ length pieces = length chain /\
         Forall TreeText.node_label_ok chain /\ Forall2 TreeText.piece_ok chain pieces).
Proof. exact dispatch_text_unconditional_refuted. Qed.
Print Assumptions C01_dispatch_text_unconditional_refuted.

(* the counterexample in concrete terms *)
Theorem C01_names_counterexample :
  all_accepted (new_tree (bs "r") [] false) cx_hist = true /\ hist_wf cx_hist = false /\
  let a := kid 0 (troot cx_tree) in let b := kid 0 a in let c := kid 0 b in let d := kid 0 c in
  sval (nseg a) = bs "/x/" /\ sval (nseg b) = bs "{a" /\
  sval (nseg c) = bs "{b}c/" /\ sname (nseg c) = bs "b" /\ seg_sets (nseg c) = true /\
  sval (nseg d) = bs "{b}" /\ sname (nseg d) = bs "b" /\ npat d = bs "/x/{a{b}c/{b}".
Proof. exact names_counterexample. Qed.
Print Assumptions C01_names_counterexample.

Theorem C01_dispatch_counterexample :
  all_accepted (new_tree (bs "r") [] false) cx_hist4 = true /\
  exists n,
    tree_handler cx_tree4 GET cx_path [] = HFound true (Some n) (HUser (bs "h3")) [(bs "k", bs "2/z")] /\
    npat n = bs "/x/{a{b}c/{k}".
Proof. exact dispatch_counterexample. Qed.
Print Assumptions C01_dispatch_counterexample.

(* ---------------------------------------------------------------- example *)
Theorem C01_names_example :
  all_accepted (new_tree (bs "r") [] false) ex_names_hist = true /\ hist_wf ex_names_hist = true /\
  exists n,
    tree_handler ex_names_tree GET (bs "/users/5/7/log") [] =
      HFound true (Some n) (HUser (bs "log")) [(bs "id", bs "5"); (bs "action", bs "7")] /\
    npat n = bs "/users/{id}/{action}/log" /\
    ctx_get [(bs "id", bs "5"); (bs "action", bs "7")] (bs "action") = Some (bs "7") /\
    ctx_get [(bs "id", bs "5"); (bs "action", bs "7")] (bs "id") = Some (bs "5").
Proof. exact names_example. Qed.
Print Assumptions C01_names_example.

Theorem C01_names_example_fresh : all_nodes names_fresh_at (troot ex_names_tree).
Proof. exact ex_names_fresh. Qed.
Print Assumptions C01_names_example_fresh.
