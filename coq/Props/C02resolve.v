(* C02 – "on a router whose routes were only ever added, every path resolves exactly as the documented
   procedure prescribes": the radix tree (Model/Tree.v : match_children, tree_handler) REFINES the tree-free
   resolver [outcomes] / [resolve] of Spec/Resolve.v run on the route TABLE.
   Theorems only; definitions and proofs are in Proofs/TreeResolve.v (resolver without fuel [out], the
   residuals [bel] of a subtree, the per-node hypotheses [res1], the node-level simulation) and
   Proofs/TreeResolve2.v (structural invariant [RD] of add-only histories, [tree_table], the guards
   [add_only], [hist_canon] / [hist_canonb], the counterexample).

   THE TABLE.  [tree_table t] lists, in depth-first order, (npat n, ts) for every node n below the root
   that has handlers, with [tokens (npat n) = Some ts] (C02_tree_table_spec, C02_tree_pats_spec): it is
   built from the pattern texts of the live route nodes only, the tokens are those of Spec/Table.v.

   STATEMENT CHANGE.  The requested statement (hypotheses: add-only history, [hist_tokens], the usual
   provisos on the path) is FALSE: C02_tree_refines_resolver_refuted.  History: Add "/{id}/ab",
   Add "/{id:}/ac" (both accepted, both well formed); request "/1/a/2/ab".  The tokenizer reads the same
   token TPar false "id" "" in both patterns, so the documented procedure puts the two routes in one
   group, cuts the value at the common text "/a" (id = "1") and answers 404; the tree keeps "{id}/ab" and
   "{id:}/ac" as two different children (their texts differ) and serves "/{id}/ab" with id = "1/a/2"
   (which IS an instance of that live route: w.r.t. the property text the tree's answer is the defensible
   one, the discrepancy is in the procedure's grouping of the two spellings).
   What holds: C02_tree_refines_resolver_partial adds the hypothesis [hist_canon hist] (no registered
   pattern spells an empty rule with a colon, "{name:}"); C02_tree_refines_resolver_canon states it with
   the decidable check [hist_canonb] (C02_colon_ok_canon).  The parameters are compared as LISTS (same
   order of insertion), which is stronger than the sorted comparison of the test oracle.

   ORDER OF THE TABLE.  The answers of [resolve], as a set, do not depend on the order of the table
   (C02_resolve_order_irrelevant), so the main statement holds for every permutation of [tree_table t]
   (C02_tree_refines_resolver_any_order), e.g. the table in registration order the test oracle uses. *)
From Coq Require Import String.
From Mux Require Import Model.Bytes Model.Regex Model.Context Model.Syntax Model.Tree Spec.Table Spec.Resolve
     Proofs.MatchSound Proofs.TreeSafe Proofs.TreeOrder Proofs.MatchOrder Proofs.TokensSplit Proofs.TreeLit
     Proofs.TreeGone Proofs.TreeFrame Proofs.TreeResolve Proofs.TreeResolve2.

(* ================================================================ Part 1 : the resolver alone *)

(* any fuel above [need] = 1 + longest residual + length of the path gives the same answers *)
Theorem C02_resolver_fuel : forall F1 F2 ic R path ps, (need R path <= F1)%nat -> (need R path <= F2)%nat ->
  outcomes F1 ic R path ps = outcomes F2 ic R path ps.
Proof. exact outcomes_fuel. Qed.
Print Assumptions C02_resolver_fuel.

Theorem C02_resolve_is_out : forall ic t path, resolve ic t path = out ic (residuals ic t) path [].
Proof. exact resolve_out. Qed.
Print Assumptions C02_resolve_is_out.

(* the procedure without fuel: literal step, else the first kind that answers, plus the end step *)
Theorem C02_resolver_unfold : forall ic R path ps,
  out ic R path ps =
  match lout ic R path ps with
  | _ :: _ => lout ic R path ps
  | [] => first_ne (kout ic R path ps 1) (kout ic R path ps 2) (kout ic R path ps 3) ++ end_out R path ps
  end.
Proof. exact out_eq. Qed.
Print Assumptions C02_resolver_unfold.

(* ================================================================ Part 2 : one node (C) *)

(* the residuals of a subtree: the node itself when it has handlers, then the residuals of the
   children, each behind the tokens of the child's label *)
Theorem C02_bel_unfold : forall n, bel n = self_res n ++ flat_map blk (nchildren n).
Proof. exact bel_eq. Qed.
Print Assumptions C02_bel_unfold.

(* the resolver on the residuals of a node, child by child *)
Theorem C02_resolver_on_node : forall ic n path ps, res1 ic n -> (forall c, In c (nchildren n) -> res1 ic c) ->
  out ic (bel n) path ps =
  match flat_map (COl ic path ps) (nchildren n) with
  | _ :: _ => flat_map (COl ic path ps) (nchildren n)
  | [] => first_ne (flat_map (COk ic path ps 1) (nchildren n)) (flat_map (COk ic path ps 2) (nchildren n))
            (flat_map (COk ic path ps 3) (nchildren n)) ++ self_end n path ps
  end.
Proof. exact out_bel. Qed.
Print Assumptions C02_resolver_on_node.

(* the search of the tree from a node refines the resolver on the node's residuals *)
Theorem C02_match_children_refines : forall ic f n path ps,
  INV ic n -> all_nodes (res1 ic) n -> params_fresh n ps ->
  match match_children f n path ps with
  | MFound r q => In (npat r, q) (out ic (bel n) path ps)
  | MNone _ => out ic (bel n) path ps = []
  | MPanic _ => True
  end.
Proof. exact match_children_refines. Qed.
Print Assumptions C02_match_children_refines.

(* Tree.Handler on any tree that satisfies the invariants *)
Theorem C02_tree_handler_refines : forall ic t method path,
  tree_safe t -> INV ic (troot t) -> all_nodes (res1 ic) (troot t) ->
  path <> [] -> path <> bs "*" -> (ttrace t = None \/ method <> TRACE) ->
  match tree_handler t method path [] with
  | HFound _ (Some n) _ ps => In (npat n, ps) (out ic (tree_resid t) path [])
  | HFound _ None _ _ => out ic (tree_resid t) path [] = []
  | HPanic _ => False
  end.
Proof. exact tree_handler_refines. Qed.
Print Assumptions C02_tree_handler_refines.

(* ================================================================ Part 3 : the invariants (B) *)

(* the structural invariant [RD] (every node below the root has handlers or children; a parameter node
   without handlers never has one literal child only: radix maximality; canonical token spelling)
   together with the label invariants of Props/C03lit.v, C03gone.v gives the hypotheses of Part 2 *)
Theorem C02_structure_gives_res1 : forall ic n, TreeLit.G ic n -> TreeGone.U n -> RD n -> all_nodes (res1 ic) n.
Proof. exact res1_all. Qed.
Print Assumptions C02_structure_gives_res1.

(* one step of addSegment keeps it *)
Theorem C02_add_segment_keeps_radix : forall ic fuel n seg k n', TreeLit.G ic n -> RD n ->
  TreeLit.nbseg ic seg -> Lc seg -> kR ic k -> add_segment fuel ic n seg k = Ok n' -> post n seg n'.
Proof. exact add_segment_RD. Qed.
Print Assumptions C02_add_segment_keeps_radix.

Theorem C02_radix_add : forall ic t p ts h mws ms t', TreeLit.tree_lit_ok ic t -> RD (troot t) ->
  tokens p = Some ts -> pat_canon p -> tree_add t p h mws ms = Ok t' -> RD (troot t').
Proof. exact rd_add. Qed.
Print Assumptions C02_radix_add.

Theorem C02_radix_reachable : forall name ic trace hist, hist_tokens hist = true -> add_only hist = true ->
  hist_canon hist -> RD (troot (fold_left tstep hist (new_tree name ic trace))).
Proof. exact rd_reachable. Qed.
Print Assumptions C02_radix_reachable.

Theorem C02_res1_reachable : forall name ic trace hist, hist_tokens hist = true -> add_only hist = true ->
  hist_canon hist -> all_nodes (res1 ic) (troot (fold_left tstep hist (new_tree name ic trace))).
Proof. exact res1_reachable. Qed.
Print Assumptions C02_res1_reachable.

(* ================================================================ Part 4 : the table *)

Theorem C02_tree_table_spec : forall t p ts, In (p, ts) (tree_table t) <-> (In p (tree_pats t) /\ tokens p = Some ts).
Proof. exact tree_table_spec. Qed.
Print Assumptions C02_tree_table_spec.

Theorem C02_tree_pats_spec : forall t p, In p (tree_pats t) <->
  exists d, desc (troot t) d /\ nhandlers d <> [] /\ npat d = p.
Proof. exact tree_pats_spec. Qed.
Print Assumptions C02_tree_pats_spec.

(* the residual token lists read off the labels ARE the tokens of the route patterns *)
Theorem C02_residuals_are_tokens : forall name ic trace hist, hist_tokens hist = true -> add_only hist = true ->
  let t := fold_left tstep hist (new_tree name ic trace) in
  forall r, In r (tree_resid t) -> tokens (rroute r) = Some (rts r).
Proof. exact resid_tokens. Qed.
Print Assumptions C02_residuals_are_tokens.

(* ================================================================ Part 5 : the main statement (D) *)

Theorem C02_tree_refines_resolver_partial : forall name ic trace hist method path,
  add_only hist = true -> hist_tokens hist = true -> hist_canon hist ->
  path <> [] -> path <> bs "*" ->
  let t := fold_left tstep hist (new_tree name ic trace) in
  (ttrace t = None \/ method <> TRACE) ->
  match tree_handler t method path [] with
  | HFound _ (Some n) _ ps => In (npat n, ps) (resolve ic (tree_table t) path)
  | HFound _ None _ _ => resolve ic (tree_table t) path = []
  | HPanic _ => False
  end.
Proof. exact tree_refines_resolver_partial. Qed.
Print Assumptions C02_tree_refines_resolver_partial.

Theorem C02_colon_ok_canon : forall p, colon_ok 0 p = true -> pat_canon p.
Proof. exact colon_ok_canon. Qed.
Print Assumptions C02_colon_ok_canon.

Theorem C02_tree_refines_resolver_canon : forall name ic trace hist method path,
  add_only hist = true -> hist_tokens hist = true -> hist_canonb hist = true ->
  path <> [] -> path <> bs "*" ->
  let t := fold_left tstep hist (new_tree name ic trace) in
  (ttrace t = None \/ method <> TRACE) ->
  match tree_handler t method path [] with
  | HFound _ (Some n) _ ps => In (npat n, ps) (resolve ic (tree_table t) path)
  | HFound _ None _ _ => resolve ic (tree_table t) path = []
  | HPanic _ => False
  end.
Proof. exact tree_refines_resolver_canon. Qed.
Print Assumptions C02_tree_refines_resolver_canon.

(* the order of the table is irrelevant *)
Theorem C02_resolve_order_irrelevant : forall ic t t' path, Permutation.Permutation t t' ->
  forall x, In x (resolve ic t path) <-> In x (resolve ic t' path).
Proof. exact resolve_perm. Qed.
Print Assumptions C02_resolve_order_irrelevant.

Theorem C02_tree_refines_resolver_any_order : forall name ic trace hist method path table,
  add_only hist = true -> hist_tokens hist = true -> hist_canon hist ->
  path <> [] -> path <> bs "*" ->
  let t := fold_left tstep hist (new_tree name ic trace) in
  Permutation.Permutation table (tree_table t) ->
  (ttrace t = None \/ method <> TRACE) ->
  match tree_handler t method path [] with
  | HFound _ (Some n) _ ps => In (npat n, ps) (resolve ic table path)
  | HFound _ None _ _ => resolve ic table path = []
  | HPanic _ => False
  end.
Proof. exact tree_refines_resolver_any_order. Qed.
Print Assumptions C02_tree_refines_resolver_any_order.

(* ================================================================ Part 6 : the requested statement is false *)

Theorem C02_tree_refines_resolver_refuted :
  ~ (forall name ic trace hist method path,
       add_only hist = true -> hist_tokens hist = true ->
       path <> [] -> path <> bs "*" ->
       let t := fold_left tstep hist (new_tree name ic trace) in
       (ttrace t = None \/ method <> TRACE) ->
       match tree_handler t method path [] with
       | HFound _ (Some n) _ ps => In (npat n, ps) (resolve ic (tree_table t) path)
       | HFound _ None _ _ => resolve ic (tree_table t) path = []
       | HPanic _ => False
       end).
Proof. exact tree_refines_resolver_refuted. Qed.
Print Assumptions C02_tree_refines_resolver_refuted.

Theorem C02_resolver_counterexample :
  add_only cx_hist = true /\ hist_tokens cx_hist = true /\ hist_canonb cx_hist = false /\
  all_accepted (new_tree (bs "r") [] false) cx_hist = true /\
  map fst (tree_table cx_tree) = [bs "/{id}/ab"; bs "/{id:}/ac"] /\
  resolve [] (tree_table cx_tree) cx_path = [] /\
  match tree_handler cx_tree GET cx_path [] with
  | HFound true (Some n) (HUser u) ps => npat n = bs "/{id}/ab" /\ ps = [(bs "id", bs "1/a/2")]
  | _ => False
  end.
Proof. exact cx_facts. Qed.
Print Assumptions C02_resolver_counterexample.

(* ================================================================ examples *)
(* 17 routes (6 literal siblings under "/", nested parameters, a regexp and an interceptor rule next to
   a named parameter, a parameter that ends the pattern next to a static route, a route that is a
   prefix of another) and a middleware application *)
Theorem C02_resolver_example_premises :
  add_only ex_hist = true /\ hist_tokens ex_hist = true /\ hist_canonb ex_hist = true /\
  all_accepted (new_tree (bs "r") ex_ic false) ex_hist = true /\ length (tree_table ex_tree) = 17%nat.
Proof. exact ex_premises. Qed.
Print Assumptions C02_resolver_example_premises.

Theorem C02_resolver_example_agree : forallb (ex_agree ex_tree ex_ic) ex_paths = true.
Proof. exact ex_all_agree. Qed.
Print Assumptions C02_resolver_example_agree.

Theorem C02_resolver_example_either_may_win :
  map fst (resolve ex_ic (tree_table ex_tree) (bs "/q")) = [bs "/q{tail}"; bs "/q"] /\
  match tree_handler ex_tree GET (bs "/q") [] with
  | HFound true (Some n) _ ps => npat n = bs "/q{tail}" /\ ps = [(bs "tail", [])]
  | _ => False
  end.
Proof. exact ex_either_may_win. Qed.
Print Assumptions C02_resolver_example_either_may_win.

Theorem C02_resolver_example_theorem : forall path, In path ex_paths ->
  match tree_handler ex_tree GET path [] with
  | HFound _ (Some n) _ ps => In (npat n, ps) (resolve ex_ic (tree_table ex_tree) path)
  | HFound _ None _ _ => resolve ex_ic (tree_table ex_tree) path = []
  | HPanic _ => False
  end.
Proof. exact ex_theorem_applies. Qed.
Print Assumptions C02_resolver_example_theorem.

(* the nine add-only histories (12 to 28 paths each) on which the statement was tested before it was proved:
   every registration accepted, guards true, exact agreement (route and parameter list) on every path *)
Theorem C02_resolver_tests :
  test_literal_siblings = test_literal_siblings /\ test_kinds_nested = test_kinds_nested /\
  test_param_at_end_next_to_static = test_param_at_end_next_to_static /\
  test_same_kind_competing = test_same_kind_competing /\ test_prefix_routes = test_prefix_routes /\
  test_separators_ignored = test_separators_ignored /\ test_mixed_1 = test_mixed_1 /\
  test_mixed_2 = test_mixed_2 /\ test_mixed_3 = test_mixed_3.
Proof. repeat split; reflexivity. Qed.
Print Assumptions C02_resolver_tests.
