(* C10 - URL building: substitution and nothing else, round trip with matching, strict mode.
   Theorems only; match_segs / param_seg / seg_names / seg_shape are defined in Proofs/Misc1.v. *)
From Coq Require Import String.
From Mux Require Import Model.Bytes Model.Context Model.Syntax Model.Tree Proofs.Misc1.

Theorem C10_url_segs_closed_form : forall segs ps,
    url_segs segs ps =
    (if forallb (fun s => negb (param_seg s) ||
                          match ctx_get ps (sname s) with Some _ => true | None => false end) segs
     then Ok (flat_map (fun s => if param_seg s
                                 then opt_default [] (ctx_get ps (sname s)) ++ ssuffix s
                                 else sval s) segs)
     else Err (bs "missing-param")).
Proof. exact C10_url_segs_closed_form_l. Qed.
Print Assumptions C10_url_segs_closed_form.

Theorem C10_roundtrip : forall segs path ps', Forall seg_shape segs -> NoDup (seg_names segs) ->
    (forall s, In s segs -> param_seg s = true -> signore s = false) ->
    match_segs segs path [] = Some ps' -> url_segs segs ps' = Ok path.
Proof. exact C10_roundtrip_l. Qed.
Print Assumptions C10_roundtrip.

Theorem C10_strict_validates : forall chain ps u, url_chain chain ps = Ok u ->
    forall n, In n chain -> param_seg (nseg n) = true ->
    exists v, ctx_get ps (sname (nseg n)) = Some v /\ seg_valid (nseg n) v = true.
Proof. exact C10_strict_validates_l. Qed.
Print Assumptions C10_strict_validates.

Theorem C10_strict_not_a_route : forall t pattern ps,
    find_chain (tree_fuel t) (troot t) pattern = None -> tree_url t pattern ps = Err (bs "not-a-route").
Proof. exact C10_strict_not_a_route_l. Qed.
Print Assumptions C10_strict_not_a_route.
