(* C12 - CORS: what is granted, header by header; what sanitize rejects. Theorems only.
   acao/acac/.../vary and [granted] are defined in Proofs/Cors.v.
   C12_grant and C12_preflight as first stated are false when o_exposed = [""] resp. o_allow_headers = [""]
   (counterexamples: Proofs.Cors.cex_grant_aceh, cex_preflight_acah): the joined string is empty and
   cors.handle then sets no header.  *_partial repairs the conclusion, *_partial_hyp keeps the original
   conclusion under the extra hypothesis. *)
From Coq Require Import String.
From Mux Require Import Model.Bytes Model.Http Model.Cors Proofs.Cors.

Theorem C12_grant_partial : forall o c ms al q, cors_sanitize o = Some c -> o_origins o <> [] -> granted o q = true ->
    (is_preflight q = true -> mem (q_acrm q) ms = true /\ header_is_allowed c (q_acrh q) = true) ->
    acao c ms al q = [if mem star (o_origins o) then star else q_origin q] /\
    acac c ms al q = (if o_creds o then [bs "true"] else []) /\
    aceh c ms al q = (match join (bs ",") (o_exposed o) with [] => [] | s => [s] end).
Proof. exact C12_grant_partial_l. Qed.
Print Assumptions C12_grant_partial.

Theorem C12_grant_partial_hyp : forall o c ms al q, cors_sanitize o = Some c -> o_origins o <> [] -> granted o q = true ->
    (is_preflight q = true -> mem (q_acrm q) ms = true /\ header_is_allowed c (q_acrh q) = true) ->
    o_exposed o <> [[]] ->
    acao c ms al q = [if mem star (o_origins o) then star else q_origin q] /\
    acac c ms al q = (if o_creds o then [bs "true"] else []) /\
    aceh c ms al q = (match o_exposed o with [] => [] | l => [join (bs ",") l] end).
Proof. exact C12_grant_as_given_l. Qed.
Print Assumptions C12_grant_partial_hyp.

Theorem C12_preflight_partial : forall o c ms al q, cors_sanitize o = Some c -> o_origins o <> [] -> granted o q = true ->
    (is_preflight q = true -> mem (q_acrm q) ms = true /\ header_is_allowed c (q_acrh q) = true) ->
    is_preflight q = true ->
    acam c ms al q = [al] /\
    acah c ms al q = (if mem star (o_allow_headers o) then [bs "*,Authorization"]
                      else match join (bs ",") (o_allow_headers o) with [] => [] | s => [s] end) /\
    acma c ms al q = (if (o_max_age o =? 0)%Z then [] else [Z_to_dec (o_max_age o)]).
Proof. exact C12_preflight_partial_l. Qed.
Print Assumptions C12_preflight_partial.

Theorem C12_preflight_partial_hyp : forall o c ms al q, cors_sanitize o = Some c -> o_origins o <> [] -> granted o q = true ->
    (is_preflight q = true -> mem (q_acrm q) ms = true /\ header_is_allowed c (q_acrh q) = true) ->
    o_allow_headers o <> [[]] ->
    is_preflight q = true ->
    acam c ms al q = [al] /\
    acah c ms al q = (if mem star (o_allow_headers o) then [bs "*,Authorization"]
                      else match o_allow_headers o with [] => [] | l => [join (bs ",") l] end) /\
    acma c ms al q = (if (o_max_age o =? 0)%Z then [] else [Z_to_dec (o_max_age o)]).
Proof. exact C12_preflight_as_given_l. Qed.
Print Assumptions C12_preflight_partial_hyp.

Theorem C12_not_preflight : forall o c ms al q, cors_sanitize o = Some c -> is_preflight q = false ->
    acam c ms al q = [] /\ acah c ms al q = [] /\ acma c ms al q = [].
Proof. exact C12_not_preflight_l. Qed.
Print Assumptions C12_not_preflight.

Theorem C12_vary : forall o c ms al q, cors_sanitize o = Some c -> o_origins o <> [] -> granted o q = true ->
    (is_preflight q = true -> mem (q_acrm q) ms = true /\ header_is_allowed c (q_acrh q) = true) ->
    vary c ms al q = (if is_preflight q
                      then H_ACRM :: (match c_allow_headers_string c with [] => [] | _ => [H_ACRH] end)
                      else [])
                     ++ (if mem star (o_origins o) then [] else [H_ORIGIN]).
Proof. exact C12_vary_l. Qed.
Print Assumptions C12_vary.

Theorem C12_sanitize_rejects : forall o,
    cors_sanitize o = None <-> ((o_max_age o < -1)%Z \/ (mem star (o_origins o) = true /\ o_creds o = true)).
Proof. exact sanitize_rejects. Qed.
Print Assumptions C12_sanitize_rejects.
