(* C09 – middleware order on the abstract route table. Theorems only (proofs: Proofs/Onion.v). *)
From Coq Require Import String.
From Mux Require Import Model.Bytes Model.Regex Model.Context Model.Syntax Model.Tree
     Spec.Table Spec.Onion Proofs.Onion.

Theorem apply_mw_app : forall h m p r a b,
    apply_mw h m p r (a ++ b) = apply_mw (apply_mw h m p r a) m p r b.
Proof. exact mw_app. Qed.
Print Assumptions apply_mw_app.

Theorem apply_mw_nesting : forall h m p r mws,
    apply_mw h m p r mws = wrap_outermost_last h m p r (rev mws).
Proof. exact mw_nesting. Qed.
Print Assumptions apply_mw_nesting.

Theorem C09_table_is_rendered_records : forall c hist,
    tt (t_run c hist) = render c (uses_of hist) (r_run hist) /\ tuses (t_run c hist) = uses_of hist.
Proof. exact table_is_rendered_records. Qed.
Print Assumptions C09_table_is_rendered_records.

Theorem C09_onion_order : forall c hist p e m core mws,
    In (p, e) (r_run hist) -> In (m, (core, mws)) e ->
    exists e', In (p, e') (tt (t_run c hist)) /\
               In (m, apply_mw (apply_mw core m p (c_router c) mws) m p (c_router c) (uses_of hist)) e'.
Proof. exact onion_order. Qed.
Print Assumptions C09_onion_order.

Theorem C09_use_position_irrelevant_for_order : forall (c : tcfg) h1 h2 mws,
    r_run (h1 ++ TUse mws :: h2) = r_run (h1 ++ h2).
Proof. exact use_position_irrelevant_for_order. Qed.
Print Assumptions C09_use_position_irrelevant_for_order.

Theorem C09_records_of_handle : forall t p id mws ms m,
    ms <> [] -> In m ms ->
    alookup m (opt_default [] (alookup p (r_handle t p id mws ms))) = Some (HUser id, mws).
Proof. exact records_of_handle. Qed.
Print Assumptions C09_records_of_handle.

Theorem C09_auto_handlers_keep_first_registration : forall t p id mws ms e0,
    alookup p t = Some e0 -> ahas OPTIONS e0 = true -> ahas M405 e0 = true ->
    alookup OPTIONS (opt_default [] (alookup p (r_handle t p id mws ms))) = alookup OPTIONS e0 \/
    In OPTIONS (match ms with [] => any_methods | _ => ms end).
Proof. exact auto_handlers_keep_first_registration. Qed.
Print Assumptions C09_auto_handlers_keep_first_registration.
