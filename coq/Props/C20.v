(* C20 – Params accessors agree with each other and with strconv. Theorems only. *)
From Coq Require Import String.
From Mux Require Import Model.Bytes Model.Context Proofs.C20.
From Coq Require Import Permutation.

Theorem C20_agree : forall (sc : strconv) (ps : params) (k dstr dint duint dbool dfloat : bytes),
    ctx_exists ps k = (match ctx_get ps k with Some _ => true | None => false end) /\
    ctx_string ps k = (match ctx_get ps k with Some v => (v, []) | None => ([], err_not_exists) end) /\
    ctx_must_string ps k dstr = (match ctx_get ps k with Some v => v | None => dstr end) /\
    conv_spec (p_int sc) (bs "0") ps k /\ must_spec (p_int sc) (bs "0") ps k dint /\
    conv_spec (p_uint sc) (bs "0") ps k /\ must_spec (p_uint sc) (bs "0") ps k duint /\
    conv_spec (p_bool sc) (bs "false") ps k /\ must_spec (p_bool sc) (bs "false") ps k dbool /\
    conv_spec (p_float sc) (bs "0000000000000000") ps k /\ must_spec (p_float sc) (bs "0000000000000000") ps k dfloat /\
    Permutation (ctx_range ps) ps /\
    (NoDup (akeys ps) -> forall k' v, In (k', v) (ctx_range ps) <-> ctx_get ps k' = Some v).
Proof. exact agree. Qed.
Print Assumptions C20_agree.

Theorem C20_map_laws : forall (ps : params) (k v k' : bytes),
    ctx_get (ctx_set ps k v) k' = (if beqb k' k then Some v else ctx_get ps k') /\
    ctx_get (ctx_delete ps k) k' = (if beqb k' k then None else ctx_get ps k') /\
    ctx_get (c_reset ps) k' = None /\ ctx_count (c_reset ps) = O /\
    (NoDup (akeys ps) -> NoDup (akeys (ctx_set ps k v)) /\ NoDup (akeys (ctx_delete ps k))).
Proof. exact map_laws. Qed.
Print Assumptions C20_map_laws.

Theorem C20_count_set : forall ps k v, NoDup (akeys ps) ->
    ctx_count (ctx_set ps k v) = (if ctx_exists ps k then ctx_count ps else S (ctx_count ps)).
Proof. exact count_set. Qed.
Print Assumptions C20_count_set.

Theorem C20_count_delete : forall ps k, NoDup (akeys ps) ->
    ctx_count (ctx_delete ps k) = (if ctx_exists ps k then pred (ctx_count ps) else ctx_count ps).
Proof. exact count_delete. Qed.
Print Assumptions C20_count_delete.

Theorem C20_pool_empty : forall (s : cstate) (h : list cop), cur (cstep (fold_left cstep h s) CNew) = [].
Proof. exact pool_fresh. Qed.
Print Assumptions C20_pool_empty.

Theorem C20_keys_unique : forall (h : list cop) (s : cstate),
    NoDup (akeys (cur s)) -> NoDup (akeys (cur (fold_left cstep h s))).
Proof. exact keys_nodup_hist. Qed.
Print Assumptions C20_keys_unique.
