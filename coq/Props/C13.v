(* C13 - matchers (And/Or), Group dispatch, Add/Remove/Use. Theorems only. *)
From Coq Require Import String.
From Mux Require Import Model.Bytes Model.Regex Model.Context Model.Syntax Model.Tree Model.Router
     Model.Match Model.Group Proofs.Group.

(* [ctx_nodup ps]: the incoming context is a map (no key twice); [matcher_ok] holds of every reachable
   Hosts matcher (C13_hosts_clean_reachable, Props/C14tree.v) *)
Theorem C13_reject_clean : forall m q ps q' ps', matcher_ok m -> ctx_nodup ps ->
    m_match m q ps = MR false q' ps' -> q' = q /\ ps' = ps.
Proof. exact reject_clean. Qed.
Print Assumptions C13_reject_clean.

(* accepted or rejected, a matcher keeps the context a map *)
Theorem C13_match_nodup : forall m q ps ok q' ps', matcher_ok m -> ctx_nodup ps ->
    m_match m q ps = MR ok q' ps' -> ctx_nodup ps'.
Proof. exact m_match_nodup. Qed.
Print Assumptions C13_match_nodup.

Theorem C13_and_accepts_all : forall l q ps q' ps', m_match (MAnd l) q ps = MR true q' ps' ->
    exists states : list (mreq * params), length states = length l /\
      (fix chain (l : list matcher) (q0 : mreq) (ps0 : params) (st : list (mreq * params)) : Prop :=
         match l, st with
         | [], [] => (q0, ps0) = (q', ps')
         | x :: l', (q1, ps1) :: st' => m_match x q0 ps0 = MR true q1 ps1 /\ chain l' q1 ps1 st'
         | _, _ => False end) l q ps states.
Proof. exact and_accepts_all. Qed.
Print Assumptions C13_and_accepts_all.

Theorem C13_or_first : forall l q ps q' ps', (forall x, In x l -> matcher_ok x) -> ctx_nodup ps ->
    m_match (MOr l) q ps = MR true q' ps' ->
    exists pre x post, l = pre ++ x :: post /\
      (forall y, In y pre -> exists a b, m_match y q ps = MR false a b) /\
      m_match x q ps = MR true q' ps'.
Proof. exact or_first. Qed.
Print Assumptions C13_or_first.

Theorem C13_first_accepting : forall l q rs method r q',
    (forall x, In x l -> matcher_ok (gr_matcher x)) ->
    g_scan l q rs method = (Some r, q') -> r <> SPanic \/ True ->
    (exists pre x post ps, l = pre ++ x :: post /\
       (forall y, In y pre -> exists a b, m_match (gr_matcher y) q [] = MR false a b) /\
       m_match (gr_matcher x) q [] = MR true q' ps /\
       r = serve_ctx (gr_router x) (gr_recover x) rs method (m_path q') ps)
    \/ (exists pre x post, l = pre ++ x :: post /\
          (forall y, In y pre -> exists a b, m_match (gr_matcher y) q [] = MR false a b) /\
          m_match (gr_matcher x) q [] = MRPanic /\ r = SPanic).
Proof. exact first_accepting'. Qed.
Print Assumptions C13_first_accepting.

Theorem C13_none_accepts : forall g q rs method,
    (forall x, In x (g_routers g) -> matcher_ok (gr_matcher x)) ->
    (forall x, In x (g_routers g) -> exists a b, m_match (gr_matcher x) q [] = MR false a b) ->
    g_serve g q rs method = finish (g_recover g) rs (g_notfound g) [] (m_path q) [] None.
Proof. exact none_accepts. Qed.
Print Assumptions C13_none_accepts.

Theorem C13_notfound_wrapped : forall (uses : list (list bytes)),
    g_notfound (fold_left g_use uses (g_new_group false)) = apply_mw HGroupNotFound [] [] [] (concat uses).
Proof. exact notfound_wrapped. Qed.
Print Assumptions C13_notfound_wrapped.

Theorem C13_names_unique : forall g m r rec g', NoDup (map gr_name (g_routers g)) ->
    g_add g m r rec = Some g' -> NoDup (map gr_name (g_routers g')).
Proof. exact names_unique. Qed.
Print Assumptions C13_names_unique.

Theorem C13_add_duplicate_rejected : forall g m r rec,
    In (tname (rtree r)) (map gr_name (g_routers g)) -> g_add g m r rec = None.
Proof. exact add_duplicate_rejected. Qed.
Print Assumptions C13_add_duplicate_rejected.

Theorem C13_remove : forall g name,
    ~ In name (map gr_name (g_routers (g_remove g name))) /\
    (forall x, In x (g_routers g) -> gr_name x <> name -> In x (g_routers (g_remove g name))) /\
    g_routers (g_remove g name) = filter (fun x => negb (beqb (gr_name x) name)) (g_routers g).
Proof. exact remove_spec. Qed.
Print Assumptions C13_remove.
