(* C01 (text level) – the pattern of the node found is the concatenation of the labels walked,
   every label is literal text or text + "{...}" + suffix, and the request path is that text with
   every parameter label replaced by the value + suffix it consumed.
   Theorems only; definitions (pat_ok, tree_pat_ok, label_ok, label_ok_pre, node_label_ok,
   piece_ok, TT.top / TT.keep / TT.tstep) and proofs are in Proofs/TreeText.v.

   Statements that differ from the requested ones:
   - C01_new_segment_label as requested ([new_segment ic val = Ok seg -> label_ok seg]) is FALSE
     (C01_new_segment_label_refuted: "a{b}" is a parameter label that starts with text).
     C01_new_segment_label_partial adds [index_byte val 123 = Some 0] (the label starts with
     '{'); C01_new_segment_label_pre proves the general shape [label_ok_pre]
     (sval = pre ++ "{" body "}" ++ suffix, pre without braces, body without '}') with no
     hypothesis, and C01_labels_reachable shows it for every node of every reached tree.
   - C01_dispatch_text is as requested; C01_dispatch_text_strong has the weaker hypothesis
     [ttrace t = None \/ method <> TRACE] and the stronger conclusion (the walk, the label
     shapes, what every label consumed). *)
From Coq Require Import String.
From Mux Require Import Model.Bytes Model.Regex Model.Context Model.Syntax Model.Tree
  Proofs.MatchSound Proofs.TreeText.
Import TT.

(* ---------------------------------------------------------------- Part A : labels *)
Theorem C01_new_segment_value : forall ic val seg, new_segment ic val = Ok seg -> sval seg = val.
Proof. exact new_segment_value. Qed.
Print Assumptions C01_new_segment_value.

Theorem C01_new_segment_label_partial : forall ic val seg, index_byte val 123 = Some O ->
  new_segment ic val = Ok seg -> label_ok seg.
Proof. exact new_segment_label_partial. Qed.
Print Assumptions C01_new_segment_label_partial.

Theorem C01_new_segment_label_pre : forall ic val seg, new_segment ic val = Ok seg -> label_ok_pre seg.
Proof. exact new_segment_label_pre. Qed.
Print Assumptions C01_new_segment_label_pre.

Theorem C01_new_segment_label_refuted :
  ~ (forall ic val seg, new_segment ic val = Ok seg -> label_ok seg).
Proof. exact new_segment_label_refuted. Qed.
Print Assumptions C01_new_segment_label_refuted.

Theorem C01_seg_split_value : forall ic seg pos s1 s2,
  seg_split ic seg pos = Ok (s1, s2) -> sval s1 ++ sval s2 = sval seg.
Proof. exact seg_split_value. Qed.
Print Assumptions C01_seg_split_value.

(* ---------------------------------------------------------------- Part B : the pattern invariant *)
Theorem C01_pat_new_tree : forall name ic trace, tree_pat_ok (new_tree name ic trace).
Proof. exact pat_new_tree. Qed.
Print Assumptions C01_pat_new_tree.

Theorem C01_pat_add : forall t p h mws ms t',
  tree_pat_ok t -> tree_add t p h mws ms = Ok t' -> tree_pat_ok t'.
Proof. exact pat_add. Qed.
Print Assumptions C01_pat_add.

Theorem C01_pat_remove : forall t p ms t',
  tree_pat_ok t -> tree_remove t p ms = Ok t' -> tree_pat_ok t'.
Proof. exact pat_remove. Qed.
Print Assumptions C01_pat_remove.

Theorem C01_pat_clean : forall t prefix t',
  tree_pat_ok t -> tree_clean t prefix = Ok t' -> tree_pat_ok t'.
Proof. exact pat_clean. Qed.
Print Assumptions C01_pat_clean.

Theorem C01_pat_use : forall t mws, tree_pat_ok t -> tree_pat_ok (tree_apply_mw t mws).
Proof. exact pat_use. Qed.
Print Assumptions C01_pat_use.

Theorem C01_pat_reachable : forall name ic trace hist,
  tree_pat_ok (fold_left tstep hist (new_tree name ic trace)).
Proof. exact pat_reachable. Qed.
Print Assumptions C01_pat_reachable.

Theorem C01_labels_reachable : forall name ic trace hist,
  all_nodes node_label_ok (troot (fold_left tstep hist (new_tree name ic trace))).
Proof. exact labels_reachable. Qed.
Print Assumptions C01_labels_reachable.

(* ---------------------------------------------------------------- Part C : the text of a match *)
Theorem C01_walk_pattern : forall n path ps r ps', all_nodes pat_ok n -> walk n path ps r ps' ->
  exists chain : list node, npat r = npat n ++ concat (map (fun c => sval (nseg c)) chain) /\
    exists pieces : list bytes, length pieces = length chain /\ path = concat pieces /\
      Forall2 (fun c piece => match styp (nseg c) with
                              | TString => piece = sval (nseg c)
                              | _ => seg_wf (nseg c) ->
                                     exists v, piece = v ++ ssuffix (nseg c) /\ smatch (nseg c) v = true
                              end) chain pieces.
Proof. exact walk_pattern. Qed.
Print Assumptions C01_walk_pattern.

Theorem C01_dispatch_text : forall name ic trace hist method path n h ps ok,
  tree_handler (fold_left tstep hist (new_tree name ic trace)) method path [] = HFound ok (Some n) h ps ->
  method <> TRACE -> path <> bs "*" -> path <> [] ->
  all_nodes idx_lit (troot (fold_left tstep hist (new_tree name ic trace))) ->
  all_nodes names_fresh_at (troot (fold_left tstep hist (new_tree name ic trace))) ->
  exists chain pieces, npat n = concat (map (fun c => sval (nseg c)) chain) /\
    path = concat pieces /\ length pieces = length chain.
Proof. exact dispatch_text. Qed.
Print Assumptions C01_dispatch_text.

Theorem C01_dispatch_text_strong : forall name ic trace hist method path n h ps ok,
  let t := fold_left tstep hist (new_tree name ic trace) in
  tree_handler t method path [] = HFound ok (Some n) h ps ->
  ttrace t = None \/ method <> TRACE -> path <> bs "*" -> path <> [] ->
  all_nodes idx_lit (troot t) -> all_nodes names_fresh_at (troot t) ->
  walk (troot t) path [] n ps /\
  exists chain pieces, npat n = concat (map (fun c => sval (nseg c)) chain) /\
    path = concat pieces /\ length pieces = length chain /\
    Forall node_label_ok chain /\ Forall2 piece_ok chain pieces.
Proof. exact dispatch_text_strong. Qed.
Print Assumptions C01_dispatch_text_strong.
