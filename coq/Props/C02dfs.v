(* C02 – which child wins in the depth-first search of [match_children] ("route resolution
   follows the documented left-to-right kind priority; an alternative is given up only by
   falling back to the next choice, never by widening an earlier capture").
   Theorems only; definitions (search_order, child_fails, idx_child, tail_of, step_params,
   loop_params, fails_seq, idx_params, final_params, mshape, params_fresh, idx_complete, lfd,
   lit_first_distinct, lit_nonempty) and proofs are in Proofs/MatchOrder.v; is_lit, rk, order_ok
   are those of Proofs/TreeOrder.v; all_nodes, idx_lit, names_below, adeletes those of
   Proofs/MatchSound.v.

   Statements that differ from the requested ones:
   - C02_first_successful_child: the parameters left when the node itself answers are
     [final_params f n path ps] (the original ones after the deletions of all abandoned children);
     C02_first_successful_child_precise says on which parameters each child is tried;
     C02_tried_params_are_deletions says they are [adeletes ks ps] for names ks used below n;
     C02_first_successful_child_fresh: they ARE the original ones when ps uses no name of the
     subtree.
   - C02_literal_before_parameters is FALSE as requested (C02_literal_before_parameters_refuted:
     the winning literal child is searched on parameters that lost a name deleted by an earlier
     abandoned literal sibling).  Proved: _partial (parameters of the winner existential; index
     hypotheses idx_complete, lit_first_distinct, lit_nonempty) and _fresh (the requested
     conclusion, for [params_fresh n ps] and [all_nodes idx_lit n]); the same pair for the
     no-index case without index hypotheses.  [lit_nonempty] is needed beside the two named
     hypotheses: a literal child with an empty label matches every path but is in no index.
   - C02_kind_priority_no_index: only the lower-rank child c1 needs a matching subtree. *)
From Coq Require Import String.
From Mux Require Import Model.Bytes Model.Regex Model.Context Model.Syntax Model.Tree
  Proofs.MatchSound Proofs.TreeOrder Proofs.MatchOrder.

Theorem C02_first_successful_child : forall f n path ps r ps',
  (forall s, match_children (S f) n path ps <> MPanic s) ->
  match_children (S f) n path ps = MFound r ps' ->
  (r = n /\ path = [] /\ ps' = final_params f n path ps /\ (0 < nsize n)%nat) \/
  exists pre c post path1 ps0 ps1, search_order n path = pre ++ c :: post /\
    seg_match (nseg c) path ps0 = Some (path1, ps1) /\ match_children f c path1 ps1 = MFound r ps' /\
    Forall (fun d => exists psd, child_fails f d path psd) pre.
Proof. exact first_successful_child. Qed.
Print Assumptions C02_first_successful_child.

Theorem C02_first_successful_child_precise : forall f n path ps r q,
  match_children (S f) n path ps = MFound r q ->
  (r = n /\ path = [] /\ q = final_params f n path ps /\ (0 < nsize n)%nat /\
   Forall (fun d => child_fails f d path ps) (idx_child n path) /\
   fails_seq f path (tail_of n) (idx_params f n path ps)) \/
  (exists c p1 ps1, idx_child n path = [c] /\ seg_match (nseg c) path ps = Some (p1, ps1) /\
     match_children f c p1 ps1 = MFound r q) \/
  (exists pre c post p1 ps1, tail_of n = pre ++ c :: post /\
     Forall (fun d => child_fails f d path ps) (idx_child n path) /\
     fails_seq f path pre (idx_params f n path ps) /\
     seg_match (nseg c) path (loop_params f path pre (idx_params f n path ps)) = Some (p1, ps1) /\
     match_children f c p1 ps1 = MFound r q).
Proof. exact match_children_found_cases. Qed.
Print Assumptions C02_first_successful_child_precise.

Theorem C02_search_order_parts : forall n path, search_order n path = idx_child n path ++ tail_of n.
Proof. exact search_order_eq. Qed.
Print Assumptions C02_search_order_parts.

Theorem C02_tried_params_are_deletions : forall f n path pre ps,
  all_nodes idx_lit n -> incl pre (nchildren n) ->
  exists ks, names_below n ks /\ loop_params f path pre (idx_params f n path ps) = adeletes ks ps.
Proof. exact tried_params_dels. Qed.
Print Assumptions C02_tried_params_are_deletions.

Theorem C02_first_successful_child_fresh : forall f n path ps r ps',
  all_nodes idx_lit n -> params_fresh n ps ->
  match_children (S f) n path ps = MFound r ps' ->
  (r = n /\ path = [] /\ ps' = ps /\ (0 < nsize n)%nat /\
   Forall (fun d => child_fails f d path ps) (search_order n path)) \/
  exists pre c post path1 ps1, search_order n path = pre ++ c :: post /\
    seg_match (nseg c) path ps = Some (path1, ps1) /\ match_children f c path1 ps1 = MFound r ps' /\
    Forall (fun d => child_fails f d path ps) pre.
Proof. exact first_successful_child_fresh. Qed.
Print Assumptions C02_first_successful_child_fresh.

(* whether (and where) the search succeeds does not depend on the parameters collected so far *)
Theorem C02_outcome_independent_of_params : forall f n path ps ps0,
  mshape (match_children f n path ps) = mshape (match_children f n path ps0).
Proof. exact match_children_shape. Qed.
Print Assumptions C02_outcome_independent_of_params.

Theorem C02_child_fails_independent_of_params : forall f d path psa psb,
  child_fails f d path psa -> child_fails f d path psb.
Proof. exact child_fails_indep. Qed.
Print Assumptions C02_child_fails_independent_of_params.

Theorem C02_no_widening : forall seg path ps rest ps', seg_match seg path ps = Some (rest, ps') ->
  forall rest2 ps2, seg_match seg path ps = Some (rest2, ps2) -> rest2 = rest /\ ps2 = ps'.
Proof. exact no_widening. Qed.
Print Assumptions C02_no_widening.

Theorem C02_404_iff_all_fail : forall f n path ps ps',
  (forall s, match_children (S f) n path ps <> MPanic s) ->
  match_children (S f) n path ps = MNone ps' ->
  Forall (fun d => exists psd, child_fails f d path psd) (search_order n path) /\ (path <> [] \/ nsize n = O).
Proof. exact none_all_fail. Qed.
Print Assumptions C02_404_iff_all_fail.

Theorem C02_404_all_fail_converse : forall f n path ps,
  (forall s, match_children (S f) n path ps <> MPanic s) ->
  Forall (fun d => exists psd, child_fails f d path psd) (search_order n path) ->
  (path <> [] \/ nsize n = O) ->
  match_children (S f) n path ps = MNone (final_params f n path ps).
Proof. exact all_fail_none. Qed.
Print Assumptions C02_404_all_fail_converse.

Theorem C02_literal_before_parameters_refuted :
  ~ (forall f n path ps r ps' c, order_ok n ->
       (forall s, match_children (S f) n path ps <> MPanic s) ->
       match_children (S f) n path ps = MFound r ps' -> In c (nchildren n) -> is_lit c = true ->
       (exists path1, seg_match (nseg c) path ps = Some (path1, ps) /\
          exists r2 ps2, match_children f c path1 ps = MFound r2 ps2) ->
       exists c', In c' (nchildren n) /\ is_lit c' = true /\
         exists path1, seg_match (nseg c') path ps = Some (path1, ps) /\ match_children f c' path1 ps = MFound r ps').
Proof. exact literal_before_parameters_false. Qed.
Print Assumptions C02_literal_before_parameters_refuted.

Theorem C02_literal_before_parameters_no_index_refuted :
  ~ (forall f n path ps r ps' c, order_ok n -> nindexes n = [] ->
       match_children (S f) n path ps = MFound r ps' -> In c (nchildren n) -> is_lit c = true ->
       (exists path1, seg_match (nseg c) path ps = Some (path1, ps) /\
          exists r2 ps2, match_children f c path1 ps = MFound r2 ps2) ->
       exists c', In c' (nchildren n) /\ is_lit c' = true /\
         exists path1, seg_match (nseg c') path ps = Some (path1, ps) /\ match_children f c' path1 ps = MFound r ps').
Proof. exact literal_before_parameters_no_index_false. Qed.
Print Assumptions C02_literal_before_parameters_no_index_refuted.

Theorem C02_literal_before_parameters_partial : forall f n path ps r ps' c,
  order_ok n -> idx_complete n -> lit_first_distinct n -> lit_nonempty n ->
  (forall s, match_children (S f) n path ps <> MPanic s) ->
  match_children (S f) n path ps = MFound r ps' -> In c (nchildren n) -> is_lit c = true ->
  (exists path1, seg_match (nseg c) path ps = Some (path1, ps) /\
     exists r2 ps2, match_children f c path1 ps = MFound r2 ps2) ->
  exists c' ps0, In c' (nchildren n) /\ is_lit c' = true /\
    exists path1, seg_match (nseg c') path ps0 = Some (path1, ps0) /\ match_children f c' path1 ps0 = MFound r ps'.
Proof. exact literal_before_parameters_partial. Qed.
Print Assumptions C02_literal_before_parameters_partial.

Theorem C02_literal_before_parameters_fresh : forall f n path ps r ps' c,
  order_ok n -> idx_complete n -> lit_first_distinct n -> lit_nonempty n ->
  all_nodes idx_lit n -> params_fresh n ps ->
  (forall s, match_children (S f) n path ps <> MPanic s) ->
  match_children (S f) n path ps = MFound r ps' -> In c (nchildren n) -> is_lit c = true ->
  (exists path1, seg_match (nseg c) path ps = Some (path1, ps) /\
     exists r2 ps2, match_children f c path1 ps = MFound r2 ps2) ->
  exists c', In c' (nchildren n) /\ is_lit c' = true /\
    exists path1, seg_match (nseg c') path ps = Some (path1, ps) /\ match_children f c' path1 ps = MFound r ps'.
Proof. exact literal_before_parameters_fresh. Qed.
Print Assumptions C02_literal_before_parameters_fresh.

(* with an index the matching literal child is the indexed child and wins at once *)
Theorem C02_literal_indexed_wins : forall f n path ps c p1 r2 q2,
  nindexes n <> [] -> idx_complete n -> lit_first_distinct n -> lit_nonempty n ->
  In c (nchildren n) -> is_lit c = true ->
  seg_match (nseg c) path ps = Some (p1, ps) -> match_children f c p1 ps = MFound r2 q2 ->
  match_children (S f) n path ps = MFound r2 q2.
Proof. exact literal_indexed. Qed.
Print Assumptions C02_literal_indexed_wins.

Theorem C02_literal_before_parameters_no_index_partial : forall f n path ps r ps' c,
  order_ok n -> nindexes n = [] ->
  match_children (S f) n path ps = MFound r ps' -> In c (nchildren n) -> is_lit c = true ->
  (exists path1, seg_match (nseg c) path ps = Some (path1, ps) /\
     exists r2 ps2, match_children f c path1 ps = MFound r2 ps2) ->
  exists c' pre post, nchildren n = pre ++ c' :: post /\ is_lit c' = true /\
    exists path1, seg_match (nseg c') path (loop_params f path pre ps) = Some (path1, loop_params f path pre ps) /\
      match_children f c' path1 (loop_params f path pre ps) = MFound r ps'.
Proof. exact literal_before_parameters_no_index_partial. Qed.
Print Assumptions C02_literal_before_parameters_no_index_partial.

Theorem C02_literal_before_parameters_no_index : forall f n path ps r ps' c,
  order_ok n -> nindexes n = [] -> all_nodes idx_lit n -> params_fresh n ps ->
  match_children (S f) n path ps = MFound r ps' -> In c (nchildren n) -> is_lit c = true ->
  (exists path1, seg_match (nseg c) path ps = Some (path1, ps) /\
     exists r2 ps2, match_children f c path1 ps = MFound r2 ps2) ->
  exists c', In c' (nchildren n) /\ is_lit c' = true /\
    exists path1, seg_match (nseg c') path ps = Some (path1, ps) /\ match_children f c' path1 ps = MFound r ps'.
Proof. exact literal_before_parameters_no_index_fresh. Qed.
Print Assumptions C02_literal_before_parameters_no_index.

Theorem C02_kind_priority_no_index : forall f n path ps r ps' c1 c2,
  order_ok n -> nindexes n = [] ->
  (forall s, match_children (S f) n path ps <> MPanic s) ->
  match_children (S f) n path ps = MFound r ps' ->
  In c1 (nchildren n) -> In c2 (nchildren n) -> (rk c1 < rk c2)%nat ->
  (exists p1 ps1 r1 q1, seg_match (nseg c1) path ps = Some (p1, ps1) /\ match_children f c1 p1 ps1 = MFound r1 q1) ->
  exists pre c post path1 ps0 ps1, search_order n path = pre ++ c :: post /\
    seg_match (nseg c) path ps0 = Some (path1, ps1) /\ match_children f c path1 ps1 = MFound r ps' /\
    Forall (fun d => exists psd, child_fails f d path psd) pre /\
    (rk c <= rk c1)%nat /\ c <> c2.
Proof. exact kind_priority_no_index. Qed.
Print Assumptions C02_kind_priority_no_index.

Theorem C02_build_indexes_complete : forall cs ix, build_indexes cs = Ok ix -> lfd cs -> ix <> [] ->
  (forall i c b r, nth_error cs i = Some c -> is_lit c = true -> sval (nseg c) = b :: r ->
     idx_get b ix = i) /\
  (forall c, In c cs -> is_lit c = true -> sval (nseg c) <> []).
Proof. exact build_indexes_complete. Qed.
Print Assumptions C02_build_indexes_complete.

Theorem C02_build_indexes_idx_complete : forall n, build_indexes (nchildren n) = Ok (nindexes n) ->
  lit_first_distinct n -> idx_complete n /\ lit_nonempty n.
Proof. exact build_indexes_idx_complete. Qed.
Print Assumptions C02_build_indexes_idx_complete.

Theorem C02_sort_node_idx_complete : forall n keyed n', sort_node n keyed = Ok n' ->
  lit_first_distinct n' -> idx_complete n' /\ lit_nonempty n'.
Proof. exact sort_node_idx_complete. Qed.
Print Assumptions C02_sort_node_idx_complete.
