(* C16 - recovery: what a raising handler / middleware leaves behind. Theorems only. *)
From Coq Require Import String.
From Mux Require Import Model.Bytes Model.Regex Model.Context Model.Syntax Model.Tree Model.Router
     Model.Match Model.Group Proofs.Group.

Theorem C16_contained : forall rs h rname path ps n,
    exists s, finish true rs h rname path ps n = SOk s /\ s_escaped s = None /\
      (forall v, run_h rs h = Raised v -> s_recovered s = [v]) /\ (run_h rs h = Done -> s_recovered s = []).
Proof. exact contained. Qed.
Print Assumptions C16_contained.

Theorem C16_passthrough : forall rs h rname path ps n,
    exists s, finish false rs h rname path ps n = SOk s /\ s_recovered s = [] /\
      (forall v, run_h rs h = Raised v -> s_escaped s = Some v) /\ (run_h rs h = Done -> s_escaped s = None).
Proof. exact passthrough. Qed.
Print Assumptions C16_passthrough.

Theorem C16_router : forall r recover rs method path ps0,
    serve_ctx r recover rs method path ps0 = SPanic \/
    exists s, serve_ctx r recover rs method path ps0 = SOk s /\ (length (s_recovered s) <= 1)%nat /\
      (recover = true -> s_escaped s = None) /\ (recover = false -> s_recovered s = []) /\
      (run_h rs (s_handler s) = Done -> s_recovered s = [] /\ s_escaped s = None) /\
      (forall v, run_h rs (s_handler s) = Raised v ->
                 (recover = true -> s_recovered s = [v]) /\ (recover = false -> s_escaped s = Some v)).
Proof. exact router_recovery. Qed.
Print Assumptions C16_router.

Theorem C16_first_value_wins : forall rs mw m p r inner v,
    raise_at rs mw (bs "before") = Some v -> run_h rs (HWrap mw m p r inner) = Raised v.
Proof. exact first_value_wins. Qed.
Print Assumptions C16_first_value_wins.

Theorem C16_inner_before_after : forall rs mw m p r inner v,
    raise_at rs mw (bs "before") = None -> run_h rs inner = Raised v ->
    run_h rs (HWrap mw m p r inner) = Raised v.
Proof. exact inner_before_after. Qed.
Print Assumptions C16_inner_before_after.

Theorem C16_after_phase : forall rs mw m p r inner,
    raise_at rs mw (bs "before") = None -> run_h rs inner = Done ->
    run_h rs (HWrap mw m p r inner) =
    match raise_at rs mw (bs "after") with Some v => Raised v | None => Done end.
Proof. exact after_phase. Qed.
Print Assumptions C16_after_phase.

Theorem C16_no_raise_no_recovery : forall rs h, (forall l p, raise_at rs l p = None) -> run_h rs h = Done.
Proof. exact no_raise_no_recovery. Qed.
Print Assumptions C16_no_raise_no_recovery.

Theorem C16_group_notfound : forall g q rs method,
    (forall x, In x (g_routers g) -> matcher_ok (gr_matcher x)) ->
    (forall x, In x (g_routers g) -> exists a b, m_match (gr_matcher x) q [] = MR false a b) ->
    exists s, g_serve g q rs method = SOk s /\ s_handler s = g_notfound g /\
      (g_recover g = true -> s_escaped s = None) /\ (g_recover g = false -> s_recovered s = []).
Proof. exact group_notfound. Qed.
Print Assumptions C16_group_notfound.
