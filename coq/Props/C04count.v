(* C04, the `OPTIONS *` clause – in every tree reachable by registrations, removals, cleans and
   middleware applications (rejected calls included) the tree-wide method counters are exactly the
   per-method numbers of live route nodes holding that method, hence the bit-set of the root (the
   answer to `OPTIONS *`) lists exactly OPTIONS, TRACE when configured, and the methods registered
   on at least one live route; HEAD is never counted.
   Theorems only; definitions (occ, count_of, counters_exact) and proofs are in Proofs/TreeCount.v,
   the history vocabulary (top, keep, tstep) in Proofs/TreeSafe.v, tree_hs_ok in Proofs/TreeAllow.v.
   All statements are proved as given except C04_counters_clean: without a hypothesis on [t] it is
   false (C04_counters_clean_as_given_is_false: a non-reachable tree whose node holds a key twice);
   it is proved under [tree_hs_ok t] as C04_counters_clean_partial, which is what the reachable
   theorem uses. *)
From Coq Require Import String.
From Mux Require Import Model.Bytes Model.Regex Model.Context Model.Syntax Model.Tree
  Proofs.BytesFacts Proofs.MatchSound Proofs.TreeSafe Proofs.TreeAllow Proofs.TreeCount.

Theorem C04_counters_new_tree : forall name ic trace, counters_exact (new_tree name ic trace).
Proof. exact counters_new_tree. Qed.
Print Assumptions C04_counters_new_tree.

Theorem C04_counters_clean_partial : forall t prefix t', tree_hs_ok t ->
  tree_clean t prefix = Ok t' -> counters_exact t'.
Proof. exact counters_clean_partial. Qed.
Print Assumptions C04_counters_clean_partial.

Theorem C04_counters_clean_as_given_is_false :
  ~ (forall t prefix t', tree_clean t prefix = Ok t' -> counters_exact t').
Proof. exact counters_clean_false. Qed.
Print Assumptions C04_counters_clean_as_given_is_false.

Theorem C04_counters_add : forall t p h mws ms t', counters_exact t -> tree_hs_ok t ->
  tree_add t p h mws ms = Ok t' -> counters_exact t'.
Proof. exact counters_add. Qed.
Print Assumptions C04_counters_add.

Theorem C04_counters_remove : forall t p ms t', counters_exact t -> tree_hs_ok t ->
  tree_remove t p ms = Ok t' -> counters_exact t'.
Proof. exact counters_remove. Qed.
Print Assumptions C04_counters_remove.

Theorem C04_counters_use : forall t mws, counters_exact t -> counters_exact (tree_apply_mw t mws).
Proof. exact counters_use. Qed.
Print Assumptions C04_counters_use.

Theorem C04_counters_reachable : forall name ic trace hist,
  counters_exact (fold_left tstep hist (new_tree name ic trace)).
Proof. exact counters_reachable. Qed.
Print Assumptions C04_counters_reachable.

Theorem C04_options_star_exact : forall name ic trace hist m,
  let t := fold_left tstep hist (new_tree name ic trace) in
  In m (methods_of (nmidx (troot t))) <->
    (m = OPTIONS \/ (trace = true /\ m = TRACE) \/
     (is_auto m = false /\ In m methods_list /\ (0 < occ (tree_fuel t) m (troot t))%nat)).
Proof. exact options_star_exact. Qed.
Print Assumptions C04_options_star_exact.
