(* C03 "registered is reachable, removed is gone", C17 "a duplicate pattern+method is rejected",
   C10 strict URL "fails unless the pattern is a live route" – at tree level.
   Theorems only (proofs: Proofs/TreeFind.v).
   [find] (the lookup of Tree.Add / Tree.Remove / strict Tree.URL) is sound and complete with
   respect to the pattern texts in the tree (needs only the pattern invariant, true of every
   reached tree).  The lifecycle statements hold as far as they speak about the node [find]
   returns; the statements "by pattern" need that the pattern occurs once in the tree
   ([pattern_once], computable) and are FALSE on reachable trees without it (last section). *)
From Coq Require Import String.
From Mux Require Import Model.Bytes Model.Regex Model.Context Model.Syntax Model.Tree
     Proofs.MatchSound Proofs.ParseTotal Proofs.TreeSafe Proofs.TreeAllow Proofs.TreeText Proofs.TreeFind.

(* ================================================================ Part A : find *)
Theorem C03_find_sound : forall fuel n q r, all_nodes pat_ok n -> find fuel n q = Some r ->
  desc n r /\ npat r = npat n ++ q.
Proof. exact C03_find_sound_l. Qed.
Print Assumptions C03_find_sound.

Theorem C03_find_complete : forall fuel n r, all_nodes pat_ok n -> (height n <= fuel)%nat -> desc n r ->
  exists r', find fuel n (skipn (length (npat n)) (npat r)) = Some r' /\ npat r' = npat r.
Proof. exact C03_find_complete_l. Qed.
Print Assumptions C03_find_complete.

Theorem C10_find_is_last_of_chain : forall fuel n q,
  find fuel n q = match find_chain fuel n q with Some chain => Some (last chain n) | None => None end.
Proof. exact find_chain_find. Qed.
Print Assumptions C10_find_is_last_of_chain.

Theorem C10_find_chain_sound : forall fuel n q chain, all_nodes pat_ok n ->
  find_chain fuel n q = Some chain ->
  chain <> [] /\ linked n chain /\ desc n (last chain n) /\ npat (last chain n) = npat n ++ q.
Proof. exact C10_find_chain_sound_l. Qed.
Print Assumptions C10_find_chain_sound.

Theorem C10_find_chain_complete : forall fuel n r, all_nodes pat_ok n -> (height n <= fuel)%nat ->
  desc n r ->
  exists chain, find_chain fuel n (skipn (length (npat n)) (npat r)) = Some chain /\
    npat (last chain n) = npat r.
Proof. exact C10_find_chain_complete_l. Qed.
Print Assumptions C10_find_chain_complete.

(* the pattern invariant on every tree reached with the history vocabulary of TreeSafe *)
Theorem C03_pat_reachable : forall name ic trace hist,
  tree_pat_ok (fold_left tstep hist (new_tree name ic trace)).
Proof. exact C03_pat_reachable_l. Qed.
Print Assumptions C03_pat_reachable.

Theorem C03_find_reachable : forall name ic trace hist p,
  let t := fold_left tstep hist (new_tree name ic trace) in
  (forall r, find (tree_fuel t) (troot t) p = Some r -> desc (troot t) r /\ npat r = p) /\
  (forall r, desc (troot t) r -> npat r = p ->
     exists r', find (tree_fuel t) (troot t) p = Some r' /\ npat r' = p).
Proof. exact C03_find_reachable_l. Qed.
Print Assumptions C03_find_reachable.

(* ================================================================ Part C : lifecycle *)

(* registration: the node updated spells the pattern, is in the new tree, answers the methods *)
Theorem C03_add_registers : forall t p h mws ms t', tree_pat_ok t -> tree_hs_ok t ->
  tree_add t p h mws ms = Ok t' ->
  exists n, desc (troot t') n /\ npat n = p /\
    (forall m, In m (match ms with [] => any_methods | _ => ms end) -> ahas m (nhandlers n) = true) /\
    ahas OPTIONS (nhandlers n) = true /\ ahas M405 (nhandlers n) = true.
Proof. exact C03_add_registers_l. Qed.
Print Assumptions C03_add_registers.

Theorem C03_add_then_find : forall t p h mws ms t', tree_pat_ok t -> tree_hs_ok t ->
  tree_add t p h mws ms = Ok t' ->
  exists n, find (tree_fuel t') (troot t') p = Some n /\ npat n = p /\
    (pattern_once p (troot t') ->
     (forall m, In m (match ms with [] => any_methods | _ => ms end) -> ahas m (nhandlers n) = true) /\
     ahas OPTIONS (nhandlers n) = true /\ ahas M405 (nhandlers n) = true).
Proof. exact C03_add_then_find_l. Qed.
Print Assumptions C03_add_then_find.

(* duplicates: rejected before the tree is touched, never with a runtime fault *)
Theorem C17_check_amb_no_panic : forall fuel ic n pattern nonstr, (height n <= fuel)%nat ->
  forall s, check_amb fuel ic n pattern nonstr <> Panic s.
Proof. exact check_amb_np. Qed.
Print Assumptions C17_check_amb_no_panic.

Theorem C17_duplicate_rejected_tree : forall t p h mws ms n m, tree_pat_ok t ->
  find (tree_fuel t + length p + 2) (troot t) p = Some n -> ahas m (nhandlers n) = true ->
  In m (match ms with [] => any_methods | _ => ms end) ->
  exists e, tree_add t p h mws ms = Err e \/ tree_add t p h mws ms = Unsup.
Proof. exact C17_duplicate_rejected_tree_l. Qed.
Print Assumptions C17_duplicate_rejected_tree.

Theorem C17_duplicate_rejected_unique_partial : forall t p h mws ms n m, tree_pat_ok t ->
  pattern_once p (troot t) -> desc (troot t) n -> npat n = p -> ahas m (nhandlers n) = true ->
  In m (match ms with [] => any_methods | _ => ms end) ->
  exists e, tree_add t p h mws ms = Err e \/ tree_add t p h mws ms = Unsup.
Proof. exact C17_duplicate_rejected_unique_l. Qed.
Print Assumptions C17_duplicate_rejected_unique_partial.

Theorem C17_rejected_add_is_noop : forall t p h mws ms e,
  tree_add t p h mws ms = Err e -> keep t (tree_add t p h mws ms) = t.
Proof. exact C17_rejected_add_is_noop_l. Qed.
Print Assumptions C17_rejected_add_is_noop.

(* removal: the walk of [find], one node replaced (or dropped), everything else kept *)
Theorem C03_remove_effect : forall fuel trace ms n p n' rm,
  remove_in fuel trace ms n p = Ok (Some (n', rm)) ->
  exists r, find fuel n p = Some r /\ rm = snd (remove_at_node trace ms r) /\
    one_changed r (fst (remove_at_node trace ms r)) n n'.
Proof. exact C03_remove_effect_l. Qed.
Print Assumptions C03_remove_effect.

Theorem C03_remove_none_absent : forall fuel trace ms n p, remove_in fuel trace ms n p = Ok None ->
  find fuel n p = None.
Proof. exact remove_in_none. Qed.
Print Assumptions C03_remove_none_absent.

Theorem C03_remove_others_kept : forall r r' n n', nchildren r' = nchildren r ->
  one_changed r r' n n' ->
  forall d, desc n' d -> d = r' \/ exists d0, desc n d0 /\ same_data d0 d.
Proof. exact C03_remove_others_kept_l. Qed.
Print Assumptions C03_remove_others_kept.

Theorem C03_absent_not_found : forall t p, tree_pat_ok t ->
  find (tree_fuel t) (troot t) p = None -> forall n, desc (troot t) n -> npat n <> p.
Proof. exact C03_absent_not_found_l. Qed.
Print Assumptions C03_absent_not_found.

Theorem C03_pattern_once_unique : forall p n a b, pattern_once p n ->
  desc n a -> desc n b -> npat a = p -> npat b = p -> a = b.
Proof. exact C03_pattern_once_unique_l. Qed.
Print Assumptions C03_pattern_once_unique.

Theorem C03_remove_all_clears_partial : forall t p t', tree_pat_ok t -> pattern_once p (troot t) ->
  tree_remove t p [] = Ok t' ->
  forall n, desc (troot t') n -> npat n = p -> nhandlers n = [].
Proof. exact C03_remove_all_clears_partial_l. Qed.
Print Assumptions C03_remove_all_clears_partial.

(* strict URL *)
Theorem C10_strict_requires_live : forall t p ps u, tree_url t p ps = Ok u ->
  exists chain n, find_chain (tree_fuel t) (troot t) p = Some chain /\
    last chain (troot t) = n /\ nhandlers n <> [].
Proof. exact C10_strict_requires_live_l. Qed.
Print Assumptions C10_strict_requires_live.

Theorem C10_strict_not_live : forall t p ps, tree_pat_ok t ->
  (forall n, desc (troot t) n -> npat n = p -> nhandlers n = []) ->
  (height (troot t) <= tree_fuel t)%nat ->
  exists e, tree_url t p ps = Err e.
Proof. exact C10_strict_not_live_l. Qed.
Print Assumptions C10_strict_not_live.

Theorem C10_live_is_found : forall t n, tree_pat_ok t -> desc (troot t) n ->
  exists chain, find_chain (tree_fuel t) (troot t) (npat n) = Some chain /\
    npat (last chain (troot t)) = npat n.
Proof. exact C10_live_is_found_l. Qed.
Print Assumptions C10_live_is_found.

(* ================================================================ Part B : uniqueness is false
   history: OAdd "/{a", OAdd "/{a{b}x", OAdd "/{a{c}y" (then OAdd "/{a" again): two nodes spell
   "/{a", both end up answering GET with different handlers, removing "/{a" clears one of them *)
Theorem C03_pattern_once_refuted :
  ~ (forall name ic trace hist p, pattern_once p (troot (fold_left tstep hist (new_tree name ic trace)))).
Proof. exact C03_pattern_once_refuted_l. Qed.
Print Assumptions C03_pattern_once_refuted.

Theorem C03_pattern_unique_refuted :
  ~ (forall name ic trace hist n1 n2, let t := fold_left tstep hist (new_tree name ic trace) in
       desc (troot t) n1 -> desc (troot t) n2 -> npat n1 = npat n2 ->
       nhandlers n1 <> [] -> nhandlers n2 <> [] ->
       nhandlers n1 = nhandlers n2 /\ nmidx n1 = nmidx n2).
Proof. exact C03_pattern_unique_refuted_l. Qed.
Print Assumptions C03_pattern_unique_refuted.

Theorem C17_duplicate_by_pattern_refuted :
  ~ (forall name ic trace hist p h mws m n, let t := fold_left tstep hist (new_tree name ic trace) in
       desc (troot t) n -> npat n = p -> ahas m (nhandlers n) = true ->
       exists e, tree_add t p h mws [m] = Err e \/ tree_add t p h mws [m] = Unsup).
Proof. exact C17_duplicate_by_pattern_refuted_l. Qed.
Print Assumptions C17_duplicate_by_pattern_refuted.

Theorem C03_remove_all_clears_refuted :
  ~ (forall name ic trace hist p t', let t := fold_left tstep hist (new_tree name ic trace) in
       tree_remove t p [] = Ok t' -> forall n, desc (troot t') n -> npat n = p -> nhandlers n = []).
Proof. exact C03_remove_all_clears_refuted_l. Qed.
Print Assumptions C03_remove_all_clears_refuted.
