(* Small decision functions of the CURRENT source, translated to Gallina by tools/srcfacts/pure.go on
   every run (Gen/PureFuns.v), are the model's definitions: the model is not merely tested against
   them.  Each theorem also pins the meaning of the translated function's parameters (the source
   text of the sub-expressions the translator leaves uninterpreted). *)
From Coq Require Import String List ZArith Bool Lia.
From Mux Require Import Model.Bytes Model.Syntax Model.Tree Model.Http Model.Cors Gen.Consts Gen.PureFuns Proofs.PureCors Proofs.PureMatch.
Import ListNotations.
Open Scope string_scope.

Definition rankZ (s : segment) : Z := Z.of_nat (stype_rank (styp s)).

Fixpoint src_const' (k : string) (l : list (string * string)) : option string :=
  match l with
  | [] => None
  | (k', v) :: l' => if String.eqb k k' then Some v else src_const' k l'
  end.

(* the numeric order of the segment kinds *)
Theorem C02_type_order_is_source :
  map (fun k => src_const' k src_consts) ["syntax.String"; "syntax.Interceptor"; "syntax.Regexp"; "syntax.Named"]
  = [Some "0"; Some "1"; Some "2"; Some "3"] /\
  map stype_rank [TString; TIcpt; TRegexp; TNamed] = [0; 1; 2; 3]%nat.
Proof. vm_compute. split; reflexivity. Qed.
Print Assumptions C02_type_order_is_source.

(* node.priority: the sort key of sibling nodes *)
Theorem C02_priority_is_source :
  src_node_priority_atoms = ["n.segment.Type"; "len(n.children)"; "n.segment.Endpoint"] /\
  forall n, Z.of_nat (priority n) =
            src_node_priority (rankZ (nseg n)) (Z.of_nat (length (nchildren n))) (sendpoint (nseg n)).
Proof.
  split; [reflexivity|]. intros n. unfold priority, src_node_priority, rankZ.
  destruct (nchildren n) as [|c cs]; destruct (sendpoint (nseg n)); cbn [length]; 
    try (replace (Z.of_nat (S (length cs)) =? 0)%Z with false by (symmetry; apply Z.eqb_neq; lia)); cbn [Z.of_nat Z.eqb]; lia.
Qed.
Print Assumptions C02_priority_is_source.

(* what the sort needs from the key, proved of the source's own arithmetic: a lower kind sorts first
   whatever the two adjustments are *)
Theorem C02_source_priority_separates_kinds : forall t1 t2 c1 c2 e1 e2,
  (0 <= t1)%Z -> (t1 < t2)%Z -> (src_node_priority t1 c1 e1 < src_node_priority t2 c2 e2)%Z.
Proof.
  intros t1 t2 c1 c2 e1 e2 H0 Hlt. unfold src_node_priority.
  destruct (c1 =? 0)%Z; destruct (c2 =? 0)%Z; destruct e1; destruct e2; lia.
Qed.
Print Assumptions C02_source_priority_separates_kinds.

(* isAutoMethod *)
Theorem C04_is_auto_is_source :
  src_is_auto_method_atoms = ["m == http.MethodOptions"; "m == http.MethodHead"; "m == methodNotAllowed"] /\
  forall m, is_auto m = src_is_auto_method (beqb m OPTIONS) (beqb m HEAD) (beqb m M405).
Proof. split; [reflexivity|]. intros m. reflexivity. Qed.
Print Assumptions C04_is_auto_is_source.

(* Tree.match, the dispatch decision of the router (TRACE short-circuit; "*" and "" select the root,
   matchChildren otherwise; nil node or size()==0 -> notFound; a registered method -> its handler;
   else the node's 405 handler).  src_tree_match (returns mode of the translator) is WHICH return
   statement of the current source is reached and the text of what it returns; tm_source
   (Proofs/PureMatch.v) instantiates its atoms with the model's values: "tree.hasTrace" is
   `ttrace t` being Some, "method == http.MethodTrace" is `beqb method TRACE`, the two ctx.Path tests
   are `beqb path (bs "*")` and `beqb path []`, "<node> == nil" is match_children answering MNone
   (false for the root), "<node>.size()" is nsize, "_, exists := <node>.handlers[method]" is the raw
   `alookup method (nhandlers n)` being Some and "method == methodNotAllowed" is `beqb method M405`
   (the model's lookup_handler is the conjunction of the last two: PureMatch.tm_lookup_handler).
   tm_hres maps return 0 to HFound true (Some root) trace ps, 1 to HFound false None notfound ps',
   2 to HFound true (Some n) h ps', 3 to HFound false (Some n) h405 ps' (HPanic "Handler:nil-405"
   when the node has no 405 entry: the source returns a nil handler there). *)
Theorem C05_tree_match_is_source :
  src_tree_match_atoms =
    ["tree.hasTrace"; "method == http.MethodTrace"; "ctx.Path == ""*"""; "ctx.Path == """"";
     "tree.node == nil"; "tree.node.size()"; "_, exists := tree.node.handlers[method]";
     "method == methodNotAllowed";
     "tree.node.matchChildren(ctx) == nil"; "tree.node.matchChildren(ctx).size()";
     "_, exists := tree.node.matchChildren(ctx).handlers[method]"] /\
  forall t method path ps,
    (forall s, tm_mres t path ps <> MPanic s) ->     (* fuel exhaustion exists in the model only *)
    let r := tm_source t method path ps in
    tree_handler t method path ps = tm_hres t method path ps r /\
    (0 <= mret_index r <= 3)%Z /\
    mret_exprs r = tm_exprs (tm_root_path path) (mret_index r).
Proof. exact tree_match_is_source. Qed.
Print Assumptions C05_tree_match_is_source.

(* Segment.IsAmbiguous *)
Theorem C17_is_ambiguous_is_source :
  src_is_ambiguous_atoms = ["seg.ignoreName"; "s2.ignoreName"; "seg.Endpoint"; "s2.Endpoint"; "seg.Type"; "s2.Type";
                            "seg.rule == s2.rule"; "seg.Suffix == s2.Suffix"; "seg.Name == s2.Name";
                            "seg.ambiguousLength"; "s2.ambiguousLength"] /\
  forall a b, is_ambiguous a b =
    src_is_ambiguous (signore a) (signore b) (sendpoint a) (sendpoint b) (rankZ a) (rankZ b)
                     (beqb (srule a) (srule b)) (beqb (ssuffix a) (ssuffix b)) (beqb (sname a) (sname b))
                     (Z.of_nat (samb a)) (Z.of_nat (samb b)).
Proof.
  split; [reflexivity|]. intros a b. unfold is_ambiguous, src_is_ambiguous, stype_eqb, rankZ.
  assert (E1 : forall x y : nat, (Z.of_nat x =? Z.of_nat y)%Z = Nat.eqb x y).
  { intros x y. destruct (Nat.eqb_spec x y) as [->|N]; [apply Z.eqb_refl|apply Z.eqb_neq; lia]. }
  rewrite !E1. destruct (negb (eqb (signore a) (signore b))); reflexivity.
Qed.
Print Assumptions C17_is_ambiguous_is_source.

Theorem C17_ambiguous_len_is_source :
  src_ambiguous_len_atoms = ["seg.ambiguousLength"; "len(seg.Name)"] /\
  forall s, Z.of_nat (ambiguous_len s) = src_ambiguous_len (Z.of_nat (samb s)) (Z.of_nat (length (sname s))).
Proof. split; [reflexivity|]. intros s. unfold ambiguous_len, src_ambiguous_len. lia. Qed.
Print Assumptions C17_ambiguous_len_is_source.

(* Segment.Similarity *)
Theorem C02_similarity_is_source :
  src_similarity_atoms = ["s1.Value == seg.Value"; "s1.Type"; "seg.Type"; "longestPrefix(s1.Value, seg.Value)"] /\
  forall seg s1, similarity seg s1 =
    src_similarity (beqb (sval s1) (sval seg)) (rankZ s1) (rankZ seg) (longest_prefix (sval s1) (sval seg)).
Proof.
  split; [reflexivity|]. intros seg s1. unfold similarity, src_similarity, stype_eqb, rankZ.
  assert (E1 : forall x y : nat, (Z.of_nat x =? Z.of_nat y)%Z = Nat.eqb x y).
  { intros x y. destruct (Nat.eqb_spec x y) as [->|N]; [apply Z.eqb_refl|apply Z.eqb_neq; lia]. }
  rewrite E1. reflexivity.
Qed.
Print Assumptions C02_similarity_is_source.

(* Segment.Valid (strict URL building) *)
Theorem C10_seg_valid_is_source :
  src_seg_valid_atoms = ["seg.Type"; "seg.matcher(pattern)"] /\
  forall seg v, seg_valid seg v = src_seg_valid (rankZ seg) (smatch seg v).
Proof.
  split; [reflexivity|]. intros seg v. unfold seg_valid, src_seg_valid, rankZ.
  destruct (styp seg); reflexivity.
Qed.
Print Assumptions C10_seg_valid_is_source.

(* cors.handle: the sequence of header writes the source makes, as a function of its inputs, is the model's
   [cors_handle] (proof in Proofs/PureCors.v) *)
Theorem C11_cors_handle_is_source :
  src_cors_handle_atoms = ["c.deny"; "r.Header.Get(header.AccessControlRequestMethod)"; "r.Method"; "r.URL.Path";
    "slices.Index(node.Methods(), reqMethod)"; "node.AllowHeader()"; "c.headerIsAllowed(r)"; "c.allowHeadersString";
    "c.maxAgeString"; "c.anyOrigins"; "r.Header.Get(header.Origin)"; "slices.Index(c.Origins, origin)";
    "c.AllowCredentials"; "c.exposedHeadersString"] /\
  forall c node_methods node_allow q wh,
    cors_handle c node_methods node_allow q wh =
    fold_left apply_sev
      (src_cors_handle bytes bs beqb (c_deny c) (q_acrm q) (q_method q) (q_path q) (idx (q_acrm q) node_methods) node_allow
         (header_is_allowed c (q_acrh q)) (c_allow_headers_string c) (c_max_age_string c) (c_any_origins c) (q_origin q)
         (idx (q_origin q) (c_origins c)) (c_creds c) (c_exposed_string c)) wh.
Proof. exact cors_handle_is_source. Qed.
Print Assumptions C11_cors_handle_is_source.

Theorem C12_cors_handle_is_source : forall c node_methods node_allow q wh,
    cors_handle c node_methods node_allow q wh =
    fold_left apply_sev
      (src_cors_handle bytes bs beqb (c_deny c) (q_acrm q) (q_method q) (q_path q) (idx (q_acrm q) node_methods) node_allow
         (header_is_allowed c (q_acrh q)) (c_allow_headers_string c) (c_max_age_string c) (c_any_origins c) (q_origin q)
         (idx (q_origin q) (c_origins c)) (c_creds c) (c_exposed_string c)) wh.
Proof. exact (proj2 cors_handle_is_source). Qed.
Print Assumptions C12_cors_handle_is_source.
