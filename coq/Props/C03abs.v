(* C03 "after any sequence of Handle, Remove and Clean calls, Routes() lists exactly the live
   patterns with exactly their live methods" and the refinement behind every table-level theorem
   of this development: THE TREE IS THE TABLE.  Theorems only (proofs: Proofs/TreeAbs.v).

   [abs_tree t] = the rows (npat n, nhandlers n) of the nodes below the root that have handlers;
   [table_of name ic trace hist] = the table of Spec/Table.v run in lock step with the tree
   ([lock_run]: t_handle exactly when Tree.Add accepted, t_remove / t_clean / t_use always, as the
   test oracle of Suites/SRT.v does), from the empty table, with
   c = {| c_trace := trace; c_router := name; c_ic := ic |}.

   - C03_tree_is_table: [alookup p] agrees, with PLAIN equality of entries (same methods in the
     same order, same handler terms); the set of patterns coincides; no pattern occurs twice.
     The rows are a permutation of each other (C03_tree_table_perm): only the row order differs.
   - Middleware: at tree level OAdd carries the list given to Tree.Add, OUse wraps every stored
     handler; both machines do the same (t_use = tree_apply_mw on rows).
   - C03_served_handler_is_table_entry as first stated is FALSE at the root (OPTIONS "*", TRACE and
     the empty path are answered by the root, whose pattern "" is never a row): _refuted; the
     _partial form adds [n <> troot t].
   - C03_routes_exact as first stated is FALSE when a route "*" is registered (Routes() is a map:
     the node's row replaces the row of OPTIONS *; spec_routes lists both): _refuted; the _partial
     form adds [~ In "*" (akeys T)] and proves equality of the sorted LISTS. *)
From Coq Require Import String Permutation.
From Mux Require Import Model.Bytes Model.Regex Model.Context Model.Syntax Model.Tree Spec.Table
     Proofs.MatchSound Proofs.TreeSafe Proofs.TreeAllow Proofs.TreeText Proofs.TreeFind Proofs.TokensSplit
     Proofs.TreeAbs.

(* ================================================================ the refinement *)
Theorem C03_tree_is_table : forall name ic trace hist p, hist_tokens hist = true ->
  let t := fold_left tstep hist (new_tree name ic trace) in
  let T := snd (lock_run {| c_trace := trace; c_router := name; c_ic := ic |} hist (new_tree name ic trace)) in
  alookup p (abs_tree t) = alookup p T.
Proof. exact C03_tree_is_table_l. Qed.
Print Assumptions C03_tree_is_table.

Theorem C03_tree_table_patterns : forall name ic trace hist p, hist_tokens hist = true ->
  let t := fold_left tstep hist (new_tree name ic trace) in
  let T := table_of name ic trace hist in
  In p (akeys (abs_tree t)) <-> In p (akeys T).
Proof. exact C03_tree_table_patterns_l. Qed.
Print Assumptions C03_tree_table_patterns.

Theorem C03_abs_tree_nodup : forall name ic trace hist, hist_tokens hist = true ->
  NoDup (akeys (abs_tree (fold_left tstep hist (new_tree name ic trace)))) /\
  NoDup (akeys (table_of name ic trace hist)).
Proof. exact C03_abs_tree_nodup_l. Qed.
Print Assumptions C03_abs_tree_nodup.

Theorem C03_tree_table_perm : forall name ic trace hist, hist_tokens hist = true ->
  Permutation (abs_tree (fold_left tstep hist (new_tree name ic trace))) (table_of name ic trace hist).
Proof. exact lock_perm. Qed.
Print Assumptions C03_tree_table_perm.

(* the tree component of the lock-step run is the tree of the history *)
Theorem C03_lock_run_tree : forall c hist t0, fst (lock_run c hist t0) = fold_left tstep hist t0.
Proof. exact lock_run_fst. Qed.
Print Assumptions C03_lock_run_tree.

(* the rows of [abs_tree] are the live nodes *)
Theorem C03_abs_tree_rows : forall n kv, In kv (below n) ->
  exists d, desc n d /\ kv = (npat d, nhandlers d) /\ nhandlers d <> [].
Proof. exact below_In_node. Qed.
Print Assumptions C03_abs_tree_rows.

Theorem C03_abs_tree_complete : forall n d, desc n d -> nhandlers d <> [] -> In (npat d, nhandlers d) (below n).
Proof. exact node_In_below. Qed.
Print Assumptions C03_abs_tree_complete.

Theorem C03_live_node_is_row : forall name ic trace hist n, hist_tokens hist = true ->
  let t := fold_left tstep hist (new_tree name ic trace) in
  desc (troot t) n -> nhandlers n <> [] ->
  alookup (npat n) (table_of name ic trace hist) = Some (nhandlers n).
Proof. exact C03_live_node_is_row_l. Qed.
Print Assumptions C03_live_node_is_row.

Theorem C03_row_is_live_node : forall name ic trace hist p e, hist_tokens hist = true ->
  let t := fold_left tstep hist (new_tree name ic trace) in
  alookup p (table_of name ic trace hist) = Some e ->
  exists n, desc (troot t) n /\ npat n = p /\ nhandlers n = e /\ e <> [].
Proof. exact C03_row_is_live_node_l. Qed.
Print Assumptions C03_row_is_live_node.

(* ================================================================ one commutation lemma per operation *)
Theorem C03_abs_add_commutes : forall c T t p h mws ms t', tree_pat_ok t -> c_router c = tname t ->
  NoDup (akeys (abs_tree t)) -> NoDup (akeys (abs_tree t')) ->
  Permutation (abs_tree t) T -> tree_add t p h mws ms = Ok t' ->
  Permutation (abs_tree t') (t_handle c T p h mws ms).
Proof. exact add_step. Qed.
Print Assumptions C03_abs_add_commutes.

Theorem C03_abs_remove_commutes : forall T t p ms t', tree_pat_ok t -> tree_hs_ok t ->
  (forall q, pattern_once q (troot t)) ->
  Permutation (abs_tree t) T -> tree_remove t p ms = Ok t' ->
  Permutation (abs_tree t') (t_remove T p ms).
Proof. exact remove_step. Qed.
Print Assumptions C03_abs_remove_commutes.

Theorem C03_abs_clean_commutes : forall T t prefix t', tree_pat_ok t -> Permutation (abs_tree t) T ->
  tree_clean t prefix = Ok t' -> Permutation (abs_tree t') (t_clean T prefix).
Proof. exact clean_step. Qed.
Print Assumptions C03_abs_clean_commutes.

Theorem C03_abs_use_commutes : forall c T t mws, c_router c = tname t -> Permutation (abs_tree t) T ->
  Permutation (abs_tree (tree_apply_mw t mws)) (t_use c T mws).
Proof. exact use_step. Qed.
Print Assumptions C03_abs_use_commutes.

(* Tree.Add replaces exactly one row: the row of [p] (absent = no handlers) becomes add_hs of it *)
Theorem C03_add_changes_one_row : forall t p h mws ms t', tree_pat_ok t -> tree_add t p h mws ms = Ok t' ->
  exists hs rest,
    Permutation (abs_tree t) (row p hs ++ rest) /\
    Permutation (abs_tree t')
      (row p (add_hs (tname t) h p mws (match ms with [] => any_methods | _ => ms end) hs) ++ rest).
Proof. exact tree_add_rows. Qed.
Print Assumptions C03_add_changes_one_row.

(* Tree.Clean is a filter on the rows, order included *)
Theorem C03_clean_filters_rows : forall fuel n q n', all_nodes pat_ok n -> clean_in fuel n q = Ok n' ->
  own n' = own n /\ below n' = filter (keepf (npat n ++ q)) (below n).
Proof. exact clean_in_rows. Qed.
Print Assumptions C03_clean_filters_rows.

(* ================================================================ what is served is in the table *)
Theorem C03_served_handler_is_table_entry_partial : forall name ic trace hist method path n h ps,
  hist_tokens hist = true ->
  let t := fold_left tstep hist (new_tree name ic trace) in
  let T := table_of name ic trace hist in
  tree_handler t method path [] = HFound true (Some n) h ps -> n <> troot t ->
  alookup (npat n) T = Some (nhandlers n) /\
  alookup method (opt_default [] (alookup (npat n) T)) = Some h.
Proof. exact C03_served_handler_is_table_entry_partial_l. Qed.
Print Assumptions C03_served_handler_is_table_entry_partial.

Theorem C03_405_handler_is_table_entry : forall name ic trace hist method path n h ps,
  hist_tokens hist = true ->
  let t := fold_left tstep hist (new_tree name ic trace) in
  let T := table_of name ic trace hist in
  tree_handler t method path [] = HFound false (Some n) h ps -> n <> troot t ->
  alookup (npat n) T = Some (nhandlers n) /\ lookup_handler method (nhandlers n) = None /\
  alookup M405 (nhandlers n) = Some h.
Proof. exact C03_405_handler_is_table_entry_l. Qed.
Print Assumptions C03_405_handler_is_table_entry.

Theorem C03_served_handler_is_table_entry_refuted :
  ~ (forall name ic trace hist method path n h ps, hist_tokens hist = true ->
       let t := fold_left tstep hist (new_tree name ic trace) in
       let T := table_of name ic trace hist in
       tree_handler t method path [] = HFound true (Some n) h ps ->
       alookup method (opt_default [] (alookup (npat n) T)) = Some h).
Proof. exact C03_served_handler_is_table_entry_refuted_l. Qed.
Print Assumptions C03_served_handler_is_table_entry_refuted.

(* ================================================================ Routes() *)
Theorem C03_routes_exact_partial : forall name ic trace hist, hist_tokens hist = true ->
  let t := fold_left tstep hist (new_tree name ic trace) in
  let T := table_of name ic trace hist in
  ~ In (bs "*") (akeys T) ->
  tree_routes t = spec_routes (has_trace t) T.
Proof. exact C03_routes_exact_partial_l. Qed.
Print Assumptions C03_routes_exact_partial.

Theorem C03_routes_exact_refuted :
  ~ (forall name ic trace hist, hist_tokens hist = true ->
       let t := fold_left tstep hist (new_tree name ic trace) in
       tree_routes t = spec_routes (has_trace t) (table_of name ic trace hist)).
Proof. exact C03_routes_exact_refuted_l. Qed.
Print Assumptions C03_routes_exact_refuted.

(* the bit-set of a live node renders the methods the specification computes from its row *)
Theorem C03_node_methods_are_spec_methods : forall trace n, TreeAllow.hs_ok trace n -> nhandlers n <> [] ->
  methods_of (nmidx n) = spec_methods trace (nhandlers n).
Proof. exact methods_of_spec. Qed.
Print Assumptions C03_node_methods_are_spec_methods.

(* insertion sort by key is canonical on lists with pairwise different keys *)
Theorem C03_sort_canonical : forall (V : Type) (l l' : list (bytes * V)), Permutation l l' ->
  NoDup (akeys l) -> asort l = asort l'.
Proof. exact asort_perm_eq. Qed.
Print Assumptions C03_sort_canonical.

(* ================================================================ examples *)
Theorem C03_abs_example_premises :
  hist_tokens exa_hist = true /\ ~ In (bs "*") (akeys exa_table) /\
  all_accepted (new_tree (bs "main") [] true) (firstn 3 exa_hist) = true /\
  all_accepted (new_tree (bs "main") [] true) (firstn 4 exa_hist) = false.
Proof. exact exa_premises. Qed.
Print Assumptions C03_abs_example_premises.

Theorem C03_abs_example_rows :
  map (fun pe => (fst pe, akeys (snd pe))) exa_table =
    [(bs "/a", [HEAD; GET; OPTIONS; M405]); (bs "/a/{id}", [HEAD; GET; OPTIONS; M405])] /\
  abs_tree exa_tree = exa_table /\
  alookup GET (opt_default [] (alookup (bs "/a/{id}") exa_table)) =
    Some (HWrap (bs "u1") GET (bs "/a/{id}") (bs "main")
            (HWrap (bs "r1") GET (bs "/a/{id}") (bs "main") (HUser (bs "hid")))).
Proof. exact exa_rows. Qed.
Print Assumptions C03_abs_example_rows.

Theorem C03_abs_example_routes :
  tree_routes exa_tree = spec_routes true exa_table /\
  tree_routes exa_tree =
    [(bs "*", [OPTIONS; TRACE]); (bs "/a", [GET; HEAD; OPTIONS; TRACE]); (bs "/a/{id}", [GET; HEAD; OPTIONS; TRACE])].
Proof. exact exa_routes. Qed.
Print Assumptions C03_abs_example_routes.

Theorem C03_abs_example_served :
  match tree_handler exa_tree GET (bs "/a/7") [] with
  | HFound true (Some n) h ps =>
    n <> troot exa_tree /\ npat n = bs "/a/{id}" /\
    alookup GET (opt_default [] (alookup (npat n) exa_table)) = Some h
  | _ => False
  end.
Proof. exact exa_served. Qed.
Print Assumptions C03_abs_example_served.
