(* C14 - Hosts: normalisation (port, brackets, case) and case-insensitive add / delete / match. Theorems only. *)
From Coq Require Import String.
From Mux Require Import Model.Bytes Model.Tree Model.Match Proofs.Misc3 Proofs.HostsRestore.

Theorem C14_normalise_is_lower : forall h, to_lower (normalise_host h) = normalise_host h.
Proof. exact C14_normalise_is_lower_l. Qed.
Print Assumptions C14_normalise_is_lower.

Theorem C14_strip_port_valid : forall h digits,
    forallb is_digit digits = true -> (forall c, In c h -> c <> 58) -> strip_port (h ++ 58 :: digits) = h.
Proof. exact C14_strip_port_valid_l. Qed.
Print Assumptions C14_strip_port_valid.

(* extra: the guard on [h] is not needed (LastIndexByte finds the appended colon in any case) *)
Theorem C14_strip_port_valid_any : forall h digits,
    forallb is_digit digits = true -> strip_port (h ++ 58 :: digits) = h.
Proof. exact strip_port_valid_any. Qed.
Print Assumptions C14_strip_port_valid_any.

Theorem C14_strip_port_invalid : forall h, last_index_byte h 58 = None -> strip_port h = h.
Proof. exact C14_strip_port_invalid_l. Qed.
Print Assumptions C14_strip_port_invalid.

Theorem C14_strip_brackets : forall h, strip_brackets (91 :: h ++ [93]) = h.
Proof. exact C14_strip_brackets_l. Qed.
Print Assumptions C14_strip_brackets.

Theorem C14_add_ci : forall t d d', to_lower d = to_lower d' -> hosts_add t d = hosts_add t d'.
Proof. exact C14_add_ci_l. Qed.
Print Assumptions C14_add_ci.

Theorem C14_delete_ci : forall t d d', to_lower d = to_lower d' -> hosts_delete t d = hosts_delete t d'.
Proof. exact C14_delete_ci_l. Qed.
Print Assumptions C14_delete_ci.

Theorem C14_match_uses_normalised : forall t h h' ps,
    normalise_host h = normalise_host h' -> hosts_match t h ps = hosts_match t h' ps.
Proof. exact hosts_match_normalise'. Qed.
Print Assumptions C14_match_uses_normalised.
