(* C19 – Prefix / Resource are shorthand for Router calls. Theorems only (proofs: Proofs/Facade.v). *)
From Coq Require Import String.
From Mux Require Import Model.Bytes Model.Regex Model.Context Model.Syntax Model.Tree Model.Router
     Spec.Table Proofs.Facade.

Theorem C19_prefix_handle : forall r pre pms pat h m ms,
    f_handle r (f_prefix None pre pms) pat h m ms = r_handle r (pre ++ pat) h (m ++ pms) ms.
Proof. exact prefix_handle. Qed.
Print Assumptions C19_prefix_handle.

Theorem C19_nested_prefix_handle : forall r pre1 ms1 pre2 ms2 pat h m ms,
    f_handle r (f_prefix (Some (f_prefix None pre1 ms1)) pre2 ms2) pat h m ms =
    r_handle r (pre1 ++ pre2 ++ pat) h (m ++ ms2 ++ ms1) ms.
Proof. exact nested_prefix_handle. Qed.
Print Assumptions C19_nested_prefix_handle.

Theorem C19_resource_handle : forall r parent pat rms anypat h m ms,
    f_handle r (f_resource parent pat rms) anypat h m ms =
    r_handle r (match parent with None => pat | Some p => fpat p ++ pat end) h
             (m ++ rms ++ match parent with None => [] | Some p => fms p end) ms.
Proof. exact resource_handle. Qed.
Print Assumptions C19_resource_handle.

Theorem C19_prefix_remove : forall r parent pre pms pat ms,
    f_remove r (f_prefix parent pre pms) pat ms =
    r_remove r (match parent with None => pre ++ pat | Some p => fpat p ++ pre ++ pat end) ms.
Proof. exact prefix_remove. Qed.
Print Assumptions C19_prefix_remove.

Theorem C19_resource_remove : forall r parent pat rms anypat ms,
    f_remove r (f_resource parent pat rms) anypat ms =
    r_remove r (match parent with None => pat | Some p => fpat p ++ pat end) ms.
Proof. exact resource_remove. Qed.
Print Assumptions C19_resource_remove.

Theorem C19_prefix_clean : forall r parent pre pms,
    f_clean r (f_prefix parent pre pms) =
    r_clean r (match parent with None => pre | Some p => fpat p ++ pre end).
Proof. exact prefix_clean. Qed.
Print Assumptions C19_prefix_clean.

Theorem C19_resource_clean : forall r parent pat rms,
    f_clean r (f_resource parent pat rms) =
    r_remove r (match parent with None => pat | Some p => fpat p ++ pat end) [].
Proof. exact resource_clean. Qed.
Print Assumptions C19_resource_clean.

Theorem C19_prefix_url : forall r parent pre pms strict pat ps,
    f_url r (f_prefix parent pre pms) strict pat ps =
    r_url r strict (match parent with None => pre ++ pat | Some p => fpat p ++ pre ++ pat end) ps.
Proof. exact prefix_url. Qed.
Print Assumptions C19_prefix_url.

Theorem C19_resource_url : forall r parent pat rms strict anypat ps,
    f_url r (f_resource parent pat rms) strict anypat ps =
    r_url r strict (match parent with None => pat | Some p => fpat p ++ pat end) ps.
Proof. exact resource_url. Qed.
Print Assumptions C19_resource_url.

Theorem C19_prefix_clean_table : forall t prefix p e,
    In (p, e) (t_clean t prefix) <-> In (p, e) t /\ has_prefix p prefix = false.
Proof. exact prefix_clean_table. Qed.
Print Assumptions C19_prefix_clean_table.
