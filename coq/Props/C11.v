(* C11 - CORS: nothing is granted that the configuration does not allow. Theorems only.
   acao/acac/... = the values of the response header after cors.handle ran on an empty header map
   (definitions in Proofs/Cors.v). *)
From Coq Require Import String.
From Mux Require Import Model.Bytes Model.Http Model.Cors Proofs.Cors.

Theorem C11_acao_sound : forall o c ms al q, cors_sanitize o = Some c ->
    forall v, In v (acao c ms al q) ->
      (v = star /\ In star (o_origins o)) \/ (v = q_origin q /\ In (q_origin q) (o_origins o)).
Proof. exact C11_acao_sound_l. Qed.
Print Assumptions C11_acao_sound.

Theorem C11_acao_single : forall o c ms al q, cors_sanitize o = Some c -> (length (acao c ms al q) <= 1)%nat.
Proof. exact C11_acao_single_l. Qed.
Print Assumptions C11_acao_single.

Theorem C11_credentials : forall o c ms al q, cors_sanitize o = Some c -> acac c ms al q <> [] ->
    acac c ms al q = [bs "true"] /\ acao c ms al q = [q_origin q] /\
    In (q_origin q) (o_origins o) /\ ~ In star (o_origins o).
Proof. exact C11_credentials_l. Qed.
Print Assumptions C11_credentials.

Theorem C11_no_origins_no_grant : forall o c ms al q, cors_sanitize o = Some c ->
    o_origins o = [] -> cors_handle c ms al q [] = [].
Proof. exact C11_no_origins_no_grant_l. Qed.
Print Assumptions C11_no_origins_no_grant.

Theorem C11_unserved_preflight_method : forall o c ms al q, cors_sanitize o = Some c ->
    is_preflight q = true -> mem (q_acrm q) ms = false -> cors_handle c ms al q [] = [].
Proof. exact C11_unserved_preflight_method_l. Qed.
Print Assumptions C11_unserved_preflight_method.

Theorem C11_disallowed_header : forall o c ms al q, cors_sanitize o = Some c ->
    is_preflight q = true -> header_is_allowed c (q_acrh q) = false ->
    acao c ms al q = [] /\ acac c ms al q = [].
Proof. exact C11_disallowed_header_l. Qed.
Print Assumptions C11_disallowed_header.

Theorem C11_header_check_is_case_insensitive : forall o c acrh, cors_sanitize o = Some c ->
    header_is_allowed c acrh = (mem star (o_allow_headers o) ||
       match trim_space acrh with [] => true
       | h => forallb (fun item => existsb (fun a => beqb (to_lower a) (to_lower (trim_space item)))
                                           (o_allow_headers o)) (split_byte 44 h) end).
Proof. exact C11_header_check_is_case_insensitive_l. Qed.
Print Assumptions C11_header_check_is_case_insensitive.
