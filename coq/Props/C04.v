(* C04 - method sets of the abstract table (spec_methods) and the bit-set rendering of a node. Theorems only. *)
From Coq Require Import String.
From Mux Require Import Model.Bytes Model.Tree Spec.Table Proofs.Misc4 Proofs.Misc5.

Theorem C04_spec_has_options : forall trace e, In OPTIONS (spec_methods trace e).
Proof. exact C04_spec_has_options_l. Qed.
Print Assumptions C04_spec_has_options.

Theorem C04_spec_head_iff_get : forall trace e, In HEAD (spec_methods trace e) <-> In GET (user_keys e).
Proof. exact C04_spec_head_iff_get_l. Qed.
Print Assumptions C04_spec_head_iff_get.

Theorem C04_spec_trace : forall e, In TRACE (spec_methods true e).
Proof. exact C04_spec_trace_l. Qed.
Print Assumptions C04_spec_trace.

Theorem C04_spec_exact : forall trace e m,
    In m (spec_methods trace e) <->
    (In m (user_keys e) \/ (m = HEAD /\ In GET (user_keys e)) \/ m = OPTIONS \/ (trace = true /\ m = TRACE)).
Proof. exact C04_spec_exact_l. Qed.
Print Assumptions C04_spec_exact.

Theorem C04_bits_render : forall trace (hs : list (bytes * hterm)), NoDup (map fst hs) ->
    (forall k, In k (map fst hs) -> k = [] \/ In k methods_list) -> (trace = true -> ~ In TRACE (map fst hs)) ->
    forall m, In m (methods_of (node_midx trace hs)) <->
              ((In m (map fst hs) /\ m <> []) \/ (trace = true /\ hs <> [] /\ m = TRACE)).
Proof. exact C04_bits_render_l. Qed.
Print Assumptions C04_bits_render.
