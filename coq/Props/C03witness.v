(* C03 "after any sequence of Handle, Remove and Clean calls, every live route still serves the
   requests built from its pattern with simple parameter values", for routes WITH parameters, on every
   tree reached by a history whose registered patterns the tokenizer accepts ([hist_tokens]).
   Theorems only (definitions and proofs: Proofs/TreeWitness.v).
   - [chain_to root chain n]: [chain] lists the nodes from a child of the root down to [n], each with
     a value (ignored at literal nodes);
   - [wpath chain]: the request text (literal label, or value ++ suffix of the parameter label);
   - [simple t chain]: every parameter node's value is accepted by the node's constraint, is not
     empty and shares no byte with a literal label or a parameter suffix of the tree;
   - [first_at root chain]: at every step no parameter sibling standing before the chain's own child
     accepts the text, and no parameter child of the last node accepts the empty rest;
   - [wparams chain ps]: [ps] with every non-ignored parameter name of the chain bound to its value.
   The definitions are spelled out by the C03_*_spec / C03_*_cons theorems below.
   C03_simple_witness_served holds as stated (no extra hypothesis).  Without [first_at] the
   answering node may be another live route (C03_witness_other_route_example). *)
From Coq Require Import String.
From Mux Require Import Model.Bytes Model.Regex Model.Context Model.Syntax Model.Tree
     Proofs.MatchSound Proofs.TreeSafe Proofs.TreeOrder Proofs.MatchOrder Proofs.TreeNames
     Proofs.TokensSplit Proofs.TreeLit Proofs.TreeWitness.

(* ================================================================ the definitions, spelled out *)
Theorem C03_wpath_cons : forall c v rest,
  wpath ((c, v) :: rest) =
  (if isparam (nseg c) then v ++ ssuffix (nseg c) else sval (nseg c)) ++ wpath rest.
Proof. exact wpath_cons. Qed.
Print Assumptions C03_wpath_cons.

Theorem C03_wparams_cons : forall c v rest ps,
  wparams ((c, v) :: rest) ps =
  wparams rest (if isparam (nseg c) then (if signore (nseg c) then ps else ctx_set ps (sname (nseg c)) v) else ps).
Proof. exact wparams_cons. Qed.
Print Assumptions C03_wparams_cons.

Theorem C03_simple_spec : forall t chain, simple t chain <->
  forall c v, In (c, v) chain -> isparam (nseg c) = true ->
    smatch (nseg c) v = true /\ v <> [] /\
    forall b, In b v -> forall m, desc (troot t) m ->
      (isparam (nseg m) = false -> ~ In b (sval (nseg m))) /\
      (isparam (nseg m) = true -> ~ In b (ssuffix (nseg m))).
Proof. exact simple_spec. Qed.
Print Assumptions C03_simple_spec.

Theorem C03_first_at_spec : forall m c v rest, first_at m ((c, v) :: rest) <->
  (is_lit c = true \/
   exists pre post, nchildren m = pre ++ c :: post /\
     forall d, In d pre -> is_lit d = false -> seg_match (nseg d) (wpath ((c, v) :: rest)) [] = None) /\
  first_at c rest.
Proof. exact first_at_spec. Qed.
Print Assumptions C03_first_at_spec.

Theorem C03_first_at_end : forall n, first_at n [] <->
  forall c, In c (nchildren n) -> is_lit c = true \/ seg_match (nseg c) [] [] = None.
Proof. exact first_at_end. Qed.
Print Assumptions C03_first_at_end.

Theorem C03_chain_to_desc : forall m chain n, chain_to m chain n -> desc m n.
Proof. exact chain_to_desc. Qed.
Print Assumptions C03_chain_to_desc.

(* ================================================================ two invariants of reachable trees *)
(* the first-byte index is never longer than the number of literal children (so every parameter
   child is tried by the loop after the index); a parameter node whose label ends with its closing
   brace has no children *)
Theorem C03_wnode_spec : forall n, wnode n <->
  (length (nindexes n) <= length (filter is_lit (nchildren n)))%nat /\
  (isparam (nseg n) = true /\ ssuffix (nseg n) = [] -> nchildren n = []).
Proof. exact wnode_spec. Qed.
Print Assumptions C03_wnode_spec.

Theorem C03_wnode_reachable : forall name ic trace hist, hist_tokens hist = true ->
  all_nodes wnode (troot (fold_left tstep hist (new_tree name ic trace))).
Proof. exact wnode_reachable. Qed.
Print Assumptions C03_wnode_reachable.

(* a parameter label accepts exactly the value [v] on [v ++ suffix ++ rest] *)
Theorem C03_param_label_match : forall ic s v rest ps, nbseg ic s -> isparam s = true ->
  smatch s v = true -> (forall b, In b v -> ~ In b (ssuffix s)) ->
  (isparam s = true /\ ssuffix s = [] -> rest = []) ->
  seg_match s (v ++ ssuffix s ++ rest) ps = Some (rest, if signore s then ps else ctx_set ps (sname s) v).
Proof. exact param_match. Qed.
Print Assumptions C03_param_label_match.

(* ================================================================ the main statement *)
Theorem C03_simple_witness_served : forall name ic trace hist chain n method,
  hist_tokens hist = true ->
  let t := fold_left tstep hist (new_tree name ic trace) in
  chain_to (troot t) chain n -> nhandlers n <> [] -> simple t chain ->
  wpath chain <> [] -> wpath chain <> bs "*" -> (ttrace t = None \/ method <> TRACE) ->
  exists ok n' h ps, tree_handler t method (wpath chain) [] = HFound ok (Some n') h ps /\ nhandlers n' <> [].
Proof. exact simple_witness_served. Qed.
Print Assumptions C03_simple_witness_served.

(* at every step the chain's own child accepts the text: the rest is the text of the remaining
   chain, the value bound is exactly [v] *)
Theorem C03_simple_witness_own_child : forall name ic trace hist chain n,
  hist_tokens hist = true ->
  let t := fold_left tstep hist (new_tree name ic trace) in
  chain_to (troot t) chain n -> simple t chain ->
  forall pre c v rest ps, chain = pre ++ (c, v) :: rest ->
    seg_match (nseg c) (wpath ((c, v) :: rest)) ps =
    Some (wpath rest,
          if isparam (nseg c) then (if signore (nseg c) then ps else ctx_set ps (sname (nseg c)) v) else ps).
Proof. exact simple_witness_own_child. Qed.
Print Assumptions C03_simple_witness_own_child.

(* when the chain's own child is the first that accepts at every step, the route's own node
   answers: the handler of the method, or the node's 405 handler with ok = false; the parameters
   are exactly the chain's bindings *)
Theorem C03_simple_witness_exact : forall name ic trace hist chain n method,
  hist_tokens hist = true ->
  let t := fold_left tstep hist (new_tree name ic trace) in
  chain_to (troot t) chain n -> nhandlers n <> [] -> simple t chain -> first_at (troot t) chain ->
  wpath chain <> [] -> wpath chain <> bs "*" -> (ttrace t = None \/ method <> TRACE) ->
  exists h405, alookup M405 (nhandlers n) = Some h405 /\
    tree_handler t method (wpath chain) [] =
    match lookup_handler method (nhandlers n) with
    | Some h => HFound true (Some n) h (wparams chain [])
    | None => HFound false (Some n) h405 (wparams chain [])
    end.
Proof. exact simple_witness_exact. Qed.
Print Assumptions C03_simple_witness_exact.

(* node level: the search from any node of a well-formed subtree *)
Theorem C03_chain_found : forall ic root m chain n, chain_to m chain n ->
  forall f ps, K ic m -> all_nodes order_ok m -> all_nodes idx_ok m -> (height m <= f)%nat ->
  (m = root \/ desc root m) -> Forall (simple_at root) chain -> nhandlers n <> [] ->
  exists r q, match_children f m (wpath chain) ps = MFound r q.
Proof. exact chain_found. Qed.
Print Assumptions C03_chain_found.

Theorem C03_chain_exact : forall ic root m chain n, chain_to m chain n ->
  forall f ps, K ic m -> all_nodes order_ok m -> all_nodes idx_ok m -> (height m <= f)%nat ->
  (m = root \/ desc root m) -> Forall (simple_at root) chain -> first_at m chain -> nhandlers n <> [] ->
  match_children f m (wpath chain) ps = MFound n (wparams chain ps).
Proof. exact chain_exact. Qed.
Print Assumptions C03_chain_exact.

(* ================================================================ example *)
(* "/a" ... "/f", "/{id:\d+}/info", "/{name}", "/e/{x}/k" registered, "/c" removed *)
Theorem C03_witness_example_accepted : hist_tokens ex_w_hist = true /\
  all_accepted (new_tree (bs "r") [] false) ex_w_hist = true /\
  length (nindexes ex_w_slash) = 5%nat /\
  map (fun c => sval (nseg c)) (nchildren ex_w_slash) =
    [bs "a"; bs "b"; bs "d"; bs "e"; bs "f"; bs "{id:\d+}/info"; bs "{name}"].
Proof. exact ex_w_accepted. Qed.
Print Assumptions C03_witness_example_accepted.

Theorem C03_witness_example_texts :
  wpath ex_ch_id = bs "/42/info" /\ wparams ex_ch_id [] = [(bs "id", bs "42")] /\ npat ex_w_id = bs "/{id:\d+}/info" /\
  wpath ex_ch_name = bs "/zz" /\ wparams ex_ch_name [] = [(bs "name", bs "zz")] /\ npat ex_w_name = bs "/{name}" /\
  wpath ex_ch_x = bs "/e/77/k" /\ wparams ex_ch_x [] = [(bs "x", bs "77")] /\ npat ex_w_x = bs "/e/{x}/k".
Proof. exact ex_w_texts. Qed.
Print Assumptions C03_witness_example_texts.

Theorem C03_witness_example_dispatch :
  tree_handler ex_w_tree GET (bs "/42/info") [] =
    HFound true (Some ex_w_id) (HUser (bs "/{id:\d+}/info")) [(bs "id", bs "42")] /\
  tree_handler ex_w_tree GET (bs "/zz") [] =
    HFound true (Some ex_w_name) (HUser (bs "/{name}")) [(bs "name", bs "zz")] /\
  tree_handler ex_w_tree POST (bs "/e/77/k") [] =
    HFound false (Some ex_w_x) HNotAllowed [(bs "x", bs "77")].
Proof. exact ex_w_dispatch. Qed.
Print Assumptions C03_witness_example_dispatch.

Theorem C03_witness_example_premises :
  chain_to (troot ex_w_tree) ex_ch_id ex_w_id /\ nhandlers ex_w_id <> [] /\
  simple ex_w_tree ex_ch_id /\ first_at (troot ex_w_tree) ex_ch_id /\
  chain_to (troot ex_w_tree) ex_ch_name ex_w_name /\ nhandlers ex_w_name <> [] /\
  simple ex_w_tree ex_ch_name /\ first_at (troot ex_w_tree) ex_ch_name /\
  chain_to (troot ex_w_tree) ex_ch_x ex_w_x /\ nhandlers ex_w_x <> [] /\
  simple ex_w_tree ex_ch_x /\ first_at (troot ex_w_tree) ex_ch_x.
Proof. exact ex_w_premises. Qed.
Print Assumptions C03_witness_example_premises.

Theorem C03_witness_example_served :
  served ex_w_tree GET (wpath ex_ch_id) ex_w_id (wparams ex_ch_id []) /\
  served ex_w_tree GET (wpath ex_ch_name) ex_w_name (wparams ex_ch_name []) /\
  served ex_w_tree POST (wpath ex_ch_x) ex_w_x (wparams ex_ch_x []).
Proof. exact ex_w_served. Qed.
Print Assumptions C03_witness_example_served.

Theorem C03_witness_example_not_404 : exists ok n' h ps,
  tree_handler ex_w_tree GET (wpath ex_ch_id) [] = HFound ok (Some n') h ps /\ nhandlers n' <> [].
Proof. exact ex_w_not_404. Qed.
Print Assumptions C03_witness_example_not_404.

(* "/{id:\d+}" and "/{name}": the witness "/42" of "/{name}" is simple, and is answered by the
   regexp route (kind priority) *)
Theorem C03_witness_other_route_example :
  hist_tokens ex_w2_hist = true /\
  chain_to (troot ex_w2_tree) ex_ch2 ex_w2_name /\ nhandlers ex_w2_name <> [] /\ simple ex_w2_tree ex_ch2 /\
  wpath ex_ch2 = bs "/42" /\ npat ex_w2_name = bs "/{name}" /\ npat ex_w2_id = bs "/{id:\d+}" /\
  tree_handler ex_w2_tree GET (bs "/42") [] =
    HFound true (Some ex_w2_id) (HUser (bs "/{id:\d+}")) [(bs "id", bs "42")].
Proof. exact ex_w2_other_route. Qed.
Print Assumptions C03_witness_other_route_example.
