(* C03 "after any sequence of Handle, Remove and Clean calls ... a removed pattern/method pair is
   no longer served", on every tree reached by a history (registrations, removals, cleans,
   middleware applications) whose registered patterns are accepted by the specification's
   tokenizer ([hist_tokens], Proofs/TokensSplit.v).  Theorems only (proofs: Proofs/TreeGone.v).

   - ONE NODE PER PATTERN (C03_pattern_once_reachable): [pattern_once p root] of Proofs/TreeFind.v
     holds for every pattern text on every such tree.  Without the guard it is false
     (Props/C03find.v, C03_pattern_once_refuted: "/{a", "/{a{b}x", "/{a{c}y").  The invariant
     behind it is C03_siblings_reachable: the parameter children of a node differ in "token +
     first byte after it", a parameter label that ends with its '}' has no children (together with
     the label invariant of Props/C03lit.v: literal siblings differ in their first byte).
   - Tree.Remove and Tree.Clean never fault on such a tree (C03_remove_total, C03_clean_total), so
     the step of the history is the removal and not a swallowed runtime fault.
   - C03_removed_pair_not_served needs [p <> []]: Remove("") does nothing and TRACE is answered at
     the root, whose pattern text is empty (C03_removed_pair_root_refuted).
   - HEAD: Tree.Add refuses HEAD in a method list (C03_head_not_registrable), so every HEAD handler
     is the automatic one of GET; Remove(p, ms) with GET in ms (or ms = []) removes it
     (C03_removed_get_removes_head); Remove(p, [HEAD]) removes nothing (HEAD is skipped like OPTIONS,
     example exg_remove_head_noop in the proofs file).
   - C03_cleaned_not_served as first stated is false for the empty prefix (after Clean("") the root
     still answers OPTIONS "*" and the empty text starts with the empty prefix:
     C03_cleaned_not_served_refuted); C03_cleaned_not_served_partial distinguishes the two cases. *)
From Coq Require Import String.
From Mux Require Import Model.Bytes Model.Regex Model.Context Model.Syntax Model.Tree
     Proofs.MatchSound Proofs.TreeSafe Proofs.TreeText Proofs.TreeFind Proofs.TokensSplit Proofs.TreeLit
     Proofs.TreeGone.

(* ================================================================ Part 1 : one node per pattern *)
Theorem C03_siblings_reachable : forall name ic trace hist, hist_tokens hist = true ->
  let t := fold_left tstep hist (new_tree name ic trace) in
  tic t = ic /\ all_nodes (good ic) (troot t) /\ all_nodes uq (troot t).
Proof. exact gu_reachable. Qed.
Print Assumptions C03_siblings_reachable.

Theorem C03_pattern_once_reachable : forall name ic trace hist p, hist_tokens hist = true ->
  pattern_once p (troot (fold_left tstep hist (new_tree name ic trace))).
Proof. exact pattern_once_reachable. Qed.
Print Assumptions C03_pattern_once_reachable.

(* two nodes of a reachable tree that spell the same pattern are the same node *)
Theorem C03_pattern_unique_reachable : forall name ic trace hist a b, hist_tokens hist = true ->
  let t := fold_left tstep hist (new_tree name ic trace) in
  desc (troot t) a -> desc (troot t) b -> npat a = npat b -> a = b.
Proof. exact pattern_unique_reachable. Qed.
Print Assumptions C03_pattern_unique_reachable.

(* ================================================================ Part 2 : Remove / Clean do not fault *)
Theorem C03_remove_total : forall name ic trace hist p ms, hist_tokens hist = true ->
  exists t', tree_remove (fold_left tstep hist (new_tree name ic trace)) p ms = Ok t'.
Proof. exact remove_total_reachable. Qed.
Print Assumptions C03_remove_total.

Theorem C03_clean_total : forall name ic trace hist prefix, hist_tokens hist = true ->
  exists t', tree_clean (fold_left tstep hist (new_tree name ic trace)) prefix = Ok t'.
Proof. exact clean_total_reachable. Qed.
Print Assumptions C03_clean_total.

(* ================================================================ Part 3 : removed is not served *)
Theorem C03_removed_pair_not_served : forall name ic trace hist p ms method path ok n h ps,
  hist_tokens hist = true ->
  let t := fold_left tstep hist (new_tree name ic trace) in
  let t' := tstep t (ORemove p ms) in
  (ms = [] \/ In method ms) -> is_auto method = false -> p <> [] ->
  tree_handler t' method path [] = HFound ok (Some n) h ps -> npat n = p -> ok = false.
Proof. exact removed_pair_not_served. Qed.
Print Assumptions C03_removed_pair_not_served.

Theorem C03_removed_pair_root_refuted :
  ~ (forall name ic trace hist p ms method path ok n h ps,
       hist_tokens hist = true ->
       let t := fold_left tstep hist (new_tree name ic trace) in
       let t' := tstep t (ORemove p ms) in
       (ms = [] \/ In method ms) -> is_auto method = false ->
       tree_handler t' method path [] = HFound ok (Some n) h ps -> npat n = p -> ok = false).
Proof. exact removed_pair_root_refuted. Qed.
Print Assumptions C03_removed_pair_root_refuted.

Theorem C03_removed_get_removes_head : forall name ic trace hist p ms path ok n h ps,
  hist_tokens hist = true ->
  let t := fold_left tstep hist (new_tree name ic trace) in
  let t' := tstep t (ORemove p ms) in
  (ms = [] \/ In GET ms) -> p <> [] ->
  tree_handler t' HEAD path [] = HFound ok (Some n) h ps -> npat n = p -> ok = false.
Proof. exact removed_get_removes_head. Qed.
Print Assumptions C03_removed_get_removes_head.

Theorem C03_head_not_registrable : forall t p h mws ms t', In HEAD ms -> tree_add t p h mws ms <> Ok t'.
Proof. exact head_not_registrable. Qed.
Print Assumptions C03_head_not_registrable.

(* the general form: [removes ms method] = every method (ms = []), a listed user method, or HEAD
   when GET is listed *)
Theorem C03_removed_not_served : forall name ic trace hist p ms method path ok n h ps,
  hist_tokens hist = true ->
  let t := fold_left tstep hist (new_tree name ic trace) in
  let t' := tstep t (ORemove p ms) in
  removes ms method -> p <> [] ->
  tree_handler t' method path [] = HFound ok (Some n) h ps -> npat n = p -> ok = false.
Proof. exact removed_not_served. Qed.
Print Assumptions C03_removed_not_served.

(* the node level: what Remove leaves in the tree *)
Theorem C03_removed_method_gone : forall name ic trace hist p ms method, hist_tokens hist = true ->
  let t := fold_left tstep hist (new_tree name ic trace) in
  let t' := tstep t (ORemove p ms) in
  removes ms method ->
  forall n, desc (troot t') n -> npat n = p -> lookup_handler method (nhandlers n) = None.
Proof. exact removed_method_gone. Qed.
Print Assumptions C03_removed_method_gone.

(* ================================================================ Part 4 : the whole route *)
Theorem C03_removed_route_gone : forall name ic trace hist p, hist_tokens hist = true ->
  let t := fold_left tstep hist (new_tree name ic trace) in
  let t' := tstep t (ORemove p []) in
  forall n, desc (troot t') n -> npat n = p -> nhandlers n = [].
Proof. exact removed_route_gone. Qed.
Print Assumptions C03_removed_route_gone.

Theorem C03_removed_route_not_answered : forall name ic trace hist p method path ok n h ps,
  hist_tokens hist = true ->
  let t := fold_left tstep hist (new_tree name ic trace) in
  let t' := tstep t (ORemove p []) in
  p <> [] -> tree_handler t' method path [] = HFound ok (Some n) h ps -> npat n <> p.
Proof. exact removed_route_not_answered. Qed.
Print Assumptions C03_removed_route_not_answered.

(* ================================================================ Part 5 : Clean *)
Theorem C03_cleaned_not_served_partial : forall name ic trace hist prefix method path ok n h ps,
  hist_tokens hist = true ->
  let t := fold_left tstep hist (new_tree name ic trace) in
  let t' := tstep t (OClean prefix) in
  tree_handler t' method path [] = HFound ok (Some n) h ps ->
  (prefix <> [] -> has_prefix (npat n) prefix = false) /\ (prefix = [] -> n = troot t').
Proof. exact cleaned_not_served. Qed.
Print Assumptions C03_cleaned_not_served_partial.

Theorem C03_cleaned_not_served_refuted :
  ~ (forall name ic trace hist prefix method path ok n h ps,
       hist_tokens hist = true ->
       let t := fold_left tstep hist (new_tree name ic trace) in
       let t' := tstep t (OClean prefix) in
       tree_handler t' method path [] = HFound ok (Some n) h ps -> has_prefix (npat n) prefix = false).
Proof. exact cleaned_not_served_refuted. Qed.
Print Assumptions C03_cleaned_not_served_refuted.

(* the node level: no node below the root keeps a pattern that starts with the prefix *)
Theorem C03_cleaned_nodes_gone : forall name ic trace hist prefix, hist_tokens hist = true ->
  let t := fold_left tstep hist (new_tree name ic trace) in
  let t' := tstep t (OClean prefix) in
  (prefix <> [] -> forall n, desc (troot t') n -> has_prefix (npat n) prefix = false) /\
  (prefix = [] -> nchildren (troot t') = []).
Proof. exact cleaned_nodes_gone. Qed.
Print Assumptions C03_cleaned_nodes_gone.

(* ================================================================ examples *)
Theorem C03_gone_example_premises :
  hist_tokens exg_hist = true /\ hist_tokens exg_hist1 = true /\ hist_tokens exg_hist2 = true /\
  all_accepted (new_tree (bs "r") [] false) exg_hist = true /\
  length (nindexes (TreeNames.kid 0 (troot (fold_left tstep exg_hist (new_tree (bs "r") [] false))))) = 6%nat /\
  removes [GET] GET /\ removes [GET] HEAD /\ removes [] POST /\ removes [DELETE] DELETE /\
  is_auto GET = false /\ is_auto POST = false /\ is_auto DELETE = false /\ is_auto HEAD = true.
Proof. exact exg_premises. Qed.
Print Assumptions C03_gone_example_premises.

Theorem C03_gone_example_dispatch :
  let new := new_tree (bs "r") [] false in
  let t0 := fold_left tstep exg_hist new in
  let t1 := tstep t0 (ORemove (bs "/a") [GET]) in
  let t2 := tstep (fold_left tstep exg_hist1 new) (ORemove (bs "/a") []) in
  map (fun m => exg_show (tree_handler t0 m (bs "/a") [])) [GET; POST; HEAD] =
    [Some (true, bs "/a", HUser (bs "/a")); Some (true, bs "/a", HUser (bs "/a")); Some (true, bs "/a", HUser (bs "/a"))] /\
  map (fun m => exg_show (tree_handler t1 m (bs "/a") [])) [GET; HEAD; POST] =
    [Some (false, bs "/a", HNotAllowed); Some (false, bs "/a", HNotAllowed); Some (true, bs "/a", HUser (bs "/a"))] /\
  map (fun m => exg_show (tree_handler t2 m (bs "/a") [])) [GET; HEAD; POST] =
    [Some (true, bs "/{id}", HUser (bs "/{id}")); Some (true, bs "/{id}", HUser (bs "/{id}"));
     Some (false, bs "/{id}", HNotAllowed)] /\
  exg_show (tree_handler t2 GET (bs "/a/x") []) = Some (true, bs "/a/x", HUser (bs "/a/x")).
Proof. exact (conj exg_before (conj exg_after_get exg_after_all)). Qed.
Print Assumptions C03_gone_example_dispatch.

Theorem C03_gone_example_head_noop :
  exg_show (tree_handler (tstep (fold_left tstep exg_hist (new_tree (bs "r") [] false)) (ORemove (bs "/a") [HEAD]))
              HEAD (bs "/a") []) = Some (true, bs "/a", HUser (bs "/a")).
Proof. exact exg_remove_head_noop. Qed.
Print Assumptions C03_gone_example_head_noop.

Theorem C03_gone_example_clean :
  map (fun q => exg_show (tree_handler (tstep (fold_left tstep exg_hist (new_tree (bs "r") [] false)) (OClean (bs "/a")))
                            GET q [])) [bs "/a"; bs "/a/x"; bs "/b"; bs "/users/7/posts"] =
  [Some (true, bs "/{id}", HUser (bs "/{id}")); Some (true, bs "/{id}", HUser (bs "/{id}"));
   Some (true, bs "/b", HUser (bs "/b")); Some (true, exg_users, HUser (bs "up"))].
Proof. exact exg_clean. Qed.
Print Assumptions C03_gone_example_clean.
