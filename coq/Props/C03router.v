(* The tree-level theorems of this development, lifted to the ROUTER (Model/Router.v) and to the
   Prefix / Resource facades, so that they speak about what a user of the library does.
   Theorems only (definitions and proofs: Proofs/RouterLift.v).

   THE ROUTER.  A router is (rtree, rms, rdomain).  Router.Handle passes to Tree.Add the
   registration middlewares FOLLOWED BY the router's Use list at that moment
   (r_handle r p h mws ms = tree_add (rtree r) p h (mws ++ rms r) ms); Remove / Clean act on the tree
   only; Use wraps every stored handler (tree_apply_mw) and appends to rms.  Router histories are
   [rop] / [rstep] of Proofs/TreeOnion.v (RHandle / RRemove / RClean / RUse; a rejected call keeps the
   router).
   DISPATCH.  Model/Router.v has no serving function of its own: a request is served by
   Router.serveContext = [serve_ctx] of Model/Group.v, which is
     tree_handler (rtree r) method path ps0, then [finish] (run the handler term, recover).
   So the router's dispatch function IS [tree_handler (rtree r)]: the theorems are stated on it;
   C05_router_serve_total and C03_router_remove_frame_served are also given on [serve_ctx].

   PART 1 (simulation).  [top_of uses op] is the tree operation a router operation performs when the
   router's Use list is [uses]; [tr_hist rhist] translates a router history (threading the Use list);
   C03_router_history_state gives the WHOLE router after a history (tree = the tree history run from
   new_tree, rms = everything given to Use, domain = the sanitized domain), for every history, with
   no guard.  The translation keeps kinds, patterns and method lists; the guards coincide as booleans
   (hist_tokens (tr_hist rhist) = rhist_tokens rhist, likewise add_only, hist_canonb).
   PART 2 (corollaries), for every router history with [rhist_tokens] (every registered pattern is
   accepted by the specification's tokenizer) and the guards of the tree theorem.
   C02_router_refines_resolver: the statement with [rhist_add_only] and [rhist_tokens] only is FALSE,
   exactly as at tree level (C02_router_refines_resolver_refuted: Handle "/{id}/ab", Handle
   "/{id:}/ac", request "/1/a/2/ab"); _partial adds [rhist_canon] (no pattern spells an empty rule
   with a colon), _canon states it with the decidable [rhist_canonb].
   PART 3 (facades).  A facade is pure data built by f_prefix / f_resource; a facade program [fop]
   is a list of calls made directly (FDirect) or through a facade value (FHandle / FRemove / FClean);
   [desugar] gives the Router call each one stands for.  The statements of Props/C19.v are equalities
   between single calls for particular facade shapes (one Prefix, two nested Prefixes, a Resource
   under an optional parent); they compose, but what was missing to run them over histories was
   (a) a step function with the "rejected call keeps the router" convention, (b) the uniform
   statement for an arbitrary facade value (C19_facade_step_is_router_step), (c) arbitrary nesting
   depth (C19_nested_any_depth, C19_desugar_nested_handle, C19_desugar_nested_resource_handle).  C19_facade_history_is_router_history: a
   facade program and its desugaring produce the same router, so Parts 1 and 2 apply
   (C19_facade_transfer, C19_facade_transfer_tokens, and the instances C05_facade_serve_total and the C03_facade theorems). *)
From Coq Require Import String Permutation.
From Mux Require Import Model.Bytes Model.Regex Model.Context Model.Syntax Model.Tree Model.Router Model.Group
     Spec.Table Spec.Resolve
     Proofs.MatchSound Proofs.TreeSafe Proofs.TreeText Proofs.TreeOrder Proofs.MatchOrder
     Proofs.TreeFind Proofs.TreeNames Proofs.TokensSplit Proofs.TreeLit Proofs.TreeOnion
     Proofs.TreeFrame Proofs.TreeGone Proofs.TreeWitness Proofs.TreeAbs Proofs.TreeResolve Proofs.TreeResolve2
     Proofs.RouterLift.

(* ================================================================ Part 1 : simulation *)

(* one router call is one tree call *)
Theorem C03_router_step_is_tree_step : forall rt op,
  rstep rt op = {| rtree := tstep (rtree rt) (top_of (rms rt) op); rms := uses_after (rms rt) op;
                   rdomain := rdomain rt |}.
Proof. exact rstep_eq. Qed.
Print Assumptions C03_router_step_is_tree_step.

(* from any router *)
Theorem C03_router_run_is_tree_run : forall rhist rt,
  fold_left rstep rhist rt =
  {| rtree := fold_left tstep (tr_from (rms rt) rhist) (rtree rt);
     rms := fold_left uses_after rhist (rms rt);
     rdomain := rdomain rt |}.
Proof. exact rfold_eq. Qed.
Print Assumptions C03_router_run_is_tree_run.

(* the whole router after a history *)
Theorem C03_router_history_state : forall name ic trace domain rhist,
  fold_left rstep rhist (new_router name ic trace domain) =
  {| rtree := fold_left tstep (tr_hist rhist) (new_tree name ic trace);
     rms := rhist_uses rhist;
     rdomain := sanitize_domain domain |}.
Proof. exact router_history_state. Qed.
Print Assumptions C03_router_history_state.

Theorem C03_router_history_is_tree_history : forall name ic trace domain rhist,
  rtree (fold_left rstep rhist (new_router name ic trace domain)) =
    fold_left tstep (tr_hist rhist) (new_tree name ic trace) /\
  rms (fold_left rstep rhist (new_router name ic trace domain)) = rhist_uses rhist /\
  map top_pattern (tr_hist rhist) = map rop_pattern rhist /\
  map top_methods (tr_hist rhist) = map rop_methods rhist /\
  map top_kind (tr_hist rhist) = map rop_kind rhist /\
  hist_tokens (tr_hist rhist) = rhist_tokens rhist.
Proof. exact router_history_is_tree_history. Qed.
Print Assumptions C03_router_history_is_tree_history.

(* the translation, call by call: the n-th call is translated with the Use list of the calls before it *)
Theorem C03_tr_hist_snoc : forall rhist op,
  tr_hist (rhist ++ [op]) = tr_hist rhist ++ [top_of (rhist_uses rhist) op].
Proof. exact tr_hist_snoc. Qed.
Print Assumptions C03_tr_hist_snoc.

Theorem C03_tr_hist_length : forall rhist, length (tr_hist rhist) = length rhist.
Proof. exact (fun rhist => tr_from_length rhist []). Qed.
Print Assumptions C03_tr_hist_length.

(* the other guards *)
Theorem C03_tr_hist_guards : forall rhist,
  add_only (tr_hist rhist) = rhist_add_only rhist /\
  hist_canonb (tr_hist rhist) = rhist_canonb rhist /\
  (hist_canon (tr_hist rhist) <-> rhist_canon rhist).
Proof. exact (fun rhist => conj (tr_add_only rhist) (conj (tr_canonb rhist) (tr_canon rhist))). Qed.
Print Assumptions C03_tr_hist_guards.

(* ServeHTTP is the tree's answer, then [finish] *)
Theorem C03_router_serve_is_tree_handler : forall rt recover rs method path ps0 ok n h ps,
  tree_handler (rtree rt) method path ps0 = HFound ok n h ps ->
  serve_ctx rt recover rs method path ps0 = finish recover rs h (tname (rtree rt)) path ps n.
Proof. exact serve_ctx_found. Qed.
Print Assumptions C03_router_serve_is_tree_handler.

(* ================================================================ Part 2 : corollaries *)

(* ---------------------------------------------------------------- C05 : no request faults *)
Theorem C05_router_serve_total : forall name ic trace domain rhist method path ps s,
  tree_handler (rtree (fold_left rstep rhist (new_router name ic trace domain))) method path ps <> HPanic s.
Proof. exact router_serve_total. Qed.
Print Assumptions C05_router_serve_total.

Theorem C05_router_serve_ctx_total : forall name ic trace domain rhist recover rs method path ps,
  serve_ctx (fold_left rstep rhist (new_router name ic trace domain)) recover rs method path ps <> SPanic.
Proof. exact router_serve_ctx_total. Qed.
Print Assumptions C05_router_serve_ctx_total.

Theorem C03_router_remove_total : forall name ic trace domain rhist p ms, rhist_tokens rhist = true ->
  exists rt', r_remove (fold_left rstep rhist (new_router name ic trace domain)) p ms = Ok rt'.
Proof. exact router_remove_total. Qed.
Print Assumptions C03_router_remove_total.

Theorem C03_router_clean_total : forall name ic trace domain rhist prefix, rhist_tokens rhist = true ->
  exists rt', r_clean (fold_left rstep rhist (new_router name ic trace domain)) prefix = Ok rt'.
Proof. exact router_clean_total. Qed.
Print Assumptions C03_router_clean_total.

(* ---------------------------------------------------------------- C03 : frame *)
Theorem C03_router_remove_frame : forall name ic trace domain rhist p ms method path ok n h ps rt',
  rhist_tokens rhist = true ->
  let rt := fold_left rstep rhist (new_router name ic trace domain) in
  tree_handler (rtree rt) method path [] = HFound ok (Some n) h ps ->
  npat n <> p ->
  r_remove rt p ms = Ok rt' ->
  exists n', tree_handler (rtree rt') method path [] = HFound ok (Some n') h ps /\ npat n' = npat n.
Proof. exact router_remove_frame. Qed.
Print Assumptions C03_router_remove_frame.

Theorem C03_router_remove_frame_handlers : forall name ic trace domain rhist p ms method path ok n h ps rt',
  rhist_tokens rhist = true ->
  let rt := fold_left rstep rhist (new_router name ic trace domain) in
  tree_handler (rtree rt) method path [] = HFound ok (Some n) h ps ->
  npat n <> p ->
  r_remove rt p ms = Ok rt' ->
  exists n', tree_handler (rtree rt') method path [] = HFound ok (Some n') h ps /\ npat n' = npat n /\
    nhandlers n' = nhandlers n.
Proof. exact router_remove_frame_handlers. Qed.
Print Assumptions C03_router_remove_frame_handlers.

Theorem C03_router_remove_frame_method : forall name ic trace domain rhist p ms method path n h ps rt',
  rhist_tokens rhist = true ->
  let rt := fold_left rstep rhist (new_router name ic trace domain) in
  tree_handler (rtree rt) method path [] = HFound true (Some n) h ps ->
  npat n = p ->
  ms <> [] -> ~ In method ms -> (In GET ms -> method <> HEAD) -> method <> OPTIONS ->
  r_remove rt p ms = Ok rt' ->
  exists n', tree_handler (rtree rt') method path [] = HFound true (Some n') h ps /\ npat n' = npat n.
Proof. exact router_remove_frame_method. Qed.
Print Assumptions C03_router_remove_frame_method.

Theorem C03_router_remove_frame_404 : forall name ic trace domain rhist p ms method path h ps rt',
  rhist_tokens rhist = true ->
  let rt := fold_left rstep rhist (new_router name ic trace domain) in
  tree_handler (rtree rt) method path [] = HFound false None h ps ->
  r_remove rt p ms = Ok rt' ->
  tree_handler (rtree rt') method path [] = HFound false None h ps.
Proof. exact router_remove_frame_404. Qed.
Print Assumptions C03_router_remove_frame_404.

Theorem C03_router_clean_frame : forall name ic trace domain rhist prefix method path ok n h ps rt',
  rhist_tokens rhist = true ->
  let rt := fold_left rstep rhist (new_router name ic trace domain) in
  tree_handler (rtree rt) method path [] = HFound ok (Some n) h ps ->
  has_prefix (npat n) prefix = false ->
  r_clean rt prefix = Ok rt' ->
  exists n', tree_handler (rtree rt') method path [] = HFound ok (Some n') h ps /\ npat n' = npat n.
Proof. exact router_clean_frame. Qed.
Print Assumptions C03_router_clean_frame.

Theorem C03_router_clean_frame_handlers : forall name ic trace domain rhist prefix method path ok n h ps rt',
  rhist_tokens rhist = true ->
  let rt := fold_left rstep rhist (new_router name ic trace domain) in
  tree_handler (rtree rt) method path [] = HFound ok (Some n) h ps ->
  has_prefix (npat n) prefix = false ->
  r_clean rt prefix = Ok rt' ->
  exists n', tree_handler (rtree rt') method path [] = HFound ok (Some n') h ps /\ npat n' = npat n /\
    nhandlers n' = nhandlers n.
Proof. exact router_clean_frame_handlers. Qed.
Print Assumptions C03_router_clean_frame_handlers.

Theorem C03_router_clean_frame_404 : forall name ic trace domain rhist prefix method path h ps rt',
  rhist_tokens rhist = true ->
  let rt := fold_left rstep rhist (new_router name ic trace domain) in
  tree_handler (rtree rt) method path [] = HFound false None h ps ->
  r_clean rt prefix = Ok rt' ->
  tree_handler (rtree rt') method path [] = HFound false None h ps.
Proof. exact router_clean_frame_404. Qed.
Print Assumptions C03_router_clean_frame_404.

(* what the client of ServeHTTP observes is unchanged: handler run, router name, path, parameters,
   recovered and escaped values, and the pattern of the answering node ([same_service]) *)
Theorem C03_same_service_spec : forall s s', same_service s s' <->
  (s_handler s' = s_handler s /\ s_router s' = s_router s /\ s_path s' = s_path s /\
   s_params s' = s_params s /\ s_recovered s' = s_recovered s /\ s_escaped s' = s_escaped s /\
   option_map npat (s_node s') = option_map npat (s_node s)).
Proof. exact (fun s s' => conj (fun H => H) (fun H => H)). Qed.
Print Assumptions C03_same_service_spec.

Theorem C03_router_remove_frame_served : forall name ic trace domain rhist p ms recover rs method path s rt',
  rhist_tokens rhist = true ->
  let rt := fold_left rstep rhist (new_router name ic trace domain) in
  serve_ctx rt recover rs method path [] = SOk s ->
  (forall n, s_node s = Some n -> npat n <> p) ->
  r_remove rt p ms = Ok rt' ->
  exists s', serve_ctx rt' recover rs method path [] = SOk s' /\ same_service s s'.
Proof. exact router_remove_frame_served. Qed.
Print Assumptions C03_router_remove_frame_served.

(* ---------------------------------------------------------------- C03 : removed / cleaned is not served *)
Theorem C03_router_removed_pair_not_served : forall name ic trace domain rhist p ms method path ok n h ps,
  rhist_tokens rhist = true ->
  let rt := fold_left rstep rhist (new_router name ic trace domain) in
  let rt' := rstep rt (RRemove p ms) in
  (ms = [] \/ In method ms) -> is_auto method = false -> p <> [] ->
  tree_handler (rtree rt') method path [] = HFound ok (Some n) h ps -> npat n = p -> ok = false.
Proof. exact router_removed_pair_not_served. Qed.
Print Assumptions C03_router_removed_pair_not_served.

Theorem C03_router_removed_not_served : forall name ic trace domain rhist p ms method path ok n h ps,
  rhist_tokens rhist = true ->
  let rt := fold_left rstep rhist (new_router name ic trace domain) in
  let rt' := rstep rt (RRemove p ms) in
  removes ms method -> p <> [] ->
  tree_handler (rtree rt') method path [] = HFound ok (Some n) h ps -> npat n = p -> ok = false.
Proof. exact router_removed_not_served. Qed.
Print Assumptions C03_router_removed_not_served.

Theorem C03_router_removed_get_removes_head : forall name ic trace domain rhist p ms path ok n h ps,
  rhist_tokens rhist = true ->
  let rt := fold_left rstep rhist (new_router name ic trace domain) in
  let rt' := rstep rt (RRemove p ms) in
  (ms = [] \/ In GET ms) -> p <> [] ->
  tree_handler (rtree rt') HEAD path [] = HFound ok (Some n) h ps -> npat n = p -> ok = false.
Proof. exact router_removed_get_removes_head. Qed.
Print Assumptions C03_router_removed_get_removes_head.

Theorem C03_router_removed_route_not_answered : forall name ic trace domain rhist p method path ok n h ps,
  rhist_tokens rhist = true ->
  let rt := fold_left rstep rhist (new_router name ic trace domain) in
  let rt' := rstep rt (RRemove p []) in
  p <> [] -> tree_handler (rtree rt') method path [] = HFound ok (Some n) h ps -> npat n <> p.
Proof. exact router_removed_route_not_answered. Qed.
Print Assumptions C03_router_removed_route_not_answered.

Theorem C03_router_cleaned_not_served : forall name ic trace domain rhist prefix method path ok n h ps,
  rhist_tokens rhist = true ->
  let rt := fold_left rstep rhist (new_router name ic trace domain) in
  let rt' := rstep rt (RClean prefix) in
  tree_handler (rtree rt') method path [] = HFound ok (Some n) h ps ->
  (prefix <> [] -> has_prefix (npat n) prefix = false) /\ (prefix = [] -> n = troot (rtree rt')).
Proof. exact router_cleaned_not_served. Qed.
Print Assumptions C03_router_cleaned_not_served.

Theorem C03_router_pattern_unique : forall name ic trace domain rhist a b, rhist_tokens rhist = true ->
  let t := rtree (fold_left rstep rhist (new_router name ic trace domain)) in
  desc (troot t) a -> desc (troot t) b -> npat a = npat b -> a = b.
Proof. exact router_pattern_unique. Qed.
Print Assumptions C03_router_pattern_unique.

(* ---------------------------------------------------------------- C03 : live routes are served *)
Theorem C03_router_simple_witness_served : forall name ic trace domain rhist chain n method,
  rhist_tokens rhist = true ->
  let t := rtree (fold_left rstep rhist (new_router name ic trace domain)) in
  chain_to (troot t) chain n -> nhandlers n <> [] -> simple t chain ->
  wpath chain <> [] -> wpath chain <> bs "*" -> (ttrace t = None \/ method <> TRACE) ->
  exists ok n' h ps, tree_handler t method (wpath chain) [] = HFound ok (Some n') h ps /\ nhandlers n' <> [].
Proof. exact router_simple_witness_served. Qed.
Print Assumptions C03_router_simple_witness_served.

Theorem C03_router_simple_witness_exact : forall name ic trace domain rhist chain n method,
  rhist_tokens rhist = true ->
  let t := rtree (fold_left rstep rhist (new_router name ic trace domain)) in
  chain_to (troot t) chain n -> nhandlers n <> [] -> simple t chain -> first_at (troot t) chain ->
  wpath chain <> [] -> wpath chain <> bs "*" -> (ttrace t = None \/ method <> TRACE) ->
  exists h405, alookup M405 (nhandlers n) = Some h405 /\
    tree_handler t method (wpath chain) [] =
    match lookup_handler method (nhandlers n) with
    | Some h => HFound true (Some n) h (wparams chain [])
    | None => HFound false (Some n) h405 (wparams chain [])
    end.
Proof. exact router_simple_witness_exact. Qed.
Print Assumptions C03_router_simple_witness_exact.

Theorem C03_router_literal_route_method : forall name ic trace domain rhist p n method,
  rhist_tokens rhist = true ->
  let t := rtree (fold_left rstep rhist (new_router name ic trace domain)) in
  desc (troot t) n -> npat n = p -> nhandlers n <> [] -> (forall c, In c p -> c <> 123 /\ c <> 125) ->
  p <> [] -> p <> bs "*" -> (ttrace t = None \/ method <> TRACE) ->
  (forall c, In c (nchildren n) -> is_lit c = true \/ seg_match (nseg c) [] [] = None) ->
  exists h405, alookup M405 (nhandlers n) = Some h405 /\
    tree_handler t method p [] =
    match lookup_handler method (nhandlers n) with
    | Some h => HFound true (Some n) h []
    | None => HFound false (Some n) h405 []
    end.
Proof. exact router_literal_route_method. Qed.
Print Assumptions C03_router_literal_route_method.

Theorem C03_router_literal_route_not_404 : forall name ic trace domain rhist p n method,
  rhist_tokens rhist = true ->
  let t := rtree (fold_left rstep rhist (new_router name ic trace domain)) in
  desc (troot t) n -> npat n = p -> nhandlers n <> [] -> (forall c, In c p -> c <> 123 /\ c <> 125) ->
  p <> [] -> p <> bs "*" -> (ttrace t = None \/ method <> TRACE) ->
  exists n' ps, (n' = n \/ desc n n') /\ nhandlers n' <> [] /\
    exists h405, alookup M405 (nhandlers n') = Some h405 /\
      tree_handler t method p [] =
      match lookup_handler method (nhandlers n') with
      | Some h => HFound true (Some n') h ps
      | None => HFound false (Some n') h405 ps
      end.
Proof. exact router_literal_route_not_404. Qed.
Print Assumptions C03_router_literal_route_not_404.

(* ---------------------------------------------------------------- C01 : the text of a match *)
Theorem C01_router_dispatch_text : forall name ic trace domain rhist method path n h ps ok,
  rhist_tokens rhist = true ->
  let t := rtree (fold_left rstep rhist (new_router name ic trace domain)) in
  tree_handler t method path [] = HFound ok (Some n) h ps ->
  ttrace t = None \/ method <> TRACE -> path <> bs "*" -> path <> [] ->
  walk (troot t) path [] n ps /\
  exists chain pieces, npat n = concat (map (fun c => sval (nseg c)) chain) /\
    path = concat pieces /\ length pieces = length chain /\
    Forall TreeText.node_label_ok chain /\ Forall2 TreeText.piece_ok chain pieces.
Proof. exact router_dispatch_text. Qed.
Print Assumptions C01_router_dispatch_text.

(* ---------------------------------------------------------------- C03 : the router's tree is the table *)
(* [router_table]: the table of Spec/Table.v driven by the ROUTER calls ([rtab_step]: t_handle with
   the registration middlewares followed by the Use list so far, exactly when the router accepted
   the call; t_remove / t_clean / t_use always) *)
Theorem C03_rtab_step_spec : forall c T rt op,
  rtab_step c T rt op =
  match op with
  | RHandle p id mws ms =>
    match r_handle rt p (HUser id) mws ms with
    | Ok _ => t_handle c T p (HUser id) (mws ++ rms rt) ms
    | _ => T
    end
  | RRemove p ms => t_remove T p ms
  | RClean prefix => t_clean T prefix
  | RUse mws => t_use c T mws
  end.
Proof. reflexivity. Qed.
Print Assumptions C03_rtab_step_spec.

Theorem C03_router_table_spec : forall name ic trace domain rhist,
  router_table name ic trace domain rhist =
  snd (fold_left (fun s op => (rstep (fst s) op, rtab_step (cfg_of name ic trace) (snd s) (fst s) op)) rhist
                 (new_router name ic trace domain, [])).
Proof. reflexivity. Qed.
Print Assumptions C03_router_table_spec.

Theorem C03_router_table_is_tree_table : forall name ic trace domain rhist,
  router_table name ic trace domain rhist = table_of name ic trace (tr_hist rhist).
Proof. exact router_table_is_table_of. Qed.
Print Assumptions C03_router_table_is_tree_table.

Theorem C03_router_tree_is_table : forall name ic trace domain rhist p, rhist_tokens rhist = true ->
  let rt := fold_left rstep rhist (new_router name ic trace domain) in
  let T := router_table name ic trace domain rhist in
  alookup p (abs_tree (rtree rt)) = alookup p T.
Proof. exact router_tree_is_table. Qed.
Print Assumptions C03_router_tree_is_table.

Theorem C03_router_tree_table_perm : forall name ic trace domain rhist, rhist_tokens rhist = true ->
  Permutation (abs_tree (rtree (fold_left rstep rhist (new_router name ic trace domain))))
              (router_table name ic trace domain rhist).
Proof. exact router_tree_table_perm. Qed.
Print Assumptions C03_router_tree_table_perm.

Theorem C03_router_table_nodup : forall name ic trace domain rhist, rhist_tokens rhist = true ->
  NoDup (akeys (abs_tree (rtree (fold_left rstep rhist (new_router name ic trace domain))))) /\
  NoDup (akeys (router_table name ic trace domain rhist)).
Proof. exact router_table_nodup. Qed.
Print Assumptions C03_router_table_nodup.

Theorem C03_router_served_handler_is_table_entry : forall name ic trace domain rhist method path n h ps,
  rhist_tokens rhist = true ->
  let rt := fold_left rstep rhist (new_router name ic trace domain) in
  let T := router_table name ic trace domain rhist in
  tree_handler (rtree rt) method path [] = HFound true (Some n) h ps -> n <> troot (rtree rt) ->
  alookup (npat n) T = Some (nhandlers n) /\
  alookup method (opt_default [] (alookup (npat n) T)) = Some h.
Proof. exact router_served_handler_is_table_entry. Qed.
Print Assumptions C03_router_served_handler_is_table_entry.

Theorem C03_router_405_handler_is_table_entry : forall name ic trace domain rhist method path n h ps,
  rhist_tokens rhist = true ->
  let rt := fold_left rstep rhist (new_router name ic trace domain) in
  let T := router_table name ic trace domain rhist in
  tree_handler (rtree rt) method path [] = HFound false (Some n) h ps -> n <> troot (rtree rt) ->
  alookup (npat n) T = Some (nhandlers n) /\ lookup_handler method (nhandlers n) = None /\
  alookup M405 (nhandlers n) = Some h.
Proof. exact router_405_handler_is_table_entry. Qed.
Print Assumptions C03_router_405_handler_is_table_entry.

Theorem C03_router_routes_exact : forall name ic trace domain rhist, rhist_tokens rhist = true ->
  let rt := fold_left rstep rhist (new_router name ic trace domain) in
  let T := router_table name ic trace domain rhist in
  ~ In (bs "*") (akeys T) ->
  tree_routes (rtree rt) = spec_routes (has_trace (rtree rt)) T.
Proof. exact router_routes_exact. Qed.
Print Assumptions C03_router_routes_exact.

(* ---------------------------------------------------------------- C02 : the router refines the resolver *)
Theorem C02_router_refines_resolver_partial : forall name ic trace domain rhist method path,
  rhist_add_only rhist = true -> rhist_tokens rhist = true -> rhist_canon rhist ->
  path <> [] -> path <> bs "*" ->
  let t := rtree (fold_left rstep rhist (new_router name ic trace domain)) in
  (ttrace t = None \/ method <> TRACE) ->
  match tree_handler t method path [] with
  | HFound _ (Some n) _ ps => In (npat n, ps) (resolve ic (tree_table t) path)
  | HFound _ None _ _ => resolve ic (tree_table t) path = []
  | HPanic _ => False
  end.
Proof. exact router_refines_resolver_partial. Qed.
Print Assumptions C02_router_refines_resolver_partial.

Theorem C02_router_refines_resolver_canon : forall name ic trace domain rhist method path,
  rhist_add_only rhist = true -> rhist_tokens rhist = true -> rhist_canonb rhist = true ->
  path <> [] -> path <> bs "*" ->
  let t := rtree (fold_left rstep rhist (new_router name ic trace domain)) in
  (ttrace t = None \/ method <> TRACE) ->
  match tree_handler t method path [] with
  | HFound _ (Some n) _ ps => In (npat n, ps) (resolve ic (tree_table t) path)
  | HFound _ None _ _ => resolve ic (tree_table t) path = []
  | HPanic _ => False
  end.
Proof. exact router_refines_resolver_canon. Qed.
Print Assumptions C02_router_refines_resolver_canon.

(* the statement as requested (add-only and tokens only) is false *)
Theorem C02_router_refines_resolver_refuted :
  ~ (forall name ic trace domain rhist method path,
       rhist_add_only rhist = true -> rhist_tokens rhist = true ->
       path <> [] -> path <> bs "*" ->
       let t := rtree (fold_left rstep rhist (new_router name ic trace domain)) in
       (ttrace t = None \/ method <> TRACE) ->
       match tree_handler t method path [] with
       | HFound _ (Some n) _ ps => In (npat n, ps) (resolve ic (tree_table t) path)
       | HFound _ None _ _ => resolve ic (tree_table t) path = []
       | HPanic _ => False
       end).
Proof. exact router_refines_resolver_refuted. Qed.
Print Assumptions C02_router_refines_resolver_refuted.

Theorem C02_router_resolver_counterexample :
  rhist_add_only rcx_hist = true /\ rhist_tokens rcx_hist = true /\ rhist_canonb rcx_hist = false /\
  tr_hist rcx_hist = cx_hist /\
  let t := rtree (fold_left rstep rcx_hist (new_router (bs "r") [] false [])) in
  map fst (tree_table t) = [bs "/{id}/ab"; bs "/{id:}/ac"] /\
  resolve [] (tree_table t) cx_path = [] /\
  match tree_handler t GET cx_path [] with
  | HFound true (Some n) (HUser u) ps => npat n = bs "/{id}/ab" /\ ps = [(bs "id", bs "1/a/2")]
  | _ => False
  end.
Proof. exact rcx_facts. Qed.
Print Assumptions C02_router_resolver_counterexample.

(* ================================================================ Part 3 : Prefix / Resource programs *)

Theorem C19_fstep_spec : forall rt op,
  fstep rt op =
  match op with
  | FDirect o => rstep rt o
  | FHandle f pat id mws ms => rkeep rt (f_handle rt f pat (HUser id) mws ms)
  | FRemove f pat ms => rkeep rt (f_remove rt f pat ms)
  | FClean f => rkeep rt (f_clean rt f)
  end.
Proof. reflexivity. Qed.
Print Assumptions C19_fstep_spec.

Theorem C19_desugar_spec : forall op,
  desugar op =
  match op with
  | FDirect o => o
  | FHandle f pat id mws ms => RHandle (f_pattern f pat) id (mws ++ fms f) ms
  | FRemove f pat ms => RRemove (f_pattern f pat) ms
  | FClean f => if fprefix f then RClean (fpat f) else RRemove (fpat f) []
  end.
Proof. reflexivity. Qed.
Print Assumptions C19_desugar_spec.

Theorem C19_facade_step_is_router_step : forall rt op, fstep rt op = rstep rt (desugar op).
Proof. exact fstep_is_rstep. Qed.
Print Assumptions C19_facade_step_is_router_step.

Theorem C19_facade_history_is_router_history : forall fhist rt,
  fold_left fstep fhist rt = fold_left rstep (map desugar fhist) rt.
Proof. exact facade_history_is_router_history. Qed.
Print Assumptions C19_facade_history_is_router_history.

Theorem C19_facade_history_is_tree_history : forall name ic trace domain fhist,
  fold_left fstep fhist (new_router name ic trace domain) =
    fold_left rstep (map desugar fhist) (new_router name ic trace domain) /\
  rtree (fold_left fstep fhist (new_router name ic trace domain)) =
    fold_left tstep (ftr_hist fhist) (new_tree name ic trace) /\
  hist_tokens (ftr_hist fhist) = fhist_tokens fhist.
Proof. exact facade_history_is_tree_history. Qed.
Print Assumptions C19_facade_history_is_tree_history.

Theorem C19_fhist_tokens_desugar : forall fhist, rhist_tokens (map desugar fhist) = fhist_tokens fhist.
Proof. exact fhist_tokens_desugar. Qed.
Print Assumptions C19_fhist_tokens_desugar.

(* everything proved of all router histories holds of all facade programs *)
Theorem C19_facade_transfer : forall (rt0 : router) (P : router -> Prop),
  (forall rhist, P (fold_left rstep rhist rt0)) -> forall fhist, P (fold_left fstep fhist rt0).
Proof. exact facade_transfer. Qed.
Print Assumptions C19_facade_transfer.

Theorem C19_facade_transfer_tokens : forall (rt0 : router) (P : router -> Prop),
  (forall rhist, rhist_tokens rhist = true -> P (fold_left rstep rhist rt0)) ->
  forall fhist, fhist_tokens fhist = true -> P (fold_left fstep fhist rt0).
Proof. exact facade_transfer_tokens. Qed.
Print Assumptions C19_facade_transfer_tokens.

(* the desugaring on the shapes of Props/C19.v *)
Theorem C19_desugar_prefix_handle : forall pre pms pat id m ms,
  desugar (FHandle (f_prefix None pre pms) pat id m ms) = RHandle (pre ++ pat) id (m ++ pms) ms.
Proof. exact desugar_prefix_handle. Qed.
Print Assumptions C19_desugar_prefix_handle.

Theorem C19_desugar_nested_prefix_handle : forall pre1 ms1 pre2 ms2 pat id m ms,
  desugar (FHandle (f_prefix (Some (f_prefix None pre1 ms1)) pre2 ms2) pat id m ms) =
  RHandle (pre1 ++ pre2 ++ pat) id (m ++ ms2 ++ ms1) ms.
Proof. exact desugar_nested_prefix_handle. Qed.
Print Assumptions C19_desugar_nested_prefix_handle.

Theorem C19_desugar_resource_handle : forall parent pat rms anypat id m ms,
  desugar (FHandle (f_resource parent pat rms) anypat id m ms) =
  RHandle (match parent with None => pat | Some p => fpat p ++ pat end) id
          (m ++ rms ++ match parent with None => [] | Some p => fms p end) ms.
Proof. exact desugar_resource_handle. Qed.
Print Assumptions C19_desugar_resource_handle.

Theorem C19_desugar_prefix_remove : forall parent pre pms pat ms,
  desugar (FRemove (f_prefix parent pre pms) pat ms) =
  RRemove (match parent with None => pre ++ pat | Some p => fpat p ++ pre ++ pat end) ms.
Proof. exact desugar_prefix_remove. Qed.
Print Assumptions C19_desugar_prefix_remove.

Theorem C19_desugar_resource_remove : forall parent pat rms anypat ms,
  desugar (FRemove (f_resource parent pat rms) anypat ms) =
  RRemove (match parent with None => pat | Some p => fpat p ++ pat end) ms.
Proof. exact desugar_resource_remove. Qed.
Print Assumptions C19_desugar_resource_remove.

Theorem C19_desugar_prefix_clean : forall parent pre pms,
  desugar (FClean (f_prefix parent pre pms)) = RClean (match parent with None => pre | Some p => fpat p ++ pre end).
Proof. exact desugar_prefix_clean. Qed.
Print Assumptions C19_desugar_prefix_clean.

Theorem C19_desugar_resource_clean : forall parent pat rms,
  desugar (FClean (f_resource parent pat rms)) = RRemove (match parent with None => pat | Some p => fpat p ++ pat end) [].
Proof. exact desugar_resource_clean. Qed.
Print Assumptions C19_desugar_resource_clean.

(* Prefixes nested to any depth: [nest [(pre1, ms1); ...; (prek, msk)]], outermost first *)
Theorem C19_nest_spec : forall l x, nest [] = None /\ nest (l ++ [x]) = Some (f_prefix (nest l) (fst x) (snd x)).
Proof. exact (fun l x => conj eq_refl (nest_snoc l x)). Qed.
Print Assumptions C19_nest_spec.

Theorem C19_nested_any_depth : forall l, l <> [] ->
  nest l = Some {| fprefix := true; fpat := concat (map fst l); fms := concat (map snd (rev l)) |}.
Proof. exact nest_closed. Qed.
Print Assumptions C19_nested_any_depth.

Theorem C19_desugar_nested_handle : forall l f pat id m ms, l <> [] -> nest l = Some f ->
  desugar (FHandle f pat id m ms) = RHandle (concat (map fst l) ++ pat) id (m ++ concat (map snd (rev l))) ms.
Proof. exact desugar_nest_handle. Qed.
Print Assumptions C19_desugar_nested_handle.

Theorem C19_desugar_nested_resource_handle : forall l pat rms anypat id m ms,
  desugar (FHandle (f_resource (nest l) pat rms) anypat id m ms) =
  RHandle (concat (map fst l) ++ pat) id (m ++ rms ++ concat (map snd (rev l))) ms.
Proof. exact desugar_nest_resource_handle. Qed.
Print Assumptions C19_desugar_nested_resource_handle.

(* instances for facade programs *)
Theorem C05_facade_serve_total : forall name ic trace domain fhist recover rs method path ps,
  (forall s, tree_handler (rtree (fold_left fstep fhist (new_router name ic trace domain))) method path ps <> HPanic s) /\
  serve_ctx (fold_left fstep fhist (new_router name ic trace domain)) recover rs method path ps <> SPanic.
Proof. exact facade_serve_total. Qed.
Print Assumptions C05_facade_serve_total.

Theorem C03_facade_remove_frame : forall name ic trace domain fhist f pat ms method path ok n h ps rt',
  fhist_tokens fhist = true ->
  let rt := fold_left fstep fhist (new_router name ic trace domain) in
  tree_handler (rtree rt) method path [] = HFound ok (Some n) h ps ->
  npat n <> f_pattern f pat ->
  f_remove rt f pat ms = Ok rt' ->
  exists n', tree_handler (rtree rt') method path [] = HFound ok (Some n') h ps /\ npat n' = npat n.
Proof. exact facade_remove_frame. Qed.
Print Assumptions C03_facade_remove_frame.

Theorem C03_facade_clean_frame : forall name ic trace domain fhist f method path ok n h ps rt',
  fhist_tokens fhist = true ->
  let rt := fold_left fstep fhist (new_router name ic trace domain) in
  tree_handler (rtree rt) method path [] = HFound ok (Some n) h ps ->
  (if fprefix f then has_prefix (npat n) (fpat f) = false else npat n <> fpat f) ->
  f_clean rt f = Ok rt' ->
  exists n', tree_handler (rtree rt') method path [] = HFound ok (Some n') h ps /\ npat n' = npat n.
Proof. exact facade_clean_frame. Qed.
Print Assumptions C03_facade_clean_frame.

Theorem C03_facade_removed_pair_not_served : forall name ic trace domain fhist f pat ms method path ok n h ps,
  fhist_tokens fhist = true ->
  let rt := fold_left fstep fhist (new_router name ic trace domain) in
  let rt' := fstep rt (FRemove f pat ms) in
  (ms = [] \/ In method ms) -> is_auto method = false -> f_pattern f pat <> [] ->
  tree_handler (rtree rt') method path [] = HFound ok (Some n) h ps -> npat n = f_pattern f pat -> ok = false.
Proof. exact facade_removed_pair_not_served. Qed.
Print Assumptions C03_facade_removed_pair_not_served.

Theorem C03_facade_tree_is_table : forall name ic trace domain fhist p, fhist_tokens fhist = true ->
  alookup p (abs_tree (rtree (fold_left fstep fhist (new_router name ic trace domain)))) =
  alookup p (router_table name ic trace domain (map desugar fhist)).
Proof. exact facade_tree_is_table. Qed.
Print Assumptions C03_facade_tree_is_table.

(* ================================================================ examples *)
(* router "main", domain "https://h/": Use; Handle /a; Handle /a again (rejected); Handle through the
   Prefix "/api" [pm], through the nested Prefix "/api" "/v1" [vm], through the Resource
   "/api" "/items/{id:\d+}" [im]; Use; Handle /b/{x}; Remove through the Prefix; Remove /a *)
Theorem C03_router_example_desugared :
  map desugar exr_prog =
  [ RUse [bs "u0"];
    RHandle (bs "/a") (bs "ha") [bs "r1"] [GET];
    RHandle (bs "/a") (bs "dup") [] [GET];
    RHandle (bs "/api/users/{id}") (bs "hu") [bs "hm"; bs "pm"] [GET; POST];
    RHandle (bs "/api/v1/ping") (bs "hp") [bs "vm"; bs "pm"] [];
    RHandle (bs "/api/items/{id:\d+}") (bs "hi") [bs "im"; bs "pm"] [GET; DELETE];
    RUse [bs "u1"];
    RHandle (bs "/b/{x}") (bs "hb") [] [GET];
    RRemove (bs "/api/users/{id}") [POST];
    RRemove (bs "/a") [] ].
Proof. exact exr_desugared. Qed.
Print Assumptions C03_router_example_desugared.

Theorem C03_router_example_translated :
  ftr_hist exr_prog =
  [ OUse [bs "u0"];
    OAdd (bs "/a") (HUser (bs "ha")) [bs "r1"; bs "u0"] [GET];
    OAdd (bs "/a") (HUser (bs "dup")) [bs "u0"] [GET];
    OAdd (bs "/api/users/{id}") (HUser (bs "hu")) [bs "hm"; bs "pm"; bs "u0"] [GET; POST];
    OAdd (bs "/api/v1/ping") (HUser (bs "hp")) [bs "vm"; bs "pm"; bs "u0"] [];
    OAdd (bs "/api/items/{id:\d+}") (HUser (bs "hi")) [bs "im"; bs "pm"; bs "u0"] [GET; DELETE];
    OUse [bs "u1"];
    OAdd (bs "/b/{x}") (HUser (bs "hb")) [bs "u0"; bs "u1"] [GET];
    ORemove (bs "/api/users/{id}") [POST];
    ORemove (bs "/a") [] ].
Proof. exact exr_translated. Qed.
Print Assumptions C03_router_example_translated.

Theorem C03_router_example_premises :
  fhist_tokens exr_prog = true /\ rhist_tokens exr_rhist = true /\ hist_tokens (ftr_hist exr_prog) = true /\
  (match r_handle (fold_left fstep (firstn 2 exr_prog) exr_new) (bs "/a") (HUser (bs "dup")) [] [GET] with
   | Err _ => True | _ => False end) /\
  fold_left fstep (firstn 3 exr_prog) exr_new = fold_left fstep (firstn 2 exr_prog) exr_new /\
  map (fun i => match nth_error (ftr_hist exr_prog) i with
                | Some (OAdd p h mws ms) =>
                  match tree_add (fold_left tstep (firstn i (ftr_hist exr_prog)) (new_tree (bs "main") [] false)) p h mws ms with
                  | Ok _ => true | _ => false end
                | _ => true end) (seq 0 10) =
    [true; true; false; true; true; true; true; true; true; true] /\
  rms exr_rt = [bs "u0"; bs "u1"] /\ rdomain exr_rt = bs "https://h" /\
  rtree exr_rt = fold_left tstep (ftr_hist exr_prog) (new_tree (bs "main") [] false) /\
  exr_rt = fold_left rstep exr_rhist exr_new.
Proof. exact exr_premises. Qed.
Print Assumptions C03_router_example_premises.

Theorem C03_router_example_dispatch :
  map (fun mp => exr_show (tree_handler (rtree exr_rt) (fst mp) (snd mp) []))
      [(GET, bs "/a"); (GET, bs "/api/users/7"); (POST, bs "/api/users/7"); (GET, bs "/api/v1/ping");
       (DELETE, bs "/api/items/42"); (GET, bs "/api/items/x"); (GET, bs "/b/q")] =
  [ None;
    Some (true, bs "/api/users/{id}", ([bs "u1"; bs "u0"; bs "pm"; bs "hm"], HUser (bs "hu")), [(bs "id", bs "7")]);
    Some (false, bs "/api/users/{id}", ([bs "u1"; bs "u0"; bs "pm"; bs "hm"], HNotAllowed), [(bs "id", bs "7")]);
    Some (true, bs "/api/v1/ping", ([bs "u1"; bs "u0"; bs "pm"; bs "vm"], HUser (bs "hp")), []);
    Some (true, bs "/api/items/{id:\d+}", ([bs "u1"; bs "u0"; bs "pm"; bs "im"], HUser (bs "hi")), [(bs "id", bs "42")]);
    None;
    Some (true, bs "/b/{x}", ([bs "u1"; bs "u0"], HUser (bs "hb")), [(bs "x", bs "q")]) ].
Proof. exact exr_dispatch. Qed.
Print Assumptions C03_router_example_dispatch.

Theorem C03_router_example_table :
  map (fun pe => (fst pe, akeys (snd pe))) (router_table (bs "main") [] false exr_dom exr_rhist) =
  [ (bs "/api/users/{id}", [HEAD; GET; OPTIONS; M405]);
    (bs "/api/v1/ping", [HEAD; GET; POST; DELETE; PUT; PATCH; CONNECT; OPTIONS; M405]);
    (bs "/api/items/{id:\d+}", [HEAD; GET; DELETE; OPTIONS; M405]);
    (bs "/b/{x}", [HEAD; GET; OPTIONS; M405]) ] /\
  abs_tree (rtree exr_rt) = router_table (bs "main") [] false exr_dom exr_rhist.
Proof. exact exr_table. Qed.
Print Assumptions C03_router_example_table.

(* C03_facade_remove_frame applied to the 9th call (proved by applying the theorem, not by computing) *)
Theorem C03_router_example_frame_applied :
  exists n', tree_handler
               (rtree (fstep (fold_left fstep (firstn 8 exr_prog) (new_router (bs "main") [] false exr_dom))
                             (FRemove exr_api (bs "/users/{id}") [POST]))) GET (bs "/b/q") [] =
             HFound true (Some n')
               (HWrap (bs "u1") GET (bs "/b/{x}") (bs "main") (HWrap (bs "u0") GET (bs "/b/{x}") (bs "main") (HUser (bs "hb"))))
               [(bs "x", bs "q")] /\ npat n' = bs "/b/{x}".
Proof. exact exr_frame_applied. Qed.
Print Assumptions C03_router_example_frame_applied.

Theorem C03_router_example_removed_applied : forall ok n h ps,
  tree_handler
    (rtree (fstep (fold_left fstep (firstn 8 exr_prog) (new_router (bs "main") [] false exr_dom))
                  (FRemove exr_api (bs "/users/{id}") [POST]))) POST (bs "/api/users/7") [] =
    HFound ok (Some n) h ps -> npat n = bs "/api/users/{id}" -> ok = false.
Proof. exact exr_removed_applied. Qed.
Print Assumptions C03_router_example_removed_applied.

Theorem C19_example_nested :
  desugar (FHandle (f_resource (nest [(bs "/a", [bs "m1"]); (bs "/b", [bs "m2"]); (bs "/c", [bs "m3"])]) (bs "/r/{id}") [bs "rm"])
                   [] (bs "h") [bs "hm"] [GET]) =
  RHandle (bs "/a/b/c/r/{id}") (bs "h") [bs "hm"; bs "rm"; bs "m3"; bs "m2"; bs "m1"] [GET].
Proof. exact exr_nest. Qed.
Print Assumptions C19_example_nested.
