(* C09 – the middleware onion on the tree the router uses. Theorems only (proofs: Proofs/TreeOnion.v).
   Every handler stored at a node under the method key m is
       core, wrapped by the registration's middlewares, then by ALL Router.Use middlewares
   in the order given (the most recent outermost), whether Use was called before or after the
   registration; every layer carries (m, the node's pattern, the router's name). *)
From Coq Require Import String.
From Mux Require Import Model.Bytes Model.Regex Model.Context Model.Syntax Model.Tree Model.Router
     Proofs.MatchSound Proofs.TreeText Proofs.TreeOnion.

Theorem C09_router_new : forall name ic trace domain, router_ok (new_router name ic trace domain).
Proof. exact router_new_ok. Qed.
Print Assumptions C09_router_new.

(* The statement without a hypothesis on the shape of [rt] is false (next theorem): the terms are
   built with the pattern of the call, the invariant speaks about the pattern stored in the
   node reached, and only the pattern invariant of TreeText (C01_pat_*: a child's pattern is
   its parent's followed by its label; true of every reached tree) makes the two agree. *)
Theorem C09_router_handle_partial : forall rt p h mws ms rt', is_core h = true -> router_ok rt ->
  tree_pat_ok (rtree rt) -> r_handle rt p h mws ms = Ok rt' -> router_ok rt'.
Proof. exact router_handle_ok. Qed.
Print Assumptions C09_router_handle_partial.

Theorem C09_router_handle_refuted :
  ~ (forall rt p h mws ms rt', is_core h = true -> router_ok rt ->
       r_handle rt p h mws ms = Ok rt' -> router_ok rt').
Proof. exact router_handle_needs_pat. Qed.
Print Assumptions C09_router_handle_refuted.

(* the reached-pattern fact: the segments of a pattern spell it, and [get_node] applies its
   continuation only to a node whose pattern is the text of the segments consumed *)
Theorem C09_split_spells_pattern : forall ic p segs, split ic p = Ok segs -> concat (map sval segs) = p.
Proof. exact split_concat. Qed.
Print Assumptions C09_split_spells_pattern.

Theorem C09_reached_pattern : forall uses r fuel ic segs n upd n', all_nodes (ninv uses r) n ->
  (forall ch ch', all_nodes (ninv uses r) ch -> npat ch = npat n ++ concat (map sval segs) ->
     upd ch = Ok ch' -> rkeeps uses r ch ch') ->
  get_node fuel ic n segs upd = Ok n' -> rkeeps uses r n n'.
Proof. exact get_node_reach. Qed.
Print Assumptions C09_reached_pattern.

Theorem C09_router_remove : forall rt p ms rt', router_ok rt -> r_remove rt p ms = Ok rt' -> router_ok rt'.
Proof. exact router_remove_ok. Qed.
Print Assumptions C09_router_remove.

Theorem C09_router_clean : forall rt prefix rt', router_ok rt -> r_clean rt prefix = Ok rt' -> router_ok rt'.
Proof. exact router_clean_ok. Qed.
Print Assumptions C09_router_clean.

Theorem C09_router_use : forall rt mws, router_ok rt -> router_ok (r_use rt mws).
Proof. exact router_use_ok. Qed.
Print Assumptions C09_router_use.

Theorem C09_router_reachable : forall name ic trace domain hist,
  router_ok (fold_left rstep hist (new_router name ic trace domain)).
Proof. exact router_reachable_ok. Qed.
Print Assumptions C09_router_reachable.

Theorem C09_layers_carry_arguments : forall uses m p r h, term_ok uses m p r h ->
  (fix all_args (h : hterm) : Prop :=
     match h with
     | HWrap _ m' p' r' inner => m' = m /\ p' = p /\ r' = r /\ all_args inner
     | _ => True
     end) h.
Proof. exact layers_carry_arguments. Qed.
Print Assumptions C09_layers_carry_arguments.

Theorem C09_use_outermost : forall uses m p r h, term_ok uses m p r h ->
  exists inner, h = apply_mw inner m p r uses.
Proof. exact use_outermost. Qed.
Print Assumptions C09_use_outermost.

Theorem C09_404_trace_only_use : forall name ic trace domain hist,
  let rt := fold_left rstep hist (new_router name ic trace domain) in
  tnotfound (rtree rt) = apply_mw HNotFound [] [] (tname (rtree rt)) (rms rt) /\
  (forall h, ttrace (rtree rt) = Some h -> h = apply_mw HTrace TRACE [] (tname (rtree rt)) (rms rt)).
Proof. exact notfound_trace_only_use. Qed.
Print Assumptions C09_404_trace_only_use.

(* new_router "main"; Use [u0]; Handle "/a/{id}" h1 [r1] [GET]; Use [u1] *)
Theorem C09_example_onion :
  match tree_handler (rtree (fold_left rstep
          [ RUse [bs "u0"]; RHandle (bs "/a/{id}") (bs "h1") [bs "r1"] [GET]; RUse [bs "u1"] ]
          (new_router (bs "main") [] false []))) GET (bs "/a/5") [] with
  | HFound true (Some n) h ps =>
    npat n = bs "/a/{id}" /\ ps = [(bs "id", bs "5")] /\
    h = HWrap (bs "u1") GET (bs "/a/{id}") (bs "main")
          (HWrap (bs "u0") GET (bs "/a/{id}") (bs "main")
             (HWrap (bs "r1") GET (bs "/a/{id}") (bs "main") (HUser (bs "h1"))))
  | _ => False
  end.
Proof. exact ex_onion_get. Qed.
Print Assumptions C09_example_onion.
