(* C17 - the ambiguity pre-check of registration (checkAmbiguous). Theorems only; definitions
   (seg_twin, seg_differs, pat_twin, amb_walk, amb_text, twin_text, chain, seg_twin_strict,
   pat_twin_strict, canon_seg, pat_canon, some_differs) and proofs are in Proofs/TreeAmb.v. *)
From Coq Require Import String.
From Mux Require Import Model.Bytes Model.Regex Model.Context Model.Syntax Model.Tree
  Proofs.MatchSound Proofs.TreeSafe Proofs.RegTotal Proofs.TreeAmb.
From Mux Require Proofs.TreeText.

(* ---------------------------------------------------------------- segments *)

(* as given the statement is false on arbitrary segment records (a "literal" record with the '-' flag) *)
Theorem C17_is_ambiguous_twin_refuted :
  ~ (forall a b, is_ambiguous a b = true ->
       seg_twin a b = true /\ (beqb (sname a) (sname b) = false \/ signore a <> signore b)).
Proof. exact is_ambiguous_twin_refuted_l. Qed.
Print Assumptions C17_is_ambiguous_twin_refuted.

Theorem C17_is_ambiguous_twin_partial : forall a b, styp a <> TString -> is_ambiguous a b = true ->
  seg_twin a b = true /\ (beqb (sname a) (sname b) = false \/ signore a <> signore b).
Proof. exact is_ambiguous_twin_partial_l. Qed.
Print Assumptions C17_is_ambiguous_twin_partial.

(* for segments produced by the parser the statement holds without a side condition *)
Theorem C17_is_ambiguous_twin_parsed : forall ic va a ic' vb b,
  new_segment ic va = Ok a -> new_segment ic' vb = Ok b -> is_ambiguous a b = true ->
  seg_twin a b = true /\ (beqb (sname a) (sname b) = false \/ signore a <> signore b).
Proof. exact is_ambiguous_twin_parsed_l. Qed.
Print Assumptions C17_is_ambiguous_twin_parsed.

Theorem C17_seg_twin_sym : forall a b, seg_twin a b = seg_twin b a.
Proof. exact seg_twin_sym. Qed.
Print Assumptions C17_seg_twin_sym.

(* ---------------------------------------------------------------- soundness of the walk *)

Theorem C17_check_amb_sound : forall fuel ic n pattern q flag, all_nodes TreeText.pat_ok n ->
  check_amb fuel ic n pattern false = Ok (Some (q, flag)) ->
  exists r, (r = n \/ desc n r) /\ npat r = q /\ nhandlers r <> [].
Proof. exact check_amb_sound_l. Qed.
Print Assumptions C17_check_amb_sound.

Theorem C17_check_amb_walk : forall fuel ic n pattern f0 q flag,
  check_amb fuel ic n pattern f0 = Ok (Some (q, flag)) ->
  exists r, amb_walk ic n pattern f0 r flag /\ npat r = q.
Proof. exact check_amb_walk. Qed.
Print Assumptions C17_check_amb_walk.

Theorem C17_check_amb_twin : forall fuel ic n pattern q flag,
  all_nodes TreeText.pat_ok n -> check_amb fuel ic n pattern false = Ok (Some (q, flag)) ->
  firstn (length (npat n)) q = npat n /\
  amb_text ic pattern (skipn (length (npat n)) q) false flag.
Proof. exact check_amb_text. Qed.
Print Assumptions C17_check_amb_twin.

Theorem C17_check_amb_flag_false_exact : forall fuel ic n pattern q,
  all_nodes TreeText.pat_ok n -> check_amb fuel ic n pattern false = Ok (Some (q, false)) ->
  q = npat n ++ pattern.
Proof. exact check_amb_false_exact. Qed.
Print Assumptions C17_check_amb_flag_false_exact.

Theorem C17_not_ambiguous_when_flag_false : forall t p h mws ms,
  (exists q, check_amb (tree_fuel t + length p + 2) (tic t) (troot t) p false = Ok (Some (q, false))) ->
  forall e, tree_add t p h mws ms = Err e -> e <> bs "ambiguous".
Proof. exact not_ambiguous_when_flag_false. Qed.
Print Assumptions C17_not_ambiguous_when_flag_false.

Theorem C17_tree_add_ambiguous_iff : forall t p h mws ms,
  tree_add t p h mws ms = Err (bs "ambiguous") <->
  exists q, check_amb (tree_fuel t + length p + 2) (tic t) (troot t) p false = Ok (Some (q, true)).
Proof. exact tree_add_ambiguous_iff. Qed.
Print Assumptions C17_tree_add_ambiguous_iff.

(* a registration is rejected as ambiguous only because of a live route whose text is related to the
   new pattern by [twin_text]: equal text, except for labels that are [seg_twin] with the pattern's
   segment and differ from it in the name or the '-' flag (at least one, see C17_twin_text_flag) *)
Theorem C17_ambiguous_names_live_route : forall t p h mws ms, TreeText.tree_inv lit_plain t ->
  tree_add t p h mws ms = Err (bs "ambiguous") ->
  exists r, (r = troot t \/ desc (troot t) r) /\ nhandlers r <> [] /\
            twin_text (tic t) p (npat r) false true.
Proof. exact ambiguous_names_live_route. Qed.
Print Assumptions C17_ambiguous_names_live_route.

Theorem C17_ambiguous_names_live_route_reachable : forall name ic trace hist p h mws ms,
  let t := fold_left tstep hist (new_tree name ic trace) in
  tree_add t p h mws ms = Err (bs "ambiguous") ->
  exists r, (r = troot t \/ desc (troot t) r) /\ nhandlers r <> [] /\
            twin_text (tic t) p (npat r) false true.
Proof. exact ambiguous_names_live_route_reachable. Qed.
Print Assumptions C17_ambiguous_names_live_route_reachable.

Theorem C17_twin_text_flag : forall ic x y f f', twin_text ic x y f f' -> f = false -> f' = true ->
  exists l a s0 x' y', x = l ++ sval s0 ++ x' /\ y = l ++ sval a ++ y' /\
                       seg_twin a s0 = true /\ seg_differs a s0.
Proof. exact twin_text_flag. Qed.
Print Assumptions C17_twin_text_flag.

(* ---------------------------------------------------------------- the parser on a suffix *)
Theorem C17_split_tail : forall ic p s0 segs, split ic p = Ok (s0 :: segs) -> segs <> [] ->
  split ic (concat (map sval segs)) = Ok segs.
Proof. exact split_tail. Qed.
Print Assumptions C17_split_tail.

(* the canonical text of a parameter piece, and the only other spelling the parser accepts *)
Theorem C17_param_spelling : forall ic s, piece_ok ic s -> styp s <> TString ->
  sval s = spell s \/ (srule s = [] /\ sval s = 123%N :: raw_name s ++ 58%N :: 125%N :: ssuffix s).
Proof. exact param_spelling. Qed.
Print Assumptions C17_param_spelling.

(* ---------------------------------------------------------------- completeness against the only route *)
Theorem C17_single_chain : forall name ic trace q hq mq t1,
  tree_add (new_tree name ic trace) q hq [] mq = Ok t1 ->
  exists sq, split ic q = Ok sq /\ chain (troot t1) sq /\ tic t1 = ic /\ npat (troot t1) = [].
Proof. exact first_add_chain. Qed.
Print Assumptions C17_single_chain.

(* the statement with "twin + some position differs" is false: "/{id:}/{a}" then "/{id}/{b}" *)
Theorem C17_twin_of_only_route_rejected_refuted :
  ~ (forall name ic trace q hq mq p h mws ms t1,
       tree_add (new_tree name ic trace) q hq [] mq = Ok t1 -> pat_twin ic p q -> p <> q ->
       (exists sp sq, split ic p = Ok sp /\ split ic q = Ok sq /\
                      Forall2 (fun a b => seg_twin a b = true) sp sq /\ some_differs sp sq) ->
       tree_add t1 p h mws ms = Err (bs "ambiguous")).
Proof. exact twin_of_only_route_rejected_refuted. Qed.
Print Assumptions C17_twin_of_only_route_rejected_refuted.

(* repaired: at every position the texts are equal unless the names or the '-' flags differ *)
Theorem C17_twin_of_only_route_rejected_partial : forall name ic trace q hq mq p h mws ms t1,
  tree_add (new_tree name ic trace) q hq [] mq = Ok t1 -> pat_twin_strict ic p q -> p <> q ->
  tree_add t1 p h mws ms = Err (bs "ambiguous").
Proof. exact twin_of_only_route_rejected. Qed.
Print Assumptions C17_twin_of_only_route_rejected_partial.

Theorem C17_pat_twin_canon_strict : forall ic p q, pat_twin ic p q -> pat_canon ic p -> pat_canon ic q ->
  pat_twin_strict ic p q.
Proof. exact pat_twin_canon_strict. Qed.
Print Assumptions C17_pat_twin_canon_strict.

(* with the canonical spelling (no "{name:}") on both sides the twin relation alone is enough *)
Theorem C17_twin_of_only_route_rejected_canon : forall name ic trace q hq mq p h mws ms t1,
  tree_add (new_tree name ic trace) q hq [] mq = Ok t1 -> pat_twin ic p q ->
  pat_canon ic p -> pat_canon ic q -> p <> q ->
  tree_add t1 p h mws ms = Err (bs "ambiguous").
Proof. exact twin_of_only_route_rejected_canon. Qed.
Print Assumptions C17_twin_of_only_route_rejected_canon.

(* ---------------------------------------------------------------- examples *)
Theorem C17_example_other_name :
  tree_add ex_t1 (bs "/posts/{name}/author") (HUser (bs "k")) [] [GET] = Err (bs "ambiguous").
Proof. exact ex_other_name. Qed.
Print Assumptions C17_example_other_name.

Theorem C17_example_ignore_flag :
  tree_add ex_t1 (bs "/posts/{-id}/author") (HUser (bs "k")) [] [GET] = Err (bs "ambiguous").
Proof. exact ex_ignore_flag. Qed.
Print Assumptions C17_example_ignore_flag.

Theorem C17_example_other_rule :
  is_ok (tree_add ex_t1 (bs "/posts/{id:\d+}/author") (HUser (bs "k")) [] [GET]) = true.
Proof. exact ex_other_rule. Qed.
Print Assumptions C17_example_other_rule.

Theorem C17_example_other_suffix :
  is_ok (tree_add ex_t1 (bs "/posts/{id}/authors") (HUser (bs "k")) [] [GET]) = true.
Proof. exact ex_other_suffix. Qed.
Print Assumptions C17_example_other_suffix.

(* outside the promise of the property: with two routes a twin can be accepted *)
Theorem C17_example_two_routes_twin_accepted :
  tree_add (new_tree (bs "r") [] false) (bs "/posts/{id}/author") (HUser (bs "a")) [] [GET] = Ok two_t1 /\
  tree_add two_t1 (bs "/posts/{id}/about") (HUser (bs "b")) [] [GET] = Ok two_t2 /\
  is_ok (tree_add two_t2 (bs "/posts/{name}/author") (HUser (bs "c")) [] [GET]) = true.
Proof. exact two_routes_twin_accepted. Qed.
Print Assumptions C17_example_two_routes_twin_accepted.

Theorem C17_example_ambiguous_before_syntax :
  tree_add (new_tree (bs "r") [] false) (bs "/{a}/{b}") (HUser (bs "q")) [] [GET] = Ok dup_t1 /\
  tree_add dup_t1 (bs "/{a}/{a}") (HUser (bs "p")) [] [GET] = Err (bs "ambiguous") /\
  split [] (bs "/{a}/{a}") = Err (bs "dupname").
Proof. exact ambiguous_before_syntax. Qed.
Print Assumptions C17_example_ambiguous_before_syntax.
