(* C05 over histories – no request makes dispatch fault on any route table reachable by any
   sequence of registrations, removals, cleans and middleware applications.
   Theorems only; definitions (h405_ok, node_safe, tree_safe, top, keep, tstep) and proofs are in
   Proofs/TreeSafe.v.  All statements are proved as given. *)
From Coq Require Import String.
From Mux Require Import Model.Bytes Model.Regex Model.Context Model.Syntax Model.Tree
  Proofs.BytesFacts Proofs.MatchSound Proofs.TreeSafe.

Theorem C05_new_tree_safe : forall name ic trace, tree_safe (new_tree name ic trace).
Proof. exact new_tree_safe. Qed.
Print Assumptions C05_new_tree_safe.

Theorem C05_add_safe : forall t p h mws ms t', tree_safe t ->
  tree_add t p h mws ms = Ok t' -> tree_safe t'.
Proof. exact add_safe. Qed.
Print Assumptions C05_add_safe.

Theorem C05_remove_safe : forall t p ms t', tree_safe t ->
  tree_remove t p ms = Ok t' -> tree_safe t'.
Proof. exact remove_safe. Qed.
Print Assumptions C05_remove_safe.

Theorem C05_clean_safe : forall t prefix t', tree_safe t ->
  tree_clean t prefix = Ok t' -> tree_safe t'.
Proof. exact clean_safe. Qed.
Print Assumptions C05_clean_safe.

Theorem C05_use_safe : forall t mws, tree_safe t -> tree_safe (tree_apply_mw t mws).
Proof. exact use_safe. Qed.
Print Assumptions C05_use_safe.

Theorem C05_handler_total : forall t method path ps s, tree_safe t ->
  tree_handler t method path ps <> HPanic s.
Proof. exact handler_total. Qed.
Print Assumptions C05_handler_total.

(* the headline: every request (any method bytes, any path bytes incl. "" and "*") on every
   reachable route table is answered without a runtime fault *)
Theorem C05_serve_total : forall name ic trace hist method path ps s,
  tree_handler (fold_left tstep hist (new_tree name ic trace)) method path ps <> HPanic s.
Proof. exact serve_total. Qed.
Print Assumptions C05_serve_total.

(* a concrete history (three registrations, one removal, one clean), every call accepted, and the
   request GET /a on the final table is dispatched to the registered handler *)
Example C05_hist_accepted : all_accepted (new_tree (bs "r") [] true) ex_hist = true.
Proof. exact ex_hist_accepted. Qed.
Print Assumptions C05_hist_accepted.

Example C05_hist_found :
  match tree_handler (fold_left tstep ex_hist (new_tree (bs "r") [] true)) GET (bs "/a") [] with
  | HFound true (Some _) (HUser id) [] => id = bs "ha"
  | _ => False
  end.
Proof. exact ex_hist_found. Qed.
Print Assumptions C05_hist_found.
