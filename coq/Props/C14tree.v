(* C13 / C14 - every Hosts tree reachable by Add / Delete / RegisterInterceptor: tree invariants,
   Match never faults, a rejected Host leaves the parameters alone.  Theorems only. *)
From Coq Require Import String.
From Mux Require Import Model.Bytes Model.Context Model.Syntax Model.Tree Model.Match
  Proofs.MatchSound Proofs.TreeSafe Proofs.TreeOrder Proofs.HostsTree.

Theorem C14_hosts_order_reachable : forall hist, tree_order_ok (hosts_reach hist).
Proof. exact hosts_order_reachable. Qed.
Print Assumptions C14_hosts_order_reachable.

Theorem C14_hosts_safe_reachable : forall hist, tree_safe (hosts_reach hist).
Proof. exact hosts_safe_reachable. Qed.
Print Assumptions C14_hosts_safe_reachable.

Theorem C14_hosts_match_total : forall hist host ps, hosts_match (hosts_reach hist) host ps <> None.
Proof. exact hosts_match_total. Qed.
Print Assumptions C14_hosts_match_total.

(* [name_in] is the name of a non-literal node below the root *)
Theorem C14_name_in_iff : forall t k, name_in t k <->
  exists d, desc (troot t) d /\ is_lit d = false /\ sname (nseg d) = k.
Proof. exact name_in_iff. Qed.
Print Assumptions C14_name_in_iff.

(* C14_hosts_reject_clean as given (disjoint_from only) is FALSE: giving up a literal node deletes
   the parameter named "" *)
Theorem C14_hosts_reject_clean_refuted :
  ~ (forall hist host ps ps', disjoint_from (hosts_reach hist) ps ->
       hosts_match (hosts_reach hist) host ps = Some (false, ps') -> ps' = ps).
Proof. exact hosts_reject_clean_refuted. Qed.
Print Assumptions C14_hosts_reject_clean_refuted.

Theorem C14_hosts_reject_clean_partial : forall hist host ps ps',
  disjoint_from (hosts_reach hist) ps -> ctx_get ps [] = None ->
  hosts_match (hosts_reach hist) host ps = Some (false, ps') -> ps' = ps.
Proof. exact hosts_reject_clean_partial. Qed.
Print Assumptions C14_hosts_reject_clean_partial.

(* the side condition stated over every node below the root *)
Theorem C14_hosts_reject_clean_desc : forall hist host ps ps',
  (forall d, desc (troot (hosts_reach hist)) d -> ctx_get ps (sname (nseg d)) = None) ->
  hosts_match (hosts_reach hist) host ps = Some (false, ps') -> ps' = ps.
Proof. exact hosts_reject_clean_desc. Qed.
Print Assumptions C14_hosts_reject_clean_desc.

(* unconditional: a rejection only ever loses parameters *)
Theorem C14_hosts_reject_sub_params : forall hist host ps ps',
  hosts_match (hosts_reach hist) host ps = Some (false, ps') -> sub_params ps' ps.
Proof. exact hosts_reject_sub_params. Qed.
Print Assumptions C14_hosts_reject_sub_params.

Theorem C13_hosts_clean_when_disjoint_partial : forall hist,
  forall ps, disjoint_from (hosts_reach hist) ps -> ctx_get ps [] = None ->
  forall host ps', hosts_match (hosts_reach hist) host ps = Some (false, ps') -> ps' = ps.
Proof. exact hosts_clean_when_disjoint_partial. Qed.
Print Assumptions C13_hosts_clean_when_disjoint_partial.

Theorem C13_hosts_clean_empty_ctx : forall hist host ps',
  hosts_match (hosts_reach hist) host [] = Some (false, ps') -> ps' = [].
Proof. exact hosts_clean_empty_ctx. Qed.
Print Assumptions C13_hosts_clean_empty_ctx.

(* the unconditional hosts_clean of Proofs/Group.v fails on reachable trees *)
Theorem C13_hosts_clean_unconditional_refuted :
  ~ (forall hist host ps ps', hosts_match (hosts_reach hist) host ps = Some (false, ps') -> ps' = ps).
Proof. exact hosts_clean_unconditional_refuted. Qed.
Print Assumptions C13_hosts_clean_unconditional_refuted.

Theorem C14_add_case_insensitive_reach : forall hist d d', to_lower d = to_lower d' ->
  hosts_reach (hist ++ [HAdd d]) = hosts_reach (hist ++ [HAdd d']).
Proof. exact add_case_insensitive_reach. Qed.
Print Assumptions C14_add_case_insensitive_reach.

Theorem C14_delete_case_insensitive_reach : forall hist d d', to_lower d = to_lower d' ->
  hosts_reach (hist ++ [HDel d]) = hosts_reach (hist ++ [HDel d']).
Proof. exact delete_case_insensitive_reach. Qed.
Print Assumptions C14_delete_case_insensitive_reach.
