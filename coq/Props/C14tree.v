(* C13 / C14 - every Hosts tree reachable by Add / Delete / RegisterInterceptor: tree invariants,
   Match never faults, a rejected Host leaves the parameters alone (Match = tree lookup [hosts_match_raw]
   followed by the restore step [restore_missing]).  Theorems only. *)
From Coq Require Import String.
From Mux Require Import Model.Bytes Model.Context Model.Syntax Model.Tree Model.Match Model.Group
  Proofs.MatchSound Proofs.TreeSafe Proofs.TreeOrder Proofs.HostsTree Proofs.Group Proofs.HostsRestore.

Theorem C14_hosts_order_reachable : forall hist, tree_order_ok (hosts_reach hist).
Proof. exact hosts_order_reachable. Qed.
Print Assumptions C14_hosts_order_reachable.

Theorem C14_hosts_safe_reachable : forall hist, tree_safe (hosts_reach hist).
Proof. exact hosts_safe_reachable. Qed.
Print Assumptions C14_hosts_safe_reachable.

Theorem C14_hosts_match_total : forall hist host ps, hosts_match (hosts_reach hist) host ps <> None.
Proof. exact hosts_match_total'. Qed.
Print Assumptions C14_hosts_match_total.

(* [name_in] is the name of a non-literal node below the root *)
Theorem C14_name_in_iff : forall t k, name_in t k <->
  exists d, desc (troot t) d /\ is_lit d = false /\ sname (nseg d) = k.
Proof. exact name_in_iff. Qed.
Print Assumptions C14_name_in_iff.

(* Hosts.Match = tree lookup + restore: a rejected Host leaves the parameters exactly as they were.
   No disjointness hypothesis; [ctx_nodup ps]: the incoming context is a map (no key twice). *)
Theorem C14_hosts_reject_clean : forall hist host ps ps', ctx_nodup ps ->
  hosts_match (hosts_reach hist) host ps = Some (false, ps') -> ps' = ps.
Proof. exact hosts_reject_clean. Qed.
Print Assumptions C14_hosts_reject_clean.

(* accepted or rejected, on any tree: no earlier parameter is ever lost *)
Theorem C14_hosts_accept_keeps_earlier : forall t host ps ps' ok,
  hosts_match t host ps = Some (ok, ps') ->
  forall k v, ctx_get ps k = Some v -> exists v', ctx_get ps' k = Some v'.
Proof. exact hosts_accept_keeps_earlier. Qed.
Print Assumptions C14_hosts_accept_keeps_earlier.

(* what the result holds: the lookup's captures, and under every other earlier name the earlier value *)
Theorem C14_hosts_restore_get : forall ps ps' k,
  ctx_get (restore_missing ps ps') k =
  match ctx_get ps' k with Some v => Some v | None => ctx_get ps k end.
Proof. exact restore_missing_get. Qed.
Print Assumptions C14_hosts_restore_get.

(* the context stays a map *)
Theorem C14_hosts_nodup : forall hist host ps ok ps', ctx_nodup ps ->
  hosts_match (hosts_reach hist) host ps = Some (ok, ps') -> ctx_nodup ps'.
Proof. exact hosts_nodup. Qed.
Print Assumptions C14_hosts_nodup.

(* the restore step is necessary: the tree lookup ALONE loses parameters on reachable trees.
   (a) giving up a literal node deletes the parameter named "", even when the incoming parameters
       share no name with the tree; (b) an incoming parameter named like a parameter of the tree is
       lost when that branch is abandoned. *)
Theorem C14_hosts_lookup_alone_loses_refuted :
  ~ (forall hist host ps ps', disjoint_from (hosts_reach hist) ps ->
       hosts_match_raw (hosts_reach hist) host ps = Some (false, ps') -> ps' = ps) /\
  ~ (forall hist host ps ps', hosts_match_raw (hosts_reach hist) host ps = Some (false, ps') -> ps' = ps).
Proof. exact hosts_lookup_alone_loses_refuted. Qed.
Print Assumptions C14_hosts_lookup_alone_loses_refuted.

(* the tree lookup alone: a rejection only ever loses parameters *)
Theorem C14_hosts_raw_reject_sub_params : forall hist host ps ps',
  hosts_match_raw (hosts_reach hist) host ps = Some (false, ps') -> sub_params ps' ps.
Proof. exact hosts_reject_sub_params. Qed.
Print Assumptions C14_hosts_raw_reject_sub_params.

(* the hypothesis [matcher_ok] of C13 holds of every reachable Hosts matcher *)
Theorem C13_hosts_clean_reachable : forall hist, matcher_ok (MHosts (hosts_reach hist)).
Proof. exact hosts_reach_matcher_ok. Qed.
Print Assumptions C13_hosts_clean_reachable.

Theorem C13_hosts_clean_empty_ctx : forall hist host ps',
  hosts_match (hosts_reach hist) host [] = Some (false, ps') -> ps' = [].
Proof. exact hosts_clean_empty_ctx'. Qed.
Print Assumptions C13_hosts_clean_empty_ctx.

Theorem C14_add_case_insensitive_reach : forall hist d d', to_lower d = to_lower d' ->
  hosts_reach (hist ++ [HAdd d]) = hosts_reach (hist ++ [HAdd d']).
Proof. exact add_case_insensitive_reach. Qed.
Print Assumptions C14_add_case_insensitive_reach.

Theorem C14_delete_case_insensitive_reach : forall hist d d', to_lower d = to_lower d' ->
  hosts_reach (hist ++ [HDel d]) = hosts_reach (hist ++ [HDel d']).
Proof. exact delete_case_insensitive_reach. Qed.
Print Assumptions C14_delete_case_insensitive_reach.
