(* C04 / C08 over histories – on every route table reachable by any sequence of registrations,
   removals, cleans and middleware applications (rejected calls included), the handler table of
   every route node is "registered methods + HEAD iff GET + OPTIONS + the 405 key", and its method
   bit-set / Allow header renders exactly these methods (+ TRACE when the router answers TRACE).
   Theorems only; definitions (keys, hs_ok, tree_hs_ok) and proofs are in Proofs/TreeAllow.v,
   the history vocabulary (top, keep, tstep) in Proofs/TreeSafe.v.
   All statements are proved as given. *)
From Coq Require Import String.
From Mux Require Import Model.Bytes Model.Regex Model.Context Model.Syntax Model.Tree
  Proofs.BytesFacts Proofs.MatchSound Proofs.TreeSafe Proofs.TreeAllow.

Theorem C04_hs_new_tree : forall name ic trace, tree_hs_ok (new_tree name ic trace).
Proof. exact hs_new_tree. Qed.
Print Assumptions C04_hs_new_tree.

Theorem C04_hs_add : forall t p h mws ms t', tree_hs_ok t ->
  tree_add t p h mws ms = Ok t' -> tree_hs_ok t'.
Proof. exact hs_add. Qed.
Print Assumptions C04_hs_add.

Theorem C04_hs_remove : forall t p ms t', tree_hs_ok t ->
  tree_remove t p ms = Ok t' -> tree_hs_ok t'.
Proof. exact hs_remove. Qed.
Print Assumptions C04_hs_remove.

Theorem C04_hs_clean : forall t prefix t', tree_hs_ok t ->
  tree_clean t prefix = Ok t' -> tree_hs_ok t'.
Proof. exact hs_clean. Qed.
Print Assumptions C04_hs_clean.

Theorem C04_hs_use : forall t mws, tree_hs_ok t -> tree_hs_ok (tree_apply_mw t mws).
Proof. exact hs_use. Qed.
Print Assumptions C04_hs_use.

Theorem C04_hs_reachable : forall name ic trace hist,
  tree_hs_ok (fold_left tstep hist (new_tree name ic trace)).
Proof. exact hs_reachable. Qed.
Print Assumptions C04_hs_reachable.

(* the headline: the method set (hence the Allow header) of every route node of every reachable
   table is exactly its registered keys without the 405 key, plus TRACE when configured *)
Theorem C04_allow_exact_reachable : forall name ic trace hist n,
  let t := fold_left tstep hist (new_tree name ic trace) in
  (exists ch, In ch (nchildren (troot t)) /\ (n = ch \/ desc ch n)) -> nhandlers n <> [] ->
  forall m, In m (methods_of (nmidx n)) <->
    ((In m (keys n) /\ m <> M405) \/ (has_trace t = true /\ m = TRACE)).
Proof. exact allow_exact_reachable. Qed.
Print Assumptions C04_allow_exact_reachable.

Theorem C08_head_iff_get_reachable : forall name ic trace hist n,
  let t := fold_left tstep hist (new_tree name ic trace) in
  (exists ch, In ch (nchildren (troot t)) /\ (n = ch \/ desc ch n)) -> nhandlers n <> [] ->
  (In HEAD (keys n) <-> In GET (keys n)) /\ In OPTIONS (keys n) /\ In M405 (keys n).
Proof. exact head_iff_get_reachable. Qed.
Print Assumptions C08_head_iff_get_reachable.

Theorem C04_allow_header_is_join : forall idx, allow_of idx = join (bs ", ") (methods_of idx).
Proof. exact allow_header_is_join. Qed.
Print Assumptions C04_allow_header_is_join.
