(* C06 – WithLock(true): the lock protocol of the CURRENT source (Gen/LockFacts.v is regenerated from
   /repo on every run) satisfies the discipline, hence no data race on routing state under any schedule. *)
From Coq Require Import String List Bool.
From Mux Require Import Model.Conc Proofs.Conc Proofs.ConcFacts Gen.LockFacts.
Import ListNotations.
Open Scope string_scope.

(* printed for the report: the first event of each entry point that breaks the discipline (must be []) *)
Eval vm_compute in violations tree_lock tree_prot.
Eval vm_compute in violations memo_lock memo_prot.

Theorem C06_current_tree_discipline : forallb (entry_ok tree_lock tree_prot) entry_points = true.
Proof. vm_compute. reflexivity. Qed.
Print Assumptions C06_current_tree_discipline.

(* every operation is one critical section of the tree lock *)
Eval vm_compute in filter (fun n => negb (single_region tree_lock tree_prot n)) entry_points.
Theorem C06_current_tree_single_region : forallb (single_region tree_lock tree_prot) entry_points = true.
Proof. vm_compute. reflexivity. Qed.
Print Assumptions C06_current_tree_single_region.

Theorem C06_current_tree_memo_discipline : forallb (entry_ok memo_lock memo_prot) entry_points = true.
Proof. vm_compute. reflexivity. Qed.
Print Assumptions C06_current_tree_memo_discipline.

Theorem C06_current_tree_race_free :
  forall (progs : list (list string)), Forall (Forall (fun n => In n entry_points)) progs ->
  forall s, reachable (map (fun p => {| prog := concat (map (fun n => match lookup_summary n summaries with
                                                                      | Some sm => project tree_lock tree_prot sm
                                                                      | None => [] end) p);
                                        held := None |}) progs) s -> ~ race s.
Proof. exact (entry_threads_race_free C06_current_tree_discipline). Qed.
Print Assumptions C06_current_tree_race_free.

Theorem C06_tracked_state_is_nonempty : tree_prot "node.children" = true /\ tree_prot "node.handlers" = true /\ tree_prot "node.methodIndex" = true.
Proof. vm_compute. repeat split; reflexivity. Qed.
Print Assumptions C06_tracked_state_is_nonempty.
