(* C15 - version matchers: normalisation, pathVersion.Match, headerVersion.Match. Theorems only. *)
From Coq Require Import String.
From Mux Require Import Model.Bytes Model.Context Model.Syntax Model.Match Proofs.C15.

Theorem C15_norm : forall v n, norm_version v = Some n ->
    norm_ok n = true /\ (n = v \/ n = 47 :: v \/ n = v ++ [47] \/ n = 47 :: v ++ [47]).
Proof. exact norm. Qed.
Print Assumptions C15_norm.

Theorem C15_norm_none : forall v, norm_version v = None <-> v = [].
Proof. exact norm_none. Qed.
Print Assumptions C15_norm_none.

Theorem C15_path_closed_form : forall name vs path ps, forallb norm_ok vs = true ->
    pathver_match name vs path ps =
    match List.find (fun v => has_prefix path v) vs with
    | Some v => (true, skipn (length v - 1) path,
                 match name with [] => ps | _ => ctx_set ps name (firstn (length v - 1) v) end)
    | None => (false, path, ps) end.
Proof. exact path_closed_form. Qed.
Print Assumptions C15_path_closed_form.

Theorem C15_path_one_segment : forall name vs path ps path' ps', forallb norm_ok vs = true ->
    pathver_match name vs path ps = (true, path', ps') ->
    exists v rest, In v vs /\ path = firstn (length v - 1) v ++ 47 :: rest /\ path' = 47 :: rest /\
                   ps' = match name with [] => ps | _ => ctx_set ps name (firstn (length v - 1) v) end /\
                   (forall u, In u vs -> has_prefix path u = true -> True).
Proof. exact path_one_segment. Qed.
Print Assumptions C15_path_one_segment.

Theorem C15_path_first_wins : forall name vs1 v vs2 path ps, forallb norm_ok (vs1 ++ v :: vs2) = true ->
    (forall u, In u vs1 -> has_prefix path u = false) -> has_prefix path v = true ->
    fst (fst (pathver_match name (vs1 ++ v :: vs2) path ps)) = true /\
    snd (fst (pathver_match name (vs1 ++ v :: vs2) path ps)) = skipn (length v - 1) path.
Proof. exact path_first_wins. Qed.
Print Assumptions C15_path_first_wins.

Theorem C15_path_reject_untouched : forall name vs path ps r,
    pathver_match name vs path ps = r -> fst (fst r) = false -> r = (false, path, ps).
Proof. exact path_reject_untouched. Qed.
Print Assumptions C15_path_reject_untouched.

Theorem C15_header_reject_untouched : forall name key vs accept parsed ps ps',
    headerver_match name key vs accept parsed ps = (false, ps') -> ps' = ps.
Proof. exact header_reject_untouched. Qed.
Print Assumptions C15_header_reject_untouched.

Theorem C15_header_accept : forall name key vs accept parsed ps ps',
    headerver_match name key vs accept parsed ps = (true, ps') ->
    accept <> [] /\ exists kv v, parsed = Some kv /\ In v vs /\
      v = opt_default [] (alookup (match key with [] => bs "version" | _ => key end) kv) /\
      ps' = match name with [] => ps | _ => ctx_set ps name v end.
Proof. exact header_accept. Qed.
Print Assumptions C15_header_accept.

Theorem C15_header_complete : forall name key vs accept kv ps, accept <> [] ->
    mem (opt_default [] (alookup (match key with [] => bs "version" | _ => key end) kv)) vs = true ->
    fst (headerver_match name key vs accept (Some kv) ps) = true.
Proof. exact header_complete. Qed.
Print Assumptions C15_header_complete.
