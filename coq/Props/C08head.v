(* C08 – the HEAD wrapper vs. the plain GET writer; C18 – the trace helper. Theorems only. *)
From Coq Require Import String.
From Mux Require Import Model.Bytes Model.Http Proofs.Head.

Theorem C08_head_no_body : forall h0 script, body (run_head h0 script) = 0.
Proof. exact head_no_body. Qed.
Print Assumptions C08_head_no_body.

Theorem C08_get_body : forall h0 script, body (run_get h0 script) = total_written script.
Proof. exact get_body. Qed.
Print Assumptions C08_get_body.

Theorem C08_head_same_status_and_headers : forall h0 script, late_event script false false = false ->
    status_of (run_head h0 script) = status_of (run_get h0 script) /\
    no_cl (sent_headers (run_head h0 script)) = no_cl (sent_headers (run_get h0 script)).
Proof. exact head_same_status_and_headers. Qed.
Print Assumptions C08_head_same_status_and_headers.

Theorem C08_head_content_length : forall h0 script, existsb is_write script = true -> existsb is_wh script = false ->
    existsb touches_cl script = false ->
    h_get_all content_length (sent_headers (run_head h0 script)) = [N_to_dec (total_written script)].
Proof. exact head_content_length. Qed.
Print Assumptions C08_head_content_length.

(* the guard is necessary: without it the property is false for the code *)
Theorem C08_late_event_refutes_unguarded : exists script, late_event script false false = true /\
    no_cl (sent_headers (run_head [] script)) <> no_cl (sent_headers (run_get [] script)).
Proof. exact late_event_refutes_unguarded. Qed.
Print Assumptions C08_late_event_refutes_unguarded.

Theorem C08_status_always_set : forall h0 script,
    status_of (run_get h0 script) <> 0 \/ exists c, In (EWriteHeader c) script /\ c = 0.
Proof. exact status_always_set. Qed.
Print Assumptions C08_status_always_set.

Theorem C18_trace_helper : forall text escape, let w := run_get [] (trace_script (Some text) escape) in
    status_of w = 200 /\ h_get_all content_type (sent_headers w) = [message_http] /\
    body w = N.of_nat (length (escape text)).
Proof. exact trace_helper. Qed.
Print Assumptions C18_trace_helper.
