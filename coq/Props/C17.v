(* C17 / C08 - validation of the method list of one Handle call (check_methods). Theorems only. *)
From Coq Require Import String.
From Mux Require Import Model.Bytes Model.Syntax Model.Tree Proofs.Misc2.

Theorem C17_check_methods_ok_iff : forall trace existing ms,
    check_methods trace existing [] ms = Ok tt <->
    (NoDup ms /\ forall m, In m ms -> is_method m = true /\ beqb m OPTIONS = false /\ beqb m HEAD = false /\
                                       (trace && beqb m TRACE) = false /\ ahas m existing = false).
Proof. exact C17_check_methods_ok_iff_l. Qed.
Print Assumptions C17_check_methods_ok_iff.

Theorem C17_duplicate_rejected : forall trace existing ms m,
    In m ms -> ahas m existing = true -> check_methods trace existing [] ms <> Ok tt.
Proof. exact C17_duplicate_rejected_l. Qed.
Print Assumptions C17_duplicate_rejected.

Theorem C17_repeated_method_rejected : forall trace existing a m b,
    check_methods trace existing [] (a ++ m :: b ++ [m]) <> Ok tt.
Proof. exact C17_repeated_method_rejected_l. Qed.
Print Assumptions C17_repeated_method_rejected.

Theorem C08_reserved_rejected : forall trace existing ms m, In m ms ->
    (beqb m OPTIONS = true \/ beqb m HEAD = true \/ (trace = true /\ beqb m TRACE = true) \/ is_method m = false) ->
    check_methods trace existing [] ms <> Ok tt.
Proof. exact C08_reserved_rejected_l. Qed.
Print Assumptions C08_reserved_rejected.

Theorem C17_add_methods_rejects_before_changing : forall trace router h pattern mws ms n e,
    add_methods trace router h pattern mws ms n = Err e -> check_methods trace (nhandlers n) [] ms = Err e.
Proof. exact C17_add_methods_rejects_before_changing_l. Qed.
Print Assumptions C17_add_methods_rejects_before_changing.

Theorem C17_check_is_only_error_kind : forall trace existing seen ms,
    check_methods trace existing seen ms = Ok tt \/ exists e, check_methods trace existing seen ms = Err e.
Proof. exact C17_check_is_only_error_kind_l. Qed.
Print Assumptions C17_check_is_only_error_kind.
