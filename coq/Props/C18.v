(* C18 - TRACE: answered on any path when configured, only wrapped by Use, never registrable. Theorems only. *)
From Coq Require Import String.
From Mux Require Import Model.Bytes Model.Syntax Model.Tree Proofs.Misc2.

Theorem C18_trace_any_path : forall t h path ps,
    ttrace t = Some h -> tree_handler t TRACE path ps = HFound true (Some (troot t)) h ps.
Proof. exact C18_trace_any_path_l. Qed.
Print Assumptions C18_trace_any_path.

Theorem C18_trace_only_use_middlewares : forall t mws,
    ttrace (tree_apply_mw t mws) = option_map (fun h => apply_mw h TRACE [] (tname t) mws) (ttrace t).
Proof. exact C18_trace_only_use_middlewares_l. Qed.
Print Assumptions C18_trace_only_use_middlewares.

Theorem C18_trace_cannot_be_registered : forall existing ms,
    In TRACE ms -> check_methods true existing [] ms <> Ok tt.
Proof. exact C18_trace_cannot_be_registered_l. Qed.
Print Assumptions C18_trace_cannot_be_registered.

Theorem C18_without_option_trace_is_ordinary : forall existing,
    ahas TRACE existing = false -> check_methods false existing [] [TRACE] = Ok tt.
Proof. exact C18_without_option_trace_is_ordinary_l. Qed.
Print Assumptions C18_without_option_trace_is_ordinary.

Theorem C18_new_tree_trace : forall name ic,
    ttrace (new_tree name ic true) = Some HTrace /\ ttrace (new_tree name ic false) = None.
Proof. exact C18_new_tree_trace_l. Qed.
Print Assumptions C18_new_tree_trace.
