(* C05, the registration half – Tree.Add (Handle), Tree.Remove and Tree.Clean never raise a
   runtime fault on any route table reachable by any sequence of registrations, removals, cleans
   and middleware applications, for ALL byte strings as pattern / prefix / method names
   (malformed patterns included): the result is a registered tree, an error value, or a regexp
   outside the modelled fragment, never [Panic].
   Theorems only; definitions (nob, noc, J_S, J_P, JV, Jseg, gp2, safe_cut, lp_cut, post, linv,
   keepsJ, kgood, tinv, rm_post, examples) and proofs are in Proofs/RegTotal.v; [top], [tstep],
   [all_accepted] are those of Proofs/TreeSafe.v.  All statements are proved as given; the fuel
   handed out by tree_add / tree_remove / tree_clean is always sufficient. *)
From Coq Require Import String.
From Mux Require Import Model.Bytes Model.Regex Model.Context Model.Syntax Model.Tree
  Proofs.BytesFacts Proofs.MatchSound Proofs.ParseTotal Proofs.TreeSafe Proofs.RegTotal.
From Mux Require Proofs.TreeOnion.

(* ---------------------------------------------------------------- the headline statements *)
Theorem C05_add_never_faults : forall name ic trace hist p h mws ms s,
  tree_add (fold_left tstep hist (new_tree name ic trace)) p h mws ms <> Panic s.
Proof. exact add_never_faults. Qed.
Print Assumptions C05_add_never_faults.

Theorem C05_remove_never_faults : forall name ic trace hist p ms s,
  tree_remove (fold_left tstep hist (new_tree name ic trace)) p ms <> Panic s.
Proof. exact remove_never_faults. Qed.
Print Assumptions C05_remove_never_faults.

Theorem C05_clean_never_faults : forall name ic trace hist prefix s,
  tree_clean (fold_left tstep hist (new_tree name ic trace)) prefix <> Panic s.
Proof. exact clean_never_faults. Qed.
Print Assumptions C05_clean_never_faults.

(* ---------------------------------------------------------------- the invariant behind them *)
(* every non-root label of a reachable table is non-empty and is plain text (no '{' or no '}')
   when literal, '{' body '}' tail (no '}' in body, no '{' in tail) otherwise *)
Theorem C05_reachable_labels : forall name ic trace hist,
  tinv (fold_left tstep hist (new_tree name ic trace)).
Proof. exact reachable_tinv. Qed.
Print Assumptions C05_reachable_labels.

Theorem C05_add_step : forall t p h mws ms, tinv t -> post (tree_add t p h mws ms) tinv.
Proof. exact tree_add_post. Qed.
Print Assumptions C05_add_step.

Theorem C05_remove_step : forall t p ms, tinv t -> post (tree_remove t p ms) tinv.
Proof. exact tree_remove_post. Qed.
Print Assumptions C05_remove_step.

Theorem C05_clean_step : forall t prefix, tinv t -> post (tree_clean t prefix) tinv.
Proof. exact tree_clean_post. Qed.
Print Assumptions C05_clean_step.

Theorem C05_add_no_fault_step : forall t p h mws ms s, tinv t -> tree_add t p h mws ms <> Panic s.
Proof. exact add_no_fault_step. Qed.
Print Assumptions C05_add_no_fault_step.

Theorem C05_remove_no_fault_step : forall t p ms s, tinv t -> tree_remove t p ms <> Panic s.
Proof. exact remove_no_fault_step. Qed.
Print Assumptions C05_remove_no_fault_step.

Theorem C05_clean_no_fault_step : forall t prefix s, tinv t -> tree_clean t prefix <> Panic s.
Proof. exact clean_no_fault_step. Qed.
Print Assumptions C05_clean_no_fault_step.

(* the invariant cannot be dropped: an empty literal label makes Remove fault in buildIndexes *)
Example C05_remove_needs_invariant : exists s, tree_remove bad_tree (bs "a") [] = Panic s.
Proof. exact remove_needs_invariant. Qed.
Print Assumptions C05_remove_needs_invariant.

(* ---------------------------------------------------------------- fuel *)
(* checkAmbiguous only descends: the height of the node is enough (no invariant needed) *)
Theorem C05_check_amb_no_fault : forall fuel ic n pattern nonstr s, (height n <= fuel)%nat ->
  check_amb fuel ic n pattern nonstr <> Panic s.
Proof. exact check_amb_no_fault. Qed.
Print Assumptions C05_check_amb_no_fault.

(* Remove and Clean: fuel = height *)
Theorem C05_remove_in_post : forall fuel trace ms n pattern, all_nodes linv n ->
  (height n <= fuel)%nat -> post (remove_in fuel trace ms n pattern) (rm_post n).
Proof. exact remove_in_post. Qed.
Print Assumptions C05_remove_in_post.

Theorem C05_clean_in_post : forall fuel n prefix, all_nodes linv n -> (height n <= fuel)%nat ->
  post (clean_in fuel n prefix) (keepsJ n).
Proof. exact clean_in_post. Qed.
Print Assumptions C05_clean_in_post.

(* addSegment: the fuel needed is the length of the segment text still to be placed,
   whatever the height of the tree *)
Theorem C05_add_segment_post : forall fuel ic n seg k, all_nodes linv n -> Jseg seg ->
  (length (sval seg) <= fuel)%nat -> kgood k -> post (add_segment fuel ic n seg k) (keepsJ n).
Proof. exact add_segment_post. Qed.
Print Assumptions C05_add_segment_post.

Theorem C05_get_node_post : forall segs fuel ic n upd, segs <> [] ->
  Forall (fun s => Jseg s /\ (length (sval s) <= fuel)%nat) segs -> all_nodes linv n -> kgood upd ->
  post (get_node fuel ic n segs upd) (keepsJ n).
Proof. exact get_node_post. Qed.
Print Assumptions C05_get_node_post.

(* ---------------------------------------------------------------- text *)
(* the two label classes exclude the inputs on which NewSegment faults *)
Theorem C05_label_classes_no_cbb : forall v, JV v -> ~ colon_before_brace v.
Proof. exact JV_not_cbb. Qed.
Print Assumptions C05_label_classes_no_cbb.

(* every piece of splitString is non-empty and in one of the classes (stronger than
   C05_split_string_pieces: nothing follows the first '}' of a token piece but brace-free text) *)
Theorem C05_split_string_pieces_strong : forall str, str <> [] -> Forall gp2 (split_string str).
Proof. exact split_string_good2. Qed.
Print Assumptions C05_split_string_pieces_strong.

Theorem C05_split_good : forall ic p segs, split ic p = Ok segs ->
  segs <> [] /\ Forall (fun s => Jseg s /\ (length (sval s) <= length p)%nat) segs.
Proof. exact split_good. Qed.
Print Assumptions C05_split_good.

(* what longestPrefix returns, whatever the strings *)
Theorem C05_lp_loop_cut : forall s1 s2 i st en inb, lp_cut s1 s2 i st inb (lp_loop s1 s2 i st en inb).
Proof. exact lp_loop_cut. Qed.
Print Assumptions C05_lp_loop_cut.

(* a positive longestPrefix of two token labels is a safe cut of both: at a '{' or after the
   first '}' - never strictly inside the braces *)
Theorem C05_longest_prefix_safe_cut : forall w v, J_P w -> J_P v -> (0 < longest_prefix w v)%Z ->
  safe_cut w (Z.to_nat (longest_prefix w v)) /\ safe_cut v (Z.to_nat (longest_prefix w v)).
Proof. exact JP_longest_prefix. Qed.
Print Assumptions C05_longest_prefix_safe_cut.

Theorem C05_token_label_prefix : forall v l, J_P v -> (0 < l)%nat -> JV (firstn l v).
Proof. exact JP_firstn. Qed.
Print Assumptions C05_token_label_prefix.

Theorem C05_token_label_suffix : forall v l, J_P v -> safe_cut v l -> (l < length v)%nat ->
  JV (skipn l v).
Proof. exact JP_skipn. Qed.
Print Assumptions C05_token_label_suffix.

(* the cut of addSegment: position inside both texts, all three parts stay in the classes *)
Theorem C05_cut_ok : forall s seg, Jseg s -> Jseg seg -> (0 < similarity s seg)%Z ->
  (0 < Z.to_nat (similarity s seg))%nat /\
  (Z.to_nat (similarity s seg) <= length (sval s))%nat /\
  (Z.to_nat (similarity s seg) <= length (sval seg))%nat /\
  ((Z.to_nat (similarity s seg) < length (sval s))%nat ->
     JV (firstn (Z.to_nat (similarity s seg)) (sval s)) /\
     JV (skipn (Z.to_nat (similarity s seg)) (sval s))) /\
  ((Z.to_nat (similarity s seg) < length (sval seg))%nat ->
     JV (skipn (Z.to_nat (similarity s seg)) (sval seg))).
Proof. exact cut_ok. Qed.
Print Assumptions C05_cut_ok.

Theorem C05_new_segment_label : forall ic val seg, val <> [] -> JV val ->
  new_segment ic val = Ok seg -> Jseg seg /\ sval seg = val.
Proof. exact new_segment_Jseg. Qed.
Print Assumptions C05_new_segment_label.

(* ---------------------------------------------------------------- examples *)
(* a table holding "/x:{c}" and "/{a}/b" ... *)
Example C05_reg_base_accepted : all_accepted (new_tree (bs "r") [] false) reg_base = true.
Proof. exact reg_base_accepted. Qed.
Print Assumptions C05_reg_base_accepted.

(* ... on which none of "/a}b{", "/{", ":{a}", "/x:{a}/{b", "{a}:{b}" makes Tree.Add fault *)
Example C05_malformed_no_fault :
  forallb (fun p => negb (is_panic (tree_add reg_tree p (HUser (bs "h")) [] [GET]))) malformed = true.
Proof. exact malformed_no_fault. Qed.
Print Assumptions C05_malformed_no_fault.

Example C05_malformed_outcomes :
  map (fun p => is_ok (tree_add reg_tree p (HUser (bs "h")) [] [GET])) malformed =
  [true; true; true; true; true].
Proof. exact malformed_outcomes. Qed.
Print Assumptions C05_malformed_outcomes.

(* the five registered one after the other, then a Remove and a Clean: every call accepted *)
Example C05_malformed_hist_accepted :
  all_accepted (new_tree (bs "r") [] false) malformed_hist = true.
Proof. exact malformed_hist_accepted. Qed.
Print Assumptions C05_malformed_hist_accepted.

(* token labels with a '{' inside the braces: accepted, cut at the inner '{' *)
Example C05_brace_hist_accepted : all_accepted (new_tree (bs "r") brace_ic false) brace_hist = true.
Proof. exact brace_hist_accepted. Qed.
Print Assumptions C05_brace_hist_accepted.

Example C05_brace_cut : longest_prefix (bs "{a:b{d}") (bs "{a:b{c}") = 4%Z /\
  J_P (bs "{a:b{d}") /\ J_P (bs "{a:b{c}") /\ J_P (skipn 4 (bs "{a:b{c}")).
Proof. exact brace_cut. Qed.
Print Assumptions C05_brace_cut.

(* a cut strictly inside the braces would make NewSegment fault *)
Example C05_bad_cut_faults : is_panic (new_segment brace_ic (skipn 2 (bs "{a:b{c}"))) = true.
Proof. exact bad_cut_faults. Qed.
Print Assumptions C05_bad_cut_faults.
