(* C05 for the pattern parser – CheckSyntax, URL and the segment parser used by registration
   never raise a runtime fault (index / slice out of range), for ALL byte strings.
   Theorems only; definitions (np, colon_before_brace, good_piece, seg_summary) and proofs are in
   Proofs/ParseTotal.v.

   Two of the requested statements are FALSE as given and are refuted here:
     C05_new_segment_no_panic  (forall ic val s, new_segment ic val <> Panic s)
     C05_seg_split_no_panic    (forall ic seg pos s, pos <= length (sval seg) -> seg_split … <> Panic s)
   NewSegment faults exactly on the strings whose first ':' precedes the first '{' while the
   first '}' is at least two bytes after that '{' (":{a}" -> val[2:0]); see
   C05_new_segment_panic_refuted / _panic_iff / _no_panic_partial and the seg_split analogues.
   split never produces such a piece, so everything reachable from a pattern string is total. *)
From Coq Require Import String.
From Mux Require Import Model.Bytes Model.Regex Model.Context Model.Syntax Model.Router
  Proofs.BytesFacts Proofs.ParseTotal.

(* ---- new_segment ---- *)

Theorem C05_new_segment_panic_refuted : exists ic val s, new_segment ic val = Panic s.
Proof. exact new_segment_panic_refuted. Qed.
Print Assumptions C05_new_segment_panic_refuted.

Theorem C05_new_segment_no_panic_is_false : ~ (forall ic val s, new_segment ic val <> Panic s).
Proof. exact new_segment_no_panic_is_false. Qed.
Print Assumptions C05_new_segment_no_panic_is_false.

Theorem C05_colon_before_brace_def : forall val,
  colon_before_brace val <->
  exists st e sp, index_byte val 123 = Some st /\ index_byte val 125 = Some e /\
                  index_byte val 58 = Some sp /\ (sp < st)%nat /\ (S st < e)%nat.
Proof. exact colon_before_brace_def. Qed.
Print Assumptions C05_colon_before_brace_def.

Theorem C05_new_segment_no_panic_partial : forall ic val s,
  ~ colon_before_brace val -> new_segment ic val <> Panic s.
Proof. exact new_segment_no_panic_partial. Qed.
Print Assumptions C05_new_segment_no_panic_partial.

(* the extra hypothesis is the weakest one: the fault happens on exactly these strings *)
Theorem C05_new_segment_panic_iff : forall ic val,
  (exists s, new_segment ic val = Panic s) <->
  (N.of_nat (length val) <= max_int16)%N /\ colon_before_brace val.
Proof. exact new_segment_panic_iff. Qed.
Print Assumptions C05_new_segment_panic_iff.

Theorem C05_new_segment_brace_first_no_panic : forall ic val s,
  index_byte val 123 = Some O -> new_segment ic val <> Panic s.
Proof. exact new_segment_brace_first_no_panic. Qed.
Print Assumptions C05_new_segment_brace_first_no_panic.

(* ---- split_string / split ---- *)

Theorem C05_split_string_pieces : forall str, str <> [] ->
  Forall (fun p => p <> [] /\ (index_byte p 123 = None \/ index_byte p 125 = None \/
                              index_byte p 123 = Some O)) (split_string str).
Proof. exact split_string_good. Qed.
Print Assumptions C05_split_string_pieces.

Theorem C05_split_no_panic : forall ic str s, split ic str <> Panic s.
Proof. exact split_no_panic. Qed.
Print Assumptions C05_split_no_panic.

Theorem C05_split_err_or_ok : forall ic str,
  (exists segs, split ic str = Ok segs) \/ (exists e, split ic str = Err e) \/ split ic str = Unsup.
Proof. exact split_err_or_ok. Qed.
Print Assumptions C05_split_err_or_ok.

Theorem C05_check_syntax_no_panic : forall p s, check_syntax p <> Panic s.
Proof. exact check_syntax_no_panic. Qed.
Print Assumptions C05_check_syntax_no_panic.

Theorem C05_url_nonstrict_no_panic : forall p ps s, url_nonstrict p ps <> Panic s.
Proof. exact url_nonstrict_no_panic. Qed.
Print Assumptions C05_url_nonstrict_no_panic.

Theorem C05_mux_url_no_panic : forall p ps s, mux_url p ps <> Panic s.
Proof. exact mux_url_no_panic. Qed.
Print Assumptions C05_mux_url_no_panic.

(* ---- seg_split ---- *)

Theorem C05_seg_split_panic_refuted : exists ic seg pos s,
  (pos <= length (sval seg))%nat /\ seg_split ic seg pos = Panic s.
Proof. exact seg_split_panic_refuted. Qed.
Print Assumptions C05_seg_split_panic_refuted.

Theorem C05_seg_split_no_panic_is_false :
  ~ (forall ic seg pos s, (pos <= length (sval seg))%nat -> seg_split ic seg pos <> Panic s).
Proof. exact seg_split_no_panic_is_false. Qed.
Print Assumptions C05_seg_split_no_panic_is_false.

Theorem C05_seg_split_no_panic_partial : forall ic seg pos s, (pos <= length (sval seg))%nat ->
  ~ colon_before_brace (firstn pos (sval seg)) ->
  ~ colon_before_brace (skipn pos (sval seg)) ->
  seg_split ic seg pos <> Panic s.
Proof. exact seg_split_no_panic_partial. Qed.
Print Assumptions C05_seg_split_no_panic_partial.

Theorem C05_seg_split_no_colon_no_panic : forall ic seg pos s, (pos <= length (sval seg))%nat ->
  index_byte (sval seg) 58 = None -> seg_split ic seg pos <> Panic s.
Proof. exact seg_split_no_colon. Qed.
Print Assumptions C05_seg_split_no_colon_no_panic.

(* ---- longest_prefix ---- *)

Theorem C05_longest_prefix_bounds : forall s1 s2,
  (-10 <= longest_prefix s1 s2)%Z /\
  (longest_prefix s1 s2 <= Z.of_nat (Nat.min (length s1) (length s2)))%Z.
Proof. exact longest_prefix_bounds. Qed.
Print Assumptions C05_longest_prefix_bounds.

Theorem C05_longest_prefix_pos_in_range : forall s1 s2, (0 < longest_prefix s1 s2)%Z ->
  (Z.to_nat (longest_prefix s1 s2) <= length s1)%nat /\
  (Z.to_nat (longest_prefix s1 s2) <= length s2)%nat.
Proof. exact longest_prefix_pos_in_range. Qed.
Print Assumptions C05_longest_prefix_pos_in_range.

(* ---- examples ---- *)

Example ex_regexp : seg_summary (new_segment [] (bs "{id:\d+}.html")) =
  Ok (TRegexp, bs "id", bs "\d+", bs ".html").
Proof. vm_compute. reflexivity. Qed.
Example ex_ignore : seg_summary (new_segment [] (bs "{-x}")) = Ok (TNamed, bs "x", [], []).
Proof. vm_compute. reflexivity. Qed.
Example ex_reversed : seg_summary (new_segment [] (bs "a}b{")) = Err (bs "syntax").
Proof. vm_compute. reflexivity. Qed.
Example ex_empty_braces : seg_summary (new_segment [] (bs "{}")) = Err (bs "syntax").
Proof. vm_compute. reflexivity. Qed.
Example ex_only_colon : seg_summary (new_segment [] (bs "{:}")) = Err (bs "syntax").
Proof. vm_compute. reflexivity. Qed.
Example ex_empty_rule : seg_summary (new_segment [] (bs "{a:}")) = Ok (TNamed, bs "a", [], []).
Proof. vm_compute. reflexivity. Qed.
Example ex_open_only : seg_summary (new_segment [] (bs "x{")) = Ok (TString, [], [], []).
Proof. vm_compute. reflexivity. Qed.
(* the counterexample: ':' at position 0, '{' at 1, '}' at 3 *)
Example ex_colon_first_panics : seg_summary (new_segment [] (bs ":{a}")) = Panic (bs "NewSegment:rname").
Proof. vm_compute. reflexivity. Qed.
Example ex_colon_first_bytes : bs ":{a}" = [58; 123; 97; 125]%N.
Proof. vm_compute. reflexivity. Qed.
Example ex_colon_first_cbb : colon_before_brace (bs ":{a}").
Proof. exists 1%nat, 3%nat, 0%nat. vm_compute. repeat split; lia. Qed.
Example ex_colon_later_panics : seg_summary (new_segment [] (bs "ab:{cd}x")) = Panic (bs "NewSegment:rname").
Proof. vm_compute. reflexivity. Qed.
(* … but as part of a pattern the same text is harmless: split cuts before the '{' *)
Example ex_split_colon_first : segs_values (split [] (bs ":{a}")) = Ok [bs ":"; bs "{a}"].
Proof. vm_compute. reflexivity. Qed.
Example ex_check_colon_first : check_syntax (bs "/ab:{cd}x") = Ok tt.
Proof. vm_compute. reflexivity. Qed.
Example ex_split3 : segs_values (split [] (bs "/posts/{id}/{page}")) =
  Ok [bs "/posts/"; bs "{id}/"; bs "{page}"].
Proof. vm_compute. reflexivity. Qed.
Example ex_seg_split_ok :
  (do p <- seg_split [] (string_seg (bs "/posts/author")) 7; Ok (sval (fst p), sval (snd p))) =
  Ok (bs "/posts/", bs "author").
Proof. vm_compute. reflexivity. Qed.
Example ex_lp : longest_prefix (bs "/posts/{id}/a") (bs "/posts/{id}/b") = 12%Z.
Proof. vm_compute. reflexivity. Qed.
Example ex_lp_neg : longest_prefix (bs "}x") (bs "}y") = (-10)%Z.
Proof. vm_compute. reflexivity. Qed.
