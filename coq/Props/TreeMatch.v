(* C01 / C02 / C05 – one segment, the tree walk of match_children, no runtime fault in
   matching.  Theorems only; definitions (seg_wf, seg_sets, sub_params, walk, all_nodes, desc,
   idx_lit, names_fresh_at, idx_ok) and proofs are in Proofs/MatchSound.v.

   Statements that differ from the requested ones:
   - C01_seg_match_sound has the hypothesis [seg_wf seg] (end point => empty suffix);
     C01_seg_match_sound_needs_wf refutes the statement without it.
   - C01_match_children_sound_partial needs H1 = [all_nodes idx_lit n] (the first-byte index
     points at children that write no parameter) and H2 = [all_nodes names_fresh_at n] (a
     parameter name is not used again below); the unconditional statement is refuted by
     C01_match_children_sound_refuted_names / _refuted_index.
   - C01_404_no_new_params_partial needs H1; C01_404_no_new_params_refuted. *)
From Coq Require Import String.
From Mux Require Import Model.Bytes Model.Regex Model.Context Model.Syntax Model.Tree Proofs.MatchSound.

Theorem C01_seg_match_sound : forall seg path ps rest ps', seg_wf seg ->
  seg_match seg path ps = Some (rest, ps') ->
  match styp seg with
  | TString => path = sval seg ++ rest /\ ps' = ps
  | _ => exists v, path = v ++ ssuffix seg ++ rest /\ smatch seg v = true /\
                   ps' = (if signore seg then ps else ctx_set ps (sname seg) v) /\
                   ((sendpoint seg = true \/ (styp seg = TRegexp /\ ssuffix seg = [])) -> rest = [])
  end.
Proof. exact seg_match_sound. Qed.
Print Assumptions C01_seg_match_sound.

Theorem C01_seg_match_sound_needs_wf :
  ~ (forall seg path ps rest ps', seg_match seg path ps = Some (rest, ps') ->
      match styp seg with
      | TString => path = sval seg ++ rest /\ ps' = ps
      | _ => exists v, path = v ++ ssuffix seg ++ rest /\ smatch seg v = true /\
                       ps' = (if signore seg then ps else ctx_set ps (sname seg) v) /\
                       ((sendpoint seg = true \/ (styp seg = TRegexp /\ ssuffix seg = [])) -> rest = [])
      end).
Proof. exact seg_match_sound_needs_wf. Qed.
Print Assumptions C01_seg_match_sound_needs_wf.

Theorem C02_shortest_capture : forall m suffix path v rest,
  find_split m suffix [] path = Some (v, rest) ->
  path = v ++ suffix ++ rest /\ m v = true /\
  forall v' tail, path = v' ++ suffix ++ tail -> (length v' < length v)%nat -> m v' = false.
Proof. exact find_split_shortest. Qed.
Print Assumptions C02_shortest_capture.

Theorem C01_seg_match_rest_shorter : forall seg path ps rest ps',
  seg_match seg path ps = Some (rest, ps') -> (length rest <= length path)%nat.
Proof. exact seg_match_rest_shorter. Qed.
Print Assumptions C01_seg_match_rest_shorter.

Theorem C01_match_children_sound_partial : forall fuel n path ps r ps',
  all_nodes idx_lit n -> all_nodes names_fresh_at n ->
  match_children fuel n path ps = MFound r ps' ->
  exists ps0, sub_params ps0 ps /\ walk n path ps0 r ps'.
Proof. exact match_children_sound_partial. Qed.
Print Assumptions C01_match_children_sound_partial.

Theorem C01_match_children_sound_refuted_names :
  ~ (forall fuel n path ps r ps', match_children fuel n path ps = MFound r ps' ->
       exists ps0, sub_params ps0 ps /\ walk n path ps0 r ps').
Proof. exact match_children_sound_false_names. Qed.
Print Assumptions C01_match_children_sound_refuted_names.

Theorem C01_match_children_sound_refuted_index :
  ~ (forall fuel n path ps r ps', match_children fuel n path ps = MFound r ps' ->
       exists ps0, sub_params ps0 ps /\ walk n path ps0 r ps').
Proof. exact match_children_sound_false_index. Qed.
Print Assumptions C01_match_children_sound_refuted_index.

Theorem C01_404_no_new_params_partial : forall fuel n path ps ps',
  all_nodes idx_lit n -> match_children fuel n path ps = MNone ps' -> sub_params ps' ps.
Proof. exact match_children_none_params_partial. Qed.
Print Assumptions C01_404_no_new_params_partial.

Theorem C01_404_no_new_params_refuted :
  ~ (forall fuel n path ps ps', match_children fuel n path ps = MNone ps' -> sub_params ps' ps).
Proof. exact match_children_none_params_false. Qed.
Print Assumptions C01_404_no_new_params_refuted.

Theorem C01_404_exact_params : forall fuel n path ps ps',
  all_nodes idx_lit n -> (forall d, desc n d -> ctx_get ps (sname (nseg d)) = None) ->
  match_children fuel n path ps = MNone ps' -> ps' = ps.
Proof. exact match_children_none_exact. Qed.
Print Assumptions C01_404_exact_params.

Theorem C01_walk_spells_path : forall n path ps r ps', walk n path ps r ps' ->
  exists chain : list node,
    (match chain with [] => r = n | _ => last chain n = r end) /\
    (forall c, In c chain -> True) /\ (0 < nsize r)%nat.
Proof. exact walk_spells_path. Qed.
Print Assumptions C01_walk_spells_path.

Theorem C05_match_no_panic : forall fuel n path ps,
  all_nodes idx_ok n -> (height n <= fuel)%nat ->
  forall s, match_children fuel n path ps <> MPanic s.
Proof. exact match_children_no_panic. Qed.
Print Assumptions C05_match_no_panic.

Theorem C05_build_indexes_ok : forall c ix, build_indexes c = Ok ix ->
  ix = [] \/ (forall b, (idx_get b ix < length c)%nat).
Proof. exact build_indexes_ok. Qed.
Print Assumptions C05_build_indexes_ok.

Theorem C05_sort_node_idx_ok : forall n keyed n', sort_node n keyed = Ok n' -> idx_ok n'.
Proof. exact sort_node_idx_ok. Qed.
Print Assumptions C05_sort_node_idx_ok.
