(* C01 / C10 - the specification's tokenizer (Spec/Table.v : tokens) against the model's parser
   (Model/Syntax.v : split).  Theorems only; toks_of_segs, lit_tok, seg_agrees, nobr,
   empty_name_body, render, chunk_ok, rule_ok, toolong are defined in Proofs/TokensSplit.v.

   toks_of_segs segs ts : a literal segment [string_seg l] is the token [TLit l]; a parameter
   segment s is the token [TPar (signore s) (sname s) (srule s)] followed by [TLit (ssuffix s)]
   when the suffix is not empty.

   STATEMENT CHANGES.  new_segment refuses a piece of more than 32767 bytes (Err "toolong"),
   the tokenizer has no length limit: C10_tokens_split_agree and C10_nonstrict_is_instantiate
   are false as first stated (.._refuted, pattern "aaa…a" of 32768 bytes) and are proved with
   the extra hypothesis  N.of_nat (length p) <= max_int16  (.._partial). *)
From Coq Require Import String.
From Mux Require Import Model.Bytes Model.Regex Model.Context Model.Syntax Model.Tree Spec.Table
  Proofs.Misc1 Proofs.TokensSplit.
From Mux Require Proofs.TreeNames Proofs.TreeSafe Proofs.MatchSound Proofs.TreeText.

(* every well-formed pattern passes the parser-level guard of the dispatch theorems *)
Theorem C01_tokens_imply_pat_wf : forall p ts, tokens p = Some ts -> TreeNames.pat_wf p = true.
Proof. exact tokens_imply_pat_wf. Qed.
Print Assumptions C01_tokens_imply_pat_wf.

(* hence: a history whose registered patterns are all well formed (hist_tokens: tokens p <> None
   for every Add) passes hist_wf, and the guarded theorems of Proofs/TreeNames.v apply to it *)
Theorem C01_tokens_hist_wf : forall hist, hist_tokens hist = true -> TreeNames.hist_wf hist = true.
Proof. exact hist_tokens_wf. Qed.
Print Assumptions C01_tokens_hist_wf.

Theorem C01_names_fresh_tokens : forall name ic trace hist, hist_tokens hist = true ->
    MatchSound.all_nodes MatchSound.names_fresh_at
      (troot (fold_left TreeSafe.tstep hist (new_tree name ic trace))).
Proof. exact names_fresh_tokens. Qed.
Print Assumptions C01_names_fresh_tokens.

Theorem C01_dispatch_text_tokens : forall name ic trace hist method path n h ps ok,
    hist_tokens hist = true ->
    let t := fold_left TreeSafe.tstep hist (new_tree name ic trace) in
    tree_handler t method path [] = HFound ok (Some n) h ps ->
    ttrace t = None \/ method <> TRACE -> path <> bs "*" -> path <> [] ->
    MatchSound.walk (troot t) path [] n ps /\
    exists chain pieces, npat n = concat (map (fun c => sval (nseg c)) chain) /\
      path = concat pieces /\ length pieces = length chain /\
      Forall TreeText.node_label_ok chain /\ Forall2 TreeText.piece_ok chain pieces.
Proof. exact dispatch_text_tokens. Qed.
Print Assumptions C01_dispatch_text_tokens.

Theorem C10_tokens_split_agree_partial : forall ic p ts, tokens p = Some ts ->
    (N.of_nat (length p) <= max_int16)%N ->
    (forall ign name rule, In (TPar ign name rule) ts ->
       rule = [] \/ (exists f, alookup rule ic = Some f) \/
       (exists r, re_parse rule = POk r /\
          (ign = true \/ (name <> [] /\ forallb (fun c => is_word c || N.eqb c 95) name = true)))) ->
    exists segs, split ic p = Ok segs /\ toks_of_segs segs ts.
Proof. exact tokens_split_agree_partial. Qed.
Print Assumptions C10_tokens_split_agree_partial.

Theorem C10_tokens_split_agree_refuted :
    ~ (forall ic p ts, tokens p = Some ts ->
         (forall ign name rule, In (TPar ign name rule) ts ->
            rule = [] \/ (exists f, alookup rule ic = Some f) \/
            (exists r, re_parse rule = POk r /\
               (ign = true \/ (name <> [] /\ forallb (fun c => is_word c || N.eqb c 95) name = true)))) ->
         exists segs, split ic p = Ok segs /\ toks_of_segs segs ts).
Proof. exact tokens_split_agree_refuted. Qed.
Print Assumptions C10_tokens_split_agree_refuted.

Theorem C10_tokens_split_names : forall ic p ts segs, tokens p = Some ts -> split ic p = Ok segs ->
    map sname (filter param_seg segs) = par_names ts /\
    map sname (filter (fun s => param_seg s && negb (signore s)) segs) = capture_names ts.
Proof. exact tokens_split_names. Qed.
Print Assumptions C10_tokens_split_names.

(* the accepted parameter segments carry the constraint kind the tokens denote (kind_of) *)
Theorem C10_tokens_split_kinds : forall ic p ts segs, tokens p = Some ts -> split ic p = Ok segs ->
    Forall (fun s => param_seg s = true -> seg_agrees ic s) segs.
Proof. exact tokens_split_kinds. Qed.
Print Assumptions C10_tokens_split_kinds.

Theorem C10_nonstrict_is_instantiate_partial : forall p ts ps, tokens p = Some ts ->
    (N.of_nat (length p) <= max_int16)%N ->
    (forall ign name rule, In (TPar ign name rule) ts ->
       rule = [] \/ exists r, re_parse rule = POk r /\
         (ign = true \/ (name <> [] /\ forallb (fun c => is_word c || N.eqb c 95) name = true))) ->
    url_nonstrict p ps =
    match instantiate ts ps with Some u => Ok u | None => Err (bs "missing-param") end.
Proof. exact nonstrict_is_instantiate_partial. Qed.
Print Assumptions C10_nonstrict_is_instantiate_partial.

Theorem C10_nonstrict_is_instantiate_refuted :
    ~ (forall p ts ps, tokens p = Some ts ->
         (forall ign name rule, In (TPar ign name rule) ts ->
            rule = [] \/ exists r, re_parse rule = POk r /\
              (ign = true \/ (name <> [] /\ forallb (fun c => is_word c || N.eqb c 95) name = true))) ->
         url_nonstrict p ps =
         match instantiate ts ps with Some u => Ok u | None => Err (bs "missing-param") end).
Proof. exact nonstrict_is_instantiate_refuted. Qed.
Print Assumptions C10_nonstrict_is_instantiate_refuted.

(* ---- the three documented syntax errors.  123 = '{', 125 = '}', 58 = ':';
   [l0 ++ render cs] is a well-shaped prefix: brace-free text, then tokens "{body}" with a
   non-empty name, each followed by brace-free text. *)

(* empty name: the piece "{}…" / "{:rule}…" *)
Theorem C10_empty_name_segment : forall ic b x, empty_name_body b = true -> ~ In 125 b ->
    new_segment ic (123 :: b ++ 125 :: x) =
    Err (if toolong (123 :: b ++ 125 :: x) then bs "toolong" else bs "syntax").
Proof. exact empty_name_segment. Qed.
Print Assumptions C10_empty_name_segment.

Theorem C10_empty_name_rejected : forall ic l0 cs b rest, nobr l0 = true -> Forall chunk_ok cs ->
    empty_name_body b = true -> nobr b = true ->
    forall segs, split ic (l0 ++ render cs ++ 123 :: b ++ 125 :: rest) <> Ok segs.
Proof. exact empty_name_rejected. Qed.
Print Assumptions C10_empty_name_rejected.

Theorem C10_empty_name_first_error : forall ic l0 b rest, nobr l0 = true ->
    empty_name_body b = true -> nobr b = true ->
    exists e, split ic (l0 ++ 123 :: b ++ 125 :: rest) = Err e /\ (e = bs "syntax" \/ e = bs "toolong").
Proof. exact empty_name_first_error. Qed.
Print Assumptions C10_empty_name_first_error.

(* adjacent parameters: "{n}{" *)
Theorem C10_adjacent_rejected : forall ic l0 cs n rest, nobr l0 = true -> Forall chunk_ok cs ->
    nobr n = true ->
    forall segs, split ic (l0 ++ render cs ++ 123 :: n ++ 125 :: 123 :: rest) <> Ok segs.
Proof. exact adjacent_rejected. Qed.
Print Assumptions C10_adjacent_rejected.

Theorem C10_adjacent_first_error : forall ic l0 n rest, nobr l0 = true -> nobr n = true ->
    (N.of_nat (length l0) <= max_int16)%N ->
    split ic (l0 ++ 123 :: n ++ 125 :: 123 :: rest) =
    bind (new_segment ic (123 :: n ++ [125])) (fun _ => Err (bs "adjacent")).
Proof. exact adjacent_first_error. Qed.
Print Assumptions C10_adjacent_first_error.

(* duplicate names: everything [tokens] checks holds but the names *)
Theorem C10_dupname_rejected : forall ic p ts, tok_scan (S (length p)) p [] = Some ts ->
    no_adjacent ts = true -> nodupb (par_names ts) = false ->
    forall segs, split ic p <> Ok segs.
Proof. exact dupname_rejected. Qed.
Print Assumptions C10_dupname_rejected.

Theorem C10_dupname_error : forall ic p ts, tok_scan (S (length p)) p [] = Some ts ->
    no_adjacent ts = true -> nodupb (par_names ts) = false ->
    (N.of_nat (length p) <= max_int16)%N ->
    (forall ign name rule, In (TPar ign name rule) ts -> rule_ok ic ign name rule) ->
    split ic p = Err (bs "dupname").
Proof. exact dupname_error. Qed.
Print Assumptions C10_dupname_error.
