(* Boolean tree invariants (Appendix A of DESIGN.md), evaluated on every state the correspondence
   run reaches (the model state equals the implementation's dumped state there).  They are the
   hypotheses of the tree theorems; the ones proved preserved over histories are listed in A.3. *)
From Coq Require Import String.
From Mux Require Import Model.Bytes Model.Regex Model.Context Model.Syntax Model.Tree Spec.Table.

Fixpoint sorted_nat (l : list nat) : bool :=
  match l with
  | a :: ((b :: _) as l') => Nat.leb a b && sorted_nat l'
  | _ => true
  end.

Definition is_string (n : node) : bool := stype_eqb (styp (nseg n)) TString.

(* I4: the first-byte index is exactly {first byte of each literal child -> its position} when there are
   at least indexes_size children, and empty otherwise; literal children have distinct first bytes *)
Definition index_exact (n : node) : bool :=
  let c := nchildren n in
  if Nat.ltb (length c) indexes_size then match nindexes n with [] => true | _ => false end
  else
    match build_indexes_from c O [] with
    | Some ix =>
      Nat.eqb (length ix) (length (nindexes n)) &&
      forallb (fun kv => Nat.eqb (idx_get (fst kv) (nindexes n)) (snd kv)) ix &&
      Nat.eqb (length ix) (length (filter is_string c))
    | None => false
    end.

Definition idx_ok_b (n : node) : bool :=
  match nindexes n with
  | [] => true
  | ix => forallb (fun kv => Nat.ltb (snd kv) (length (nchildren n))) ix && Nat.ltb O (length (nchildren n))
  end.

(* I6: handlers are empty or carry OPTIONS and the 405 entry; HEAD iff GET; the bit-set is the keys' *)
Definition handlers_ok (trace : bool) (n : node) : bool :=
  match nhandlers n with
  | [] => N.eqb (nmidx n) 0
  | hs => ahas OPTIONS hs && ahas M405 hs && Bool.eqb (ahas GET hs) (ahas HEAD hs) &&
          N.eqb (nmidx n) (node_midx trace hs) && nodupb (akeys hs)
  end.

Definition local_ok (trace : bool) (n : node) : bool :=
  index_exact n && idx_ok_b n && handlers_ok trace n &&
  sorted_nat (map (fun ch => stype_rank (styp (nseg ch))) (nchildren n)) &&                (* I3 *)
  forallb (fun ch => beqb (npat ch) (npat n ++ sval (nseg ch))) (nchildren n) &&           (* I2 *)
  forallb (fun ch => match sval (nseg ch) with [] => false | _ => true end) (nchildren n).

(* names: the parameter names met on the way down *)
Fixpoint tree_ok (fuel : nat) (trace : bool) (names : list bytes) (n : node) : bool :=
  match fuel with
  | O => false
  | S f =>
    local_ok trace n &&
    forallb (fun ch =>
               let s := nseg ch in
               if is_string ch then tree_ok f trace names ch
               else negb (mem (sname s) names) && tree_ok f trace (sname s :: names) ch)          (* I7 *)
            (nchildren n)
  end.

Definition root_ok (t : tree) : bool :=
  ahas OPTIONS (nhandlers (troot t)) && ahas M405 (nhandlers (troot t)) &&
  N.eqb (nmidx (troot t)) (root_midx (has_trace t) (tcounts t)).

(* everything except the root's own handler bookkeeping is checked below the root *)
Definition tree_inv_b (t : tree) : bool :=
  root_ok t &&
  forallb (fun ch => let s := nseg ch in
                     if is_string ch then tree_ok (tree_fuel t) (has_trace t) [] ch
                     else tree_ok (tree_fuel t) (has_trace t) [sname s] ch) (nchildren (troot t)) &&
  index_exact (troot t) && idx_ok_b (troot t) &&
  sorted_nat (map (fun ch => stype_rank (styp (nseg ch))) (nchildren (troot t))) &&
  forallb (fun ch => beqb (npat ch) (sval (nseg ch))) (nchildren (troot t)).

(* I8: the counters are the per-method cardinalities of the routes *)
Fixpoint all_handlers (fuel : nat) (n : node) : list (list bytes) :=
  match fuel with
  | O => []
  | S f => flat_map (fun ch => (match nhandlers ch with [] => [] | hs => [user_methods (akeys hs)] end) ++ all_handlers f ch) (nchildren n)
  end.

Definition counters_ok (t : tree) : bool :=
  let hs := all_handlers (tree_fuel t) (troot t) in
  forallb (fun m => Z.eqb (opt_default 0%Z (alookup m (tcounts t)))
                          (Z.of_nat (length (filter (fun ms => mem m ms) hs)))) methods_list.

(* which component is broken where (diagnostics for the report) *)
Definition local_report (trace : bool) (n : node) : list bytes :=
  (if index_exact n then [] else [bs "index-exact@" ++ npat n]) ++
  (if idx_ok_b n then [] else [bs "idx-ok@" ++ npat n]) ++
  (if handlers_ok trace n then [] else [bs "handlers@" ++ npat n]) ++
  (if sorted_nat (map (fun ch => stype_rank (styp (nseg ch))) (nchildren n)) then [] else [bs "kind-order@" ++ npat n]) ++
  (if forallb (fun ch => beqb (npat ch) (npat n ++ sval (nseg ch))) (nchildren n) then [] else [bs "pattern@" ++ npat n]) ++
  (if forallb (fun ch => match sval (nseg ch) with [] => false | _ => true end) (nchildren n) then [] else [bs "empty-label@" ++ npat n]).

Fixpoint tree_report (fuel : nat) (trace : bool) (names : list bytes) (n : node) : list bytes :=
  match fuel with
  | O => [bs "fuel"]
  | S f =>
    local_report trace n ++
    flat_map (fun ch =>
               let s := nseg ch in
               if is_string ch then tree_report f trace names ch
               else (if mem (sname s) names then [bs "name-reused@" ++ npat ch] else []) ++ tree_report f trace (sname s :: names) ch)
            (nchildren n)
  end.

Definition inv_report (t : tree) : list bytes :=
  (if root_ok t then [] else [bs "root"]) ++
  (if index_exact (troot t) then [] else [bs "index-exact@root"]) ++
  (if idx_ok_b (troot t) then [] else [bs "idx-ok@root"]) ++
  (if sorted_nat (map (fun ch => stype_rank (styp (nseg ch))) (nchildren (troot t))) then [] else [bs "kind-order@root"]) ++
  flat_map (fun ch => let s := nseg ch in
                      if is_string ch then tree_report (tree_fuel t) (has_trace t) [] ch
                      else tree_report (tree_fuel t) (has_trace t) [sname s] ch) (nchildren (troot t)).
