(* The abstract route table and the pattern-level vocabulary the properties are stated in.
   Nothing here builds or looks at a tree: patterns are tokenised by an independent scanner
   (not the code's Split), routes live in an association list. *)
From Coq Require Import String.
From Mux Require Import Model.Bytes Model.Regex Model.Context Model.Syntax Model.Tree.

(* ---------------------------------------------------------------- tokens *)
Inductive tok :=
| TLit (l : bytes)
| TPar (ign : bool) (name rule : bytes).

(* text before the first [c] and the text after it *)
Fixpoint span_until (c : N) (s : bytes) : option (bytes * bytes) :=
  match s with
  | [] => None
  | x :: s' => if N.eqb x c then Some ([], s')
               else match span_until c s' with
                    | Some (a, b) => Some (x :: a, b)
                    | None => None
                    end
  end.

Definition flush (lit_rev : bytes) (ts : list tok) : list tok :=
  match lit_rev with [] => ts | _ => TLit (rev lit_rev) :: ts end.

Fixpoint tok_scan (fuel : nat) (s : bytes) (lit_rev : bytes) : option (list tok) :=
  match fuel with
  | O => None
  | S f =>
    match s with
    | [] => Some (flush lit_rev [])
    | c :: s' =>
      if N.eqb c 125 then None                     (* '}' inside literal text *)
      else if N.eqb c 123 then
        match span_until 125 s' with
        | None => None                             (* unbalanced *)
        | Some (body, rest) =>
          if existsb (N.eqb 123) body then None else
          let '(name0, rule) := match span_until 58 body with Some (n, r) => (n, r) | None => (body, []) end in
          let '(ign, name) := match name0 with 45 :: n => (true, n) | _ => (false, name0) end in
          match name with
          | [] => None
          | _ => match tok_scan f rest [] with
                 | Some ts => Some (flush lit_rev (TPar ign name rule :: ts))
                 | None => None
                 end
          end
        end
      else tok_scan f s' (c :: lit_rev)
    end
  end.

Definition tok_name (t : tok) : option bytes := match t with TPar _ n _ => Some n | TLit _ => None end.
Definition is_par (t : tok) : bool := match t with TPar _ _ _ => true | TLit _ => false end.

Fixpoint no_adjacent (ts : list tok) : bool :=
  match ts with
  | a :: ((b :: _) as ts') => negb (is_par a && is_par b) && no_adjacent ts'
  | _ => true
  end.

Fixpoint par_names (ts : list tok) : list bytes :=
  match ts with
  | [] => []
  | TPar _ n _ :: ts' => n :: par_names ts'
  | TLit _ :: ts' => par_names ts'
  end.

Fixpoint capture_names (ts : list tok) : list bytes :=
  match ts with
  | [] => []
  | TPar false n _ :: ts' => n :: capture_names ts'
  | _ :: ts' => capture_names ts'
  end.

Fixpoint nodupb (l : list bytes) : bool :=
  match l with [] => true | x :: l' => negb (mem x l') && nodupb l' end.

(* well-formed patterns: the quantifier of C01/C02/C03 *)
Definition tokens (p : bytes) : option (list tok) :=
  match p with
  | [] => None
  | _ => match tok_scan (S (length p)) p [] with
         | Some ts => if no_adjacent ts && nodupb (par_names ts) then Some ts else None
         | None => None
         end
  end.

(* ---------------------------------------------------------------- constraints *)
Inductive kind :=
| KNamed
| KIcpt (f : bytes -> bool)
| KRegexp (r : re)
| KBad                         (* the rule does not compile *)
| KUnsup.                      (* outside the modelled regexp fragment *)

Definition kind_of (ic : icpts) (rule : bytes) : kind :=
  match rule with
  | [] => KNamed
  | _ => match alookup rule ic with
         | Some f => KIcpt f
         | None => match re_parse rule with
                   | POk r => KRegexp r
                   | PErr => KBad
                   | PUnsup => KUnsup
                   end
         end
  end.

Definition kind_rank (k : kind) : nat :=
  match k with KIcpt _ => 1 | KRegexp _ => 2 | _ => 3 end%nat.

Definition accepts (k : kind) (v : bytes) : bool :=
  match k with
  | KNamed => true
  | KIcpt f => f v
  | KRegexp r => re_full r v
  | KBad | KUnsup => false
  end.

Fixpoint all_kinds_ok (ic : icpts) (ts : list tok) : bool :=
  match ts with
  | [] => true
  | TPar _ _ rule :: ts' =>
    match kind_of ic rule with KBad | KUnsup => false | _ => all_kinds_ok ic ts' end
  | TLit _ :: ts' => all_kinds_ok ic ts'
  end.

(* ---------------------------------------------------------------- instantiation *)
(* [path] is [ts] with every capturing parameter replaced by its reported value (which the
   constraint accepts) and every '-' parameter by SOME accepted text. *)
Fixpoint inst_match (ic : icpts) (ts : list tok) (ps : params) (path : bytes) {struct ts} : bool :=
  match ts with
  | [] => match path with [] => true | _ => false end
  | TLit l :: ts' => has_prefix path l && inst_match ic ts' ps (skipn (length l) path)
  | TPar false name rule :: ts' =>
    match ctx_get ps name with
    | Some v => has_prefix path v && accepts (kind_of ic rule) v && inst_match ic ts' ps (skipn (length v) path)
    | None => false
    end
  | TPar true name rule :: ts' =>
    (fix try (n : nat) : bool :=
       (Nat.leb n (length path) && accepts (kind_of ic rule) (firstn n path) && inst_match ic ts' ps (skipn n path)) ||
       match n with O => false | S n' => try n' end) (length path)
  end.

(* URL building: substitute and nothing else ('-' parameters are looked up by their bare name) *)
Fixpoint instantiate (ts : list tok) (ps : params) : option bytes :=
  match ts with
  | [] => Some []
  | TLit l :: ts' => match instantiate ts' ps with Some r => Some (l ++ r) | None => None end
  | TPar _ name _ :: ts' =>
    match ctx_get ps name, instantiate ts' ps with
    | Some v, Some r => Some (v ++ r)
    | _, _ => None
    end
  end.

Fixpoint list_beqb (a b : list bytes) : bool :=
  match a, b with
  | [], [] => true
  | x :: a', y :: b' => beqb x y && list_beqb a' b'
  | _, _ => false
  end.

Definition same_keys (ps : params) (names : list bytes) : bool :=
  list_beqb (sort_bytes (akeys ps)) (sort_bytes names).

(* ---------------------------------------------------------------- the table machine *)
Definition entry := list (bytes * hterm).          (* method -> handler, incl. HEAD, OPTIONS and "" (405) *)
Definition table := list (bytes * entry).

Record tcfg := { c_trace : bool; c_router : bytes; c_ic : icpts }.

(* an accepted Handle call *)
Definition t_handle (c : tcfg) (t : table) (pattern : bytes) (h : hterm) (mws ms : list bytes) : table :=
  let ms := match ms with [] => any_methods | _ => ms end in
  let e0 := opt_default [] (alookup pattern t) in
  let e1 := install_methods h pattern (c_router c) mws ms e0 in
  let e2 := if ahas OPTIONS e1 then e1 else aset OPTIONS (apply_mw HOptions OPTIONS pattern (c_router c) mws) e1 in
  let e3 := if ahas M405 e2 then e2 else aset M405 (apply_mw HNotAllowed M405 pattern (c_router c) mws) e2 in
  aset pattern e3 t.

Definition only_auto (e : entry) : bool := forallb (fun kv => is_auto (fst kv)) e.

Definition t_remove (t : table) (pattern : bytes) (ms : list bytes) : table :=
  match alookup pattern t with
  | None => t
  | Some e =>
    match ms with
    | [] => adelete pattern t
    | _ => let e' := fst (remove_methods ms e []) in
           if only_auto e' then adelete pattern t else aset pattern e' t
    end
  end.

Definition t_clean (t : table) (prefix : bytes) : table :=
  filter (fun kv => negb (has_prefix (fst kv) prefix)) t.

Definition t_use (c : tcfg) (t : table) (mws : list bytes) : table :=
  map (fun pe => (fst pe, map (fun kv => (fst kv, apply_mw (snd kv) (fst kv) (fst pe) (c_router c) mws)) (snd pe))) t.

(* ---------------------------------------------------------------- method sets *)
Definition user_keys (e : entry) : list bytes := user_methods (akeys e).

Fixpoint dedup (l : list bytes) : list bytes :=
  match l with [] => [] | x :: l' => if mem x l' then dedup l' else x :: dedup l' end.

(* C04: registered methods, HEAD with GET, OPTIONS, TRACE when configured *)
Definition spec_methods (trace : bool) (e : entry) : list bytes :=
  let u := user_keys e in
  sort_bytes (dedup (u ++ (if mem GET u then [HEAD] else []) ++ [OPTIONS] ++ (if trace then [TRACE] else []))).

Definition spec_allow (trace : bool) (e : entry) : bytes := join (bs ", ") (spec_methods trace e).

Definition used_methods (t : table) : list bytes := dedup (flat_map (fun pe => user_keys (snd pe)) t).

(* OPTIONS * : OPTIONS, TRACE when configured, every method registered somewhere; HEAD optional *)
Definition star_ok (trace : bool) (t : table) (allow : list bytes) : bool :=
  let must := dedup (used_methods t ++ [OPTIONS] ++ (if trace then [TRACE] else [])) in
  let without_head := filter (fun m => negb (beqb m HEAD)) in
  list_beqb (sort_bytes (without_head (dedup allow))) (sort_bytes (without_head must)) &&
  nodupb allow.

Definition spec_routes (trace : bool) (t : table) : list (bytes * list bytes) :=
  asort ((bs "*", OPTIONS :: (if trace then [TRACE] else [])) ::
         map (fun pe => (fst pe, spec_methods trace (snd pe))) t).

(* the handler the table holds for a request method *)
Definition table_handler (e : entry) (method : bytes) : option hterm := alookup method e.

(* two patterns that differ only in parameter names and '-' flags *)
Fixpoint same_shape (a b : list tok) : bool :=
  match a, b with
  | [], [] => true
  | TLit x :: a', TLit y :: b' => beqb x y && same_shape a' b'
  | TPar _ _ r1 :: a', TPar _ _ r2 :: b' => beqb r1 r2 && same_shape a' b'
  | _, _ => false
  end.

Definition same_up_to_names (p q : bytes) : bool :=
  match tokens p, tokens q with
  | Some a, Some b => same_shape a b
  | _, _ => false
  end.
