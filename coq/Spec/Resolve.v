(* The documented resolution procedure (README "priority" rules), stated on the route TABLE:
   it never builds a tree.  [outcomes] returns every (route, parameters) answer the procedure
   admits for a path ("either may win" cases yield several). *)
From Coq Require Import String.
From Mux Require Import Model.Bytes Model.Regex Model.Context Model.Syntax Model.Tree Spec.Table.

Record resid := { rts : list tok; rroute : bytes }.

Definition residuals (ic : icpts) (t : list (bytes * list tok)) : list resid :=
  map (fun pt => {| rts := snd pt; rroute := fst pt |}) t.

(* strip [n] bytes of literal text from the head of a token list *)
Definition strip_lit (n : nat) (ts : list tok) : list tok :=
  match ts with
  | TLit l :: ts' => match skipn n l with [] => ts' | l' => TLit l' :: ts' end
  | _ => ts
  end.

Definition head_lit_byte (ts : list tok) : option N :=
  match ts with TLit (b :: _) :: _ => Some b | _ => None end.

Definition head_lit (ts : list tok) : bytes :=
  match ts with TLit l :: _ => l | _ => [] end.

(* grouping key of a residual that starts with a parameter *)
Definition pkey := (bool * bytes * bytes * option N)%type.

Definition opt_N_eqb (a b : option N) : bool :=
  match a, b with Some x, Some y => N.eqb x y | None, None => true | _, _ => false end.

Definition pkey_eqb (a b : pkey) : bool :=
  let '(i1, n1, r1, b1) := a in let '(i2, n2, r2, b2) := b in
  Bool.eqb i1 i2 && beqb n1 n2 && beqb r1 r2 && opt_N_eqb b1 b2.

Definition par_key (r : resid) : option pkey :=
  match rts r with
  | TPar ign n rule :: rest => Some (ign, n, rule, head_lit_byte rest)
  | _ => None
  end.

Definition has_key (k : pkey) (r : resid) : bool :=
  match par_key r with Some k' => pkey_eqb k k' | None => false end.

Fixpoint lcp (a b : bytes) : bytes :=
  match a, b with
  | x :: a', y :: b' => if N.eqb x y then x :: lcp a' b' else []
  | _, _ => []
  end.

(* first split point (shortest value) after which [S] occurs and the constraint accepts *)
Fixpoint shortest_split (acc : kind) (S : bytes) (pre_rev s : bytes) : option (bytes * bytes) :=
  if has_prefix s S && accepts acc (rev pre_rev) then Some (rev pre_rev, skipn (length S) s)
  else match s with
       | [] => None
       | c :: s' => shortest_split acc S (c :: pre_rev) s'
       end.

Definition with_param (ps : params) (ign : bool) (name v : bytes) : params :=
  if ign then ps else ctx_set ps name v.

(* distinct keys (in order of first occurrence) of the residuals whose head parameter has rank [k] *)
Fixpoint keys_of_rank (ic : icpts) (k : nat) (R : list resid) (seen : list pkey) : list pkey :=
  match R with
  | [] => rev seen
  | r :: R' =>
    match par_key r with
    | Some ((_, _, rule, _) as key) =>
      if Nat.eqb (kind_rank (kind_of ic rule)) k && negb (existsb (pkey_eqb key) seen)
      then keys_of_rank ic k R' (key :: seen) else keys_of_rank ic k R' seen
    | None => keys_of_rank ic k R' seen
    end
  end.

Fixpoint outcomes (fuel : nat) (ic : icpts) (R : list resid) (path : bytes) (ps : params) : list (bytes * params) :=
  match fuel with
  | O => []
  | S f =>
    (* 1. literal step: one byte of literal text *)
    let lit_out :=
      match path with
      | b :: path' =>
        let Rb := map (fun r => {| rts := strip_lit 1 (rts r); rroute := rroute r |})
                      (filter (fun r => opt_N_eqb (head_lit_byte (rts r)) (Some b)) R) in
        match Rb with [] => [] | _ => outcomes f ic Rb path' ps end
      | [] => []
      end in
    match lit_out with
    | _ :: _ => lit_out
    | [] =>
      (* 2. parameter step, kinds in priority order; all groups of the first kind that answers *)
      let group_out (key : pkey) : list (bytes * params) :=
        let '(ign, name, rule, nb) := key in
        let g := filter (has_key key) R in
        let acc := kind_of ic rule in
        match nb with
        | None =>                                   (* the parameter ends the pattern: whole rest *)
          if accepts acc path
          then map (fun r => (rroute r, with_param ps ign name path)) g
          else []
        | Some _ =>
          let lits := map (fun r => head_lit (tl (rts r))) g in
          let S := match lits with l :: ls => fold_left lcp ls l | [] => [] end in
          match shortest_split acc S [] path with
          | None => []
          | Some (v, rest) =>
            let Rg := map (fun r => {| rts := strip_lit (length S) (tl (rts r)); rroute := rroute r |}) g in
            outcomes f ic Rg rest (with_param ps ign name v)
          end
        end in
      let kind_out (k : nat) := flat_map group_out (keys_of_rank ic k R []) in
      let par_out :=
        match kind_out 1%nat with
        | (_ :: _) as o => o
        | [] => match kind_out 2%nat with
                | (_ :: _) as o => o
                | [] => kind_out 3%nat
                end
        end in
      (* 3. end step *)
      let end_out :=
        match path with
        | [] => map (fun r => (rroute r, ps)) (filter (fun r => match rts r with [] => true | _ => false end) R)
        | _ => []
        end in
      par_out ++ end_out
    end
  end.

Fixpoint toks_len (ts : list tok) : nat :=
  match ts with
  | [] => O
  | TLit l :: ts' => (length l + toks_len ts')%nat
  | TPar _ _ _ :: ts' => S (toks_len ts')
  end.

Definition resolve (ic : icpts) (t : list (bytes * list tok)) (path : bytes) : list (bytes * params) :=
  let R := residuals ic t in
  outcomes (S (fold_right (fun r a => Nat.max (toks_len (rts r)) a) O R + length path)) ic R path [].
