(* Histories over the abstract route table, and the "registration record" view used to state the
   middleware order (C09): what a registration stored, without any Router.Use middleware. *)
From Coq Require Import String.
From Mux Require Import Model.Bytes Model.Regex Model.Context Model.Syntax Model.Tree Spec.Table.

(* accepted operations on one router *)
Inductive top :=
| THandle (p id : bytes) (route_mws facade_mws ms : list bytes)   (* an ACCEPTED Handle / Prefix.Handle / Resource.Handle *)
| TRemove (p : bytes) (ms : list bytes)
| TClean (prefix : bytes)
| TUse (mws : list bytes).

Record tstate := { tt : table; tuses : list bytes }.

Definition t_init : tstate := {| tt := []; tuses := [] |}.

Definition t_step (c : tcfg) (s : tstate) (op : top) : tstate :=
  match op with
  | THandle p id rm fm ms =>
    {| tt := t_handle c (tt s) p (HUser id) (rm ++ fm ++ tuses s) ms; tuses := tuses s |}
  | TRemove p ms => {| tt := t_remove (tt s) p ms; tuses := tuses s |}
  | TClean prefix => {| tt := t_clean (tt s) prefix; tuses := tuses s |}
  | TUse mws => {| tt := t_use c (tt s) mws; tuses := tuses s ++ mws |}
  end.

Definition t_run (c : tcfg) (hist : list top) : tstate := fold_left (t_step c) hist t_init.

(* ---- registration records: the core handler and the middlewares given with the registration
   (the call's own list followed by the Prefix/Resource lists, innermost first) *)
Definition rentry := list (bytes * (hterm * list bytes)).
Definition rtable := list (bytes * rentry).

Fixpoint r_install (core : hterm) (mws ms : list bytes) (e : rentry) : rentry :=
  match ms with
  | [] => e
  | m :: ms' =>
    let e1 := if beqb m GET then aset HEAD (core, mws) e else e in
    r_install core mws ms' (aset m (core, mws) e1)
  end.

Definition r_handle (t : rtable) (p id : bytes) (mws ms : list bytes) : rtable :=
  let ms := match ms with [] => any_methods | _ => ms end in
  let e0 := opt_default [] (alookup p t) in
  let e1 := r_install (HUser id) mws ms e0 in
  let e2 := if ahas OPTIONS e1 then e1 else aset OPTIONS (HOptions, mws) e1 in
  let e3 := if ahas M405 e2 then e2 else aset M405 (HNotAllowed, mws) e2 in
  aset p e3 t.

Fixpoint r_remove_methods (ms : list bytes) (e : rentry) : rentry :=
  match ms with
  | [] => e
  | m :: ms' =>
    if is_auto m then r_remove_methods ms' e
    else let e1 := if beqb m GET then adelete HEAD e else e in
         r_remove_methods ms' (adelete m e1)
  end.

Definition r_remove (t : rtable) (p : bytes) (ms : list bytes) : rtable :=
  match alookup p t with
  | None => t
  | Some e =>
    match ms with
    | [] => adelete p t
    | _ => let e' := r_remove_methods ms e in
           if forallb (fun kv => is_auto (fst kv)) e' then adelete p t else aset p e' t
    end
  end.

Definition r_step (t : rtable) (op : top) : rtable :=
  match op with
  | THandle p id rm fm ms => r_handle t p id (rm ++ fm) ms
  | TRemove p ms => r_remove t p ms
  | TClean prefix => filter (fun kv => negb (has_prefix (fst kv) prefix)) t
  | TUse _ => t
  end.

Definition r_run (hist : list top) : rtable := fold_left r_step hist [].

Fixpoint uses_of (hist : list top) : list bytes :=
  match hist with
  | [] => []
  | TUse mws :: h => mws ++ uses_of h
  | _ :: h => uses_of h
  end.

(* the onion: Use middlewares (all of them, in the order given: the most recent outermost) around
   the registration's middlewares around the core *)
Definition render_entry (c : tcfg) (uses : list bytes) (p : bytes) (e : rentry) : entry :=
  map (fun kv => (fst kv, apply_mw (fst (snd kv)) (fst kv) p (c_router c) (snd (snd kv) ++ uses))) e.

Definition render (c : tcfg) (uses : list bytes) (t : rtable) : table :=
  map (fun pe => (fst pe, render_entry c uses (fst pe) (snd pe))) t.

(* explicit nesting produced by one middleware list: the LAST element of the list is outermost *)
Fixpoint wrap_outermost_last (h : hterm) (m p r : bytes) (mws_rev : list bytes) : hterm :=
  match mws_rev with
  | [] => h
  | mw :: rest => HWrap mw m p r (wrap_outermost_last h m p r rest)
  end.
