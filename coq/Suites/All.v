From Coq Require Import String.
From Mux Require Import Model.Bytes Model.Wire.
From Mux Require Suites.S20 Suites.SRT Suites.SMatch Suites.SGroup.

Definition rt_ids : list bytes :=
  map bs ["RT"; "C01"; "C02"; "C03"; "C04"; "C05"; "C08"; "C09"; "C10"; "C11"; "C12"; "C17"; "C18"; "C19"]%string.

Definition run_suite (id : bytes) (ls : list line) : list line :=
  if beqb id (bs "C20") then run_case S20.suite20 ls
  else if mem id rt_ids then run_case (SRT.suite_rt id) ls
  else if mem id (map bs ["MX"; "C14"; "C15"]%string) then run_case (SMatch.suite_mx id) ls
  else if mem id (map bs ["GR"; "C13"; "C16"]%string) then run_case (SGroup.suite_gr id) ls
  else if beqb id (bs "C05m") then run_case (SMatch.suite_mx (bs "C05")) ls
  else if beqb id (bs "C05g") then run_case (SGroup.suite_gr (bs "C05")) ls
  else if beqb id (bs "C08g") then run_case (SGroup.suite_gr (bs "C08")) ls
  else if beqb id (bs "C09g") then run_case (SGroup.suite_gr (bs "C09")) ls
  else if beqb id (bs "C18g") then run_case (SGroup.suite_gr (bs "C18")) ls
  else if beqb id (bs "C01g") then run_case (SGroup.suite_gr (bs "C01")) ls
  else [[bs "X"; bs "0"; bs "unknown-suite"]].
