From Coq Require Import String.
From Mux Require Import Model.Bytes Model.Wire.
From Mux Require Suites.S20.

Definition run_suite (id : bytes) (ls : list line) : list line :=
  if beqb id (bs "C20") then run_case S20.suite20 ls
  else [[bs "X"; bs "0"; bs "unknown-suite"]].
