(* Suite RT: router programs (Handle/Remove/Clean/Use/Prefix/Resource/URL/serve/routes/dump).
   Shared by the tree-related properties; the oracle is selected by the property id. *)
From Coq Require Import String.
From Mux Require Import Model.Bytes Model.Wire Model.Regex Model.Context Model.Syntax Model.Tree Model.Router.

Fixpoint print_h (h : hterm) : bytes :=
  match h with
  | HUser id => bs "U(" ++ id ++ bs ")"
  | HNotFound => bs "NF" | HTrace => bs "TR" | HOptions => bs "OP" | HNotAllowed => bs "NA"
  | HGroupNotFound => bs "GNF"
  | HWrap mw m p r inner =>
    bs "W(" ++ mw ++ bs "|" ++ m ++ bs "|" ++ p ++ bs "|" ++ r ++ bs "|" ++ print_h inner ++ bs ")"
  end.

Fixpoint h_core (h : hterm) : hterm := match h with HWrap _ _ _ _ i => h_core i | _ => h end.

Definition comma : bytes := bs ",".

Definition pad3 (n : nat) : bytes :=
  let d := nat_to_dec n in
  match length d with 1%nat => bs "00" ++ d | 2%nat => bs "0" ++ d | _ => d end.

Definition print_indexes (ix : list (N * nat)) : bytes :=
  join comma (sort_bytes (map (fun kv => pad3 (N.to_nat (fst kv)) ++ bs ":" ++ nat_to_dec (snd kv)) ix)).

Fixpoint dump_node (fuel depth : nat) (n : node) : list bytes :=
  match fuel with
  | O => [bs "FUEL"]
  | S f =>
    [bs "N"; nat_to_dec depth; sval (nseg n); nat_to_dec (stype_rank (styp (nseg n)));
     bool_field (sendpoint (nseg n)); npat n; N_to_dec (nmidx n);
     join comma (sort_bytes (akeys (nhandlers n))); print_indexes (nindexes n);
     nat_to_dec (length (nchildren n))]
    ++ flat_map (dump_node f (S depth)) (nchildren n)
  end.

Definition print_counts (c : list (bytes * Z)) : bytes :=
  join comma (sort_bytes (map (fun kv => fst kv ++ bs "=" ++ Z_to_dec (snd kv))
                              (filter (fun kv => negb (Z.eqb (snd kv) 0)) c))).

Definition dump_tree (t : tree) : list bytes :=
  dump_node (tree_fuel t) O (troot t) ++ [bs "C"; print_counts (tcounts t)].

Definition flat_params (ps : params) : list bytes := flat_map (fun kv => [fst kv; snd kv]) (asort ps).

(* observation of one request *)
Definition serve_obs (t : tree) (method path : bytes) (ps0 : params) : list bytes :=
  match tree_handler t method path ps0 with
  | HPanic s => [bs "panic"; bs "runtime"]
  | HFound ok n h ps =>
    let cap := match h_core h, n with
               | HOptions, Some nd | HNotAllowed, Some nd => allow_of (nmidx nd)
               | _, _ => []
               end in
    [bs "served"; print_h h] ++
    (match n with
     | Some nd => [bs "1"; npat nd; join comma (methods_of (nmidx nd)); allow_of (nmidx nd)]
     | None => [bs "0"; []; []; []]
     end) ++ [cap] ++ flat_params ps
  end.

Definition routes_obs (t : tree) : list bytes :=
  flat_map (fun kv => [fst kv; join comma (snd kv)]) (tree_routes t).

Definition res_obs {T} (r : res T) : list bytes :=
  match r with
  | Ok _ => [bs "ok"]
  | Err e => [bs "err"]
  | Panic s => [bs "panic"; bs "runtime"]
  | Unsup => [bs "unsup"]
  end.

Definition url_obs (r : res bytes) : list bytes :=
  match r with
  | Ok u => [bs "ok"; u]
  | Err e => [bs "err"]
  | Panic s => [bs "panic"; bs "runtime"]
  | Unsup => [bs "unsup"]
  end.

(* ---- wire decoding *)
Fixpoint take_n {A} (n : nat) (l : list A) : list A * list A :=
  match n, l with
  | O, _ => ([], l)
  | S n', x :: l' => let '(a, b) := take_n n' l' in (x :: a, b)
  | S _, [] => ([], [])
  end.
Definition take_list (fs : list bytes) : list bytes * list bytes :=
  match fs with
  | c :: rest => take_n (opt_default O (dec_to_nat c)) rest
  | [] => ([], [])
  end.
Fixpoint pairs (l : list bytes) : list (bytes * bytes) :=
  match l with a :: b :: l' => (a, b) :: pairs l' | _ => [] end.

Definition len_ge2 (s : bytes) : bool := Nat.leb 2 (length s).
Definition icpt_of_kind (k : bytes) : bytes -> bool :=
  if beqb k (bs "any") then match_any
  else if beqb k (bs "digit") then match_digit
  else if beqb k (bs "word") then match_word
  else if beqb k (bs "len2") then len_ge2
  else if beqb k (bs "all") then (fun _ => true)
  else if beqb k (bs "none") then (fun _ => false)
  else if beqb k (bs "even") then (fun s => Nat.even (length s))
  else if beqb k (bs "nodot") then (fun s => negb (existsb (N.eqb 46) s) && match_any s)
  else (fun _ => false).

Record srt := {
  rt : router;
  facs : list (bytes * facade);
  unsup : bool;                 (* a regexp outside the modelled fragment was used: stop comparing *)
  pid : bytes;
  live : list (bytes * list (bytes * bytes));   (* abstract table: pattern -> method -> handler id *)
}.

Definition init_rt (pid : bytes) (h : list line) : srt :=
  let cfg := match filter (fun l => beqb (arg 0 l) (bs "cfg")) h with l :: _ => l | [] => [] end in
  let ic := map (fun kv => (fst kv, icpt_of_kind (snd kv))) (pairs (fst (take_list (skipn 4 (args cfg))))) in
  {| rt := new_router (arg 2 cfg) ic (argb 1 cfg) (arg 3 cfg); facs := []; unsup := false; pid := pid; live := [] |}.

Definition target_facade (s : srt) (t : bytes) : option facade :=
  if beqb t (bs "r") then None else alookup t (facs s).

Definition with_rt (s : srt) (r : router) : srt :=
  {| rt := r; facs := facs s; unsup := unsup s; pid := pid s; live := live s |}.
Definition mark_unsup (s : srt) : srt :=
  {| rt := rt s; facs := facs s; unsup := true; pid := pid s; live := live s |}.

Definition apply_res (s : srt) (r : res router) : srt * list bytes :=
  match r with
  | Ok r' => (with_rt s r', [bs "ok"])
  | Unsup => (mark_unsup s, [bs "unsup"])
  | _ => (s, res_obs r)
  end.

Definition step_rt (s : srt) (o : line) : srt * list bytes :=
  let op := arg 0 o in
  let a := args o in
  if beqb op (bs "handle") then
    let tgt := arg 1 o in let pattern := arg 2 o in let h := HUser (arg 3 o) in
    let '(mws, rest) := take_list (skipn 4 a) in
    let '(ms, _) := take_list rest in
    match target_facade s tgt with
    | None => apply_res s (r_handle (rt s) pattern h mws ms)
    | Some f => apply_res s (f_handle (rt s) f pattern h mws ms)
    end
  else if beqb op (bs "remove") then
    let '(ms, _) := take_list (skipn 3 a) in
    match target_facade s (arg 1 o) with
    | None => apply_res s (r_remove (rt s) (arg 2 o) ms)
    | Some f => apply_res s (f_remove (rt s) f (arg 2 o) ms)
    end
  else if beqb op (bs "clean") then
    match target_facade s (arg 1 o) with
    | None => apply_res s (r_clean (rt s) [])
    | Some f => apply_res s (f_clean (rt s) f)
    end
  else if beqb op (bs "use") then
    (with_rt s (r_use (rt s) (fst (take_list (skipn 1 a)))), [bs "ok"])
  else if beqb op (bs "prefix") || beqb op (bs "resource") then
    (* prefix <id> <parent> <pattern> <mws> *)
    let parent := target_facade s (arg 2 o) in
    let mws := fst (take_list (skipn 4 a)) in
    let f := if beqb op (bs "prefix") then f_prefix parent (arg 3 o) mws else f_resource parent (arg 3 o) mws in
    (* a Resource has no Prefix/Resource methods: the harness ignores such a call *)
    if match parent with Some p => negb (fprefix p) | None => false end then (s, [bs "ok"]) else
    ({| rt := rt s; facs := (arg 1 o, f) :: facs s; unsup := unsup s; pid := pid s; live := live s |}, [bs "ok"])
  else if beqb op (bs "serve") then
    (s, serve_obs (rtree (rt s)) (arg 1 o) (arg 2 o) [])
  else if beqb op (bs "routes") then (s, routes_obs (rtree (rt s)))
  else if beqb op (bs "dump") then (s, dump_tree (rtree (rt s)))
  else if beqb op (bs "url") then
    (* url <target> <strict> <pattern> <n> k v … *)
    let ps := pairs (fst (take_list (skipn 4 a))) in
    let ps := fold_left (fun acc kv => ctx_set acc (fst kv) (snd kv)) ps [] in
    match target_facade s (arg 1 o) with
    | None => (s, url_obs (r_url (rt s) (argb 2 o) (arg 3 o) ps))
    | Some f => (s, url_obs (f_url (rt s) f (argb 2 o) (arg 3 o) ps))
    end
  else if beqb op (bs "syntax") then (s, res_obs (check_syntax (arg 1 o)))
  else if beqb op (bs "muxurl") then
    let ps := pairs (fst (take_list (skipn 2 a))) in
    let ps := fold_left (fun acc kv => ctx_set acc (fst kv) (snd kv)) ps [] in
    (s, url_obs (mux_url (arg 1 o) ps))
  else (s, [bs "unknown-op"]).

(* once a case has left the modelled regexp fragment nothing more is compared *)
Definition step_rt' (s : srt) (o : line) : srt * list bytes :=
  if unsup s then (s, [bs "unsup"]) else step_rt s o.

Definition oracle_rt (s s' : srt) (o : line) (r : list bytes) : list bytes := [].

Definition tags_rt (s s' : srt) (o : line) (r : list bytes) : list bytes :=
  if unsup s' then [bs "unsup"] else
  let op := arg 0 o in
  if beqb op (bs "serve") then
    match r with
    | k :: t :: _ => [bs "serve"] ++ (if beqb k (bs "served") then [] else [bs "serve-panic"])
    | _ => [bs "serve"]
    end
  else [op].

Definition suite_rt (pid : bytes) : suite :=
  {| St := srt; init := init_rt pid; step := step_rt'; oracle := oracle_rt; tags := tags_rt |}.
