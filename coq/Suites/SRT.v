(* Suite RT: router programs (Handle/Remove/Clean/Use/Prefix/Resource/URL/serve/routes/dump).
   Shared by the tree-related properties; the oracle is selected by the property id. *)
From Coq Require Import String.
From RecordUpdate Require Import RecordSet.
From Mux Require Import Model.Bytes Model.Wire Model.Regex Model.Context Model.Syntax Model.Tree Model.Router.
From Mux Require Import Model.Http Model.Cors.
From Mux Require Import Spec.Table Spec.Resolve Spec.Inv.
Import RecordSetNotations.

Fixpoint print_h (h : hterm) : bytes :=
  match h with
  | HUser id => bs "U(" ++ id ++ bs ")"
  | HNotFound => bs "NF" | HTrace => bs "TR" | HOptions => bs "OP" | HNotAllowed => bs "NA"
  | HGroupNotFound => bs "GNF"
  | HWrap mw m p r inner =>
    bs "W(" ++ mw ++ bs "|" ++ m ++ bs "|" ++ p ++ bs "|" ++ r ++ bs "|" ++ print_h inner ++ bs ")"
  end.

Fixpoint h_core (h : hterm) : hterm := match h with HWrap _ _ _ _ i => h_core i | _ => h end.

Definition print_core (h : hterm) : bytes :=
  match h_core h with
  | HUser id => bs "U:" ++ id
  | HNotFound => bs "NF" | HTrace => bs "TR" | HOptions => bs "OP" | HNotAllowed => bs "NA"
  | HGroupNotFound => bs "GNF"
  | HWrap _ _ _ _ _ => bs "?"
  end.

Definition comma : bytes := bs ",".

Definition pad3 (n : nat) : bytes :=
  let d := nat_to_dec n in
  match length d with 1%nat => bs "00" ++ d | 2%nat => bs "0" ++ d | _ => d end.

Definition print_indexes (ix : list (N * nat)) : bytes :=
  join comma (sort_bytes (map (fun kv => pad3 (N.to_nat (fst kv)) ++ bs ":" ++ nat_to_dec (snd kv)) ix)).

Fixpoint dump_node (fuel depth : nat) (n : node) : list bytes :=
  match fuel with
  | O => [bs "FUEL"]
  | S f =>
    [bs "N"; nat_to_dec depth; sval (nseg n); nat_to_dec (stype_rank (styp (nseg n)));
     bool_field (sendpoint (nseg n)); npat n; N_to_dec (nmidx n);
     join comma (sort_bytes (akeys (nhandlers n))); print_indexes (nindexes n);
     nat_to_dec (length (nchildren n))]
    ++ flat_map (dump_node f (S depth)) (nchildren n)
  end.

Definition print_counts (c : list (bytes * Z)) : bytes :=
  join comma (sort_bytes (map (fun kv => fst kv ++ bs "=" ++ Z_to_dec (snd kv))
                              (filter (fun kv => negb (Z.eqb (snd kv) 0)) c))).

Definition dump_tree (t : tree) : list bytes :=
  dump_node (tree_fuel t) O (troot t) ++ [bs "C"; print_counts (tcounts t)].

Definition flat_params (ps : params) : list bytes := flat_map (fun kv => [fst kv; snd kv]) (asort ps).

(* observation of one request *)
Definition serve_obs (t : tree) (method path : bytes) (ps0 : params) : list bytes :=
  match tree_handler t method path ps0 with
  | HPanic s => [bs "panic"; bs "runtime"]
  | HFound ok n h ps =>
    let cap := match h_core h, n with
               | HOptions, Some nd | HNotAllowed, Some nd => allow_of (nmidx nd)
               | _, _ => []
               end in
    [bs "served"; print_h h; print_core h] ++
    (match n with
     | Some nd => [bs "1"; npat nd; join comma (methods_of (nmidx nd)); allow_of (nmidx nd)]
     | None => [bs "0"; []; []; []]
     end) ++ [cap] ++ flat_params ps
  end.

Definition routes_obs (t : tree) : list bytes :=
  flat_map (fun kv => [fst kv; join comma (snd kv)]) (tree_routes t).

Definition res_obs {T} (r : res T) : list bytes :=
  match r with
  | Ok _ => [bs "ok"]
  | Err e => [bs "err"]
  | Panic s => [bs "panic"; bs "runtime"]
  | Unsup => [bs "unsup"]
  end.

Definition url_obs (r : res bytes) : list bytes :=
  match r with
  | Ok u => [bs "ok"; u]
  | Err e => [bs "err"]
  | Panic s => [bs "panic"; bs "runtime"]
  | Unsup => [bs "unsup"]
  end.

(* ---- wire decoding *)
Fixpoint take_n {A} (n : nat) (l : list A) : list A * list A :=
  match n, l with
  | O, _ => ([], l)
  | S n', x :: l' => let '(a, b) := take_n n' l' in (x :: a, b)
  | S _, [] => ([], [])
  end.
Definition take_list (fs : list bytes) : list bytes * list bytes :=
  match fs with
  | c :: rest => take_n (opt_default O (dec_to_nat c)) rest
  | [] => ([], [])
  end.
Fixpoint pairs (l : list bytes) : list (bytes * bytes) :=
  match l with a :: b :: l' => (a, b) :: pairs l' | _ => [] end.

Definition len_ge2 (s : bytes) : bool := Nat.leb 2 (length s).
Definition icpt_of_kind (k : bytes) : bytes -> bool :=
  if beqb k (bs "any") then match_any
  else if beqb k (bs "digit") then match_digit
  else if beqb k (bs "word") then match_word
  else if beqb k (bs "len2") then len_ge2
  else if beqb k (bs "all") then (fun _ => true)
  else if beqb k (bs "none") then (fun _ => false)
  else if beqb k (bs "even") then (fun s => Nat.even (length s))
  else if beqb k (bs "nodot") then (fun s => negb (existsb (N.eqb 46) s) && match_any s)
  else (fun _ => false).

Definition memo_t := list (line * list bytes).
Fixpoint memo_get (k : line) (m : memo_t) : option (list bytes) :=
  match m with
  | [] => None
  | (k', v) :: m' => if lines_eqb k k' then Some v else memo_get k m'
  end.
Definition memo_set (k : line) (v : list bytes) (m : memo_t) : memo_t :=
  (k, v) :: filter (fun kv => negb (lines_eqb k (fst kv))) m.

Record srt := mk_srt {
  rt : router;
  facs : list (bytes * facade);
  unsup : bool;                 (* a regexp outside the modelled fragment was used: stop comparing *)
  pid : bytes;
  (* ---- specification side, driven by what the implementation answered *)
  tc : tcfg;
  live : table;
  uses : list bytes;            (* every middleware given to Router.Use so far, in order *)
  addonly : bool;               (* no Remove / Clean so far *)
  memo : memo_t;                (* implementation observations since the last accepted mutation *)
  rejected : bool;              (* a Handle call was rejected since [memo] was cleared *)
  frame : memo_t;               (* dispatch observations that later removals must not change *)
  syn : list (bytes * bool);    (* CheckSyntax answers seen *)
  copt : cors_opt;              (* CORS options as given *)
  rcors : cors;                 (* sanitised (model side) *)
  allwf : bool;                 (* every pattern accepted so far is well-formed (the properties' quantifier) *)
  opn : nat;                    (* number of operations absorbed so far = index of the current one *)
  amb : list nat;               (* indexes of the requests for which the documented procedure admits several answers *)
  shapeunk : bool;              (* a Handle of a pattern outside the well-formed fragment was rejected: the implementation may
                                   have split nodes on the way before failing (same routes, other tree shape) - dumps not compared *)
}.
#[export] Instance eta_srt : Settable _ :=
  settable! mk_srt <rt; facs; unsup; pid; tc; live; uses; addonly; memo; rejected; frame; syn; copt; rcors; allwf; opn; amb; shapeunk>.

(* cfg … <n> ic… cors <n> origins… <n> allow-headers… <n> exposed… max-age creds *)
Definition no_cors : cors_opt :=
  {| o_origins := []; o_allow_headers := []; o_exposed := []; o_max_age := 0; o_creds := false |}.
Definition deny_cors : cors := opt_default
  {| c_origins := []; c_allow_headers := []; c_creds := false; c_deny := true; c_any_origins := false; c_any_headers := false;
     c_allow_headers_string := []; c_exposed_string := []; c_max_age_string := [] |} (cors_sanitize no_cors).
Definition cors_of_cfg (cfg : line) : cors_opt :=
  let rest := snd (take_list (skipn 4 (args cfg))) in
  match rest with
  | tag :: rest1 =>
    if beqb tag (bs "cors") then
      let '(og, r2) := take_list rest1 in
      let '(ah, r3) := take_list r2 in
      let '(ex, r4) := take_list r3 in
      {| o_origins := og; o_allow_headers := ah; o_exposed := ex;
         o_max_age := opt_default 0%Z (dec_to_Z (nth 0 r4 [])); o_creds := beqb (nth 1 r4 []) (bs "1") |}
    else no_cors
  | [] => no_cors
  end.

Definition init_rt (pid : bytes) (h : list line) : srt :=
  let cfg := match filter (fun l => beqb (arg 0 l) (bs "cfg")) h with l :: _ => l | [] => [] end in
  let ic := map (fun kv => (fst kv, icpt_of_kind (snd kv))) (pairs (fst (take_list (skipn 4 (args cfg))))) in
  {| rt := new_router (arg 2 cfg) ic (argb 1 cfg) (arg 3 cfg); facs := []; unsup := false; pid := pid;
     tc := {| c_trace := argb 1 cfg; c_router := arg 2 cfg; c_ic := ic |};
     live := []; uses := []; addonly := true; memo := []; rejected := false; frame := []; syn := [];
     copt := cors_of_cfg cfg; rcors := opt_default deny_cors (cors_sanitize (cors_of_cfg cfg)); allwf := true; opn := O; amb := []; shapeunk := false |}.

Definition target_facade (s : srt) (t : bytes) : option facade :=
  if beqb t (bs "r") then None else alookup t (facs s).

Definition with_rt (s : srt) (r : router) : srt := s <| rt := r |>.
Definition mark_unsup (s : srt) : srt := s <| unsup := true |>.

Definition apply_res (s : srt) (r : res router) : srt * list bytes :=
  match r with
  | Ok r' => (with_rt s r', [bs "ok"])
  | Unsup => (mark_unsup s, [bs "unsup"])
  | _ => (s, res_obs r)
  end.

(* ---- responses *)
Definition hdr_field (k : bytes) (h : headers) : bytes :=
  match h_get_all k h with [] => bs "-" | vs => bs "=" ++ join [31] vs end.

Definition cors_keys : list bytes := [ACAO; ACAC; ACAM; ACAH; ACEH; ACMA; VARY].

Definition creq_of (o : line) : creq :=
  (* several Origin lines are separated by 0x1f; Header.Get sees the first *)
  {| q_method := arg 1 o; q_path := arg 2 o; q_origin := nth 0 (split_byte 31 (arg 3 o)) []; q_acrm := arg 4 o; q_acrh := arg 5 o |}.

Definition creq_obs (s : srt) (o : line) : list bytes :=
  let q := creq_of o in
  match tree_handler (rtree (rt s)) (q_method q) (q_path q) [] with
  | HPanic _ => [bs "panic"; bs "runtime"]
  | HFound ok n h _ =>
    let wh := match ok, n with
              | true, Some nd => cors_handle (rcors s) (methods_of (nmidx nd)) (allow_of (nmidx nd)) q []
              | _, _ => []
              end in
    [print_core h; match n with Some nd => npat nd | None => [] end] ++ map (fun k => hdr_field k wh) cors_keys
  end.

Fixpoint parse_events (l : list bytes) : list wevent :=
  match l with
  | k :: a :: b :: l' =>
    (if beqb k (bs "S") then ESet a b
     else if beqb k (bs "A") then EAdd a b
     else if beqb k (bs "D") then EDel a
     else if beqb k (bs "H") then EWriteHeader (opt_default 0 (dec_to_N a))
     else EWrite (opt_default 0 (dec_to_N a))) :: parse_events l'
  | _ => []
  end.

Definition writer_obs (w : writer) : list bytes :=
  let hs := asort (sent_headers w) in
  [N_to_dec (status_of w); N_to_dec (body w); nat_to_dec (length hs)] ++
  flat_map (fun kv => [fst kv; join [31] (snd kv)]) hs.

(* script <path> <n> (kind a b)… : the same handler behaviour under GET and under HEAD *)
Definition script_obs (s : srt) (o : line) : list bytes :=
  let path := arg 1 o in
  let script := parse_events (fst (take_list (skipn 2 (args o)))) in
  let one (method : bytes) : list bytes :=
    match tree_handler (rtree (rt s)) method path [] with
    | HPanic _ => [bs "panic"]
    | HFound ok _ h _ =>
      print_core h :: writer_obs (if ok && beqb method HEAD then run_head [] script else run_get [] script)
    end in
  one GET ++ one HEAD.

(* Go's regexp engine works on runes, the model on bytes: non-ASCII text against a regexp rule is outside the model *)
Definition ascii_bytes (b : bytes) : bool := forallb (fun c => c <? 128) b.
Fixpoint node_has_regexp (fuel : nat) (n : node) : bool :=
  match fuel with
  | O => false
  | S f => existsb (fun ch => stype_eqb (styp (nseg ch)) TRegexp || node_has_regexp f ch) (nchildren n)
  end.
Definition tree_has_regexp (t : tree) : bool := node_has_regexp (tree_fuel t) (troot t).

Definition step_rt (s : srt) (o : line) : srt * list bytes :=
  let op := arg 0 o in
  let a := args o in
  if beqb op (bs "handle") then
    let tgt := arg 1 o in let pattern := arg 2 o in let h := HUser (arg 3 o) in
    let '(mws, rest) := take_list (skipn 4 a) in
    let '(ms, _) := take_list rest in
    match target_facade s tgt with
    | None => apply_res s (r_handle (rt s) pattern h mws ms)
    | Some f => apply_res s (f_handle (rt s) f pattern h mws ms)
    end
  else if beqb op (bs "remove") then
    let '(ms, _) := take_list (skipn 3 a) in
    match target_facade s (arg 1 o) with
    | None => apply_res s (r_remove (rt s) (arg 2 o) ms)
    | Some f => apply_res s (f_remove (rt s) f (arg 2 o) ms)
    end
  else if beqb op (bs "clean") then
    match target_facade s (arg 1 o) with
    | None => apply_res s (r_clean (rt s) [])
    | Some f => apply_res s (f_clean (rt s) f)
    end
  else if beqb op (bs "use") then
    (with_rt s (r_use (rt s) (fst (take_list (skipn 1 a)))), [bs "ok"])
  else if beqb op (bs "prefix") || beqb op (bs "resource") then
    (* prefix <id> <parent> <pattern> <mws> *)
    let parent := target_facade s (arg 2 o) in
    let mws := fst (take_list (skipn 4 a)) in
    let f := if beqb op (bs "prefix") then f_prefix parent (arg 3 o) mws else f_resource parent (arg 3 o) mws in
    (* a Resource has no Prefix/Resource methods: the harness ignores such a call *)
    if match parent with Some p => negb (fprefix p) | None => false end then (s, [bs "ok"]) else
    (s <| facs := (arg 1 o, f) :: facs s |>, [bs "ok"])
  else if beqb op (bs "serve") then
    if negb (ascii_bytes (arg 2 o)) && tree_has_regexp (rtree (rt s)) then (s, [bs "unsup"])
    else (s, serve_obs (rtree (rt s)) (arg 1 o) (arg 2 o) [])
  else if beqb op (bs "routes") then (s, routes_obs (rtree (rt s)))
  else if beqb op (bs "dump") then (s, if shapeunk s then [bs "unsup"] else dump_tree (rtree (rt s)))
  else if beqb op (bs "url") then
    (* url <target> <strict> <pattern> <n> k v … *)
    let ps := pairs (fst (take_list (skipn 4 a))) in
    let ps := fold_left (fun acc kv => ctx_set acc (fst kv) (snd kv)) ps [] in
    if argb 2 o && negb (forallb (fun kv => ascii_bytes (snd kv)) ps) && tree_has_regexp (rtree (rt s)) then (s, [bs "unsup"]) else
    match target_facade s (arg 1 o) with
    | None => (s, url_obs (r_url (rt s) (argb 2 o) (arg 3 o) ps))
    | Some f => (s, url_obs (f_url (rt s) f (argb 2 o) (arg 3 o) ps))
    end
  else if beqb op (bs "c19eq") then (s, [bs "judged"])  (* facade run == desugared run, observation by observation: see the oracle *)
  (* outside the modelled fragment (an audit of the model against the source, DESIGN section 10): regexp rules see
     runes where the model sees bytes; strings.EqualFold / TrimSpace on the requested header names are Unicode-aware;
     http.Header canonicalises keys; the CORS headers are written before a handler script runs *)
  else if beqb op (bs "creq") then
    if (negb (ascii_bytes (arg 2 o)) && tree_has_regexp (rtree (rt s))) || negb (ascii_bytes (arg 5 o)) then (s, [bs "unsup"])
    else (s, creq_obs s o)
  else if beqb op (bs "script") then
    let evs := fst (take_list (skipn 2 a)) in
    let canonical_key (k : bytes) :=
      (* Xxx-Yyy: an upper-case or non-letter first byte of every dash-separated part, no upper-case elsewhere *)
      forallb (fun part => match part with
                           | [] => true
                           | c :: rest => negb ((96 <? c) && (c <? 123)) && forallb (fun d => negb ((64 <? d) && (d <? 91))) rest
                           end) (split_byte 45 k) && ascii_bytes k in
    let keys_ok := (fix go (l : list bytes) : bool :=
                      match l with
                      | k :: x :: _ :: l' => (if beqb k (bs "S") || beqb k (bs "A") || beqb k (bs "D") then canonical_key x else true) && go l'
                      | _ => true
                      end) evs in
    if (negb (ascii_bytes (arg 1 o)) && tree_has_regexp (rtree (rt s))) || negb keys_ok || negb (c_deny (rcors s))
    then (s, [bs "unsup"]) else (s, script_obs s o)
  else if beqb op (bs "tracehelper") then
    (* the escaped dump is an input: httputil.DumpRequest and html.EscapeString are outside the model *)
    (s, writer_obs (run_get [] (trace_script (Some []) (fun _ => arg 8 o))) ++ [bs "body"; arg 8 o])
  else if beqb op (bs "syntax") then (s, res_obs (check_syntax (arg 1 o)))
  else if beqb op (bs "muxurl") then
    let ps := pairs (fst (take_list (skipn 2 a))) in
    let ps := fold_left (fun acc kv => ctx_set acc (fst kv) (snd kv)) ps [] in
    (s, url_obs (mux_url (arg 1 o) ps))
  else (s, [bs "unknown-op"]).

(* ================================================================ the properties, judged on
   the IMPLEMENTATION's observations.  Clause names are prefixed by the property they falsify. *)
Definition cl (c : String.string) : bytes := bs c.
Definition check (b : bool) (c : String.string) : list bytes := if b then [] else [bs c].

Definition obs_is (r : list bytes) (k : String.string) : bool := beqb (nth 0 r []) (bs k).
Definition mem_nat (n : nat) (l : list nat) : bool := existsb (Nat.eqb n) l.

(* target resolution: full pattern and the facade's middlewares (C19's desugaring) *)
Definition full_pattern (s : srt) (tgt pattern : bytes) : bytes :=
  match target_facade s tgt with None => pattern | Some f => f_pattern f pattern end.
Definition facade_mws (s : srt) (tgt : bytes) : list bytes :=
  match target_facade s tgt with None => [] | Some f => fms f end.

Definition live_toks (s : srt) : option (list (bytes * list tok)) :=
  fold_right (fun pe acc =>
    match acc, tokens (fst pe) with
    | Some l, Some ts =>
      if all_kinds_ok (c_ic (tc s)) ts && negb (beqb (fst pe) (bs "*")) then Some ((fst pe, ts) :: l) else None
    | _, _ => None
    end) (Some []) (live s).

Definition params_eqb (a b : params) : bool :=
  list_beqb (flat_params a) (flat_params b).

Definition methods_valid (trace : bool) (ms : list bytes) : bool :=
  forallb (fun m => is_method m && negb (beqb m OPTIONS) && negb (beqb m HEAD) && negb (trace && beqb m TRACE)) ms
  && nodupb ms.

(* literal bytes of every live pattern (for the 'simple value' test of C03) *)
Definition lit_bytes (lt : list (bytes * list tok)) : bytes :=
  flat_map (fun pt => flat_map (fun t => match t with TLit l => l | _ => [] end) (snd pt)) lt.

Definition simple_witness (s : srt) (lt : list (bytes * list tok)) (p : bytes) (vals : params) (path : bytes) : bool :=
  match alookup p lt with
  | None => false
  | Some ts =>
    let lb := lit_bytes lt in
    forallb (fun t => match t with
                      | TPar _ n rule =>
                        match ctx_get vals n with
                        | Some v => accepts (kind_of (c_ic (tc s)) rule) v && forallb (fun c => negb (existsb (N.eqb c) lb)) v
                        | None => false
                        end
                      | TLit _ => true end) ts &&
    match instantiate ts vals with Some x => beqb x path | None => false end
  end.

Definition expected_404 (s : srt) : hterm := apply_mw HNotFound [] [] (c_router (tc s)) (uses s).
Definition expected_trace (s : srt) : hterm := apply_mw HTrace TRACE [] (c_router (tc s)) (uses s).
Definition expected_star (s : srt) : hterm := apply_mw HOptions OPTIONS [] (c_router (tc s)) (uses s).

Definition serve_clauses (s : srt) (o : line) (r : list bytes) : list bytes :=
  let method := arg 1 o in let path := arg 2 o in
  if obs_is r "panic" then
    [cl "C05:serve-panics"; cl "C03:serve-panics"] ++
    (* the automatic handlers must exist wherever a route exists: a fault on OPTIONS / HEAD / an unregistered
       method of a live pattern is a missing automatic handler *)
    (if beqb method OPTIONS then [cl "C08:options-not-automatic"] else []) ++
    (if beqb method HEAD then [cl "C08:head-iff-get"] else [])
  else
  if unsup s then [] else
  let term := nth 1 r [] in let core := nth 2 r [] in let hasnode := beqb (nth 3 r []) (bs "1") in
  let pat := nth 4 r [] in let methods := nth 5 r [] in let allow := nth 6 r [] in let cap := nth 7 r [] in
  let ps := pairs (skipn 8 r) in
  let trace := c_trace (tc s) in
  let lt := live_toks s in
  let table_has_regexp := match lt with
                          | Some l => existsb (fun pt => existsb (fun t => match t with
                                                                        | TPar _ _ rule => match kind_of (c_ic (tc s)) rule with KRegexp _ => true | _ => false end
                                                                        | TLit _ => false end) (snd pt)) l
                          | None => false end in
  let lt := if negb (ascii_bytes path) && table_has_regexp then None else lt in   (* runes vs bytes: not judged *)
  (* "{name:}" (an empty rule spelled with its colon) is another spelling of "{name}" for the tokenizer but another
     parameter for the router; the procedure is stated for canonical spellings (C02_tree_refines_resolver_refuted) *)
  let canonical_pat (q : bytes) := match index q (bs ":}") with Some _ => false | None => true end in
  let lt := match lt with
            | Some l => if forallb (fun pt => canonical_pat (fst pt)) l then lt else None
            | None => None
            end in
  let special := beqb path (bs "*") || beqb path [] || (trace && beqb method TRACE) in
  (* ---- resolution against the table (C02 on add-only routers, C03 on simple witnesses) *)
  let resolution :=
    match lt with
    | Some lt' =>
      if special then [] else
      let outs := resolve (c_ic (tc s)) lt' path in
      let member := hasnode && existsb (fun o' => beqb (fst o') pat && params_eqb (snd o') ps) outs in
      let is404 := beqb core (bs "NF") in
      let agree := if is404 then match outs with [] => true | _ => false end else member in
      (if addonly s then check agree "C02:resolution-differs-from-documented-procedure" else []) ++
      (if beqb (arg 3 o) (bs "w") then
         let wp := arg 4 o in
         let vals := pairs (fst (take_list (skipn 5 (args o)))) in
         if simple_witness s lt' wp vals path then
           check (negb is404) "C03:live-route-not-served" ++ check agree "C03:wrong-winner-for-simple-witness"
         else []
       else [])
    | None => []
    end in
  (* ---- removals must not change earlier dispatches to other routes (C03 frame) *)
  let framec :=
    match memo_get [arg 1 o; arg 2 o] (frame s) with
    | Some old => check (lines_eqb old ([term; core; pat] ++ skipn 8 r)) "C03:removal-changed-unrelated-dispatch"
    | None => []
    end in
  resolution ++ framec ++
  (if trace && beqb method TRACE then check (beqb core (bs "TR")) "C18:trace-request-not-answered-by-the-trace-handler" else []) ++
  if beqb core (bs "NF") then
    check (match ps with [] => true | _ => false end) "C01:404-reports-parameters" ++
    check (negb hasnode) "C01:404-reports-a-route" ++
    check (beqb term (print_h (expected_404 s))) "C09:404-middlewares"
  else if beqb core (bs "TR") then
    check (trace && beqb method TRACE) "C18:trace-handler-without-option" ++
    check (beqb term (print_h (expected_trace s))) "C18:trace-middlewares" ++
    check (beqb term (print_h (expected_trace s))) "C09:trace-middlewares"
  else if beqb pat [] then
    (* the root node: OPTIONS * (or the empty path) *)
    if beqb core (bs "OP") then
      check (beqb method OPTIONS && (beqb path (bs "*") || beqb path [])) "C01:root-for-ordinary-path" ++
      check (star_ok trace (live s) (split_byte 44 methods) &&
             beqb allow (join (bs ", ") (split_byte 44 methods)) && beqb cap allow) "C04:options-star-allow" ++
      check (beqb term (print_h (expected_star s))) "C09:options-star-middlewares" ++
      (if trace then check (mem TRACE (split_byte 44 methods)) "C18:trace-missing-from-allow" else [])
    else if beqb core (bs "NA") then
      check (beqb path (bs "*") || beqb path []) "C01:root-for-ordinary-path"
    else [cl "C01:user-handler-at-root"]
  else
    match alookup pat (live s) with
    | None => [cl "C01:reported-route-not-registered"]
    | Some e =>
      (* handler identity: the one registered for this pattern and method *)
      (match table_handler e method with
       | Some h =>
         check (beqb core (print_core h)) "C01:wrong-handler" ++
         check (beqb term (print_h h)) "C09:middleware-order"
       | None =>
         check (beqb core (bs "NA")) "C01:handler-for-unregistered-method" ++
         match table_handler e M405 with
         | Some h => check (beqb term (print_h h)) "C09:middleware-order-405"
         | None => []
         end
       end) ++
      (if beqb method HEAD then check (Bool.eqb (beqb core (bs "NA")) (negb (ahas GET e))) "C08:head-iff-get" else []) ++
      (if beqb method OPTIONS then check (beqb core (bs "OP")) "C08:options-not-automatic" else []) ++
      (* path = pattern instantiated with the reported parameters *)
      (match lt with
       | Some lt' =>
         match alookup pat lt' with
         | Some ts =>
           check (inst_match (c_ic (tc s)) ts ps path) "C01:path-is-not-the-pattern-with-reported-values" ++
           check (same_keys ps (capture_names ts)) "C01:reported-parameters-not-exactly-the-capturing-ones" ++
           (* C10's round trip: a route without '-' parameters rebuilds the request path from what was captured *)
           (if forallb (fun t => match t with TPar true _ _ => false | _ => true end) ts
            then check (match instantiate ts ps with Some x => beqb x path | None => false end)
                       "C10:captured-parameters-do-not-rebuild-the-request-path"
            else [])
         | None => []
         end
       | None => []
       end) ++
      (* Allow / method sets *)
      check (beqb methods (join comma (spec_methods trace e))) "C04:node-methods" ++
      check (beqb allow (spec_allow trace e)) "C04:node-allow-header" ++
      (if beqb core (bs "OP") || beqb core (bs "NA")
       then check (beqb cap (spec_allow trace e)) "C04:allow-of-options-or-405-response" else []) ++
      (if trace then check (mem TRACE (split_byte 44 methods)) "C18:trace-missing-from-allow" else [])
    end.

Definition routes_clauses (s : srt) (r : list bytes) : list bytes :=
  if obs_is r "panic" then [cl "C05:routes-panics"] else
  if unsup s || ahas (bs "*") (live s) then [] else
  (* judged on tables of well-formed patterns (one node per pattern is a theorem only there:
     C03_pattern_once_reachable / C03_pattern_once_refuted; Routes() is a map keyed by pattern) *)
  match live_toks s with None => [] | Some _ =>
  let spec := flat_map (fun kv => [fst kv; join comma (snd kv)]) (spec_routes (c_trace (tc s)) (live s)) in
  check (lines_eqb r spec) "C03:routes-differs-from-live-table" ++
  check (lines_eqb r spec) "C04:routes-method-sets"
  end.

(* the four documented syntax errors vs. everything else that does not tokenise *)
Inductive pclass := PWf (ts : list tok) | PMalformed | POther | PUnsupported.

Fixpoint scan_class (fuel : nat) (s : bytes) : nat :=   (* 0 ok, 1 documented error, 2 other *)
  match fuel with
  | O => 2%nat
  | S f =>
    match s with
    | [] => 0%nat
    | c :: s' =>
      if N.eqb c 125 then 2%nat
      else if N.eqb c 123 then
        match span_until 125 s' with
        | None => 2%nat
        | Some (body, rest) =>
          if existsb (N.eqb 123) body then 2%nat else
          let name0 := match span_until 58 body with Some (n, _) => n | None => body end in
          match name0 with
          | [] => 1%nat                              (* {} or {:rule} : empty name *)
          | [45] => 2%nat                            (* {-} : not specified *)
          | _ => scan_class f rest
          end
        end
      else scan_class f s'
    end
  end.

Definition classify (ic : icpts) (p : bytes) : pclass :=
  match p with
  | [] => POther
  | _ =>
    match scan_class (S (length p)) p with
    | 0%nat =>
      match tok_scan (S (length p)) p [] with
      | Some ts =>
        if negb (no_adjacent ts) || negb (nodupb (par_names ts)) then PMalformed
        else if existsb (fun t => match t with TPar _ _ rule => match kind_of ic rule with KBad => true | _ => false end | _ => false end) ts then PMalformed
        else if existsb (fun t => match t with
                                  | TPar false name rule =>
                                    match kind_of ic rule with
                                    | KRegexp _ => negb (forallb (fun c => is_word c || N.eqb c 95) name)
                                    | _ => false end
                                  | _ => false end) ts
             then POther                          (* (?P<name>…) wants an identifier: not one of the documented errors *)
        else if all_kinds_ok ic ts then PWf ts else PUnsupported
      | None => POther
      end
    | 1%nat => PMalformed
    | _ => POther
    end
  end.

Definition url_clauses (s : srt) (o : line) (r : list bytes) : list bytes :=
  if obs_is r "panic" then [cl "C05:url-panics"] else
  if unsup s then [] else
  let strict := argb 2 o in
  let p := full_pattern s (arg 1 o) (arg 3 o) in
  let ps := fold_left (fun acc kv => ctx_set acc (fst kv) (snd kv)) (pairs (fst (take_list (skipn 4 (args o))))) [] in
  let dom := rdomain (rt s) in
  let isok := obs_is r "ok" in
  let got := nth 1 r [] in
  match p with
  | [] => []
  | _ =>
    if strict then
      match classify (c_ic (tc s)) p with
      | PWf ts =>
        if negb (forallb (fun kv => ascii_bytes (snd kv)) ps) &&
           existsb (fun t => match t with TPar _ _ rule => match kind_of (c_ic (tc s)) rule with KRegexp _ => true | _ => false end | _ => false end) ts
        then [] else
        let valid := ahas p (live s) &&
                     forallb (fun t => match t with
                                       | TPar _ n rule => match ctx_get ps n with
                                                          | Some v => accepts (kind_of (c_ic (tc s)) rule) v
                                                          | None => false end
                                       | TLit _ => true end) ts in
        if valid then check (isok && match instantiate ts ps with Some x => beqb got (dom ++ x) | None => false end)
                            "C10:strict-url-refused-or-wrong"
        else check (negb isok) "C10:strict-url-accepted-invalid"
      | PMalformed => check (negb isok) "C10:strict-url-accepted-malformed-pattern"
      | _ => []
      end
    else
      match ps with
      | [] => []                                    (* the property speaks about non-empty params *)
      | _ =>
        match classify [] p with
        | PWf ts =>
          match instantiate ts ps with
          | Some x => check (isok && beqb got (dom ++ x)) "C10:url-is-not-the-substituted-pattern"
          | None => check (negb isok) "C10:url-built-despite-missing-parameter"
          end
        | PMalformed => check (negb isok) "C10:url-accepted-malformed-pattern"
        | _ => []
        end
      end
  end.

Definition handle_clauses (s : srt) (o : line) (r : list bytes) : list bytes :=
  if obs_is r "panic" then [cl "C05:handle-runtime-fault"] else
  if unsup s then [] else
  let p := full_pattern s (arg 1 o) (arg 2 o) in
  let ms0 := fst (take_list (snd (take_list (skipn 4 (args o))))) in
  let ms := match ms0 with [] => any_methods | _ => ms0 end in
  let trace := c_trace (tc s) in
  let ic := c_ic (tc s) in
  let accepted := obs_is r "ok" in
  let mvalid := methods_valid trace ms in
  let e := opt_default [] (alookup p (live s)) in
  let dup := existsb (fun m => ahas m e) ms || negb (nodupb ms) in
  let twins := filter (fun pe => negb (beqb (fst pe) p) && same_up_to_names p (fst pe)) (live s) in
  let reserved := existsb (fun m => beqb m OPTIONS || beqb m HEAD || (trace && beqb m TRACE) || negb (is_method m)) ms in
  check (negb (accepted && reserved)) "C08:reserved-or-unknown-method-accepted" ++
  (if trace then check (negb (accepted && mem TRACE ms)) "C18:trace-registered-by-hand" else []) ++
  check (negb (accepted && dup)) "C17:duplicate-accepted" ++
  (* '{name:}' is another spelling of '{name}': same parse, different text - not "identical up to names" *)
  (let canonical (q : bytes) := match index q (bs ":}") with Some _ => false | None => true end in
   if accepted && Nat.eqb (length (live s)) 1 && Nat.eqb (length twins) 1 && canonical p &&
      forallb (fun pe => canonical (fst pe)) (live s)
   then (* after a Remove/Clean the only route's nodes may still be split where a removed sibling branched off;
           the segment-wise ambiguity check then misses the twin: listed finding F27 *)
        if addonly s then [cl "C17:twin-of-the-only-route-accepted"] else [cl "known:twin-of-only-route-accepted-after-removal"]
   else []) ++
  (match classify ic p with
   | PWf _ =>
     (* judged only while every live pattern is itself well-formed (e.g. /{-} is accepted by the code but
        outside the property's quantifier, and can be the twin of a well-formed pattern) *)
     match live_toks s with
     | Some _ =>
       (* a segment longer than the int16 limit is rejected for its length, not as ambiguous *)
       check (accepted || negb mvalid || dup || negb (match twins with [] => true | _ => false end) ||
              N.leb 32000 (N.of_nat (length p)))
             "C17:rejected-as-ambiguous-without-a-twin"
     | None => []
     end
   | PMalformed => check (negb accepted) "C17:malformed-pattern-accepted"
   | _ => []
   end) ++
  (* Handle agrees with CheckSyntax when no interceptor rule is involved *)
  (match alookup p (syn s), classify [] p, classify ic p with
   | Some synok, c0, c1 =>
     let no_icpt := match c1 with
                    | PWf ts => forallb (fun t => match t with TPar _ _ rule => negb (ahas rule ic) | _ => true end) ts
                    | PUnsupported => false
                    | _ => match ic with [] => true | _ => false end
                    end in
     if no_icpt then
       check (negb (accepted && negb synok)) "C05:handle-accepts-what-checksyntax-rejects" ++
       match live_toks s, c1 with
       | Some _, PWf _ =>
         check (accepted || negb synok || negb mvalid || dup || negb (match twins with [] => true | _ => false end))
               "C05:handle-rejects-what-checksyntax-accepts"
       | _, _ => []          (* twins of patterns outside the well-formed fragment (/{-}) are not decided here *)
       end
     else []
   | None, _, _ => []
   end).

(* ---------------------------------------------------------------- CORS (C11, C12) *)
(* the specification's notion of "requested headers are allowed" *)
Definition headers_allowed_ci (o : cors_opt) (acrh : bytes) : bool :=
  mem star (o_allow_headers o) ||
  forallb (fun item => let v := trim_space item in
                       match v with
                       | [] => match trim_space acrh with [] => true | _ => false end
                       | _ => existsb (fun a => beqb (to_lower a) (to_lower v)) (o_allow_headers o)
                       end)
          (split_byte 44 acrh).

Definition hdr_absent (f : bytes) : bool := beqb f (bs "-").
Definition hdr_is (f v : bytes) : bool := beqb f (bs "=" ++ v).
Definition hdr_values (f : bytes) : list bytes := match f with 61 :: r => split_byte 31 r | _ => [] end.

Definition set_eqb (a b : list bytes) : bool := list_beqb (sort_bytes (dedup a)) (sort_bytes (dedup b)).

Definition creq_clauses (s : srt) (o : line) (r : list bytes) : list bytes :=
  if obs_is r "panic" then [cl "C05:serve-panics"] else
  if unsup s then [] else
  let q := creq_of o in
  let c := copt s in
  let core := nth 0 r [] in let pat := nth 1 r [] in
  let acao := nth 2 r [] in let acac := nth 3 r [] in let acam := nth 4 r [] in let acah := nth 5 r [] in
  let aceh := nth 6 r [] in let acma := nth 7 r [] in let vary := nth 8 r [] in
  let trace := c_trace (tc s) in
  let any_o := mem star (o_origins c) in
  let any_h := mem star (o_allow_headers c) in
  let listed := mem (q_origin q) (o_origins c) in
  let no_handler := beqb core (bs "NF") || beqb core (bs "NA") in
  (* the matched route's Allow set, from the table *)
  let route_methods : option (list bytes) :=
    if beqb pat [] then
      Some (dedup (used_methods (live s) ++ [OPTIONS] ++ (if trace then [TRACE] else []) ++
                   (if mem GET (used_methods (live s)) then [HEAD] else [])))
    else option_map (spec_methods trace) (alookup pat (live s)) in
  let route_allow : option bytes := if beqb pat [] then None else option_map (spec_allow trace) (alookup pat (live s)) in
  let pre := is_preflight q in
  let acrm_served := match route_methods with Some ms => mem (q_acrm q) ms | None => false end in
  let hdrs_ok := headers_allowed_ci c (q_acrh q) in
  (* ---- C11: never more than configured *)
  check (hdr_absent acao || (hdr_is acao star && any_o) || (hdr_is acao (q_origin q) && listed)) "C11:allow-origin-not-configured" ++
  check (hdr_absent acac || (hdr_is acac (bs "true") && hdr_is acao (q_origin q) && listed && negb (hdr_is acao star)))
        "C11:credentials-without-listed-origin" ++
  check (negb (match o_origins c with [] => true | _ => false end) || hdr_absent acao) "C11:grant-without-configured-origins" ++
  check (negb no_handler || hdr_absent acao) "C11:grant-on-404-or-405" ++
  check (negb (pre && negb acrm_served) || hdr_absent acao) "C11:grant-for-unserved-preflight-method" ++
  check (negb (pre && negb hdrs_ok) || hdr_absent acao) "C11:grant-for-disallowed-request-header" ++
  (* ---- C12: exactly what was configured, for requests the configuration allows *)
  (let origin_ok := any_o || listed in
   let allowed := origin_ok && negb no_handler && negb (match o_origins c with [] => true | _ => false end) &&
                  (negb pre || (acrm_served && hdrs_ok)) in
   if negb allowed then [] else
   check (hdr_is acao (if any_o then star else q_origin q)) "C12:allow-origin-missing-or-wrong" ++
   check (if o_creds c then hdr_is acac (bs "true") else hdr_absent acac) "C12:allow-credentials" ++
   check (match o_exposed c with [] => hdr_absent aceh | l => hdr_is aceh (join (bs ",") l) end) "C12:expose-headers" ++
   (if pre then
      check (match route_allow with Some a => hdr_is acam a | None => negb (hdr_absent acam) end) "C12:allow-methods-is-not-the-route-allow-set" ++
      check (if any_h then has_prefix acah (bs "=*")
             else match o_allow_headers c with [] => hdr_absent acah | l => hdr_is acah (join (bs ",") l) end) "C12:allow-headers" ++
      check (if (o_max_age c =? 0)%Z then hdr_absent acma else hdr_is acma (Z_to_dec (o_max_age c))) "C12:max-age"
    else
      check (hdr_absent acam && hdr_absent acah && hdr_absent acma) "C12:preflight-headers-on-ordinary-request") ++
   (let v := hdr_values vary in
    let base := (if pre then [H_ACRM] else []) ++ (if any_o then [] else [H_ORIGIN]) in
    let with_h := H_ACRH :: base in
    let finite_list := negb any_h && negb (match o_allow_headers c with [] => true | _ => false end) in
    check (if pre && finite_list then set_eqb v with_h
           else if pre && any_h then set_eqb v base || set_eqb v with_h
           else set_eqb v base) "C12:vary")).

(* ---------------------------------------------------------------- HEAD vs GET (C08) *)
(* one response observation: core, status, body length, sent headers; and the rest of the fields *)
Definition split_writer_obs (l : list bytes) : (bytes * bytes * bytes * list (bytes * bytes)) * list bytes :=
  match l with
  | core :: st :: bd :: n :: rest =>
    let k := (2 * opt_default O (dec_to_nat n))%nat in
    ((core, st, bd, pairs (firstn k rest)), skipn k rest)
  | _ => (([], [], [], []), [])
  end.

(* something the GET response ignores but the HEAD wrapper still sees: a header mutation or a
   WriteHeader after the first body Write that was not preceded by an explicit WriteHeader *)
Fixpoint late_event (script : list wevent) (frozen written : bool) : bool :=
  match script with
  | [] => false
  | EWrite _ :: l => late_event l frozen (written || negb frozen)
  | EWriteHeader _ :: l => written || late_event l true written
  | (ESet _ _ | EAdd _ _ | EDel _) :: l => written || late_event l frozen written
  end.

Definition script_clauses (s : srt) (o : line) (r : list bytes) : list bytes :=
  if beqb (nth 0 r []) (bs "panic") then [cl "C05:serve-panics"] else
  let script := parse_events (fst (take_list (skipn 2 (args o)))) in
  let '((gcore, gst, gbd, gh), rest) := split_writer_obs r in
  if beqb (nth 0 rest []) (bs "panic") then [cl "C05:serve-panics"] else
  let '((hcore, hst, hbd, hh), _) := split_writer_obs rest in
  (* only when the GET request ran a registered handler *)
  if negb (has_prefix gcore (bs "U:")) then [] else
  let nocl (l : list (bytes * bytes)) := filter (fun kv => negb (beqb (fst kv) content_length)) l in
  let flat (l : list (bytes * bytes)) := flat_map (fun kv => [fst kv; snd kv]) l in
  let same := beqb gst hst && list_beqb (flat (nocl gh)) (flat (nocl hh)) in
  check (beqb gcore hcore) "C08:head-does-not-run-the-get-handler" ++
  check (beqb hbd (bs "0")) "C08:head-delivers-body-bytes" ++
  (if same then [] else
   if late_event script false false then [cl "known:late-header-on-head"]
   else check (beqb gst hst) "C08:head-status-differs-from-get" ++
        check (list_beqb (flat (nocl gh)) (flat (nocl hh))) "C08:head-headers-differ-from-get") ++
  (let total := fold_right (fun e a => match e with EWrite n => n + a | _ => a end) 0 script in
   let has_write := existsb (fun e => match e with EWrite _ => true | _ => false end) script in
   let explicit := existsb (fun e => match e with EWriteHeader _ => true | _ => false end) script in
   (* the script may set or delete Content-Length itself BETWEEN writes: the last write decides *)
   let touched_after_last_write :=
     fold_left (fun flag e => match e with
                              | EWrite _ => false
                              | ESet k _ | EAdd k _ | EDel k => flag || beqb k content_length
                              | _ => flag end) script false in
   if has_write && negb explicit && negb touched_after_last_write
   then check (beqb (opt_default [] (alookup content_length hh)) (N_to_dec total)) "C08:head-content-length"
   else []).

Definition tracehelper_clauses (o : line) (r : list bytes) : list bytes :=
  if obs_is r "panic" then [cl "C05:trace-helper-panics"] else
  let hs := pairs (skipn 3 r) in
  check (beqb (nth 0 r []) (bs "200")) "C18:trace-helper-status" ++
  check (beqb (opt_default [] (alookup content_type hs)) message_http) "C18:trace-helper-content-type-not-sent" ++
  check (beqb (nth 1 r []) (arg 2 o) && beqb (last r []) (arg 8 o) && beqb (N_to_dec (N.of_nat (length (arg 8 o)))) (arg 2 o))
        "C18:trace-helper-body-is-not-the-escaped-dump" ++
  check (match alookup content_length hs with Some v => beqb v (nth 1 r []) | None => true end)
        "C18:trace-helper-content-length-disagrees-with-body".

Definition is_observation (op : bytes) : bool :=
  beqb op (bs "serve") || beqb op (bs "routes") || beqb op (bs "dump") || beqb op (bs "url").

Definition oracle_all (s s' : srt) (o : line) (r : list bytes) : list bytes :=
  let op := arg 0 o in
  (if is_observation op then
     match memo_get o (memo s) with
     | Some old =>
       check (lines_eqb old r || negb (rejected s)) "C17:rejected-handle-changed-an-observation" ++
       check (lines_eqb old r || rejected s) "C03:observation-not-repeatable"
     | None => []
     end
   else []) ++
  (if beqb op (bs "serve") then serve_clauses s o r
   else if beqb op (bs "routes") then routes_clauses s r
   else if beqb op (bs "url") then url_clauses s o r
   else if beqb op (bs "handle") then handle_clauses s o r
   else if beqb op (bs "dump") then
     (* the invariants the tree theorems assume hold in this state (model state = dumped implementation state) *)
     (* judged while every registered pattern is well-formed: literal text with braces (e.g. "/{kind:") gives
        literal siblings with the same first byte, outside the properties' quantifier *)
     (if unsup s || negb (allwf s) then [] else
      let broken := negb (tree_inv_b (rtree (rt s))) in
      let cnt := negb (counters_ok (rtree (rt s))) in
      (if broken then map (fun p => p ++ bs ":tree-invariant-broken-in-reached-state") [bs "C01"; bs "C02"; bs "C03"; bs "C05"] else []) ++
      (if broken || cnt then [cl "C04:bitset-or-counter-invariant-broken-in-reached-state"] else []))
   else if beqb op (bs "c19eq") then
     (* the two runs may differ on a request for which the documented procedure admits several answers ("either may
        win": which of two same-kind parameters is tried first depends on incidental node order, and Prefix.Clean
        leaves an emptied inner node in place where Remove prunes it) *)
     check (obs_is r "1" || mem_nat (opt_default O (dec_to_nat (nth 1 r []))) (amb s))
           "C19:facade-program-differs-from-its-desugaring"
   else if beqb op (bs "creq") then creq_clauses s o r
   else if beqb op (bs "script") then script_clauses s o r
   else if beqb op (bs "tracehelper") then tracehelper_clauses o r
   else if beqb op (bs "syntax") || beqb op (bs "muxurl") then
     check (negb (obs_is r "panic")) "C05:syntax-or-url-panics"
   else if beqb op (bs "remove") || beqb op (bs "clean") || beqb op (bs "use") then
     check (negb (obs_is r "panic")) "C05:mutation-panics" ++ check (negb (obs_is r "panic")) "C03:mutation-panics"
   else []).

(* a check for property P reports the clauses of P only (suite "RT": everything) *)
Definition oracle_rt (s s' : srt) (o : line) (r : list bytes) : list bytes :=
  let all := oracle_all s s' o r in
  if beqb (pid s) (bs "RT") then all
  else filter (fun c => has_prefix c (pid s) ||
                        (has_prefix c (bs "known:late-header") && beqb (pid s) (bs "C08")) ||
                        (has_prefix c (bs "known:twin-of-only-route") && beqb (pid s) (bs "C17"))) all.

(* ---- the specification side follows what the implementation accepted *)
Definition absorb_rt0 (s : srt) (o : line) (r : list bytes) : srt :=
  let op := arg 0 o in
  let a := args o in
  let clear (s : srt) := s <| memo := [] |> <| rejected := false |> in
  if beqb op (bs "handle") then
    if obs_is r "ok" then
      let p := full_pattern s (arg 1 o) (arg 2 o) in
      let '(mws, rest) := take_list (skipn 4 a) in
      let '(ms, _) := take_list rest in
      clear (s <| live := t_handle (tc s) (live s) p (HUser (arg 3 o)) (mws ++ facade_mws s (arg 1 o) ++ uses s) ms |>
               <| frame := [] |>
               <| allwf := allwf s && match classify (c_ic (tc s)) p with PWf _ => true | _ => false end |>)
    else s <| rejected := true |>
  else if beqb op (bs "remove") then
    let p := full_pattern s (arg 1 o) (arg 2 o) in
    let '(ms, _) := take_list (skipn 3 a) in
    clear (s <| live := t_remove (live s) p ms |> <| addonly := false |>
             <| frame := filter (fun kv => negb (beqb (nth 2 (snd kv) []) p)) (frame s) |>)
  else if beqb op (bs "clean") then
    match target_facade s (arg 1 o) with
    | None => clear (s <| live := [] |> <| addonly := false |> <| frame := [] |>)
    | Some f =>
      if fprefix f then
        clear (s <| live := t_clean (live s) (fpat f) |> <| addonly := false |>
                 <| frame := filter (fun kv => negb (has_prefix (nth 2 (snd kv) []) (fpat f))) (frame s) |>)
      else
        clear (s <| live := t_remove (live s) (fpat f) [] |> <| addonly := false |>
                 <| frame := filter (fun kv => negb (beqb (nth 2 (snd kv) []) (fpat f))) (frame s) |>)
    end
  else if beqb op (bs "use") then
    let mws := fst (take_list (skipn 1 a)) in
    clear (s <| live := t_use (tc s) (live s) mws |> <| uses := uses s ++ mws |> <| frame := [] |>)
  else if beqb op (bs "syntax") then
    s <| syn := (arg 1 o, obs_is r "ok") :: syn s |>
  else if is_observation op then
    let s1 := s <| memo := memo_set o r (memo s) |> in
    if beqb op (bs "serve") && obs_is r "served" && beqb (nth 3 r []) (bs "1") && negb (beqb (nth 4 r []) [])
    then s1 <| frame := memo_set [arg 1 o; arg 2 o] ([nth 1 r []; nth 2 r []; nth 4 r []] ++ skipn 8 r) (frame s1) |>
    else s1
  else s.

Definition absorb_rt (s : srt) (o : line) (r : list bytes) : srt :=
  let ambiguous :=
    beqb (arg 0 o) (bs "serve") &&
    match live_toks s with
    | Some lt => match resolve (c_ic (tc s)) lt (arg 2 o) with _ :: _ :: _ => true | _ => false end
    | None => true                (* a table outside the judged fragment: no claim about this request *)
    end in
  let s1 := absorb_rt0 s o r in
  s1 <| opn := S (opn s) |> <| amb := if ambiguous then opn s :: amb s else amb s |>.

Definition tags_rt (s s' : srt) (o : line) (r : list bytes) : list bytes :=
  if unsup s' then [bs "unsup"] else
  let op := arg 0 o in
  if beqb op (bs "serve") then
    match r with
    | k :: _ =>
      if beqb k (bs "served") then
        let core := nth 2 r [] in
        [bs "serve";
         if beqb core (bs "NF") then bs "serve-404"
         else if beqb core (bs "NA") then bs "serve-405"
         else if beqb core (bs "OP") then bs "serve-options"
         else if beqb core (bs "TR") then bs "serve-trace" else bs "serve-user"] ++
        (match skipn 8 r with [] => [] | _ => [bs "serve-with-params"] end) ++
        (if beqb (arg 3 o) (bs "w") then [bs "serve-witness"] else [])
      else [bs "serve"; bs "serve-panic"]
    | _ => [bs "serve"]
    end
  else if beqb op (bs "dump") then
    [bs "dump"] ++ (if tree_inv_b (rtree (rt s)) then [bs "invariants-hold"] else bs "invariants-broken" :: inv_report (rtree (rt s)))
  else if beqb op (bs "handle") then [if obs_is r "ok" then bs "handle-ok" else bs "handle-rejected"]
  else if beqb op (bs "url") then [if obs_is r "ok" then bs "url-ok" else bs "url-err"]
  else [op].

(* once a case has left the modelled regexp fragment nothing more is compared *)
Definition step_rt' (s : srt) (o : line) : srt * list bytes :=
  if unsup s then (s, [bs "unsup"]) else
  let '(s', obs) := step_rt s o in
  let rejected_handle := beqb (arg 0 o) (bs "handle") && negb (lines_eqb obs [bs "ok"]) in
  (* While a pattern outside the well-formed fragment is LIVE, a rejected Handle may leave the implementation's tree
     split where the model's is untouched (longestPrefix can stop inside "{{"): later URL / dispatch observations of
     such a case are neither compared nor judged.  (With only well-formed patterns live, rejected calls are proved
     and observed to change nothing.) *)
  if rejected_handle && negb (allwf s) then (s' <| unsup := true |>, obs)
  else if rejected_handle &&
     match classify (c_ic (tc s)) (full_pattern s (arg 1 o) (arg 2 o)) with PWf _ => false | _ => true end
  then (s' <| shapeunk := true |>, obs) else (s', obs).



Definition suite_rt (pid : bytes) : suite :=
  {| St := srt; init := init_rt pid; step := step_rt'; oracle := oracle_rt; tags := tags_rt; absorb := absorb_rt |}.
