(* Suites C13 (Group dispatch, matchers leave no trace) and C16 (recovery). *)
From Coq Require Import String.
From RecordUpdate Require Import RecordSet.
From Mux Require Import Model.Bytes Model.Wire Model.Regex Model.Context Model.Syntax Model.Tree Model.Router Model.Match Model.Group.
From Mux Require Import Spec.Table Suites.SRT Suites.SMatch.
Import RecordSetNotations.

(* matcher specifications in prefix notation:
   any | hosts <n> d… | pv name <n> v… | hv name key <n> v… | and <n> spec… | or <n> spec… *)
Fixpoint parse_matcher (fuel : nat) (l : list bytes) : option (matcher * list bytes) :=
  match fuel with
  | O => None
  | S f =>
    match l with
    | [] => None
    | k :: rest =>
      if beqb k (bs "any") then Some (MAny, rest)
      else if beqb k (bs "hosts") then
        let '(ds, rest') := take_list rest in
        let t := fold_left (fun t d => match hosts_add t d with Ok t' => t' | _ => t end) ds hosts_new in
        Some (MHosts t, rest')
      else if beqb k (bs "pv") then
        match rest with
        | name :: rest1 => let '(vs, rest') := take_list rest1 in
                           match norm_versions vs with Some nvs => Some (MPathVer name nvs, rest') | None => None end
        | [] => None
        end
      else if beqb k (bs "hv") then
        match rest with
        | name :: key :: rest1 => let '(vs, rest') := take_list rest1 in Some (MHeaderVer name key vs, rest')
        | _ => None
        end
      else if beqb k (bs "and") || beqb k (bs "or") then
        match rest with
        | n :: rest1 =>
          (fix many (c : nat) (l : list bytes) (acc : list matcher) : option (matcher * list bytes) :=
             match c with
             | O => Some (if beqb k (bs "and") then MAnd (rev acc) else MOr (rev acc), l)
             | S c' => match parse_matcher f l with
                       | Some (m, l') => many c' l' (m :: acc)
                       | None => None
                       end
             end) (opt_default O (dec_to_nat n)) rest1 []
        | [] => None
        end
      else None
    end
  end.

(* Matcher specifications the model answers for: and/or nesting within the parser's fuel, Hosts lists whose every
   domain is accepted (NewHosts panics otherwise: a constructor failure, not a behaviour of the group) and ASCII *)
Fixpoint hosts_lists_ok (fuel : nat) (l : list bytes) : bool :=
  match fuel with
  | O => true
  | S f =>
    match l with
    | [] => true
    | k :: rest =>
      if beqb k (bs "hosts") then
        let '(ds, rest') := take_list rest in
        forallb (fun d => forallb (fun c => c <? 128) d) ds &&
        (fix adds (t : tree) (ds : list bytes) : bool :=
           match ds with
           | [] => true
           | d :: ds' => match hosts_add t d with Ok t' => adds t' ds' | _ => false end
           end) hosts_new ds &&
        hosts_lists_ok f rest'
      else hosts_lists_ok f rest
    end
  end.

(* parameter names of the domains of every Hosts matcher in a specification *)
Fixpoint spec_host_params_fuel (fuel : nat) (l : list bytes) : list bytes :=
  match fuel with
  | O => []
  | S f =>
    match l with
    | [] => []
    | k :: rest =>
      if beqb k (bs "hosts") then
        let '(ds, rest') := take_list rest in
        flat_map (fun d => match tokens (to_lower d) with Some ts => par_names ts | None => [] end) ds ++ spec_host_params_fuel f rest'
      else spec_host_params_fuel f rest
    end
  end.
Definition spec_host_params (l : list bytes) : list bytes := spec_host_params_fuel (S (length l)) l.

Definition spec_supported (l : list bytes) : bool :=
  hosts_lists_ok (S (length l)) l &&
  Nat.leb (length (filter (fun k => beqb k (bs "and") || beqb k (bs "or")) l)) 6.

(* routers created by Group.New answer 404 with the group's (unwrapped) not-found handler *)
Definition group_router (name : bytes) (trace : bool) : router :=
  let r := new_router name [] trace [] in
  let t := rtree r in
  {| rtree := {| troot := troot t; tcounts := tcounts t; tname := tname t; tnotfound := HGroupNotFound;
                 ttrace := ttrace t; tic := tic t |};
     rms := rms r; rdomain := rdomain r |}.

Record sgr := mk_sgr {
  grp : group;
  solo : list (bytes * (router * bool));     (* routers outside the group: name -> (router, recover) *)
  gpid : bytes;
  (* specification side *)
  gspec : list (bytes * (list bytes));       (* router name -> matcher specification (fields), in dispatch order *)
  guses : list bytes;
  gunsup : bool;                             (* the case has left the modelled fragment: nothing more is compared *)
}.
#[export] Instance eta_sgr : Settable _ := settable! mk_sgr <grp; solo; gpid; gspec; guses; gunsup>.

Definition init_gr (pid : bytes) (h : list line) : sgr :=
  {| grp := g_new_group false; solo := []; gpid := pid; gspec := []; guses := []; gunsup := false |}.

Fixpoint parse_raises (l : list bytes) : raises :=
  match l with a :: b :: c :: l' => (a, b, c) :: parse_raises l' | _ => [] end.

Fixpoint layers_of (h : hterm) : list bytes :=
  match h with HWrap mw _ _ _ inner => mw :: layers_of inner | _ => [] end.

Definition core_of_id (c : bytes) : hterm :=
  if has_prefix c (bs "U:") then HUser (skipn 2 c)
  else if beqb c (bs "NF") then HNotFound else if beqb c (bs "TR") then HTrace
  else if beqb c (bs "OP") then HOptions else if beqb c (bs "NA") then HNotAllowed else HGroupNotFound.

(* the value raised first when the layers (outermost first) around the core are run *)
Definition first_raise (rs : raises) (layers : list bytes) (core : bytes) : option bytes :=
  match run_h rs (fold_right (fun mw inner => HWrap mw [] [] [] inner) (core_of_id core) layers) with
  | Raised v => Some v
  | Done => None
  end.

Definition served_obs (head_wrapped : bool) (r : sres) : list bytes :=
  match r with
  | SPanic => [bs "panic"; bs "runtime"]
  | SOk s =>
    [bs "served"; print_core (s_handler s); print_h (s_handler s) ++ [31] ++ join [31] (layers_of (s_handler s)); s_router s; s_path s;
     join [31] (s_recovered s); match s_escaped s with Some v => bs "=" ++ v | None => bs "-" end;
     match s_node s with Some n => npat n | None => [] end;
     (* bytes the client received: the harness's recovery function writes a 9-byte body; the HEAD wrapper
        (installed only when a handler for HEAD was found) swallows it *)
     match s_recovered s with
     | [] => bs "0"
     | _ => if head_wrapped then bs "0" else bs "9"
     end] ++ flat_params (s_params s)
  end.

(* serveContext wraps the writer for HEAD only when Tree.Handler reported a registered handler *)
Definition head_wrapped_of (method : bytes) (r : sres) : bool :=
  beqb method HEAD &&
  match r with
  | SOk s => match s_node s with
             | Some n => match lookup_handler method (nhandlers n) with Some _ => true | None => false end
             | None => false
             end
  | SPanic => false
  end.

Definition mreq_of (o : line) (i : nat) : mreq :=
  (* fields from index i: host path accept parsed? <n> k v … *)
  {| m_host := arg i o; m_path := arg (i + 1) o; m_accept := arg (i + 2) o;
     m_parsed := if argb (i + 3) o then Some (pairs (fst (take_list (skipn (i + 4) (args o))))) else None |}.

Definition step_gr (s : sgr) (o : line) : sgr * list bytes :=
  let op := arg 0 o in
  let a := args o in
  if gunsup s then (s, [bs "unsup"]) else
  if beqb op (bs "gcfg") then (s <| grp := g_new_group (argb 1 o) |>, [bs "ok"])
  else if (beqb op (bs "gnew") || beqb op (bs "rnew")) && beqb (arg 1 o) [] then
    (s, [bs "panic"; bs "other"])                  (* tree.New refuses an empty router name *)
  else if (beqb op (bs "gnew") && negb (spec_supported (skipn 4 a))) || (beqb op (bs "gadd") && negb (spec_supported (skipn 2 a))) then
    (s <| gunsup := true |>, [bs "unsup"])
  else if beqb op (bs "greq") && negb (forallb (fun c => c <? 128) (arg 2 o)) then
    (s, [bs "unsup"])                              (* strings.ToLower of the Host is Unicode-aware *)
  else if beqb op (bs "gnew") then
    (* gnew name trace recover(-|0|1) spec… *)
    match parse_matcher 8 (skipn 4 a) with
    | None => (s, [bs "panic"; bs "other"])
    | Some (m, _) =>
      let rec := if beqb (arg 3 o) (bs "-") then g_recover (grp s) else argb 3 o in
      match g_add (grp s) m (group_router (arg 1 o) (argb 2 o)) rec with
      | Some g => (s <| grp := g |>, [bs "ok"])
      | None => (s, [bs "panic"; bs "other"])
      end
    end
  else if beqb op (bs "rnew") then
    (s <| solo := (arg 1 o, (new_router (arg 1 o) [] (argb 2 o) [], argb 3 o)) :: solo s |>, [bs "ok"])
  else if beqb op (bs "gremove") then
    (* the removed router object stays usable: it is kept (with its recovery option) among the routers outside the group *)
    let s1 := match List.find (fun x => beqb (gr_name x) (arg 1 o)) (g_routers (grp s)) with
              | Some x => s <| solo := aset (arg 1 o) (gr_router x, gr_recover x) (solo s) |>
              | None => s
              end in
    (s1 <| grp := g_remove (grp s) (arg 1 o) |>, [bs "ok"])
  else if beqb op (bs "gadd") then
    (* gadd name spec… : Group.Add(matcher, r) with an existing router object *)
    match alookup (arg 1 o) (solo s) with
    | None => (s, [bs "norouter"])
    | Some (r, rec) =>
      match parse_matcher 8 (skipn 2 a) with
      | None => (s, [bs "panic"; bs "other"])
      | Some (m, _) =>
        match g_add (grp s) m r rec with
        | Some g => (s <| grp := g |> <| solo := adelete (arg 1 o) (solo s) |>, [bs "ok"])
        | None => (s, [bs "panic"; bs "other"])
        end
      end
    end
  else if beqb op (bs "guse") then (s <| grp := g_use (grp s) (fst (take_list (skipn 1 a))) |>, [bs "ok"])
  else if beqb op (bs "ruse") then
    let mws := fst (take_list (skipn 2 a)) in
    match alookup (arg 1 o) (solo s) with
    | Some (r, rec) => (s <| solo := aset (arg 1 o) (r_use r mws, rec) (solo s) |>, [bs "ok"])
    | None => (s <| grp := g_update (grp s) (arg 1 o) (fun r => r_use r mws) |>, [bs "ok"])
    end
  else if beqb op (bs "ghandle") then
    (* ghandle router pattern hid <n> mws <n> methods *)
    let '(mws, rest) := take_list (skipn 4 a) in
    let '(ms, _) := take_list rest in
    let upd (r : router) : res router := r_handle r (arg 2 o) (HUser (arg 3 o)) mws ms in
    match alookup (arg 1 o) (solo s) with
    | Some (r, rec) =>
      match upd r with
      | Ok r' => (s <| solo := aset (arg 1 o) (r', rec) (solo s) |>, [bs "ok"])
      | x => (s, res_obs x)
      end
    | None =>
      match List.find (fun x => beqb (gr_name x) (arg 1 o)) (g_routers (grp s)) with
      | Some x => match upd (gr_router x) with
                  | Ok r' => (s <| grp := g_update (grp s) (arg 1 o) (fun _ => r') |>, [bs "ok"])
                  | y => (s, res_obs y)
                  end
      | None => (s, [bs "norouter"])
      end
    end
  else if beqb op (bs "greq") then
    (* greq method host path accept parsed? <n> k v … <m> (layer phase value)… *)
    let q := mreq_of o 2 in
    let rs := parse_raises (fst (take_list (snd (take_list (skipn 6 a))))) in
    let res := g_serve (grp s) q rs (arg 1 o) in
    (s, served_obs (head_wrapped_of (arg 1 o) res) res)
  else if beqb op (bs "rreq") then
    (* rreq router method path <m> raises… *)
    let rs := parse_raises (fst (take_list (skipn 4 a))) in
    match alookup (arg 1 o) (solo s) with
    | Some (r, rec) => let res := serve_ctx r rec rs (arg 2 o) (arg 3 o) [] in
                       (s, served_obs (head_wrapped_of (arg 2 o) res) res)
    | None => (s, [bs "norouter"])
    end
  else if beqb op (bs "poolprobe") then (s, [bs "1"])    (* two contexts taken from the pool are distinct objects *)
  else (s, [bs "unknown-op"]).

(* ---------------------------------------------------------------- oracles *)
(* C13 is judged against the matchers taken one by one (C14/C15 judge those): which router is
   first to accept the request as received, what it must see, and that nothing else shows. *)
Definition spec_accepts (spec : list bytes) (q : mreq) : option (bool * mreq * params) :=
  match parse_matcher 8 spec with
  | Some (m, _) =>
    (* the declarative reading: And = all members in sequence, Or = first accepting member;
       a rejecting matcher, alone or inside a combination, has no effect *)
    (fix ev (fuel : nat) (m : matcher) (q : mreq) (ps : params) : option (bool * mreq * params) :=
       match fuel with
       | O => None
       | S f =>
         match m with
         | MAnd l => (fix go l q' ps' := match l with
                                        | [] => Some (true, q', ps')
                                        | x :: l' => match ev f x q' ps' with
                                                     | Some (true, q2, ps2) => go l' q2 ps2
                                                     | Some (false, _, _) => Some (false, q, ps)
                                                     | None => None end end) l q ps
         | MOr l => (fix go l := match l with
                                 | [] => Some (false, q, ps)
                                 | x :: l' => match ev f x q ps with
                                              | Some (true, q2, ps2) => Some (true, q2, ps2)
                                              | Some (false, _, _) => go l'
                                              | None => None end end) l
         | _ => match m_match m q ps with
                | MR true q2 ps2 => Some (true, q2, ps2)
                | MR false _ _ => Some (false, q, ps)
                | MRPanic => None
                end
         end
       end) 8%nat m q []
  | None => None
  end.

Fixpoint first_accepting (l : list (bytes * list bytes)) (q : mreq) : option (option (bytes * mreq * params)) :=
  match l with
  | [] => Some None
  | (name, spec) :: l' =>
    match spec_accepts spec q with
    | None => None
    | Some (true, q', ps) => Some (Some (name, q', ps))
    | Some (false, _, _) => first_accepting l' q
    end
  end.

Definition oracle_gr_all (s s' : sgr) (o : line) (r : list bytes) : list bytes :=
  let op := arg 0 o in
  let a := args o in
  if beqb op (bs "greq") || beqb op (bs "rreq") then
    let is_g := beqb op (bs "greq") in
    let rs := if is_g then parse_raises (fst (take_list (snd (take_list (skipn 6 a)))))
              else parse_raises (fst (take_list (skipn 4 a))) in
    if obs_is r "norouter" then [] else     (* no such router outside the group (it joined the group): nothing was served *)
    if obs_is r "panic" then [cl "C05:serve-panics"; cl "C16:panic-escaped-outside-the-observed-path"] else
    let core := nth 1 r [] in
    let tl_ := split_byte 31 (nth 2 r []) in
    let term := nth 0 tl_ [] in let layers := filter (fun x => negb (beqb x [])) (skipn 1 tl_) in
    let rname := nth 3 r [] in let path := nth 4 r [] in
    let recovered := nth 5 r [] in let escaped := nth 6 r [] in
    let ps := pairs (skipn 9 r) in
    let bodylen := nth 8 r [] in
    (* ---- C13: first accepting router, request as the matcher produced it, matcher params present *)
    (if is_g then
       match first_accepting (gspec s) (mreq_of o 2) with
       | None => []
       | Some None =>
         check (beqb core (bs "GNF") && beqb rname []) "C13:no-router-accepts-but-one-served" ++
         check (beqb term (print_h (apply_mw HGroupNotFound [] [] [] (guses s)))) "C13:group-not-found-middlewares" ++
         check (beqb path (arg 3 o)) "C13:rejections-changed-the-request-path" ++
         check (match ps with [] => true | _ => false end) "C13:rejections-left-parameters"
       | Some (Some (name, q', mps)) =>
         check (beqb rname name) "C13:not-the-first-accepting-router" ++
         check (beqb path (m_path q')) "C13:router-saw-a-different-path" ++
         (* F28 (repaired): a Hosts member whose lookup backtracks over (or rejects after) a domain parameter used to
            delete an earlier member's parameter of the same name; any loss is a violation *)
         (let lost := filter (fun kv => negb (match ctx_get ps (fst kv) with Some v => beqb v (snd kv) | None => false end)) mps in
          match lost with
          | [] => []
          | _ => [bs "C13:matcher-parameters-missing"]
          end) ++
         (* nothing but the accepting matcher's parameters and the route's own captures *)
         (match tokens (nth 7 r []) with
          | Some ts => check (forallb (fun kv => ahas (fst kv) mps || mem (fst kv) (capture_names ts)) ps)
                             "C13:parameters-left-by-a-rejecting-matcher"
          | None => match nth 7 r [] with
                    | [] => check (forallb (fun kv => ahas (fst kv) mps) ps) "C13:parameters-left-by-a-rejecting-matcher"
                    | _ => []
                    end
          end)
       end
     else []) ++
    (* ---- C01: the reported parameters are the matcher's and the route's captures, nothing left from elsewhere *)
    (let mps := if is_g then match first_accepting (gspec s) (mreq_of o 2) with
                             | Some (Some (_, _, m)) => Some m | Some None => Some [] | None => None end
                else Some [] in
     match mps, tokens (nth 7 r []) with
     | Some m, Some ts =>
       check (forallb (fun kv => ahas (fst kv) m || mem (fst kv) (capture_names ts)) ps)
             (match nth 7 r [] with [] => "C01:404-reports-parameters" | _ => "C01:reported-parameters-not-exactly-the-capturing-ones" end)
     | Some m, None =>
       match nth 7 r [] with
       | [] => check (forallb (fun kv => ahas (fst kv) m) ps) "C01:404-reports-parameters"
       | _ => []
       end
     | None, _ => []
     end) ++
    (* ---- C18: TRACE is answered by the trace handler exactly on routers created with the option *)
    (let traced :=
       if is_g then match List.find (fun x => beqb (gr_name x) rname) (g_routers (grp s)) with
                    | Some x => Some (has_trace (rtree (gr_router x))) | None => None end
       else match alookup (arg 1 o) (solo s) with Some (rr, _) => Some (has_trace (rtree rr)) | None => None end in
     let method := arg (if is_g then 1 else 2) o in
     match traced with
     | Some tr =>
       check (negb (beqb core (bs "TR")) || (tr && beqb method TRACE)) "C18:trace-handler-without-option" ++
       check (negb (tr && beqb method TRACE) || beqb core (bs "TR")) "C18:trace-request-not-answered-by-the-trace-handler"
     | None => []
     end) ++
    (* ---- C16: the first raised value reaches the recovery function exactly once, or escapes unchanged *)
    (let recover_on :=
       if is_g then
         if beqb rname [] then g_recover (grp s)          (* the group's own not-found handler *)
         else match List.find (fun x => beqb (gr_name x) rname) (g_routers (grp s)) with
              | Some x => gr_recover x | None => false end
       else match alookup (arg 1 o) (solo s) with Some (_, rec) => rec | None => false end in
     (* which value is raised first is decided by the onion order of the handler that ran (C09 judges that order) *)
     let expected := first_raise rs layers core in
     (if beqb (arg (if is_g then 1 else 2) o) HEAD && beqb core (bs "U:" ++ skipn 2 core) && has_prefix core (bs "U:")
      then check (beqb bodylen (bs "0")) "C08:head-delivers-body-bytes" else []) ++
     match expected with
     | None => check (beqb recovered [] && beqb escaped (bs "-")) "C16:recovery-without-a-panic"
     | Some v =>
       if recover_on then
         check (beqb escaped (bs "-")) "C16:panic-escaped-despite-recovery" ++
         check (beqb recovered v) "C16:recovery-function-did-not-get-the-value-exactly-once"
       else
         check (beqb escaped (bs "=" ++ v)) "C16:panic-value-not-passed-through" ++
         check (beqb recovered []) "C16:recovery-function-called-without-the-option"
     end)
  else if beqb op (bs "poolprobe") then
    check (obs_is r "1") "C16:context-returned-to-the-pool-twice" ++ check (obs_is r "1") "C07:context-returned-to-the-pool-twice"
  else if beqb op (bs "gremove") || beqb op (bs "guse") || beqb op (bs "ruse") || (beqb op (bs "ghandle") && obs_is r "panic" && beqb (nth 1 r []) (bs "runtime")) then
    check (negb (obs_is r "panic")) "C13:group-mutation-faulted" ++ check (negb (obs_is r "panic")) "C05:mutation-panics"
  else if beqb op (bs "gnew") || beqb op (bs "gadd") then
    check (negb (obs_is r "ok" && ahas (arg 1 o) (gspec s))) "C13:duplicate-router-name-accepted" ++
    (* the harness's twin group (same option array, its own recovery function) must still contain panics *)
    check (negb (mem (bs "twin-group-lost-its-recovery-option") r)) "C16:panic-escaped-despite-recovery"
  else [].

Definition oracle_gr (s s' : sgr) (o : line) (r : list bytes) : list bytes :=
  filter (fun c => has_prefix c (gpid s) || beqb (gpid s) (bs "GR")) (oracle_gr_all s s' o r).

Definition absorb_gr (s : sgr) (o : line) (r : list bytes) : sgr :=
  let op := arg 0 o in
  if beqb op (bs "gnew") && obs_is r "ok" then s <| gspec := gspec s ++ [(arg 1 o, skipn 4 (args o))] |>
  else if beqb op (bs "gadd") && obs_is r "ok" then s <| gspec := gspec s ++ [(arg 1 o, skipn 2 (args o))] |>
  else if beqb op (bs "gremove") then s <| gspec := filter (fun kv => negb (beqb (fst kv) (arg 1 o))) (gspec s) |>
  else if beqb op (bs "guse") then s <| guses := guses s ++ fst (take_list (skipn 1 (args o))) |>
  else if beqb op (bs "gcfg") then s <| gspec := [] |> <| guses := [] |>
  else s.

Definition tags_gr (s s' : sgr) (o : line) (r : list bytes) : list bytes :=
  let op := arg 0 o in
  if beqb op (bs "greq") || beqb op (bs "rreq") then
    [op; op ++ bs "-" ++ nth 1 r []] ++
    (if beqb (nth 5 r []) [] then [] else [bs "recovered"]) ++
    (if beqb (nth 6 r []) (bs "-") then [] else [bs "escaped"])
  else [op].

Definition suite_gr (pid : bytes) : suite :=
  {| St := sgr; init := init_gr pid; step := step_gr; oracle := oracle_gr; tags := tags_gr; absorb := absorb_gr |}.
