(* Suites C14 (Hosts matcher) and C15 (version matchers). *)
From Coq Require Import String.
From RecordUpdate Require Import RecordSet.
From Mux Require Import Model.Bytes Model.Wire Model.Regex Model.Context Model.Syntax Model.Tree Model.Router Model.Match.
From Mux Require Import Spec.Table Spec.Resolve Suites.SRT.
Import RecordSetNotations.

Record smx := mk_smx {
  htree : tree;
  hlive : list bytes;          (* registered domain patterns (lower-cased), as the implementation accepted them *)
  hthen : list (bytes * list bytes);   (* … and the interceptor names that existed when each was added: a rule keeps the
                                          meaning it had at Add time (the segment is built then) *)
  hic : icpts;
  hunsup : bool;
  haddonly : bool;
  mpid : bytes;
}.
#[export] Instance eta_smx : Settable _ := settable! mk_smx <htree; hlive; hthen; hic; hunsup; haddonly; mpid>.

Definition init_mx (pid : bytes) (h : list line) : smx :=
  {| htree := hosts_new; hlive := []; hthen := []; hic := []; hunsup := false; haddonly := true; mpid := pid |}.

Definition params_of (l : list bytes) : params :=
  fold_left (fun acc kv => ctx_set acc (fst kv) (snd kv)) (pairs l) [].

Definition pv_spec_obs (r : bool * bytes * params) : list bytes :=
  let '(ok, p, ps) := r in [bool_field ok; p] ++ flat_params ps.

Definition step_mx (s : smx) (o : line) : smx * list bytes :=
  let op := arg 0 o in
  let a := args o in
  if beqb op (bs "pv") then
    (* pv name <n> versions… path <m> k v … *)
    let '(vs, rest) := take_list (skipn 2 a) in
    let path := nth 0 rest [] in
    let ps := params_of (fst (take_list (skipn 1 rest))) in
    match norm_versions vs with
    | None => (s, [bs "panic"; bs "other"])
    | Some nvs => (s, pv_spec_obs (pathver_match (arg 1 o) nvs path ps))
    end
  else if beqb op (bs "hv") then
    (* hv name key <n> versions… accept parsed? <m> k v … <m2> k v … *)
    let '(vs, rest) := take_list (skipn 3 a) in
    let accept := nth 0 rest [] in
    let parsed_ok := beqb (nth 1 rest []) (bs "1") in
    let '(kv, rest2) := take_list (skipn 2 rest) in
    let ps := params_of (fst (take_list rest2)) in
    let '(ok, ps') := headerver_match (arg 1 o) (arg 2 o) vs accept (if parsed_ok then Some (pairs kv) else None) ps in
    (s, bool_field ok :: flat_params ps')
  else if hunsup s then (s, [bs "unsup"])
  (* strings.ToLower on a domain is Unicode-aware (and repairs invalid UTF-8): non-ASCII domains are outside the model *)
  else if (beqb op (bs "hadd") || beqb op (bs "hdel")) && negb (forallb (fun c => c <? 128) (arg 1 o)) then
    (s <| hunsup := true |>, [bs "unsup"])
  else if beqb op (bs "hadd") then
    match hosts_add (htree s) (arg 1 o) with
    | Ok t => (s <| htree := t |>, [bs "ok"])
    | Unsup => (s <| hunsup := true |>, [bs "unsup"])
    | r => (s, res_obs r)
    end
  else if beqb op (bs "hdel") then
    match hosts_delete (htree s) (arg 1 o) with
    | Ok t => (s <| htree := t |>, [bs "ok"])
    | Unsup => (s <| hunsup := true |>, [bs "unsup"])
    | r => (s, res_obs r)
    end
  else if beqb op (bs "hicpt") && ahas (arg 1 o) (hic s) then
    (s, [bs "panic"; bs "other"])                  (* Interceptors.Add refuses a name that is already registered *)
  else if beqb op (bs "hicpt") then
    (s <| htree := hosts_register (htree s) (arg 1 o) (icpt_of_kind (arg 2 o)) |>
       <| hic := (arg 1 o, icpt_of_kind (arg 2 o)) :: hic s |>, [bs "ok"])
  else if beqb op (bs "hmatch") then
    let ps := params_of (fst (take_list (skipn 2 a))) in
    (* strings.ToLower is Unicode-aware: non-ASCII hosts are outside the model (still judged for panics) *)
    if negb (forallb (fun c => c <? 128) (arg 1 o)) then (s, [bs "unsup"]) else
    match hosts_match (htree s) (arg 1 o) ps with
    | None => (s, [bs "panic"; bs "runtime"])
    | Some (ok, ps') => (s, bool_field ok :: flat_params ps')
    end
  else if beqb op (bs "hdump") then (s, dump_tree (htree s))
  else (s, [bs "unknown-op"]).

(* ---------------------------------------------------------------- oracles *)
(* C15, stated without the code's loop: the first listed version whose "/v/" form begins the path *)
Definition pv_expect (name : bytes) (vs : list bytes) (path : bytes) (ps : params) : option (bool * bytes * params) :=
  match norm_versions vs with
  | None => None
  | Some nvs =>
    match List.find (fun v => has_prefix path v) nvs with
    | Some v => let seg := firstn (length v - 1) v in    (* "/version" *)
                Some (true, skipn (length seg) path, match name with [] => ps | _ => ctx_set ps name seg end)
    | None => Some (false, path, ps)
    end
  end.

(* a rule name of [p] that is an interceptor now but was not when [p] was added (or the reverse) *)
Definition meaning_changed (s : smx) (p : bytes) (ts : list tok) : bool :=
  let thn := opt_default [] (alookup p (hthen s)) in
  existsb (fun t => match t with
                    | TPar _ _ rule => negb (Bool.eqb (mem rule thn) (ahas rule (hic s)))
                    | TLit _ => false end) ts.

Definition hosts_live_toks (s : smx) : option (list (bytes * list tok)) :=
  fold_right (fun p acc =>
    match acc, tokens p with
    | Some l, Some ts => if all_kinds_ok (hic s) ts && negb (meaning_changed s p ts) then Some ((p, ts) :: l) else None
    | _, _ => None
    end) (Some []) (hlive s).

Definition is_ascii (b : bytes) : bool := forallb (fun c => c <? 128) b.

Definition oracle_mx_all (s s' : smx) (o : line) (r : list bytes) : list bytes :=
  let op := arg 0 o in
  let a := args o in
  if beqb op (bs "pv") then
    let '(vs, rest) := take_list (skipn 2 a) in
    let path := nth 0 rest [] in
    let ps := params_of (fst (take_list (skipn 1 rest))) in
    match pv_expect (arg 1 o) vs path ps with
    | None => []                                  (* an empty version: the constructor panics by contract *)
    | Some e =>
      check (negb (obs_is r "panic")) "C05:version-matcher-panics" ++
      check (lines_eqb r (pv_spec_obs e)) "C15:path-version"
    end
  else if beqb op (bs "hv") then
    let '(vs, rest) := take_list (skipn 3 a) in
    let accept := nth 0 rest [] in
    let parsed_ok := beqb (nth 1 rest []) (bs "1") in
    let '(kv, rest2) := take_list (skipn 2 rest) in
    let ps := params_of (fst (take_list rest2)) in
    let key := match arg 2 o with [] => bs "version" | k => k end in
    let ver := opt_default [] (alookup key (pairs kv)) in
    let should := negb (beqb accept []) && parsed_ok && mem ver vs in
    let exp := if should then match arg 1 o with [] => ps | n => ctx_set ps n ver end else ps in
    check (negb (obs_is r "panic")) "C05:version-matcher-panics" ++
    check (lines_eqb r (bool_field should :: flat_params exp)) "C15:header-version"
  else if beqb op (bs "hmatch") then
    check (negb (obs_is r "panic")) "C05:hosts-match-panics" ++
    (if hunsup s || negb (is_ascii (arg 1 o)) || obs_is r "panic" then [] else
     match (match hosts_live_toks s with
            | Some l => if forallb (fun pt => match index (fst pt) (bs ":}") with Some _ => false | None => true end) l
                        then Some l else None      (* canonical spellings only, as in C02 *)
            | None => None end) with
     | None => []
     | Some lt =>
       let ps0 := params_of (fst (take_list (skipn 2 a))) in
       let host := normalise_host (arg 1 o) in
       let accepted := obs_is r "1" in
       let got := pairs (skipn 1 r) in
       let special := beqb host [] || beqb host (bs "*") in
       let outs := resolve (hic s) lt host in
       let dom_names := flat_map (fun pt => par_names (snd pt)) lt in
       let without_domain_params (p : params) := filter (fun kv => negb (mem (fst kv) dom_names)) p in
       let expect_ps (o' : bytes * params) := fold_left (fun acc kv => ctx_set acc (fst kv) (snd kv)) (snd o') ps0 in
       if special then check (negb accepted) "C14:empty-or-star-host-accepted" else
       (* soundness on every history: an accepted host instantiates a registered domain *)
       (if accepted then
          check (existsb (fun pt => existsb (fun o' => beqb (fst o') (fst pt)) (resolve (hic s) [pt] host)) lt)
                "C14:accepted-host-matches-no-registered-domain"
        else
          (* F28 (repaired): the lookup's backtracking used to delete a parameter that was there BEFORE the lookup when a
             domain parameter has the same name; any change of the parameters by a rejection is a violation *)
          if params_eqb got ps0 then []
          else [bs "C14:rejection-left-parameters"]) ++
       (* exact resolution while domains were only added, and on simple witnesses afterwards *)
       let wargs := snd (take_list (skipn 2 a)) in
       let simple :=
         beqb (nth 0 wargs []) (bs "w") &&
         match alookup (nth 1 wargs []) lt with
         | None => false
         | Some ts =>
           let vals := pairs (fst (take_list (skipn 2 wargs))) in
           let lb := lit_bytes lt in
           forallb (fun t => match t with
                             | TPar _ n rule =>
                               match ctx_get vals n with
                               | Some v => accepts (kind_of (hic s) rule) v && forallb (fun c => negb (existsb (N.eqb c) lb)) v
                               | None => false
                               end
                             | TLit _ => true end) ts &&
           match instantiate ts vals with Some x => beqb x host | None => false end
         end in
       (if haddonly s || simple then
          if (if accepted then existsb (fun o' => params_eqb (expect_ps o') got) outs
              else match outs with [] => true | _ => false end) then []
          else [bs "C14:host-resolution-differs-from-documented-procedure"]
        else [])
     end)
  else if beqb op (bs "hadd") then check (negb (obs_is r "panic" && beqb (nth 1 r []) (bs "runtime"))) "C05:hosts-add-runtime-fault"
  else if beqb op (bs "hdel") then check (negb (obs_is r "panic")) "C05:hosts-delete-panics"
  else [].

Definition oracle_mx (s s' : smx) (o : line) (r : list bytes) : list bytes :=
  filter (fun c => has_prefix c (mpid s) || beqb (mpid s) (bs "MX")) (oracle_mx_all s s' o r).

Definition absorb_mx (s : smx) (o : line) (r : list bytes) : smx :=
  let op := arg 0 o in
  if beqb op (bs "hadd") && obs_is r "ok" then
    s <| hlive := to_lower (arg 1 o) :: filter (fun p => negb (beqb p (to_lower (arg 1 o)))) (hlive s) |>
      <| hthen := aset (to_lower (arg 1 o)) (map fst (hic s)) (hthen s) |>
  else if beqb op (bs "hdel") then
    s <| hlive := filter (fun p => negb (beqb p (to_lower (arg 1 o)))) (hlive s) |> <| haddonly := false |>
      <| hthen := adelete (to_lower (arg 1 o)) (hthen s) |>
  else s.

Definition tags_mx (s s' : smx) (o : line) (r : list bytes) : list bytes :=
  let op := arg 0 o in
  if beqb op (bs "pv") || beqb op (bs "hv") || beqb op (bs "hmatch") then
    [op; if obs_is r "1" then op ++ bs "-accept" else op ++ bs "-reject"] ++
    (match skipn 2 r with [] => [] | _ => [op ++ bs "-with-params"] end)
  else [op].

Definition suite_mx (pid : bytes) : suite :=
  {| St := smx; init := init_mx pid; step := step_mx; oracle := oracle_mx; tags := tags_mx; absorb := absorb_mx |}.
