(* Suite C20: Params accessors. *)
From Coq Require Import String.
From Mux Require Import Model.Bytes Model.Wire Model.Context.

Record s20 := { tbl : list (bytes * list bytes); cs : cstate }.

Definition tbl_conv (t : list (bytes * list bytes)) (i : nat) (zero : bytes) (v : bytes) : bytes * bytes :=
  match alookup v t with
  | Some l => (nth i l [], nth (Datatypes.S i) l [])
  | None => (zero, bs "no-table-entry")
  end.
Definition sc_of (t : list (bytes * list bytes)) : strconv :=
  {| p_int := tbl_conv t 0 (bs "0"); p_uint := tbl_conv t 2 (bs "0");
     p_bool := tbl_conv t 4 (bs "false"); p_float := tbl_conv t 6 (bs "0000000000000000") |}.

Definition init20 (h : list line) : s20 :=
  {| tbl := map (fun l => (arg 1 l, skipn 2 (args l))) (filter (is_tag "H") h);
     cs := {| cur := []; pool := [] |} |}.

Definition flat (ps : params) : list bytes := flat_map (fun kv => [fst kv; snd kv]) ps.
Definition obs_state (ps : params) : list bytes := nat_to_dec (ctx_count ps) :: flat (ctx_range ps).

Definition probe_obs (sc : strconv) (ps : params) (k dstr dint duint dbool dfloat : bytes) : list bytes :=
  let g := ctx_get ps k in
  let '(sv, se) := ctx_string ps k in
  let '(iv, ie) := ctx_conv (p_int sc) (bs "0") ps k in
  let '(uv, ue) := ctx_conv (p_uint sc) (bs "0") ps k in
  let '(bv, be) := ctx_conv (p_bool sc) (bs "false") ps k in
  let '(fv, fe) := ctx_conv (p_float sc) (bs "0000000000000000") ps k in
  [ bool_field (match g with Some _ => true | None => false end); opt_default [] g;
    bool_field (ctx_exists ps k); sv; se; ctx_must_string ps k dstr;
    iv; ie; ctx_must (p_int sc) ps k dint;
    uv; ue; ctx_must (p_uint sc) ps k duint;
    bv; be; ctx_must (p_bool sc) ps k dbool;
    fv; fe; ctx_must (p_float sc) ps k dfloat;
    nat_to_dec (ctx_count ps) ].

Definition with_cur (s : s20) (ps : params) : s20 :=
  {| tbl := tbl s; cs := {| cur := ps; pool := pool (cs s) |} |}.

Definition step20 (s : s20) (o : line) : s20 * list bytes :=
  let op := arg 0 o in
  let ps := cur (cs s) in
  if beqb op (bs "set") then let ps' := ctx_set ps (arg 1 o) (arg 2 o) in (with_cur s ps', obs_state ps')
  else if beqb op (bs "del") then let ps' := ctx_delete ps (arg 1 o) in (with_cur s ps', obs_state ps')
  else if beqb op (bs "reset") then (with_cur s (c_reset ps), obs_state (c_reset ps))
  (* quiet mutations: only Count is looked at, so that no Range separates them from the next mutation *)
  else if beqb op (bs "qset") then let ps' := ctx_set ps (arg 1 o) (arg 2 o) in (with_cur s ps', [nat_to_dec (ctx_count ps')])
  else if beqb op (bs "qdel") then let ps' := ctx_delete ps (arg 1 o) in (with_cur s ps', [nat_to_dec (ctx_count ps')])
  else if beqb op (bs "range") then (s, obs_state ps)
  else if beqb op (bs "cycle") then
    let c := c_new (c_destroy (cs s)) in ({| tbl := tbl s; cs := c |}, obs_state (cur c))
  else if beqb op (bs "probe") then
    (s, probe_obs (sc_of (tbl s)) ps (arg 1 o) (arg 2 o) (arg 3 o) (arg 4 o) (arg 5 o) (arg 6 o))
  else (s, [bs "unknown-op"]).

(* The property, judged on the implementation's observation [r]. *)
Definition conv_ok (f : bytes -> bytes * bytes) (zero : bytes) (found : bool) (gv v e must def : bytes) : bool :=
  if found then
    let '(ev, ee) := f gv in
    beqb v ev && beqb e ee && beqb must (match ee with [] => ev | _ => def end)
  else beqb v zero && beqb e err_not_exists && beqb must def.

Definition oracle20 (s s' : s20) (o : line) (r : list bytes) : list bytes :=
  let op := arg 0 o in
  let f i := nth i r [] in
  if beqb op (bs "probe") then
    let sc := sc_of (tbl s) in
    let ps := cur (cs s) in
    let k := arg 1 o in
    let found := beqb (f 0%nat) (bs "1") in
    let gv := f 1%nat in
    (if Bool.eqb found (ctx_exists ps k) && beqb gv (opt_default [] (ctx_get ps k)) then [] else [bs "get-vs-captured"]) ++
    (if beqb (f 2%nat) (f 0%nat) then [] else [bs "exists-vs-get"]) ++
    (if (if found then beqb (f 3%nat) gv && beqb (f 4%nat) [] else beqb (f 3%nat) [] && beqb (f 4%nat) err_not_exists)
     then [] else [bs "string-vs-get"]) ++
    (if beqb (f 5%nat) (if found then gv else arg 2 o) then [] else [bs "must-string"]) ++
    (if conv_ok (p_int sc) (bs "0") found gv (f 6%nat) (f 7%nat) (f 8%nat) (arg 3 o) then [] else [bs "int"]) ++
    (if conv_ok (p_uint sc) (bs "0") found gv (f 9%nat) (f 10%nat) (f 11%nat) (arg 4 o) then [] else [bs "uint"]) ++
    (if conv_ok (p_bool sc) (bs "false") found gv (f 12%nat) (f 13%nat) (f 14%nat) (arg 5 o) then [] else [bs "bool"]) ++
    (if conv_ok (p_float sc) (bs "0000000000000000") found gv (f 15%nat) (f 16%nat) (f 17%nat) (arg 6 o) then [] else [bs "float"]) ++
    (if beqb (f 18%nat) (nat_to_dec (length ps)) then [] else [bs "count"])
  else if beqb op (bs "cycle") then
    (if lines_eqb r [bs "0"] then [] else [bs "pool-not-empty"])
  else if beqb op (bs "qset") || beqb op (bs "qdel") then
    (if lines_eqb r [nat_to_dec (ctx_count (cur (cs s')))] then [] else [bs "count"])
  else
    (if lines_eqb r (obs_state (cur (cs s'))) then [] else [bs "map-law"]).

Definition tags20 (s s' : s20) (o : line) (r : list bytes) : list bytes :=
  let op := arg 0 o in
  if beqb op (bs "probe") then
    [if ctx_exists (cur (cs s)) (arg 1 o) then bs "probe-hit" else bs "probe-miss"]
  else [op].

Definition suite20 : suite :=
  {| St := s20; init := init20; step := step20; oracle := oracle20; tags := tags20; absorb := fun s _ _ => s |}.
