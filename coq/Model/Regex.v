(* A fragment of Go's regexp (RE2 syntax), byte level.
   - [re_parse] : parser for the fragment; anything outside it is [PUnsup] (the case is then
     counted, not compared), definite syntax errors are [PErr] (regexp.Compile fails).
   - [re_m]     : backtracking matcher in CPS, anchored at the start of the input, trying
     alternatives in priority order (what Go's leftmost-first match returns when a match
     starting at offset 0 exists).
   - [re_lang]  : the denotational language, used by the soundness lemma. *)
From Coq Require Import String.
From Mux Require Import Model.Bytes.

Inductive cset :=
| CAny                                   (* .  : anything but \n *)
| CSet (neg : bool) (items : list (N * N)).

Inductive re :=
| REmpty
| RChar (c : cset)
| RCat (a b : re)
| RAlt (a b : re)
| RStar (greedy : bool) (a : re).

Fixpoint in_items (c : N) (l : list (N * N)) : bool :=
  match l with
  | [] => false
  | (lo, hi) :: l' => ((lo <=? c) && (c <=? hi)) || in_items c l'
  end.

Definition cset_mem (cs : cset) (c : N) : bool :=
  match cs with
  | CAny => negb (N.eqb c 10)
  | CSet neg l => xorb neg (in_items c l)
  end.

Inductive re_lang : re -> bytes -> Prop :=
| LEmpty : re_lang REmpty []
| LChar cs c : cset_mem cs c = true -> re_lang (RChar cs) [c]
| LCat a b s t : re_lang a s -> re_lang b t -> re_lang (RCat a b) (s ++ t)
| LAltL a b s : re_lang a s -> re_lang (RAlt a b) s
| LAltR a b s : re_lang b s -> re_lang (RAlt a b) s
| LStar0 g a : re_lang (RStar g a) []
| LStarS g a s t : re_lang a s -> re_lang (RStar g a) t -> re_lang (RStar g a) (s ++ t).

Fixpoint nullable (r : re) : bool :=
  match r with
  | REmpty => true
  | RChar _ => false
  | RCat a b => nullable a && nullable b
  | RAlt a b => nullable a || nullable b
  | RStar _ _ => true
  end.

(* star bodies must consume input: Go's treatment of empty iterations is not modelled *)
Fixpoint star_ok (r : re) : bool :=
  match r with
  | REmpty | RChar _ => true
  | RCat a b | RAlt a b => star_ok a && star_ok b
  | RStar _ a => negb (nullable a) && star_ok a
  end.

Section Match.
  Context {A : Type}.
  Definition K := bytes -> option A.

  Fixpoint star_loop (ma : bytes -> K -> option A) (g : bool) (k : K) (n : nat) (s : bytes) : option A :=
    match n with
    | O => k s
    | S n' =>
      let more := ma s (fun s' => if Nat.ltb (length s') (length s) then star_loop ma g k n' s' else None) in
      if g then match more with Some x => Some x | None => k s end
      else match k s with Some x => Some x | None => more end
    end.

  Fixpoint re_m (fuel : nat) (r : re) (s : bytes) (k : K) {struct r} : option A :=
    match r with
    | REmpty => k s
    | RChar cs => match s with c :: s' => if cset_mem cs c then k s' else None | [] => None end
    | RCat a b => re_m fuel a s (fun s' => re_m fuel b s' k)
    | RAlt a b => match re_m fuel a s k with Some x => Some x | None => re_m fuel b s k end
    | RStar g a => star_loop (fun s0 k' => re_m fuel a s0 k') g k fuel s
    end.
End Match.

(* Does the rule accept exactly [v]?  The backtracking search tries every way of matching, so
   for a fixed end of input it decides language membership (leftmost-first vs. longest does
   not matter); the router compiles ^(?:rule)$ and asks regexp.MatchString. *)
Definition re_full (r : re) (v : bytes) : bool :=
  match re_m (S (length v)) r v (fun rest => match rest with [] => Some tt | _ => None end) with
  | Some _ => true
  | None => false
  end.

(* ---------------------------------------------------------------- parser *)
Inductive pres (T : Type) := POk (x : T) | PErr | PUnsup.
Arguments POk {T} _. Arguments PErr {T}. Arguments PUnsup {T}.

Definition digit_items : list (N * N) := [(48, 57)].
Definition word_items : list (N * N) := [(48, 57); (65, 90); (95, 95); (97, 122)].
Definition space_items : list (N * N) := [(9, 10); (12, 13); (32, 32)].

Definition is_punct (c : N) : bool :=
  (c <? 128) && negb (is_word c) && negb (N.eqb c 95) && (32 <? c).

(* one escape after the backslash: a class or a literal byte *)
Definition parse_escape (c : N) : pres cset :=
  if N.eqb c 100 then POk (CSet false digit_items)        (* \d *)
  else if N.eqb c 119 then POk (CSet false word_items)    (* \w *)
  else if N.eqb c 115 then POk (CSet false space_items)   (* \s *)
  else if N.eqb c 68 then POk (CSet true digit_items)     (* \D *)
  else if N.eqb c 87 then POk (CSet true word_items)      (* \W *)
  else if N.eqb c 83 then POk (CSet true space_items)     (* \S *)
  else if is_punct c then POk (CSet false [(c, c)])
  else PUnsup.

(* inside [...] after the optional ^ ; returns items and the rest after ']' *)
Fixpoint parse_class (fuel : nat) (s : bytes) (acc : list (N * N)) : pres (list (N * N) * bytes) :=
  match fuel with
  | O => PErr
  | S f =>
    match s with
    | [] => PErr                                   (* missing closing ] *)
    | 93 :: rest => match acc with [] => PUnsup | _ => POk (rev acc, rest) end
    | 91 :: _ => PUnsup                            (* [: … :] and nested [ *)
    | 92 :: c :: rest =>
      match parse_escape c with
      | POk (CSet false items) =>
        match items, rest with
        | [(lo, _)], 45 :: 93 :: _ => parse_class f rest (items ++ acc)
        | [(_, _)], 45 :: _ => PUnsup              (* escaped byte as range start *)
        | _, _ => parse_class f rest (items ++ acc)
        end
      | POk _ => PUnsup                            (* negated class inside a class *)
      | PErr => PErr
      | PUnsup => PUnsup
      end
    | 92 :: [] => PErr
    | lo :: 45 :: 93 :: rest => if lo <? 128 then parse_class f (45 :: 93 :: rest) ((lo, lo) :: acc) else PUnsup
    | lo :: 45 :: 92 :: _ => PUnsup
    | lo :: 45 :: hi :: rest =>
      if (lo <? 128) && (hi <? 128) then
        if N.eqb hi 91 then PUnsup
        else if hi <? lo then PErr else parse_class f rest ((lo, hi) :: acc)
      else PUnsup
    | c :: rest => if c <? 128 then parse_class f rest ((c, c) :: acc) else PUnsup
    end
  end.

Definition is_meta (c : N) : bool :=
  N.eqb c 92 || N.eqb c 46 || N.eqb c 43 || N.eqb c 42 || N.eqb c 63 || N.eqb c 40 || N.eqb c 41 ||
  N.eqb c 124 || N.eqb c 91 || N.eqb c 93 || N.eqb c 123 || N.eqb c 125 || N.eqb c 94 || N.eqb c 36.

(* repetition suffixes after an atom *)
Definition apply_rep (a : re) (s : bytes) : pres (re * bytes) :=
  let is_rep c := N.eqb c 42 || N.eqb c 43 || N.eqb c 63 in
  match s with
  | op :: rest =>
    if is_rep op then
      let '(greedy, rest') := match rest with 63 :: r' => (false, r') | _ => (true, rest) end in
      match rest' with
      | c :: _ => if is_rep c then PErr else   (* invalid nested repetition operator *)
          POk (if N.eqb op 42 then RStar greedy a
               else if N.eqb op 43 then RCat a (RStar greedy a)
               else if greedy then RAlt a REmpty else RAlt REmpty a, rest')
      | [] =>
          POk (if N.eqb op 42 then RStar greedy a
               else if N.eqb op 43 then RCat a (RStar greedy a)
               else if greedy then RAlt a REmpty else RAlt REmpty a, rest')
      end
    else if N.eqb op 123 then PUnsup
    else POk (a, s)
  | [] => POk (a, s)
  end.

Fixpoint parse_alt (fuel : nat) (s : bytes) : pres (re * bytes) :=
  match fuel with
  | O => PUnsup
  | S f =>
    (* concatenation of atoms up to | ) or the end *)
    let fix parse_cat (n : nat) (s : bytes) (acc : re) : pres (re * bytes) :=
      match n with
      | O => PUnsup
      | S n' =>
        match s with
        | [] => POk (acc, [])
        | 124 :: _ | 41 :: _ => POk (acc, s)
        | 40 :: rest =>
          let body := match rest with
                      | 63 :: 58 :: r' => Some r'
                      | 63 :: _ => None
                      | _ => Some rest
                      end in
          match body with
          | None => PUnsup
          | Some b =>
            match parse_alt f b with
            | POk (r, 41 :: rest') =>
              match apply_rep r rest' with
              | POk (r', rest'') => parse_cat n' rest'' (RCat acc r')
              | PErr => PErr | PUnsup => PUnsup
              end
            | POk (_, _) => PErr                    (* missing closing ) *)
            | PErr => PErr | PUnsup => PUnsup
            end
          end
        | 91 :: rest =>
          let '(neg, rest1) := match rest with 94 :: r' => (true, r') | _ => (false, rest) end in
          match rest1 with
          | 93 :: _ => PUnsup                       (* literal ] first in class *)
          | _ =>
            match parse_class (S (length rest1)) rest1 [] with
            | POk (items, rest2) =>
              match apply_rep (RChar (CSet neg items)) rest2 with
              | POk (r', rest3) => parse_cat n' rest3 (RCat acc r')
              | PErr => PErr | PUnsup => PUnsup
              end
            | PErr => PErr | PUnsup => PUnsup
            end
          end
        | 92 :: c :: rest =>
          match parse_escape c with
          | POk cs =>
            match apply_rep (RChar cs) rest with
            | POk (r', rest') => parse_cat n' rest' (RCat acc r')
            | PErr => PErr | PUnsup => PUnsup
            end
          | PErr => PErr | PUnsup => PUnsup
          end
        | 92 :: [] => PErr
        | 46 :: rest =>
          match apply_rep (RChar CAny) rest with
          | POk (r', rest') => parse_cat n' rest' (RCat acc r')
          | PErr => PErr | PUnsup => PUnsup
          end
        | c :: rest =>
          if N.eqb c 42 || N.eqb c 43 || N.eqb c 63 then PErr     (* missing argument to repetition *)
          else if is_meta c || negb (c <? 128) then PUnsup
          else
            match apply_rep (RChar (CSet false [(c, c)])) rest with
            | POk (r', rest') => parse_cat n' rest' (RCat acc r')
            | PErr => PErr | PUnsup => PUnsup
            end
        end
      end in
    match parse_cat (S (length s)) s REmpty with
    | POk (a, 124 :: rest) =>
      match parse_alt f rest with
      | POk (b, rest') => POk (RAlt a b, rest')
      | PErr => PErr | PUnsup => PUnsup
      end
    | r => r
    end
  end.

Definition re_parse (s : bytes) : pres re :=
  match parse_alt (S (length s)) s with
  | POk (r, []) => if star_ok r then POk r else PUnsup
  | POk (_, _) => PErr                              (* unexpected ) *)
  | PErr => PErr
  | PUnsup => PUnsup
  end.
