(* Decoding of the textual case format inside Coq (used by the in-Coq sample evaluation,
   mirrors ocaml/driver.ml's field decoding). *)
From Coq Require Import Ascii String.
From Mux Require Import Model.Bytes Model.Wire.

Definition hexv (c : N) : N :=
  if is_digit c then c - 48 else if (97 <=? c) && (c <=? 102) then c - 87 else if (65 <=? c) && (c <=? 70) then c - 55 else 0.

Fixpoint unhex (s : bytes) : bytes :=
  match s with
  | a :: b :: s' => (hexv a * 16 + hexv b) :: unhex s'
  | _ => []
  end.

Definition decode_field (f : bytes) : bytes :=
  match f with
  | 120 :: h => unhex h
  | _ => f
  end.

Definition nonempty (b : bytes) : bool := match b with [] => false | _ => true end.

Definition parse_line (l : bytes) : line := map decode_field (filter nonempty (split_byte 32 l)).

Definition parse_text (s : string) : list line :=
  filter (fun l => match l with [] => false | _ => true end) (map parse_line (split_byte 10 (bs s))).

Fixpoint lines_list_eqb (a b : list line) : bool :=
  match a, b with
  | [], [] => true
  | x :: a', y :: b' => lines_eqb x y && lines_list_eqb a' b'
  | _, _ => false
  end.
