(* options.go : the CORS configuration and the decision procedure writing the response headers. *)
From Coq Require Import String.
From Mux Require Import Model.Bytes Model.Http.

Record cors_opt := {
  o_origins : list bytes; o_allow_headers : list bytes; o_exposed : list bytes;
  o_max_age : Z; o_creds : bool
}.

Record cors := {
  c_origins : list bytes; c_allow_headers : list bytes; c_creds : bool;
  c_deny : bool; c_any_origins : bool; c_any_headers : bool;
  c_allow_headers_string : bytes; c_exposed_string : bytes; c_max_age_string : bytes
}.

Definition star : bytes := bs "*".

(* cors.sanitize: None = configuration error (NewRouter panics) *)
Definition cors_sanitize (o : cors_opt) : option cors :=
  let any_o := mem star (o_origins o) in
  let any_h := mem star (o_allow_headers o) in
  let ahs := if any_h then bs "*,Authorization"
             else match o_allow_headers o with [] => [] | l => join (bs ",") l end in
  let exs := match o_exposed o with [] => [] | l => join (bs ",") l end in
  if (o_max_age o <? -1)%Z then None
  else if any_o && o_creds o then None
  else Some {| c_origins := o_origins o; c_allow_headers := o_allow_headers o; c_creds := o_creds o;
               c_deny := match o_origins o with [] => true | _ => false end;
               c_any_origins := any_o; c_any_headers := any_h;
               c_allow_headers_string := ahs; c_exposed_string := exs;
               c_max_age_string := if (o_max_age o =? 0)%Z then [] else Z_to_dec (o_max_age o) |}.

Definition ACAO := bs "Access-Control-Allow-Origin".
Definition ACAC := bs "Access-Control-Allow-Credentials".
Definition ACAM := bs "Access-Control-Allow-Methods".
Definition ACAH := bs "Access-Control-Allow-Headers".
Definition ACEH := bs "Access-Control-Expose-Headers".
Definition ACMA := bs "Access-Control-Max-Age".
Definition VARY := bs "Vary".
Definition H_ORIGIN := bs "Origin".
Definition H_ACRM := bs "Access-Control-Request-Method".
Definition H_ACRH := bs "Access-Control-Request-Headers".

(* cors.headerIsAllowed *)
Definition header_is_allowed (c : cors) (acrh : bytes) : bool :=
  if c_any_headers c then true else
  match trim_space acrh with
  | [] => true
  | h => forallb (fun v => existsb (equal_fold (trim_space v)) (c_allow_headers c)) (split_byte 44 h)
  end.

Record creq := { q_method : bytes; q_path : bytes; q_origin : bytes; q_acrm : bytes; q_acrh : bytes }.

Definition is_preflight (q : creq) : bool :=
  beqb (q_method q) (bs "OPTIONS") && negb (beqb (q_acrm q) []) && negb (beqb (q_path q) star).

(* cors.handle *)
Definition cors_handle (c : cors) (node_methods : list bytes) (node_allow : bytes) (q : creq) (wh : headers) : headers :=
  if c_deny c then wh else
  let pre := is_preflight q in
  let stage1 : option headers :=
    if pre then
      if negb (mem (q_acrm q) node_methods) then None else
      let wh1 := h_add VARY H_ACRM (h_set ACAM node_allow wh) in
      if negb (header_is_allowed c (q_acrh q)) then Some wh1 (* returns: handled below *) else
      let wh2 := match c_allow_headers_string c with
                 | [] => wh1
                 | s => h_add VARY H_ACRH (h_set ACAH s wh1)
                 end in
      Some (match c_max_age_string c with [] => wh2 | s => h_set ACMA s wh2 end)
    else Some wh in
  match stage1 with
  | None => wh
  | Some wh' =>
    if pre && negb (header_is_allowed c (q_acrh q)) then wh' else
    let origin_ok := c_any_origins c || mem (q_origin q) (c_origins c) in
    if negb origin_ok then wh' else
    let wh3 := if c_any_origins c then h_set ACAO star wh'
               else h_set ACAO (q_origin q) (h_add VARY H_ORIGIN wh') in
    let wh4 := if c_creds c then h_set ACAC (bs "true") wh3 else wh3 in
    match c_exposed_string c with [] => wh4 | s => h_set ACEH s wh4 end
  end.
