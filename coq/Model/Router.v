(* router.go : Router, Prefix, Resource (CORS and the HEAD wrapper live in Cors.v / Head.v). *)
From Coq Require Import String.
From Mux Require Import Model.Bytes Model.Regex Model.Context Model.Syntax Model.Tree.

Record router := { rtree : tree; rms : list bytes; rdomain : bytes }.

Definition with_tree (r : router) (t : tree) : router := {| rtree := t; rms := rms r; rdomain := rdomain r |}.

(* options.sanitize: one trailing / of the URL domain is dropped *)
Definition sanitize_domain (d : bytes) : bytes :=
  if ends_with d 47 then firstn (length d - 1) d else d.

Definition new_router (name : bytes) (ic : icpts) (trace : bool) (domain : bytes) : router :=
  {| rtree := new_tree name ic trace; rms := []; rdomain := sanitize_domain domain |}.

Definition r_handle (r : router) (pattern : bytes) (h : hterm) (mws ms : list bytes) : res router :=
  do t <- tree_add (rtree r) pattern h (mws ++ rms r) ms; Ok (with_tree r t).
Definition r_remove (r : router) (pattern : bytes) (ms : list bytes) : res router :=
  do t <- tree_remove (rtree r) pattern ms; Ok (with_tree r t).
Definition r_clean (r : router) (prefix : bytes) : res router :=
  do t <- tree_clean (rtree r) prefix; Ok (with_tree r t).
Definition r_use (r : router) (mws : list bytes) : router :=
  {| rtree := tree_apply_mw (rtree r) mws; rms := rms r ++ mws; rdomain := rdomain r |}.

Definition r_url (r : router) (strict : bool) (pattern : bytes) (ps : params) : res bytes :=
  match pattern with
  | [] => Ok (rdomain r)
  | _ =>
    if strict then do u <- tree_url (rtree r) pattern ps; Ok (rdomain r ++ u)
    else match ps with
         | [] => Ok (rdomain r ++ pattern)
         | _ => do u <- url_nonstrict pattern ps; Ok (rdomain r ++ u)
         end
  end.

(* mux.URL (package level) *)
Definition mux_url (pattern : bytes) (ps : params) : res bytes :=
  match ps with [] => Ok pattern | _ => url_nonstrict pattern ps end.

(* mux.CheckSyntax *)
Definition check_syntax (pattern : bytes) : res unit := do _ <- split [] pattern; Ok tt.

(* Prefix / Resource objects *)
Record facade := { fprefix : bool; fpat : bytes; fms : list bytes }.

Definition f_prefix (parent : option facade) (prefix : bytes) (mws : list bytes) : facade :=
  match parent with
  | None => {| fprefix := true; fpat := prefix; fms := mws |}
  | Some p => {| fprefix := true; fpat := fpat p ++ prefix; fms := mws ++ fms p |}
  end.
Definition f_resource (parent : option facade) (pattern : bytes) (mws : list bytes) : facade :=
  match parent with
  | None => {| fprefix := false; fpat := pattern; fms := mws |}
  | Some p => {| fprefix := false; fpat := fpat p ++ pattern; fms := mws ++ fms p |}
  end.

(* pattern argument is ignored by Resource methods (they have none) *)
Definition f_pattern (f : facade) (pattern : bytes) : bytes :=
  if fprefix f then fpat f ++ pattern else fpat f.
Definition f_handle (r : router) (f : facade) (pattern : bytes) (h : hterm) (mws ms : list bytes) : res router :=
  r_handle r (f_pattern f pattern) h (mws ++ fms f) ms.
Definition f_remove (r : router) (f : facade) (pattern : bytes) (ms : list bytes) : res router :=
  r_remove r (f_pattern f pattern) ms.
Definition f_clean (r : router) (f : facade) : res router :=
  if fprefix f then r_clean r (fpat f) else r_remove r (fpat f) [].
Definition f_url (r : router) (f : facade) (strict : bool) (pattern : bytes) (ps : params) : res bytes :=
  r_url r strict (f_pattern f pattern) ps.
