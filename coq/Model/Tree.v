(* internal/tree : the radix tree, method bit-sets, registration, removal, matching. *)
From Coq Require Import String.
From Mux Require Import Model.Bytes Model.Regex Model.Context Model.Syntax.

(* ---------------------------------------------------------------- handlers as terms *)
Inductive hterm :=
| HUser (id : bytes)
| HNotFound | HTrace | HOptions | HNotAllowed | HGroupNotFound
| HWrap (mw : bytes) (method pattern router : bytes) (inner : hterm).

(* one middleware list applied to a handler: the first of the list is innermost *)
Fixpoint apply_mw (h : hterm) (method pattern router : bytes) (ms : list bytes) : hterm :=
  match ms with
  | [] => h
  | m :: ms' => apply_mw (HWrap m method pattern router h) method pattern router ms'
  end.

(* ---------------------------------------------------------------- methods *)
Definition GET := bs "GET".       Definition POST := bs "POST".     Definition DELETE := bs "DELETE".
Definition PUT := bs "PUT".       Definition PATCH := bs "PATCH".   Definition CONNECT := bs "CONNECT".
Definition TRACE := bs "TRACE".   Definition HEAD := bs "HEAD".     Definition OPTIONS := bs "OPTIONS".
Definition M405 : bytes := [].    (* key of the 405 handler *)

Definition methods_list : list bytes := [GET; POST; DELETE; PUT; PATCH; CONNECT; TRACE; HEAD; OPTIONS].
Definition any_methods : list bytes := firstn (length methods_list - 3) methods_list.

Fixpoint method_bit_in (l : list bytes) (b : N) (m : bytes) : N :=
  match l with
  | [] => 0
  | x :: l' => if beqb x m then b else method_bit_in l' (2 * b) m
  end.
Definition method_bit (m : bytes) : N := method_bit_in methods_list 1 m.
Definition is_method (m : bytes) : bool := negb (N.eqb (method_bit m) 0).

Definition methods_of (idx : N) : list bytes :=
  sort_bytes (filter (fun m => N.eqb (N.land idx (method_bit m)) (method_bit m)) methods_list).
Definition allow_of (idx : N) : bytes := join (bs ", ") (methods_of idx).

(* ---------------------------------------------------------------- nodes *)
Inductive node :=
  Node (seg : segment) (pat : bytes) (midx : N) (handlers : list (bytes * hterm))
       (indexes : list (N * nat)) (children : list node).

Definition nseg (n : node) := let 'Node s _ _ _ _ _ := n in s.
Definition npat (n : node) := let 'Node _ p _ _ _ _ := n in p.
Definition nmidx (n : node) := let 'Node _ _ i _ _ _ := n in i.
Definition nhandlers (n : node) := let 'Node _ _ _ h _ _ := n in h.
Definition nindexes (n : node) := let 'Node _ _ _ _ x _ := n in x.
Definition nchildren (n : node) := let 'Node _ _ _ _ _ c := n in c.
Definition nsize (n : node) : nat := length (nhandlers n).

Definition set_children (n : node) (c : list node) (ix : list (N * nat)) : node :=
  let 'Node s p i h _ _ := n in Node s p i h ix c.
Definition set_handlers (n : node) (h : list (bytes * hterm)) (i : N) : node :=
  let 'Node s p _ _ x c := n in Node s p i h x c.
Definition set_seg (n : node) (s : segment) : node :=
  let 'Node _ p i h x c := n in Node s p i h x c.

Fixpoint height (n : node) : nat :=
  let 'Node _ _ _ _ _ c := n in
  S ((fix hs (l : list node) : nat := match l with [] => O | x :: l' => Nat.max (height x) (hs l') end) c).

Definition indexes_size : nat := 5.

Definition priority (n : node) : nat :=
  (stype_rank (styp (nseg n)) * 10 + (match nchildren n with [] => 1 | _ => 0 end) +
   (if sendpoint (nseg n) then 1 else 0))%nat.

(* map[byte]int with assignment semantics *)
Fixpoint idx_set (k : N) (v : nat) (l : list (N * nat)) : list (N * nat) :=
  match l with
  | [] => [(k, v)]
  | (k', v') :: l' => if N.eqb k k' then (k, v) :: l' else (k', v') :: idx_set k v l'
  end.
Fixpoint idx_get (k : N) (l : list (N * nat)) : nat :=
  match l with
  | [] => O                                  (* Go's zero value for a missing key *)
  | (k', v) :: l' => if N.eqb k k' then v else idx_get k l'
  end.

Fixpoint build_indexes_from (c : list node) (i : nat) (acc : list (N * nat)) : option (list (N * nat)) :=
  match c with
  | [] => Some acc
  | x :: c' =>
    match styp (nseg x) with
    | TString => match sval (nseg x) with
                 | [] => None                 (* Value[0] on an empty string *)
                 | b :: _ => build_indexes_from c' (S i) (idx_set b i acc)
                 end
    | _ => build_indexes_from c' (S i) acc
    end
  end.
(* the map is rebuilt from scratch on every call *)
Definition build_indexes (c : list node) : res (list (N * nat)) :=
  if Nat.ltb (length c) indexes_size then Ok []
  else match build_indexes_from c O [] with Some x => Ok x | None => Panic (bs "buildIndexes:index") end.

(* stable sort by a key computed beforehand *)
Fixpoint sinsert (x : nat * node) (l : list (nat * node)) : list (nat * node) :=
  match l with
  | [] => [x]
  | y :: l' => if Nat.ltb (fst y) (fst x) then y :: sinsert x l' else x :: l
  end.
Definition ssort (l : list (nat * node)) : list node := map snd (fold_right sinsert [] l).
Definition with_prio (c : list node) : list (nat * node) := map (fun x => (priority x, x)) c.

(* n.sort() *)
Definition sort_node (n : node) (keyed : list (nat * node)) : res node :=
  let c := ssort keyed in
  do ix <- build_indexes c; Ok (set_children n c ix).

Fixpoint replace_nth {A} (i : nat) (x : A) (l : list A) : list A :=
  match l, i with
  | [], _ => []
  | _ :: l', O => x :: l'
  | y :: l', S i' => y :: replace_nth i' x l'
  end.
Fixpoint remove_nth {A} (i : nat) (l : list A) : list A :=
  match l, i with
  | [], _ => []
  | _ :: l', O => l'
  | y :: l', S i' => y :: remove_nth i' l'
  end.

(* the scan of addSegment: Some (inl i) = identical child at i; Some (inr (i, l)) = best prefix *)
Fixpoint scan_sim (seg : segment) (c : list node) (i : nat) (best : option (nat * Z)) : (option nat) * (option (nat * Z)) :=
  match c with
  | [] => (None, best)
  | x :: c' =>
    let l1 := similarity (nseg x) seg in
    if Z.eqb l1 (-1) then (Some i, best)
    else
      let cur := match best with Some (_, l) => l | None => 0%Z end in
      if Z.ltb cur l1 then scan_sim seg c' (S i) (Some (i, l1)) else scan_sim seg c' (S i) best
  end.

Definition new_node (parent : node) (s : segment) : node :=
  Node s (npat parent ++ sval s) 0 [] [] [].

(* addSegment + the rest of getNode in continuation style: [k] is applied to the node that Go
   would return, the updated copy of [n] is the result.  Sorting uses the priorities the
   children have at the moment Go sorts (before [k] adds anything below the new node). *)
Fixpoint add_segment (fuel : nat) (ic : icpts) (n : node) (seg : segment) (k : node -> res node) : res node :=
  match fuel with
  | O => Panic (bs "addSegment:fuel")
  | S f =>
    let c := nchildren n in
    match scan_sim seg c O None with
    | (Some i, _) =>
      match nth_error c i with
      | Some ch => do ch' <- k ch; Ok (set_children n (replace_nth i ch' c) (nindexes n))
      | None => Panic (bs "addSegment:nth")
      end
    | (None, None) =>
      let nn := new_node n seg in
      do nn' <- k nn;
      sort_node n (with_prio c ++ [(priority nn, nn')])
    | (None, Some (i, l)) =>
      let l := Z.to_nat l in
      match nth_error c i with
      | None => Panic (bs "addSegment:nth")
      | Some ch =>
        let continue (parent : node) : res node :=
          if Nat.eqb (length (sval seg)) l then k parent
          else
            do rest <- slice_or_panic "addSegment:slice" (sval seg) l (length (sval seg));
            do s <- new_segment ic rest;
            add_segment f ic parent s k in
        if Nat.leb (length (sval (nseg ch))) l then
          (* splitNode: nothing to split *)
          do ch' <- continue ch; Ok (set_children n (replace_nth i ch' c) (nindexes n))
        else
          (* splitNode: the old node object becomes the lower half and keeps its identity *)
          do '(s1, s2) <- seg_split ic (nseg ch) l;
          let others := remove_nth i c in
          let lower := set_seg ch s2 in
          let ret0 := Node s1 (npat n ++ sval s1) 0 [] [] [] in
          do ret <- sort_node ret0 (with_prio [lower]);
          do ret' <- continue ret;
          sort_node n (with_prio others ++ [(priority ret, ret')])
      end
    end
  end.

Fixpoint get_node (fuel : nat) (ic : icpts) (n : node) (segs : list segment) (upd : node -> res node) {struct segs} : res node :=
  match segs with
  | [] => Panic (bs "getNode:index")
  | [seg] => add_segment fuel ic n seg upd
  | seg :: rest => add_segment fuel ic n seg (fun ch => get_node fuel ic ch rest upd)
  end.

(* ---------------------------------------------------------------- find / checkAmbiguous *)
Fixpoint find (fuel : nat) (n : node) (pattern : bytes) : option node :=
  match fuel with
  | O => None
  | S f =>
    (fix go (c : list node) : option node :=
       match c with
       | [] => None
       | ch :: c' =>
         if beqb (sval (nseg ch)) pattern then Some ch
         else if has_prefix pattern (sval (nseg ch)) then
           match find f ch (skipn (length (sval (nseg ch))) pattern) with
           | Some r => Some r
           | None => go c'
           end
         else go c'
       end) (nchildren n)
  end.

(* the chain of nodes from below [n] down to the node spelling [pattern] *)
Fixpoint find_chain (fuel : nat) (n : node) (pattern : bytes) : option (list node) :=
  match fuel with
  | O => None
  | S f =>
    (fix go (c : list node) : option (list node) :=
       match c with
       | [] => None
       | ch :: c' =>
         if beqb (sval (nseg ch)) pattern then Some [ch]
         else if has_prefix pattern (sval (nseg ch)) then
           match find_chain f ch (skipn (length (sval (nseg ch))) pattern) with
           | Some r => Some (ch :: r)
           | None => go c'
           end
         else go c'
       end) (nchildren n)
  end.

(* checkAmbiguous: Some (node pattern, hasNonString) *)
Fixpoint check_amb (fuel : nat) (ic : icpts) (n : node) (pattern : bytes) (nonstr : bool) : res (option (bytes * bool)) :=
  match fuel with
  | O => Panic (bs "checkAmbiguous:fuel")
  | S f =>
    match pattern with
    | [] => Ok (if Nat.ltb O (nsize n) then Some (npat n, nonstr) else None)
    | _ =>
      (fix go (c : list node) : res (option (bytes * bool)) :=
         match c with
         | [] => Ok None
         | ch :: c' =>
           let seg := nseg ch in
           if has_prefix pattern (sval seg) then
             do r <- check_amb f ic ch (skipn (length (sval seg)) pattern) nonstr;
             match r with Some x => Ok (Some x) | None => go c' end
           else
             do segs <- split ic pattern;
             match segs with
             | [] => Panic (bs "checkAmbiguous:index")
             | s0 :: _ =>
               if is_ambiguous seg s0 then
                 (* the text of the first segment itself (AmbiguousLen misses the ':' of {name:}) *)
                 do rest <- slice_or_panic "checkAmbiguous:slice" pattern (length (sval s0)) (length pattern);
                 do r <- check_amb f ic ch rest true;
                 match r with Some x => Ok (Some x) | None => go c' end
               else go c'
             end
         end) (nchildren n)
    end
  end.

(* ---------------------------------------------------------------- the tree *)
Record tree := {
  troot : node;
  tcounts : list (bytes * Z);     (* Tree.methods *)
  tname : bytes;
  tnotfound : hterm;
  ttrace : option hterm;
  tic : icpts;
}.

Definition has_trace (t : tree) : bool := match ttrace t with Some _ => true | None => false end.

Definition node_midx (trace : bool) (h : list (bytes * hterm)) : N :=
  fold_right (fun kv acc => method_bit (fst kv) + acc) 0 h +
  (if trace && negb (match h with [] => true | _ => false end) then method_bit TRACE else 0).

Definition root_midx (trace : bool) (counts : list (bytes * Z)) : N :=
  method_bit OPTIONS + (if trace then method_bit TRACE else 0) +
  fold_right (fun kv acc => (if Z.ltb 0 (snd kv) then method_bit (fst kv) else 0) + acc) 0 counts.

Fixpoint counts_add (num : Z) (ms : list bytes) (counts : list (bytes * Z)) : list (bytes * Z) :=
  match ms with
  | [] => counts
  | m :: ms' => counts_add num ms' (aset m (opt_default 0%Z (alookup m counts) + num)%Z counts)
  end.

(* Tree.buildMethods *)
Definition tree_build_methods (t : tree) (root : node) (num : Z) (ms : list bytes) : tree :=
  let counts := counts_add num ms (tcounts t) in
  {| troot := set_handlers root (nhandlers root) (root_midx (has_trace t) counts);
     tcounts := counts; tname := tname t; tnotfound := tnotfound t; ttrace := ttrace t; tic := tic t |}.

Definition new_tree (name : bytes) (ic : icpts) (trace : bool) : tree :=
  let root := Node (string_seg []) [] 0 [(OPTIONS, HOptions); (M405, HNotAllowed)] [] [] in
  let t0 := {| troot := root; tcounts := []; tname := name; tnotfound := HNotFound;
               ttrace := if trace then Some HTrace else None; tic := ic |} in
  tree_build_methods t0 root 0 [].

Definition tree_fuel (t : tree) : nat := S (height (troot t)).

(* validation of the method list of one Handle call against the node (if it exists) *)
Fixpoint check_methods (trace : bool) (existing : list (bytes * hterm)) (seen ms : list bytes) : res unit :=
  match ms with
  | [] => Ok tt
  | m :: ms' =>
    if beqb m OPTIONS || beqb m HEAD || (trace && beqb m TRACE) then Err (bs "reserved-method")
    else if negb (is_method m) then Err (bs "unknown-method")
    else if ahas m existing || mem m seen then Err (bs "duplicate-method")
    else check_methods trace existing (m :: seen) ms'
  end.

Fixpoint install_methods (h : hterm) (pattern router : bytes) (mws ms : list bytes) (hs : list (bytes * hterm)) : list (bytes * hterm) :=
  match ms with
  | [] => hs
  | m :: ms' =>
    let hs1 := if beqb m GET then aset HEAD (apply_mw h HEAD pattern router mws) hs else hs in
    install_methods h pattern router mws ms' (aset m (apply_mw h m pattern router mws) hs1)
  end.

(* node.addMethods (validation first, then installation) *)
Definition add_methods (trace : bool) (router : bytes) (h : hterm) (pattern : bytes) (mws ms : list bytes) (n : node) : res node :=
  do _ <- check_methods trace (nhandlers n) [] ms;
  let hs1 := install_methods h pattern router mws ms (nhandlers n) in
  let hs2 := if ahas OPTIONS hs1 then hs1 else aset OPTIONS (apply_mw HOptions OPTIONS pattern router mws) hs1 in
  let hs3 := if ahas M405 hs2 then hs2 else aset M405 (apply_mw HNotAllowed M405 pattern router mws) hs2 in
  Ok (set_handlers n hs3 (node_midx trace hs3)).

(* Tree.Add *)
Definition tree_add (t : tree) (pattern : bytes) (h : hterm) (mws ms : list bytes) : res tree :=
  let fuel := (tree_fuel t + length pattern + 2)%nat in
  do amb <- check_amb fuel (tic t) (troot t) pattern false;
  match amb with
  | Some (_, true) => Err (bs "ambiguous")
  | _ =>
    let ms := match ms with [] => any_methods | _ => ms end in
    do segs <- split (tic t) pattern;
    do _ <- check_methods (has_trace t)
              (match find fuel (troot t) pattern with Some n => nhandlers n | None => [] end) [] ms;
    do root' <- get_node fuel (tic t) (troot t) segs
                  (add_methods (has_trace t) (tname t) h pattern mws ms);
    Ok (tree_build_methods t root' 1 ms)
  end.

(* ---------------------------------------------------------------- Remove *)
Definition is_auto (m : bytes) : bool := beqb m OPTIONS || beqb m HEAD || beqb m M405.
Definition user_methods (ms : list bytes) : list bytes := filter (fun m => negb (is_auto m)) ms.

Fixpoint remove_methods (ms : list bytes) (hs : list (bytes * hterm)) (removed : list bytes) : list (bytes * hterm) * list bytes :=
  match ms with
  | [] => (hs, removed)
  | m :: ms' =>
    if is_auto m then remove_methods ms' hs removed
    else
      let hs1 := if beqb m GET then adelete HEAD hs else hs in
      if ahas m hs1 then remove_methods ms' (adelete m hs1) (m :: removed)
      else remove_methods ms' hs1 removed
  end.

Definition remove_at_node (trace : bool) (ms : list bytes) (n : node) : node * list bytes :=
  let '(hs, removed) :=
    match ms with
    | [] => ([], akeys (nhandlers n))
    | _ =>
      let '(hs1, rm) := remove_methods ms (nhandlers n) [] in
      if Nat.eqb (length hs1) 2 && ahas OPTIONS hs1 && ahas M405 hs1 then ([], rm) else (hs1, rm)
    end in
  (set_handlers n hs (node_midx trace hs), removed).

Definition prunable (n : node) : bool :=
  Nat.eqb (nsize n) O && match nchildren n with [] => true | _ => false end.

(* walks like [find]; returns the updated node and the removed methods *)
Fixpoint remove_in (fuel : nat) (trace : bool) (ms : list bytes) (n : node) (pattern : bytes) : res (option (node * list bytes)) :=
  match fuel with
  | O => Panic (bs "Remove:fuel")
  | S f =>
    (fix go (c : list node) (i : nat) : res (option (node * list bytes)) :=
       match c with
       | [] => Ok None
       | ch :: c' =>
         let finish (ch' : node) (removed : list bytes) : res (option (node * list bytes)) :=
           if prunable ch' then
             let cs := remove_nth i (nchildren n) in
             do ix <- build_indexes cs; Ok (Some (set_children n cs ix, removed))
           else Ok (Some (set_children n (replace_nth i ch' (nchildren n)) (nindexes n), removed)) in
         if beqb (sval (nseg ch)) pattern then
           let '(ch', removed) := remove_at_node trace ms ch in finish ch' removed
         else if has_prefix pattern (sval (nseg ch)) then
           do r <- remove_in f trace ms ch (skipn (length (sval (nseg ch))) pattern);
           match r with
           | Some (ch', removed) => finish ch' removed
           | None => go c' (S i)
           end
         else go c' (S i)
       end) (nchildren n) O
  end.

Definition tree_remove (t : tree) (pattern : bytes) (ms : list bytes) : res tree :=
  do r <- remove_in (tree_fuel t) (has_trace t) ms (troot t) pattern;
  match r with
  | None => Ok t
  | Some (root', removed) => Ok (tree_build_methods t root' (-1) (user_methods removed))
  end.

(* ---------------------------------------------------------------- Clean *)
Fixpoint clean_in (fuel : nat) (n : node) (prefix : bytes) : res node :=
  match fuel with
  | O => Panic (bs "clean:fuel")
  | S f =>
    match prefix with
    | [] => Ok (set_children n [] [])
    | _ =>
      let fix go (c : list node) : res (list node) :=
        match c with
        | [] => Ok []
        | ch :: c' =>
          let v := sval (nseg ch) in
          do ch' <- (if Nat.ltb (length v) (length prefix) && has_prefix prefix v
                     then clean_in f ch (skipn (length v) prefix) else Ok ch);
          do rest <- go c';
          if has_prefix v prefix then Ok rest else Ok (ch' :: rest)
        end in
      do cs <- go (nchildren n);
      do ix <- build_indexes cs;
      Ok (set_children n cs ix)
    end
  end.

Fixpoint count_methods (fuel : nat) (n : node) (acc : list (bytes * Z)) : list (bytes * Z) :=
  match fuel with
  | O => acc
  | S f => fold_left (fun a ch => count_methods f ch (counts_add 1 (user_methods (akeys (nhandlers ch))) a)) (nchildren n) acc
  end.

Definition tree_clean (t : tree) (prefix : bytes) : res tree :=
  do root' <- clean_in (tree_fuel t) (troot t) prefix;
  let t' := {| troot := root'; tcounts := count_methods (tree_fuel t) root' []; tname := tname t;
               tnotfound := tnotfound t; ttrace := ttrace t; tic := tic t |} in
  Ok (tree_build_methods t' root' 0 []).

(* ---------------------------------------------------------------- matching *)
Inductive mres :=
| MFound (n : node) (ps : params)
| MNone (ps : params)
| MPanic (site : bytes).

Fixpoint match_children (fuel : nat) (n : node) (path : bytes) (ps : params) : mres :=
  match fuel with
  | O => MPanic (bs "matchChildren:fuel")
  | S f =>
    let c := nchildren n in
    let loop :=
      fix loop (l : list node) (ps : params) : mres :=
        match l with
        | [] => match path with
                | [] => if Nat.ltb O (nsize n) then MFound n ps else MNone ps
                | _ => MNone ps
                end
        | ch :: l' =>
          match seg_match (nseg ch) path ps with
          | None => loop l' ps
          | Some (path', ps') =>
            match match_children f ch path' ps' with
            | MFound r ps'' => MFound r ps''
            | MNone ps'' => loop l' (ctx_delete ps'' (sname (nseg ch)))
            | MPanic s => MPanic s
            end
          end
        end in
    let tail := skipn (length (nindexes n)) c in
    match nindexes n, path with
    | _ :: _, b :: _ =>
      match nth_error c (idx_get b (nindexes n)) with
      | None => MPanic (bs "matchChildren:index")
      | Some ch =>
        match seg_match (nseg ch) path ps with
        | None => loop tail ps
        | Some (path', ps') =>
          match match_children f ch path' ps' with
          | MFound r ps'' => MFound r ps''
          | MNone ps'' => loop tail ps''
          | MPanic s => MPanic s
          end
        end
      end
    | _, _ => loop tail ps
    end
  end.

Inductive hres :=
| HFound (ok : bool) (n : option node) (h : hterm) (ps : params)   (* ok = false: 404 / 405 *)
| HPanic (site : bytes).

(* the handler registered for a request method; the empty method name is the key of the 405 handler,
   not a method a request can ask for *)
Definition lookup_handler (method : bytes) (hs : list (bytes * hterm)) : option hterm :=
  if beqb method M405 then None else alookup method hs.

(* Tree.Handler *)
Definition tree_handler (t : tree) (method path : bytes) (ps : params) : hres :=
  let trace_hit := match ttrace t with Some h => if beqb method TRACE then Some h else None | None => None end in
  match trace_hit with
  | Some h => HFound true (Some (troot t)) h ps
  | None =>
    let r := if beqb path (bs "*") || beqb path [] then MFound (troot t) ps
             else match_children (tree_fuel t) (troot t) path ps in
    match r with
    | MPanic s => HPanic s
    | MNone ps' => HFound false None (tnotfound t) ps'
    | MFound n ps' =>
      if Nat.eqb (nsize n) O then HFound false None (tnotfound t) ps'
      else match lookup_handler method (nhandlers n) with
           | Some h => HFound true (Some n) h ps'
           | None => match alookup M405 (nhandlers n) with
                     | Some h => HFound false (Some n) h ps'
                     | None => HPanic (bs "Handler:nil-405")
                     end
           end
    end
  end.

(* ---------------------------------------------------------------- Routes, URL, middleware *)
Fixpoint routes_in (fuel : nat) (n : node) (acc : list (bytes * list bytes)) : list (bytes * list bytes) :=
  match fuel with
  | O => acc
  | S f =>
    let acc1 := if N.ltb 0 (nmidx n) then aset (npat n) (methods_of (nmidx n)) acc else acc in
    fold_left (fun a ch => routes_in f ch a) (nchildren n) acc1
  end.

Definition tree_routes (t : tree) : list (bytes * list bytes) :=
  let star := (bs "*", OPTIONS :: (if has_trace t then [TRACE] else [])) in
  asort (fold_left (fun a ch => routes_in (tree_fuel t) ch a) (nchildren (troot t)) [star]).

Fixpoint url_chain (chain : list node) (ps : params) : res bytes :=
  match chain with
  | [] => Ok []
  | n :: chain' =>
    let s := nseg n in
    match styp s with
    | TString => do r <- url_chain chain' ps; Ok (sval s ++ r)
    | _ =>
      match ctx_get ps (sname s) with
      | None => Err (bs "missing-param")
      | Some v => if seg_valid s v then do r <- url_chain chain' ps; Ok (v ++ ssuffix s ++ r)
                  else Err (bs "invalid-param")
      end
    end
  end.

(* Tree.URL *)
Definition tree_url (t : tree) (pattern : bytes) (ps : params) : res bytes :=
  match find_chain (tree_fuel t) (troot t) pattern with
  | None => Err (bs "not-a-route")
  | Some chain =>
    match last chain (troot t) with
    | n => if Nat.eqb (nsize n) O then Err (bs "not-a-route") else url_chain chain ps
    end
  end.

Fixpoint apply_mw_node (fuel : nat) (router : bytes) (mws : list bytes) (n : node) : node :=
  match fuel with
  | O => n
  | S f =>
    let 'Node s p i h x c := n in
    Node s p i (map (fun kv => (fst kv, apply_mw (snd kv) (fst kv) p router mws)) h) x
         (map (apply_mw_node f router mws) c)
  end.

(* Tree.ApplyMiddleware *)
Definition tree_apply_mw (t : tree) (mws : list bytes) : tree :=
  {| troot := apply_mw_node (tree_fuel t) (tname t) mws (troot t);
     tcounts := tcounts t; tname := tname t;
     tnotfound := apply_mw (tnotfound t) [] [] (tname t) mws;
     ttrace := option_map (fun h => apply_mw h TRACE [] (tname t) mws) (ttrace t);
     tic := tic t |}.
