(* match.go : version matchers, Hosts normalisation, And/Or combinators; group.go dispatch. *)
From Coq Require Import String.
From Mux Require Import Model.Bytes Model.Regex Model.Context Model.Syntax Model.Tree.

(* ---------------------------------------------------------------- path / header versions *)
(* NewPathVersion normalises every version to "/v/" (an empty version panics) *)
Definition norm_version (v : bytes) : option bytes :=
  match v with
  | [] => None
  | c :: _ =>
    let v1 := if N.eqb c 47 then v else 47 :: v in
    Some (if ends_with v1 47 then v1 else v1 ++ [47])
  end.

Fixpoint norm_versions (vs : list bytes) : option (list bytes) :=
  match vs with
  | [] => Some []
  | v :: vs' => match norm_version v, norm_versions vs' with
                | Some a, Some b => Some (a :: b)
                | _, _ => None
                end
  end.

(* strings.TrimPrefix *)
Definition trim_prefix (s p : bytes) : bytes := if has_prefix s p then skipn (length p) s else s.

(* pathVersion.Match on normalised versions: (accepted, new URL.Path, new params) *)
Fixpoint pathver_match (name : bytes) (versions : list bytes) (path : bytes) (ps : params) : bool * bytes * params :=
  match versions with
  | [] => (false, path, ps)
  | ver :: rest =>
    if has_prefix path ver then
      let vv := firstn (length ver - 1) ver in
      (true, trim_prefix path vv, match name with [] => ps | _ => ctx_set ps name vv end)
    else pathver_match name rest path ps
  end.

(* headerVersion.Match.  [parsed] is what mime.ParseMediaType made of the Accept header:
   None = error, Some kv = the media type's parameters. *)
Fixpoint find_version (ver : bytes) (versions : list bytes) : option bytes :=
  match versions with
  | [] => None
  | v :: rest => if beqb v ver then Some v else find_version ver rest
  end.

Definition headerver_match (name key : bytes) (versions : list bytes)
           (accept : bytes) (parsed : option (list (bytes * bytes))) (ps : params) : bool * params :=
  match accept with
  | [] => (false, ps)
  | _ =>
    match parsed with
    | None => (false, ps)
    | Some kv =>
      let key := match key with [] => bs "version" | _ => key end in
      let ver := opt_default [] (alookup key kv) in
      match find_version ver versions with
      | Some v => (true, match name with [] => ps | _ => ctx_set ps name v end)
      | None => (false, ps)
      end
    end
  end.

(* ---------------------------------------------------------------- Hosts *)
Definition valid_optional_port (port : bytes) : bool :=
  match port with
  | [] => true
  | c :: rest => N.eqb c 58 && forallb is_digit rest
  end.

Definition strip_port (h : bytes) : bytes :=
  match last_index_byte h 58 with
  | Some i => if valid_optional_port (skipn i h) then firstn i h else h
  | None => h
  end.

Definition strip_brackets (h : bytes) : bytes :=
  if has_prefix h [91] && ends_with h 93 then firstn (length h - 2) (skipn 1 h) else h.

(* ASCII only: strings.ToLower is Unicode-aware, non-ASCII hosts are outside the model *)
Definition normalise_host (h : bytes) : bytes := to_lower (strip_brackets (strip_port h)).

(* NewHosts passes the untyped constant false as the TRACE handler, which is a non-nil interface:
   the hosts tree has hasTrace = true (only visible in the method bit-sets; Match always asks for GET) *)
Definition hosts_new : tree := new_tree (bs "host") [] true.

Definition hosts_add (t : tree) (d : bytes) : res tree := tree_add t (to_lower d) (HUser []) [] [GET].
Definition hosts_delete (t : tree) (d : bytes) : res tree := tree_remove t (to_lower d) [].
Definition hosts_register (t : tree) (rule : bytes) (f : bytes -> bool) : tree :=
  {| troot := troot t; tcounts := tcounts t; tname := tname t; tnotfound := tnotfound t; ttrace := ttrace t;
     tic := (rule, f) :: adelete rule (tic t) |}.

(* Hosts.Match: (accepted, params; Context.Path is scratch) ; None = runtime panic *)
Definition hosts_match_raw (t : tree) (host : bytes) (ps : params) : option (bool * params) :=
  match tree_handler t GET (normalise_host host) ps with
  | HPanic _ => None
  | HFound ok _ _ ps' => Some (ok, ps')
  end.

(* Hosts.Match after the lookup: every parameter that was there before and is gone is put back.
   The list is a canonical spelling of Go's map: old keys in their old order (new value if the lookup
   re-captured the name), then the new keys. *)
Definition restore_missing (ps ps' : params) : params :=
  map (fun kv => (fst kv, match ctx_get ps' (fst kv) with Some v' => v' | None => snd kv end)) ps
  ++ filter (fun kv => negb (ctx_exists ps (fst kv))) ps'.

Definition hosts_match (t : tree) (host : bytes) (ps : params) : option (bool * params) :=
  match hosts_match_raw t host ps with
  | Some (ok, ps') => Some (ok, restore_missing ps ps')
  | None => None
  end.

Definition ctx_nodup (ps : params) : Prop := NoDup (map fst ps).
