(* match.go And/Or combinators, group.go : Group dispatch; recovery (router.go serveContext,
   Group.ServeHTTP).  User-supplied functions may raise: handlers are run symbolically. *)
From Coq Require Import String.
From Mux Require Import Model.Bytes Model.Regex Model.Context Model.Syntax Model.Tree Model.Router Model.Match.

Inductive matcher :=
| MAny
| MHosts (t : tree)
| MPathVer (name : bytes) (versions : list bytes)            (* versions already normalised *)
| MHeaderVer (name key : bytes) (versions : list bytes)
| MAnd (l : list matcher)
| MOr (l : list matcher).

(* what a matcher can see and change of a request *)
Record mreq := { m_host : bytes; m_path : bytes; m_accept : bytes; m_parsed : option (list (bytes * bytes)) }.
Definition with_path (q : mreq) (p : bytes) : mreq :=
  {| m_host := m_host q; m_path := p; m_accept := m_accept q; m_parsed := m_parsed q |}.

Inductive mres := MR (ok : bool) (q : mreq) (ps : params) | MRPanic.

Fixpoint m_match (m : matcher) (q : mreq) (ps : params) : mres :=
  match m with
  | MAny => MR true q ps
  | MHosts t => match hosts_match t (m_host q) ps with
                | Some (ok, ps') => MR ok q ps'
                | None => MRPanic
                end
  | MPathVer name vs => let '(ok, p', ps') := pathver_match name vs (m_path q) ps in MR ok (with_path q p') ps'
  | MHeaderVer name key vs =>
    let '(ok, ps') := headerver_match name key vs (m_accept q) (m_parsed q) ps in MR ok q ps'
  | MAnd l =>
    (* on rejection everything an earlier member changed is put back *)
    (fix go (l : list matcher) (q' : mreq) (ps' : params) : mres :=
       match l with
       | [] => MR true q' ps'
       | x :: l' => match m_match x q' ps' with
                    | MR true q2 ps2 => go l' q2 ps2
                    | MR false _ _ => MR false q ps
                    | MRPanic => MRPanic
                    end
       end) l q ps
  | MOr l =>
    (fix go (l : list matcher) (q' : mreq) (ps' : params) : mres :=
       match l with
       | [] => MR false q' ps'
       | x :: l' => match m_match x q' ps' with
                    | MR true q2 ps2 => MR true q2 ps2
                    | MR false q2 ps2 => go l' q2 ps2
                    | MRPanic => MRPanic
                    end
       end) l q ps
  end.

(* ---------------------------------------------------------------- running handlers that may raise *)
(* (layer, phase, value): layer = middleware id or the core's printed id; phase = before | after | core *)
Definition raises := list (bytes * bytes * bytes).

Fixpoint raise_at (rs : raises) (layer phase : bytes) : option bytes :=
  match rs with
  | [] => None
  | (l, p, v) :: rs' => if beqb l layer && beqb p phase then Some v else raise_at rs' layer phase
  end.

Definition core_id (h : hterm) : bytes :=
  match h with
  | HUser id => bs "U:" ++ id
  | HNotFound => bs "NF" | HTrace => bs "TR" | HOptions => bs "OP" | HNotAllowed => bs "NA"
  | HGroupNotFound => bs "GNF"
  | HWrap _ _ _ _ _ => bs "?"
  end.

Inductive outcome := Done | Raised (v : bytes).

Fixpoint run_h (rs : raises) (h : hterm) : outcome :=
  match h with
  | HWrap mw _ _ _ inner =>
    match raise_at rs mw (bs "before") with
    | Some v => Raised v
    | None => match run_h rs inner with
              | Raised v => Raised v
              | Done => match raise_at rs mw (bs "after") with Some v => Raised v | None => Done end
              end
    end
  | core => match raise_at rs (core_id core) (bs "core") with Some v => Raised v | None => Done end
  end.

(* result of one ServeHTTP call: what the handler saw, the values handed to the RecoverFunc, and
   the value that escaped ServeHTTP (if any) *)
Record served := {
  s_handler : hterm; s_router : bytes; s_path : bytes; s_params : params; s_node : option node;
  s_recovered : list bytes; s_escaped : option bytes
}.

Inductive sres := SOk (s : served) | SPanic.

Definition finish (recover : bool) (rs : raises) (h : hterm) (rname path : bytes) (ps : params) (n : option node) : sres :=
  match run_h rs h with
  | Done => SOk {| s_handler := h; s_router := rname; s_path := path; s_params := ps; s_node := n;
                   s_recovered := []; s_escaped := None |}
  | Raised v =>
    SOk {| s_handler := h; s_router := rname; s_path := path; s_params := ps; s_node := n;
           s_recovered := if recover then [v] else []; s_escaped := if recover then None else Some v |}
  end.

(* Router.serveContext with the parameters the matcher left in the context *)
Definition serve_ctx (r : router) (recover : bool) (rs : raises) (method path : bytes) (ps0 : params) : sres :=
  match tree_handler (rtree r) method path ps0 with
  | HPanic _ => SPanic
  | HFound _ n h ps => finish recover rs h (tname (rtree r)) path ps n
  end.

(* ---------------------------------------------------------------- groups *)
Record grouter := { gr_matcher : matcher; gr_router : router; gr_recover : bool }.
Record group := { g_routers : list grouter; g_ms : list bytes; g_notfound : hterm; g_recover : bool }.

Definition g_new_group (recover : bool) : group :=
  {| g_routers := []; g_ms := []; g_notfound := HGroupNotFound; g_recover := recover |}.

Definition gr_name (x : grouter) : bytes := tname (rtree (gr_router x)).

(* Group.Add (Group.New = NewRouter with the group's options + Add); None = duplicate name (panics with a message) *)
Definition g_add (g : group) (m : matcher) (r : router) (recover : bool) : option group :=
  if existsb (fun x => beqb (gr_name x) (tname (rtree r))) (g_routers g) then None
  else Some {| g_routers := g_routers g ++ [{| gr_matcher := m; gr_router := r_use r (g_ms g); gr_recover := recover |}];
               g_ms := g_ms g; g_notfound := g_notfound g; g_recover := g_recover g |}.

Definition g_remove (g : group) (name : bytes) : group :=
  {| g_routers := filter (fun x => negb (beqb (gr_name x) name)) (g_routers g);
     g_ms := g_ms g; g_notfound := g_notfound g; g_recover := g_recover g |}.

Definition g_use (g : group) (mws : list bytes) : group :=
  {| g_routers := map (fun x => {| gr_matcher := gr_matcher x; gr_router := r_use (gr_router x) mws; gr_recover := gr_recover x |})
                      (g_routers g);
     g_ms := g_ms g ++ mws; g_notfound := apply_mw (g_notfound g) [] [] [] mws; g_recover := g_recover g |}.

Definition g_update (g : group) (name : bytes) (f : router -> router) : group :=
  {| g_routers := map (fun x => if beqb (gr_name x) name
                                then {| gr_matcher := gr_matcher x; gr_router := f (gr_router x); gr_recover := gr_recover x |}
                                else x) (g_routers g);
     g_ms := g_ms g; g_notfound := g_notfound g; g_recover := g_recover g |}.

(* Group.ServeHTTP: the context is reset after every rejection, the request is NOT *)
Fixpoint g_scan (l : list grouter) (q : mreq) (rs : raises) (method : bytes) : option sres * mreq :=
  match l with
  | [] => (None, q)
  | x :: l' =>
    match m_match (gr_matcher x) q [] with
    | MRPanic => (Some SPanic, q)
    | MR true q' ps => (Some (serve_ctx (gr_router x) (gr_recover x) rs method (m_path q') ps), q')
    | MR false q' _ => g_scan l' q' rs method
    end
  end.

Definition g_serve (g : group) (q : mreq) (rs : raises) (method : bytes) : sres :=
  match g_scan (g_routers g) q rs method with
  | (Some r, _) => r
  | (None, q') => finish (g_recover g) rs (g_notfound g) [] (m_path q') [] None
  end.
