(* The lock protocol of internal/tree, abstracted from the Go scheduler: threads run sequences of
   events; one reader/writer lock.  tools/srcfacts regenerates, from the source, the event
   summary of every entry point (Gen/LockFacts.v) and the inventory of package-level state
   (Gen/GlobalFacts.v); the theorems below are generic and are re-applied to those files on every run. *)
From Coq Require Import String List Bool Arith.
Import ListNotations.
Open Scope string_scope.

(* ---------------------------------------------------------------- what srcfacts emits *)
Inductive sev :=
| SAcq (w : bool) (lock : string)              (* Lock (w = true) / RLock *)
| SRel (lock : string)                         (* Unlock / RUnlock, deferred ones at the end of their function *)
| SAcc (write : bool) (loc : string) (pos : string).   (* field or package-variable access; pos = file:line *)

Record gfact := {
  g_pkg : string; g_name : string; g_kind : string;          (* value | map | slice | pointer | pool | mutex *)
  g_acc : list (string * bool * bool)                        (* (function, write?, inside a package mutex region in the right mode?) *)
}.

(* ---------------------------------------------------------------- one lock, the locations it protects *)
Inductive ev :=
| Acq (w : bool)
| Rel
| Acc (write : bool) (loc : string).

Definition project (lock : string) (prot : string -> bool) (s : list sev) : list ev :=
  flat_map (fun e => match e with
                     | SAcq w l => if String.eqb l lock then [Acq w] else []
                     | SRel l => if String.eqb l lock then [Rel] else []
                     | SAcc wr loc _ => if prot loc then [Acc wr loc] else []
                     end) s.

(* the discipline: protected locations are only touched while holding the lock, written only while
   holding it exclusively; no nested acquisition; the result is the held mode at the end *)
Fixpoint disc (held : option bool) (es : list ev) : option (option bool) :=
  match es with
  | [] => Some held
  | Acq w :: r => match held with None => disc (Some w) r | Some _ => None end
  | Rel :: r => match held with Some _ => disc None r | None => None end
  | Acc wr _ :: r =>
    match held with
    | Some true => disc held r
    | Some false => if wr then None else disc held r
    | None => None
    end
  end.

Definition summary_ok (es : list ev) : bool :=
  match disc None es with Some None => true | _ => false end.

(* first offending event, for the report *)
Fixpoint first_violation (held : option bool) (s : list sev) (lock : string) (prot : string -> bool) : option sev :=
  match s with
  | [] => None
  | e :: r =>
    match e with
    | SAcq w l => if String.eqb l lock then match held with None => first_violation (Some w) r lock prot | Some _ => Some e end
                  else first_violation held r lock prot
    | SRel l => if String.eqb l lock then match held with Some _ => first_violation None r lock prot | None => Some e end
                else first_violation held r lock prot
    | SAcc wr loc _ =>
      if prot loc then
        match held with
        | Some true => first_violation held r lock prot
        | Some false => if wr then Some e else first_violation held r lock prot
        | None => Some e
        end
      else first_violation held r lock prot
    end
  end.

(* ---------------------------------------------------------------- threads and schedules *)
Record thr := { prog : list ev; held : option bool }.

Definition can_acq (w : bool) (others : list thr) : bool :=
  if w then forallb (fun t => match held t with None => true | Some _ => false end) others
  else forallb (fun t => match held t with Some true => false | _ => true end) others.

Inductive tstep (others : list thr) : thr -> thr -> Prop :=
| ts_acq : forall w r, can_acq w others = true -> tstep others {| prog := Acq w :: r; held := None |} {| prog := r; held := Some w |}
| ts_rel : forall m r, tstep others {| prog := Rel :: r; held := Some m |} {| prog := r; held := None |}
| ts_acc : forall wr l r h, tstep others {| prog := Acc wr l :: r; held := h |} {| prog := r; held := h |}.

Inductive step : list thr -> list thr -> Prop :=
| step_at : forall (pre : list thr) t post t', tstep (pre ++ post)%list t t' -> step (pre ++ t :: post)%list (pre ++ t' :: post)%list.

Inductive reachable (init : list thr) : list thr -> Prop :=
| reach_init : reachable init init
| reach_step : forall s s', reachable init s -> step s s' -> reachable init s'.

(* two different threads about to access the same protected location, one of them writing *)
Definition race (s : list thr) : Prop :=
  exists (pre : list thr) t mid u post w1 w2 l r1 r2,
    s = (pre ++ t :: mid ++ u :: post)%list /\ prog t = Acc w1 l :: r1 /\ prog u = Acc w2 l :: r2 /\ (w1 || w2) = true.

(* every thread starts without the lock and runs a program that follows the discipline *)
Definition well_started (init : list thr) : Prop :=
  Forall (fun t => held t = None /\ disc None (prog t) <> None) init.

(* ---------------------------------------------------------------- package-level state *)
Definition benign (g : gfact) : bool :=
  String.eqb (g_kind g) "pool" || String.eqb (g_kind g) "mutex" ||
  forallb (fun a => let '(fn, wr, _) := a in negb wr || String.eqb fn "init") (g_acc g) ||
  forallb (fun a => let '(fn, _, guarded) := a in guarded || String.eqb fn "init") (g_acc g).
