(* Byte strings and the handful of [strings.*] functions the router uses.
   Bytes are [N] without any < 256 assumption: "all byte strings" is a sub-case. *)
From Coq Require Import Ascii String.
From Coq Require Export List NArith ZArith Bool Arith Lia.

Export ListNotations.
Open Scope N_scope.

Definition bytes := list N.

Definition bs (s : String.string) : bytes := map N_of_ascii (String.list_ascii_of_string s).

Fixpoint beqb (a b : bytes) : bool :=
  match a, b with
  | [], [] => true
  | x :: a', y :: b' => N.eqb x y && beqb a' b'
  | _, _ => false
  end.

Fixpoint has_prefix (s p : bytes) {struct p} : bool :=
  match p, s with
  | [], _ => true
  | x :: p', y :: s' => N.eqb x y && has_prefix s' p'
  | _ :: _, [] => false
  end.

Definition has_suffix (s p : bytes) : bool := has_prefix (rev s) (rev p).

(* strings.IndexByte *)
Fixpoint index_byte (s : bytes) (c : N) : option nat :=
  match s with
  | [] => None
  | x :: s' => if N.eqb x c then Some O
               else match index_byte s' c with Some i => Some (S i) | None => None end
  end.

(* strings.LastIndexByte *)
Fixpoint last_index_byte (s : bytes) (c : N) : option nat :=
  match s with
  | [] => None
  | x :: s' => match last_index_byte s' c with
               | Some i => Some (S i)
               | None => if N.eqb x c then Some O else None
               end
  end.

(* strings.Index : first occurrence of [p] in [s] (0 for the empty [p]) *)
Fixpoint index (s p : bytes) : option nat :=
  if has_prefix s p then Some O
  else match s with
       | [] => None
       | _ :: s' => match index s' p with Some i => Some (S i) | None => None end
       end.

Definition is_space (c : N) : bool :=
  N.eqb c 32 || N.eqb c 9 || N.eqb c 10 || N.eqb c 11 || N.eqb c 12 || N.eqb c 13.

Fixpoint trim_left (s : bytes) : bytes :=
  match s with
  | c :: s' => if is_space c then trim_left s' else s
  | [] => []
  end.

Definition trim_space (s : bytes) : bytes := rev (trim_left (rev (trim_left s))).

(* strings.Split(s, string(c)) : always at least one item *)
Fixpoint split_byte (c : N) (s : bytes) : list bytes :=
  match s with
  | [] => [[]]
  | x :: s' =>
    if N.eqb x c then [] :: split_byte c s'
    else match split_byte c s' with
         | h :: t => (x :: h) :: t
         | [] => [[x]]
         end
  end.

Definition lower_byte (c : N) : N := if (65 <=? c) && (c <=? 90) then c + 32 else c.
Definition to_lower (s : bytes) : bytes := map lower_byte s.
Definition equal_fold (a b : bytes) : bool := beqb (to_lower a) (to_lower b).

Definition is_digit (c : N) : bool := (48 <=? c) && (c <=? 57).
Definition is_word (c : N) : bool :=
  is_digit c || ((97 <=? c) && (c <=? 122)) || ((65 <=? c) && (c <=? 90)).

Fixpoint join (sep : bytes) (l : list bytes) : bytes :=
  match l with
  | [] => []
  | [x] => x
  | x :: l' => x ++ sep ++ join sep l'
  end.

Fixpoint mem (x : bytes) (l : list bytes) : bool :=
  match l with [] => false | y :: l' => beqb x y || mem x l' end.

(* lexicographic order on byte strings (Go's string <) *)
Fixpoint bltb (a b : bytes) : bool :=
  match a, b with
  | _, [] => false
  | [], _ :: _ => true
  | x :: a', y :: b' => if x <? y then true else if y <? x then false else bltb a' b'
  end.

Fixpoint insert_sorted (x : bytes) (l : list bytes) : list bytes :=
  match l with
  | [] => [x]
  | y :: l' => if bltb y x then y :: insert_sorted x l' else x :: l
  end.
Definition sort_bytes (l : list bytes) : list bytes := fold_right insert_sorted [] l.

(* decimal rendering / parsing *)
Fixpoint N_to_dec_fuel (fuel : nat) (n : N) (acc : bytes) : bytes :=
  match fuel with
  | O => acc
  | S f => let d := 48 + n mod 10 in
           if n <? 10 then d :: acc else N_to_dec_fuel f (n / 10) (d :: acc)
  end.
Definition N_to_dec (n : N) : bytes := N_to_dec_fuel (S (N.to_nat (N.log2 n))) n [].
Definition nat_to_dec (n : nat) : bytes := N_to_dec (N.of_nat n).
Definition Z_to_dec (z : Z) : bytes :=
  match z with
  | Z0 => [48]
  | Zpos p => N_to_dec (Npos p)
  | Zneg p => 45 :: N_to_dec (Npos p)
  end.

Fixpoint dec_to_N_acc (s : bytes) (acc : N) : option N :=
  match s with
  | [] => Some acc
  | c :: s' => if is_digit c then dec_to_N_acc s' (acc * 10 + (c - 48)) else None
  end.
Definition dec_to_N (s : bytes) : option N :=
  match s with [] => None | _ => dec_to_N_acc s 0 end.
Definition dec_to_nat (s : bytes) : option nat := option_map N.to_nat (dec_to_N s).
Definition dec_to_Z (s : bytes) : option Z :=
  match s with
  | 45 :: s' => option_map (fun n => Z.opp (Z.of_N n)) (dec_to_N s')
  | _ => option_map Z.of_N (dec_to_N s)
  end.

Definition opt_default {A} (d : A) (o : option A) : A := match o with Some x => x | None => d end.

(* association lists keyed by byte strings *)
Section Assoc.
  Context {V : Type}.
  Fixpoint alookup (k : bytes) (l : list (bytes * V)) : option V :=
    match l with
    | [] => None
    | (k', v) :: l' => if beqb k k' then Some v else alookup k l'
    end.
  Fixpoint adelete (k : bytes) (l : list (bytes * V)) : list (bytes * V) :=
    match l with
    | [] => []
    | (k', v) :: l' => if beqb k k' then adelete k l' else (k', v) :: adelete k l'
    end.
  (* replace in place if present, otherwise append *)
  Fixpoint aset (k : bytes) (v : V) (l : list (bytes * V)) : list (bytes * V) :=
    match l with
    | [] => [(k, v)]
    | (k', v') :: l' => if beqb k k' then (k, v) :: l' else (k', v') :: aset k v l'
    end.
  Definition akeys (l : list (bytes * V)) : list bytes := map fst l.
  Definition ahas (k : bytes) (l : list (bytes * V)) : bool :=
    match alookup k l with Some _ => true | None => false end.
  Fixpoint ainsert_sorted (kv : bytes * V) (l : list (bytes * V)) : list (bytes * V) :=
    match l with
    | [] => [kv]
    | y :: l' => if bltb (fst y) (fst kv) then y :: ainsert_sorted kv l' else kv :: l
    end.
  Definition asort (l : list (bytes * V)) : list (bytes * V) := fold_right ainsert_sorted [] l.
End Assoc.
