(* internal/syntax : pattern splitting, segments, segment matching, longestPrefix. *)
From Coq Require Import String.
From Mux Require Import Model.Bytes Model.Regex Model.Context.

Inductive res (T : Type) :=
| Ok (x : T)
| Err (e : bytes)            (* an error value returned by the code (Handle panics with it) *)
| Panic (site : bytes)       (* a Go runtime fault: index / slice out of range, nil call, … *)
| Unsup.                     (* outside the modelled regexp fragment: case not compared *)
Arguments Ok {T} _. Arguments Err {T} _. Arguments Panic {T} _. Arguments Unsup {T}.

Definition bind {A B} (r : res A) (f : A -> res B) : res B :=
  match r with Ok x => f x | Err e => Err e | Panic s => Panic s | Unsup => Unsup end.
Notation "'do' x <- r ; k" := (bind r (fun x => k)) (at level 200, x name, r at level 100, k at level 200).
Notation "'do' ' p <- r ; k" := (bind r (fun x => let 'p := x in k)) (at level 200, p pattern, r at level 100, k at level 200).

Inductive stype := TString | TIcpt | TRegexp | TNamed.
Definition stype_rank (t : stype) : nat :=
  match t with TString => 0 | TIcpt => 1 | TRegexp => 2 | TNamed => 3 end%nat.
Definition stype_eqb (a b : stype) : bool := Nat.eqb (stype_rank a) (stype_rank b).

Record segment := {
  sval : bytes;        (* Value  = {Name:rule}Suffix *)
  sname : bytes;
  srule : bytes;
  ssuffix : bytes;
  styp : stype;
  samb : nat;          (* ambiguousLength *)
  sendpoint : bool;
  signore : bool;
  sre : re;            (* compiled rule, Regexp segments only *)
  smatch : bytes -> bool   (* interceptor function; [fun _ => true] for Named *)
}.

Definition icpts := list (bytes * (bytes -> bool)).

Definition string_seg (v : bytes) : segment :=
  {| sval := v; sname := []; srule := []; ssuffix := []; styp := TString; samb := O;
     sendpoint := false; signore := false; sre := REmpty; smatch := fun _ => true |}.

(* Go slice expression s[lo:hi]; None = runtime panic *)
Definition gslice (s : bytes) (lo hi : nat) : option bytes :=
  if Nat.leb lo hi && Nat.leb hi (length s) then Some (firstn (hi - lo) (skipn lo s)) else None.

Definition last_byte (s : bytes) : option N := nth_error s (length s - 1).
Definition ends_with (s : bytes) (c : N) : bool :=
  match s with [] => false | _ => match last_byte s with Some x => N.eqb x c | None => false end end.

Definition max_int16 : N := 32767.

Definition clean_name (name : bytes) : res (bool * bytes) :=
  match name with
  | [] => Panic (bs "cleanName:index")
  | 45 :: n' => Ok (true, n')
  | _ => Ok (false, name)
  end.

Definition calc_amb (ignore : bool) (rule suffix : bytes) : nat :=
  (2 + (if ignore then 1 else 0) + (match rule with [] => 0 | _ => S (length rule) end) + length suffix)%nat.

Definition slice_or_panic (site : String.string) (s : bytes) (lo hi : nat) : res bytes :=
  match gslice s lo hi with Some x => Ok x | None => Panic (bs site) end.

Definition new_segment (ic : icpts) (val : bytes) : res segment :=
  if N.ltb max_int16 (N.of_nat (length val)) then Err (bs "toolong") else
  match index_byte val 123, index_byte val 125 with
  | Some start, Some end_ =>
    let sep := index_byte val 58 in
    if Nat.ltb end_ start || Nat.eqb (S start) end_ ||
       (match sep with Some sp => Nat.ltb O sp && Nat.eqb (S start) sp | None => false end)
    then Err (bs "syntax") else
    let named := match sep with
                 | None => true
                 | Some sp => Nat.eqb (S sp) end_ || Nat.ltb end_ sp
                 end in
    let endpoint := ends_with val 125 in
    if named then
      do name0 <- slice_or_panic "NewSegment:name" val (S start) end_;
      do name1 <- (match sep with
                   | Some sp => if Nat.ltb sp end_ then slice_or_panic "NewSegment:name2" val (S start) sp else Ok name0
                   | None => Ok name0 end);
      do suffix <- slice_or_panic "NewSegment:suffix" val (S end_) (length val);
      do '(ign, name) <- clean_name name1;
      Ok {| sval := val; sname := name; srule := []; ssuffix := suffix; styp := TNamed;
            samb := calc_amb ign [] suffix; sendpoint := endpoint; signore := ign; sre := REmpty;
            smatch := fun _ => true |}
    else
      let sp := match sep with Some sp => sp | None => O end in
      do rule <- slice_or_panic "NewSegment:rule" val (S sp) end_;
      do name1 <- slice_or_panic "NewSegment:rname" val (S start) sp;
      do '(ign, name) <- clean_name name1;
      do suffix <- slice_or_panic "NewSegment:rsuffix" val (S end_) (length val);
      match alookup rule ic with
      | Some f =>
        Ok {| sval := val; sname := name; srule := rule; ssuffix := suffix; styp := TIcpt;
              samb := calc_amb ign rule suffix; sendpoint := endpoint; signore := ign; sre := REmpty;
              smatch := f |}
      | None =>
        (* (?P<name>rule): the group name must be a non-empty identifier *)
        if negb ign && negb (match name with [] => false | _ => forallb (fun c => is_word c || N.eqb c 95) name end)
        then Err (bs "regexp") else
        match re_parse rule with
        | POk r =>
          Ok {| sval := val; sname := name; srule := rule; ssuffix := suffix; styp := TRegexp;
                samb := calc_amb ign rule suffix; sendpoint := false; signore := ign; sre := r;
                smatch := re_full r |}
        | PErr => Err (bs "regexp")
        | PUnsup => Unsup
        end
      end
  | _, _ => Ok (string_seg val)
  end.

(* splitString *)
Fixpoint split_string_loop (fuel : nat) (str : bytes) (end_ : nat) (acc : list bytes) : list bytes :=
  match fuel with
  | O => rev (str :: acc)
  | S f =>
    match index_byte (skipn end_ str) 123 with
    | None => rev (str :: acc)
    | Some start =>
      let '(acc', str') := if Nat.ltb O start
                           then (firstn (start + end_) str :: acc, skipn (start + end_) str)
                           else (acc, str) in
      match index_byte str' 125 with
      | None => rev (str' :: acc')
      | Some e => split_string_loop f str' e acc'
      end
    end
  end.
Definition split_string (str : bytes) : list bytes := split_string_loop (S (S (length str))) str O [].

Definition first_byte (s : bytes) : option N := match s with c :: _ => Some c | [] => None end.

Fixpoint split_pieces (ic : icpts) (ss : list bytes) (last_flag : bool) (names : list bytes) : res (list segment) :=
  match ss with
  | [] => Ok []
  | s :: ss' =>
    match first_byte s with
    | None => Panic (bs "Split:index")
    | Some c0 =>
      if last_flag && N.eqb c0 123 then Err (bs "adjacent") else
      do seg <- new_segment ic s;
      let isparam := negb (stype_eqb (styp seg) TString) in
      if isparam && mem (sname seg) names then Err (bs "dupname") else
      do rest <- split_pieces ic ss' (ends_with s 125) (if isparam then sname seg :: names else names);
      Ok (seg :: rest)
    end
  end.

Definition split (ic : icpts) (str : bytes) : res (list segment) :=
  match str with
  | [] => Err (bs "empty")
  | _ => split_pieces ic (split_string str) false []
  end.

(* longestPrefix (comparison before the brace-state update) *)
Fixpoint lp_loop (s1 s2 : bytes) (i : nat) (start_i end_i : Z) (in_brace : bool) : Z :=
  match s1, s2 with
  | a :: s1', b :: s2' =>
    if negb (N.eqb a b) then
      if in_brace || Z.eqb (end_i + 1) (Z.of_nat i) then start_i else Z.of_nat i
    else
      if N.eqb a 123 then lp_loop s1' s2' (S i) (Z.of_nat i) end_i true
      else if N.eqb a 125 then lp_loop s1' s2' (S i) start_i (Z.of_nat i) false
      else lp_loop s1' s2' (S i) start_i end_i in_brace
  | _, _ => if Z.eqb end_i (Z.of_nat i - 1) then start_i else Z.of_nat i
  end.
Definition longest_prefix (s1 s2 : bytes) : Z := lp_loop s1 s2 O (-10) (-10) false.

(* Segment.Similarity: [seg] is the receiver, [s1] the argument *)
Definition similarity (seg s1 : segment) : Z :=
  if beqb (sval s1) (sval seg) then (-1)%Z
  else if negb (stype_eqb (styp s1) (styp seg)) then 0%Z
  else longest_prefix (sval s1) (sval seg).

Definition seg_split (ic : icpts) (seg : segment) (pos : nat) : res (segment * segment) :=
  do v1 <- slice_or_panic "Segment.Split:1" (sval seg) O pos;
  do v2 <- slice_or_panic "Segment.Split:2" (sval seg) pos (length (sval seg));
  do s1 <- new_segment ic v1;
  do s2 <- new_segment ic v2;
  Ok (s1, s2).

Definition is_ambiguous (seg s2 : segment) : bool :=
  let same := Bool.eqb (sendpoint seg) (sendpoint s2) && stype_eqb (styp seg) (styp s2) &&
              beqb (srule seg) (srule s2) && beqb (ssuffix seg) (ssuffix s2) in
  if negb (Bool.eqb (signore seg) (signore s2)) then same
  else negb (beqb (sname seg) (sname s2)) && Nat.eqb (samb seg) (samb s2) && same.

Definition ambiguous_len (seg : segment) : nat := (samb seg + length (sname seg))%nat.

(* first split point >= 0 at which the suffix occurs and the value is accepted *)
Fixpoint find_split (m : bytes -> bool) (suffix : bytes) (pre_rev : bytes) (s : bytes) : option (bytes * bytes) :=
  if has_prefix s suffix && m (rev pre_rev) then Some (rev pre_rev, skipn (length suffix) s)
  else match s with
       | [] => None
       | c :: s' => find_split m suffix (c :: pre_rev) s'
       end.

(* Segment.Match: on success the remaining path and the parameters *)
Definition seg_match (seg : segment) (path : bytes) (ps : params) : option (bytes * params) :=
  match styp seg with
  | TString => if has_prefix path (sval seg) then Some (skipn (length (sval seg)) path, ps) else None
  | TIcpt | TNamed | TRegexp =>
    (* a regexp parameter that ends its segment behaves like an end point (Endpoint stays false) *)
    if sendpoint seg || (stype_eqb (styp seg) TRegexp && match ssuffix seg with [] => true | _ => false end) then
      if smatch seg path then Some ([], if signore seg then ps else ctx_set ps (sname seg) path) else None
    else
      match find_split (smatch seg) (ssuffix seg) [] path with
      | Some (v, rest) => Some (rest, if signore seg then ps else ctx_set ps (sname seg) v)
      | None => None
      end
  end.

(* Segment.Valid (strict URL building) *)
Definition seg_valid (seg : segment) (v : bytes) : bool :=
  match styp seg with
  | TIcpt | TRegexp => smatch seg v
  | _ => true
  end.

(* Interceptors.URL with the empty interceptor set (non-strict URL building) *)
Fixpoint url_segs (segs : list segment) (ps : params) : res bytes :=
  match segs with
  | [] => Ok []
  | seg :: segs' =>
    match styp seg with
    | TString => do r <- url_segs segs' ps; Ok (sval seg ++ r)
    | _ => match ctx_get ps (sname seg) with
           | None => Err (bs "missing-param")
           | Some v => do r <- url_segs segs' ps; Ok (v ++ ssuffix seg ++ r)
           end
    end
  end.

Definition url_nonstrict (pattern : bytes) (ps : params) : res bytes :=
  match pattern with
  | [] => Ok []
  | _ => do segs <- split [] pattern; url_segs segs ps
  end.

(* the three built-in interceptor functions *)
Definition match_any (s : bytes) : bool := match s with [] => false | _ => true end.
Definition match_digit (s : bytes) : bool := match s with [] => false | _ => forallb is_digit s end.
Definition match_word (s : bytes) : bool := match s with [] => false | _ => forallb is_word s end.
