(* Line-oriented wire format shared by the Go harness, the extracted driver and the
   in-Coq sample evaluation.  A case is a list of lines, a line a list of byte-string
   fields; the first field is a tag.  Everything that interprets a case is Gallina. *)
From Coq Require Import String.
From Mux Require Import Model.Bytes.

Definition line := list bytes.

Definition tag_of (l : line) : bytes := match l with f :: _ => f | [] => [] end.
Definition is_tag (t : String.string) (l : line) : bool := beqb (tag_of l) (bs t).
Definition args (l : line) : list bytes := match l with _ :: a => a | [] => [] end.
Definition arg (i : nat) (l : line) : bytes := nth i (args l) [].
Definition argN (i : nat) (l : line) : N := opt_default 0 (dec_to_N (arg i l)).
Definition argnat (i : nat) (l : line) : nat := N.to_nat (argN i l).
Definition argb (i : nat) (l : line) : bool := beqb (arg i l) (bs "1").
Definition bool_field (b : bool) : bytes := if b then bs "1" else bs "0".

Fixpoint lines_eqb (a b : list bytes) : bool :=
  match a, b with
  | [], [] => true
  | x :: a', y :: b' => beqb x y && lines_eqb a' b'
  | _, _ => false
  end.

(* A suite: [init] consumes the header lines (tag H), [step] executes one operation
   line (tag O) on the model and returns the model's observation, [oracle] judges the
   IMPLEMENTATION's observation (tag R, following the O line) against the property and
   returns the names of the clauses it falsifies; [tags] labels the step for the
   coverage statistics.  Names starting with "known:" denote listed finding classes. *)
Record suite := {
  St : Type;
  init : list line -> St;
  step : St -> line -> St * list bytes;
  oracle : St -> St -> line -> list bytes -> list bytes;
  tags : St -> St -> line -> list bytes -> list bytes;
  (* lets the state remember what the IMPLEMENTATION answered (before/after comparisons) *)
  absorb : St -> line -> list bytes -> St;
}.

Fixpoint split_header (ls : list line) : list line * list line :=
  match ls with
  | l :: ls' => if is_tag "H" l then let '(h, r) := split_header ls' in (l :: h, r)
                else ([], ls)
  | [] => ([], [])
  end.

Section Run.
  Variable S : suite.

  (* output lines:  M idx model-obs…   |  F idx clause  |  T idx tag… *)
  Fixpoint run_ops (st : St S) (idx : nat) (ls : list line) : list line :=
    match ls with
    | o :: r :: ls' =>
      if is_tag "O" o && is_tag "R" r then
        let '(st', mobs) := step S st o in
        let iobs := args r in
        (* a model observation [unsup] means: outside the modelled fragment, not compared *)
        (* [judged]: the model makes no prediction of its own, the oracle alone decides *)
        let mm := if lines_eqb mobs iobs || lines_eqb mobs [bs "unsup"] || lines_eqb mobs [bs "judged"] then []
                  else [bs "M" :: nat_to_dec idx :: mobs] in
        (* an input the model declares outside its fragment is neither compared nor judged - except for faults
           ("C05:" clauses: nothing may panic on any input) *)
        let judged := if lines_eqb mobs [bs "unsup"] then filter (fun c => has_prefix c (bs "C05:")) (oracle S st st' o iobs)
                      else oracle S st st' o iobs in
        let ff := map (fun c => [bs "F"; nat_to_dec idx; c]) judged in
        let tt := match tags S st st' o iobs with [] => [] | t => [bs "T" :: nat_to_dec idx :: t] end in
        mm ++ ff ++ tt ++ run_ops (absorb S st' o iobs) (Datatypes.S idx) ls'
      else [[bs "X"; nat_to_dec idx; bs "bad-line-pair"]]
    | [] => []
    | _ :: [] => [[bs "X"; nat_to_dec idx; bs "dangling-line"]]
    end.

  Definition run_case (ls : list line) : list line :=
    let '(h, ops) := split_header ls in run_ops (init S h) 0 ops.
End Run.
