(* The http.Header map and the http.ResponseWriter contract, as far as the router relies on them:
   Set / Add / Del / Get on a header map, and a writer whose first WriteHeader or Write freezes
   the status and a snapshot of the headers (what is "actually sent"). *)
From Coq Require Import String.
From Mux Require Import Model.Bytes.

Definition headers := list (bytes * list bytes).

Fixpoint h_get_all (k : bytes) (h : headers) : list bytes :=
  match h with
  | [] => []
  | (k', v) :: h' => if beqb k k' then v else h_get_all k h'
  end.
Definition h_get (k : bytes) (h : headers) : bytes := match h_get_all k h with v :: _ => v | [] => [] end.
Definition h_has (k : bytes) (h : headers) : bool := match h_get_all k h with [] => false | _ => true end.
Fixpoint h_del (k : bytes) (h : headers) : headers :=
  match h with
  | [] => []
  | (k', v) :: h' => if beqb k k' then h_del k h' else (k', v) :: h_del k h'
  end.
Definition h_set (k v : bytes) (h : headers) : headers := (k, [v]) :: h_del k h.
Definition h_add (k v : bytes) (h : headers) : headers := (k, h_get_all k h ++ [v]) :: h_del k h.

(* what a handler does to its ResponseWriter *)
Inductive wevent :=
| ESet (k v : bytes) | EAdd (k v : bytes) | EDel (k : bytes)
| EWriteHeader (code : N)
| EWrite (n : N).                     (* a Write of n bytes *)

Record writer := { live : headers; sent : option (N * headers); body : N }.

Definition w_new (h : headers) : writer := {| live := h; sent := None; body := 0 |}.

Definition w_freeze (code : N) (w : writer) : writer :=
  match sent w with
  | Some _ => w
  | None => {| live := live w; sent := Some (code, live w); body := body w |}
  end.

Definition w_step (w : writer) (e : wevent) : writer :=
  match e with
  | ESet k v => {| live := h_set k v (live w); sent := sent w; body := body w |}
  | EAdd k v => {| live := h_add k v (live w); sent := sent w; body := body w |}
  | EDel k => {| live := h_del k (live w); sent := sent w; body := body w |}
  | EWriteHeader c => w_freeze c w
  | EWrite n => let w' := w_freeze 200 w in {| live := live w'; sent := sent w'; body := body w' + n |}
  end.

(* the server finishes a response that was never started with 200 and the headers at that moment *)
Definition w_finish (w : writer) : writer := w_freeze 200 w.

Definition run_get (h0 : headers) (script : list wevent) : writer := w_finish (fold_left w_step script (w_new h0)).

(* headResponse: Write is swallowed, the size accumulated and Content-Length set on the live map *)
Definition content_length : bytes := bs "Content-Length".

Definition hw_step (st : writer * N) (e : wevent) : writer * N :=
  let '(w, size) := st in
  match e with
  | EWrite n => let size' := size + n in
                ({| live := h_set content_length (N_to_dec size') (live w); sent := sent w; body := body w |}, size')
  | _ => (w_step w e, size)
  end.

Definition run_head (h0 : headers) (script : list wevent) : writer :=
  w_finish (fst (fold_left hw_step script (w_new h0, 0))).

Definition status_of (w : writer) : N := match sent w with Some (c, _) => c | None => 0 end.
Definition sent_headers (w : writer) : headers := match sent w with Some (_, h) => h | None => [] end.

(* internal/trace.Trace: [dump] is httputil.DumpRequest's result (None = error), [escape] html.EscapeString *)
Definition content_type : bytes := bs "Content-Type".
Definition message_http : bytes := bs "message/http".
Definition trace_script (dump : option bytes) (escape : bytes -> bytes) : list wevent :=
  match dump with
  | None => []
  | Some text => [ESet content_type message_http; EWriteHeader 200; EWrite (N.of_nat (length (escape text)))]
  end.
