(* types/context.go : route parameters and their accessors.
   strconv is a parameter of the model (record [strconv]); the harness instantiates it
   with Go's own results on the strings of the case. *)
From Coq Require Import String.
From Mux Require Import Model.Bytes.

Definition params := list (bytes * bytes).

(* value rendering, error text ([] = no error) *)
Record strconv := {
  p_int : bytes -> bytes * bytes;
  p_uint : bytes -> bytes * bytes;
  p_bool : bytes -> bytes * bytes;
  p_float : bytes -> bytes * bytes;
}.

Definition err_not_exists : bytes := bs "ErrParamNotExists".

Definition ctx_get (ps : params) (k : bytes) : option bytes := alookup k ps.
Definition ctx_exists (ps : params) (k : bytes) : bool :=
  match ctx_get ps k with Some _ => true | None => false end.
Definition ctx_string (ps : params) (k : bytes) : bytes * bytes :=
  match ctx_get ps k with Some v => (v, []) | None => ([], err_not_exists) end.
Definition ctx_must_string (ps : params) (k def : bytes) : bytes :=
  match ctx_get ps k with Some v => v | None => def end.

Definition ctx_conv (f : bytes -> bytes * bytes) (zero : bytes) (ps : params) (k : bytes) : bytes * bytes :=
  match ctx_get ps k with Some v => f v | None => (zero, err_not_exists) end.
Definition ctx_must (f : bytes -> bytes * bytes) (ps : params) (k def : bytes) : bytes :=
  match ctx_get ps k with
  | Some v => let '(r, e) := f v in match e with [] => r | _ => def end
  | None => def
  end.

Definition ctx_set (ps : params) (k v : bytes) : params := aset k v ps.
Definition ctx_delete (ps : params) (k : bytes) : params := adelete k ps.
Definition ctx_count (ps : params) : nat := length ps.
Definition ctx_range (ps : params) : params := asort ps.

(* the pool: contexts put back by Destroy, dirty as they were *)
Record cstate := { cur : params; pool : list params }.
Definition destroy_max : nat := 30.
Definition c_destroy (s : cstate) : cstate :=
  if Nat.leb (length (cur s)) destroy_max then {| cur := cur s; pool := cur s :: pool s |} else s.
(* NewContext: sync.Pool hands out any pooled context (or a new one), then Reset. *)
Definition c_reset (ps : params) : params := [].
Definition c_new (s : cstate) : cstate :=
  match pool s with
  | p :: rest => {| cur := c_reset p; pool := rest |}
  | [] => {| cur := c_reset []; pool := [] |}
  end.
