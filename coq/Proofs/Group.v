(* C13 / C16 - matchers (And/Or), Group dispatch, recovery. Proof work. *)
From Coq Require Import String.
From Mux Require Import Model.Bytes Model.Regex Model.Context Model.Syntax Model.Tree Model.Router
     Model.Match Model.Group Proofs.BytesFacts.

(* a Hosts tree whose rejections leave the parameters alone (every reachable Hosts tree is:
   Proofs/HostsRestore.v, hosts_reach_matcher_ok).  [ctx_nodup ps]: the context is a map. *)
Definition hosts_clean (t : tree) : Prop :=
  forall host ps ps', ctx_nodup ps -> hosts_match t host ps = Some (false, ps') -> ps' = ps.

Lemma ctx_nodup_nil : ctx_nodup [].
Proof. constructor. Qed.

(* a Hosts tree whose Match keeps the context a map (true of every tree: Proofs/HostsRestore.v,
   hosts_nodup_any; kept as a hypothesis here because this file does not depend on the tree proofs) *)
Definition hosts_keeps_nodup (t : tree) : Prop :=
  forall host ps ok ps', ctx_nodup ps -> hosts_match t host ps = Some (ok, ps') -> ctx_nodup ps'.

(* every Hosts matcher inside m is clean and keeps the context a map *)
Fixpoint matcher_ok (m : matcher) : Prop :=
  match m with
  | MHosts t => hosts_clean t /\ hosts_keeps_nodup t
  | MAnd l | MOr l =>
    (fix all (l : list matcher) : Prop :=
       match l with [] => True | x :: l' => matcher_ok x /\ all l' end) l
  | _ => True
  end.

(* ------------------------------------------------------------------ induction on matchers *)
Section MatcherInd.
  Variable P : matcher -> Prop.
  Hypothesis HAny : P MAny.
  Hypothesis HHosts : forall t, P (MHosts t).
  Hypothesis HPath : forall n vs, P (MPathVer n vs).
  Hypothesis HHdr : forall n k vs, P (MHeaderVer n k vs).
  Hypothesis HAnd : forall l, Forall P l -> P (MAnd l).
  Hypothesis HOr : forall l, Forall P l -> P (MOr l).

  Fixpoint matcher_ind' (m : matcher) : P m :=
    match m with
    | MAny => HAny
    | MHosts t => HHosts t
    | MPathVer n vs => HPath n vs
    | MHeaderVer n k vs => HHdr n k vs
    | MAnd l => HAnd l ((fix go (l : list matcher) : Forall P l :=
                           match l with
                           | [] => Forall_nil P
                           | x :: l' => Forall_cons x (matcher_ind' x) (go l')
                           end) l)
    | MOr l => HOr l ((fix go (l : list matcher) : Forall P l :=
                         match l with
                         | [] => Forall_nil P
                         | x :: l' => Forall_cons x (matcher_ind' x) (go l')
                         end) l)
    end.
End MatcherInd.

Lemma all_ok_In : forall l,
    (fix all (l : list matcher) : Prop :=
       match l with [] => True | x :: l' => matcher_ok x /\ all l' end) l
    <-> (forall x, In x l -> matcher_ok x).
Proof.
  induction l as [|a l IH].
  - split; [intros _ x Hx; destruct Hx | intros _; exact I].
  - split.
    + intros [Ha Hl] x [Hx|Hx]; [subst x; exact Ha | exact (proj1 IH Hl x Hx)].
    + intros H. split; [apply H; left; reflexivity | apply (proj2 IH); intros x Hx; apply H; right; exact Hx].
Qed.

Lemma matcher_ok_and : forall l, matcher_ok (MAnd l) <-> (forall x, In x l -> matcher_ok x).
Proof. intro l. exact (all_ok_In l). Qed.

Lemma matcher_ok_or : forall l, matcher_ok (MOr l) <-> (forall x, In x l -> matcher_ok x).
Proof. intro l. exact (all_ok_In l). Qed.

(* ------------------------------------------------------------------ And / Or as top-level loops *)
Fixpoint and_go (q : mreq) (ps : params) (l : list matcher) (q' : mreq) (ps' : params) : mres :=
  match l with
  | [] => MR true q' ps'
  | x :: l' => match m_match x q' ps' with
               | MR true q2 ps2 => and_go q ps l' q2 ps2
               | MR false _ _ => MR false q ps
               | MRPanic => MRPanic
               end
  end.

Fixpoint or_go (l : list matcher) (q' : mreq) (ps' : params) : mres :=
  match l with
  | [] => MR false q' ps'
  | x :: l' => match m_match x q' ps' with
               | MR true q2 ps2 => MR true q2 ps2
               | MR false q2 ps2 => or_go l' q2 ps2
               | MRPanic => MRPanic
               end
  end.

Lemma m_and : forall l q ps, m_match (MAnd l) q ps = and_go q ps l q ps.
Proof.
  intros l q ps.
  change (m_match (MAnd l) q ps) with
    ((fix go (l : list matcher) (q' : mreq) (ps' : params) : mres :=
        match l with
        | [] => MR true q' ps'
        | x :: l' => match m_match x q' ps' with
                     | MR true q2 ps2 => go l' q2 ps2
                     | MR false _ _ => MR false q ps
                     | MRPanic => MRPanic
                     end
        end) l q ps).
  generalize q at 2 4 as q0. generalize ps at 2 4 as ps0.
  induction l as [|x l IH]; intros ps0 q0.
  - reflexivity.
  - cbn [and_go]. destruct (m_match x q0 ps0) as [ok q2 ps2|] eqn:E; [destruct ok|]; try reflexivity.
    apply IH.
Qed.

Lemma m_or : forall l q ps, m_match (MOr l) q ps = or_go l q ps.
Proof. intros l q ps. reflexivity. Qed.

(* ------------------------------------------------------------------ rejections leave everything alone *)
Lemma pathver_false : forall name vs path ps path' ps',
    pathver_match name vs path ps = (false, path', ps') -> path' = path /\ ps' = ps.
Proof.
  intros name vs path ps path' ps'. induction vs as [|v vs IH]; cbn [pathver_match]; intro H.
  - inversion H. split; reflexivity.
  - destruct (has_prefix path v) eqn:E.
    + discriminate H.
    + exact (IH H).
Qed.

Lemma headerver_false : forall name key vs accept parsed ps ps',
    headerver_match name key vs accept parsed ps = (false, ps') -> ps' = ps.
Proof.
  intros name key vs accept parsed ps ps' H. unfold headerver_match in H.
  destruct accept as [|c accept].
  - inversion H. reflexivity.
  - destruct parsed as [kv|].
    + destruct (find_version _ vs) as [v|] eqn:E.
      * discriminate H.
      * inversion H. reflexivity.
    + inversion H. reflexivity.
Qed.

Lemma with_path_same : forall q, with_path q (m_path q) = q.
Proof. intro q. destruct q as [h p a pr]. reflexivity. Qed.

Lemma and_go_false : forall l q ps q0 ps0 a b, and_go q ps l q0 ps0 = MR false a b -> a = q /\ b = ps.
Proof.
  induction l as [|x l IH]; intros q ps q0 ps0 a b H; cbn [and_go] in H.
  - discriminate H.
  - destruct (m_match x q0 ps0) as [ok q2 ps2|] eqn:E; [destruct ok|].
    + exact (IH _ _ _ _ _ _ H).
    + inversion H. split; reflexivity.
    + discriminate H.
Qed.

Lemma or_go_false : forall l,
    Forall (fun m => forall q ps q' ps', matcher_ok m -> ctx_nodup ps -> m_match m q ps = MR false q' ps' -> q' = q /\ ps' = ps) l ->
    (forall x, In x l -> matcher_ok x) ->
    forall q ps a b, ctx_nodup ps -> or_go l q ps = MR false a b -> a = q /\ b = ps.
Proof.
  intros l HF. induction HF as [|x l Hx HF IH]; intros Hok q ps a b Hn H; cbn [or_go] in H.
  - inversion H. split; reflexivity.
  - destruct (m_match x q ps) as [ok q2 ps2|] eqn:E; [destruct ok|].
    + discriminate H.
    + destruct (Hx q ps q2 ps2 (Hok x (or_introl eq_refl)) Hn E) as [Hq Hp]. subst q2 ps2.
      apply IH; [intros y Hy; apply Hok; right; exact Hy | exact Hn | exact H].
    + discriminate H.
Qed.

Lemma reject_clean : forall m q ps q' ps',
    matcher_ok m -> ctx_nodup ps -> m_match m q ps = MR false q' ps' -> q' = q /\ ps' = ps.
Proof.
  intro m. induction m as [|t|name vs|name key vs|l IHl|l IHl] using matcher_ind';
    intros q ps q' ps' Hok Hn H.
  - cbn [m_match] in H. discriminate H.
  - cbn [m_match] in H. destruct (hosts_match t (m_host q) ps) as [[ok ps2]|] eqn:E.
    + inversion H. subst ok q' ps'. split; [reflexivity|]. exact (proj1 Hok _ _ _ Hn E).
    + discriminate H.
  - cbn [m_match] in H. destruct (pathver_match name vs (m_path q) ps) as [[ok p2] ps2] eqn:E.
    inversion H. subst ok q' ps'. destruct (pathver_false _ _ _ _ _ _ E) as [Hp Hps]. subst p2 ps2.
    split; [apply with_path_same | reflexivity].
  - cbn [m_match] in H.
    destruct (headerver_match name key vs (m_accept q) (m_parsed q) ps) as [ok ps2] eqn:E.
    inversion H. subst ok q' ps'. split; [reflexivity|]. exact (headerver_false _ _ _ _ _ _ _ E).
  - rewrite m_and in H. exact (and_go_false _ _ _ _ _ _ _ H).
  - rewrite m_or in H. exact (or_go_false l IHl (proj1 (matcher_ok_or l) Hok) _ _ _ _ Hn H).
Qed.

(* ------------------------------------------------------------------ the context stays a map *)
Lemma pathver_nodup : forall name vs path ps ok path' ps',
    ctx_nodup ps -> pathver_match name vs path ps = (ok, path', ps') -> ctx_nodup ps'.
Proof.
  intros name vs path ps ok path' ps' Hn. induction vs as [|v vs IH]; cbn [pathver_match]; intro H.
  - inversion H. subst. exact Hn.
  - destruct (has_prefix path v); [|exact (IH H)].
    inversion H. subst. destruct name; [exact Hn|]. unfold ctx_nodup, ctx_set. apply (nodup_aset ps _ _ Hn).
Qed.

Lemma headerver_nodup : forall name key vs accept parsed ps ok ps',
    ctx_nodup ps -> headerver_match name key vs accept parsed ps = (ok, ps') -> ctx_nodup ps'.
Proof.
  intros name key vs accept parsed ps ok ps' Hn H. unfold headerver_match in H.
  destruct accept as [|c accept]; [inversion H; subst; exact Hn|].
  destruct parsed as [kv|]; [|inversion H; subst; exact Hn].
  destruct (find_version _ vs) as [v|]; [|inversion H; subst; exact Hn].
  inversion H. subst. destruct name; [exact Hn|]. unfold ctx_nodup, ctx_set. apply (nodup_aset ps _ _ Hn).
Qed.

Lemma and_go_nodup : forall l,
    Forall (fun m => forall q ps q' ps', matcher_ok m -> ctx_nodup ps -> m_match m q ps = MR true q' ps' -> ctx_nodup ps') l ->
    (forall x, In x l -> matcher_ok x) ->
    forall q ps q0 ps0 a b, ctx_nodup ps0 -> and_go q ps l q0 ps0 = MR true a b -> ctx_nodup b.
Proof.
  intros l HF. induction HF as [|x l Hx HF IH]; intros Hok q ps q0 ps0 a b Hn H; cbn [and_go] in H.
  - inversion H. subst. exact Hn.
  - destruct (m_match x q0 ps0) as [ok q2 ps2|] eqn:E; [destruct ok|]; try discriminate H.
    apply (IH (fun y Hy => Hok y (or_intror Hy)) q ps q2 ps2 a b); [|exact H].
    exact (Hx _ _ _ _ (Hok x (or_introl eq_refl)) Hn E).
Qed.

Lemma or_go_nodup : forall l,
    Forall (fun m => forall q ps q' ps', matcher_ok m -> ctx_nodup ps -> m_match m q ps = MR true q' ps' -> ctx_nodup ps') l ->
    (forall x, In x l -> matcher_ok x) ->
    forall q ps a b, ctx_nodup ps -> or_go l q ps = MR true a b -> ctx_nodup b.
Proof.
  intros l HF. induction HF as [|x l Hx HF IH]; intros Hok q ps a b Hn H; cbn [or_go] in H.
  - discriminate H.
  - destruct (m_match x q ps) as [ok q2 ps2|] eqn:E; [destruct ok|]; try discriminate H.
    + inversion H. subst. exact (Hx _ _ _ _ (Hok x (or_introl eq_refl)) Hn E).
    + destruct (reject_clean x q ps q2 ps2 (Hok x (or_introl eq_refl)) Hn E) as [Hq Hp]. subst q2 ps2.
      exact (IH (fun y Hy => Hok y (or_intror Hy)) q ps a b Hn H).
Qed.

Lemma m_match_nodup_true : forall m q ps q' ps',
    matcher_ok m -> ctx_nodup ps -> m_match m q ps = MR true q' ps' -> ctx_nodup ps'.
Proof.
  intro m. induction m as [|t|name vs|name key vs|l IHl|l IHl] using matcher_ind';
    intros q ps q' ps' Hok Hn H.
  - cbn [m_match] in H. inversion H. subst. exact Hn.
  - cbn [m_match] in H. destruct (hosts_match t (m_host q) ps) as [[ok ps2]|] eqn:E; [|discriminate H].
    inversion H. subst ok q' ps'. exact (proj2 Hok _ _ _ _ Hn E).
  - cbn [m_match] in H. destruct (pathver_match name vs (m_path q) ps) as [[ok p2] ps2] eqn:E.
    inversion H. subst. exact (pathver_nodup _ _ _ _ _ _ _ Hn E).
  - cbn [m_match] in H.
    destruct (headerver_match name key vs (m_accept q) (m_parsed q) ps) as [ok ps2] eqn:E.
    inversion H. subst. exact (headerver_nodup _ _ _ _ _ _ _ _ Hn E).
  - rewrite m_and in H. exact (and_go_nodup l IHl (proj1 (matcher_ok_and l) Hok) _ _ _ _ _ _ Hn H).
  - rewrite m_or in H. exact (or_go_nodup l IHl (proj1 (matcher_ok_or l) Hok) _ _ _ _ Hn H).
Qed.

(* accepted or rejected: a matcher keeps the context a map *)
Lemma m_match_nodup : forall m q ps ok q' ps',
    matcher_ok m -> ctx_nodup ps -> m_match m q ps = MR ok q' ps' -> ctx_nodup ps'.
Proof.
  intros m q ps ok q' ps' Hok Hn H. destruct ok.
  - exact (m_match_nodup_true m q ps q' ps' Hok Hn H).
  - destruct (reject_clean m q ps q' ps' Hok Hn H) as [_ ->]. exact Hn.
Qed.

(* ------------------------------------------------------------------ And: all accepted, in a chain *)
Lemma and_accepts_all : forall l q ps q' ps', m_match (MAnd l) q ps = MR true q' ps' ->
    exists states : list (mreq * params), length states = length l /\
      (fix chain (l : list matcher) (q0 : mreq) (ps0 : params) (st : list (mreq * params)) : Prop :=
         match l, st with
         | [], [] => (q0, ps0) = (q', ps')
         | x :: l', (q1, ps1) :: st' => m_match x q0 ps0 = MR true q1 ps1 /\ chain l' q1 ps1 st'
         | _, _ => False end) l q ps states.
Proof.
  intros l q ps q' ps' H. rewrite m_and in H.
  revert H. generalize q at 2 3 as q0. generalize ps at 2 3 as ps0.
  induction l as [|x l IH]; intros ps0 q0 H; cbn [and_go] in H.
  - exists []. split; [reflexivity|]. inversion H. reflexivity.
  - destruct (m_match x q0 ps0) as [ok q2 ps2|] eqn:E; [destruct ok|].
    + destruct (IH _ _ H) as [st [Hlen Hch]].
      exists ((q2, ps2) :: st). split; [cbn [length]; rewrite Hlen; reflexivity|].
      split; [first [exact E | reflexivity] | exact Hch].
    + discriminate H.
    + discriminate H.
Qed.

(* ------------------------------------------------------------------ Or: the first accepting member *)
Lemma or_first : forall l q ps q' ps', (forall x, In x l -> matcher_ok x) -> ctx_nodup ps ->
    m_match (MOr l) q ps = MR true q' ps' ->
    exists pre x post, l = pre ++ x :: post /\
      (forall y, In y pre -> exists a b, m_match y q ps = MR false a b) /\
      m_match x q ps = MR true q' ps'.
Proof.
  intros l q ps q' ps' Hok Hn H. rewrite m_or in H.
  induction l as [|x l IH]; cbn [or_go] in H.
  - discriminate H.
  - destruct (m_match x q ps) as [ok q2 ps2|] eqn:E; [destruct ok|].
    + inversion H. subst q2 ps2. exists [], x, l. split; [reflexivity|].
      split; [intros y Hy; destruct Hy | exact E].
    + destruct (reject_clean x q ps q2 ps2 (Hok x (or_introl eq_refl)) Hn E) as [Hq Hp]. subst q2 ps2.
      destruct (IH (fun y Hy => Hok y (or_intror Hy)) H) as [pre [z [post [Hl [Hpre Hz]]]]].
      exists (x :: pre), z, post. split; [rewrite Hl; reflexivity|].
      split; [|exact Hz].
      intros y [Hy|Hy]; [subst y; exists q, ps; exact E | exact (Hpre y Hy)].
    + discriminate H.
Qed.

(* ------------------------------------------------------------------ Group dispatch *)
Lemma first_accepting : forall l q rs method r q',
    (forall x, In x l -> matcher_ok (gr_matcher x)) ->
    g_scan l q rs method = (Some r, q') ->
    (exists pre x post ps, l = pre ++ x :: post /\
       (forall y, In y pre -> exists a b, m_match (gr_matcher y) q [] = MR false a b) /\
       m_match (gr_matcher x) q [] = MR true q' ps /\
       r = serve_ctx (gr_router x) (gr_recover x) rs method (m_path q') ps)
    \/ (exists pre x post, l = pre ++ x :: post /\
          (forall y, In y pre -> exists a b, m_match (gr_matcher y) q [] = MR false a b) /\
          m_match (gr_matcher x) q [] = MRPanic /\ r = SPanic).
Proof.
  intros l q rs method r q' Hok H.
  induction l as [|x l IH]; cbn [g_scan] in H.
  - discriminate H.
  - destruct (m_match (gr_matcher x) q []) as [ok q2 ps2|] eqn:E; [destruct ok|].
    + inversion H. subst r q2. left. exists [], x, l, ps2. split; [reflexivity|].
      split; [intros y Hy; destruct Hy|]. split; [exact E | reflexivity].
    + destruct (reject_clean _ q [] q2 ps2 (Hok x (or_introl eq_refl)) ctx_nodup_nil E) as [Hq Hp]. subst q2 ps2.
      destruct (IH (fun y Hy => Hok y (or_intror Hy)) H) as [Hl|Hr].
      * destruct Hl as [pre [z [post [ps1 [Hl [Hpre [Hz Hr]]]]]]]. left.
        exists (x :: pre), z, post, ps1. split; [rewrite Hl; reflexivity|].
        split; [|split; [exact Hz | exact Hr]].
        intros y [Hy|Hy]; [subst y; exists q, []; exact E | exact (Hpre y Hy)].
      * destruct Hr as [pre [z [post [Hl [Hpre [Hz Hr]]]]]]. right.
        exists (x :: pre), z, post. split; [rewrite Hl; reflexivity|].
        split; [|split; [exact Hz | exact Hr]].
        intros y [Hy|Hy]; [subst y; exists q, []; exact E | exact (Hpre y Hy)].
    + inversion H. subst r q'. right. exists [], x, l. split; [reflexivity|].
      split; [intros y Hy; destruct Hy|]. split; [exact E | reflexivity].
Qed.

Lemma first_accepting' : forall l q rs method r q',
    (forall x, In x l -> matcher_ok (gr_matcher x)) ->
    g_scan l q rs method = (Some r, q') -> r <> SPanic \/ True ->
    (exists pre x post ps, l = pre ++ x :: post /\
       (forall y, In y pre -> exists a b, m_match (gr_matcher y) q [] = MR false a b) /\
       m_match (gr_matcher x) q [] = MR true q' ps /\
       r = serve_ctx (gr_router x) (gr_recover x) rs method (m_path q') ps)
    \/ (exists pre x post, l = pre ++ x :: post /\
          (forall y, In y pre -> exists a b, m_match (gr_matcher y) q [] = MR false a b) /\
          m_match (gr_matcher x) q [] = MRPanic /\ r = SPanic).
Proof. intros l q rs method r q' Hok H _. exact (first_accepting l q rs method r q' Hok H). Qed.

Lemma scan_none : forall l q rs method,
    (forall x, In x l -> matcher_ok (gr_matcher x)) ->
    (forall x, In x l -> exists a b, m_match (gr_matcher x) q [] = MR false a b) ->
    g_scan l q rs method = (None, q).
Proof.
  intros l q rs method. induction l as [|x l IH]; intros Hok Hrej; cbn [g_scan].
  - reflexivity.
  - destruct (Hrej x (or_introl eq_refl)) as [a [b E]]. rewrite E.
    destruct (reject_clean _ q [] a b (Hok x (or_introl eq_refl)) ctx_nodup_nil E) as [Hq Hp]. subst a b.
    apply IH; [intros y Hy; apply Hok; right; exact Hy | intros y Hy; apply Hrej; right; exact Hy].
Qed.

Lemma none_accepts : forall g q rs method,
    (forall x, In x (g_routers g) -> matcher_ok (gr_matcher x)) ->
    (forall x, In x (g_routers g) -> exists a b, m_match (gr_matcher x) q [] = MR false a b) ->
    g_serve g q rs method = finish (g_recover g) rs (g_notfound g) [] (m_path q) [] None.
Proof.
  intros g q rs method Hok Hrej. unfold g_serve.
  rewrite (scan_none _ q rs method Hok Hrej). reflexivity.
Qed.

(* ------------------------------------------------------------------ Use and the group's 404 *)
Lemma apply_mw_app : forall a h m p r b,
    apply_mw h m p r (a ++ b) = apply_mw (apply_mw h m p r a) m p r b.
Proof.
  induction a as [|x a IH]; intros h m p r b.
  - reflexivity.
  - cbn [app apply_mw]. apply IH.
Qed.

Lemma notfound_fold : forall (uses : list (list bytes)) g,
    g_notfound (fold_left g_use uses g) = apply_mw (g_notfound g) [] [] [] (concat uses).
Proof.
  induction uses as [|u uses IH]; intro g.
  - reflexivity.
  - cbn [fold_left concat]. rewrite IH. rewrite apply_mw_app. reflexivity.
Qed.

Lemma notfound_wrapped : forall (uses : list (list bytes)),
    g_notfound (fold_left g_use uses (g_new_group false)) = apply_mw HGroupNotFound [] [] [] (concat uses).
Proof. intro uses. rewrite notfound_fold. reflexivity. Qed.

(* ------------------------------------------------------------------ Add / Remove and names *)
Lemma r_use_name : forall r mws, tname (rtree (r_use r mws)) = tname (rtree r).
Proof. intros r mws. reflexivity. Qed.

Lemma existsb_name : forall l n,
    existsb (fun x => beqb (gr_name x) n) l = true <-> In n (map gr_name l).
Proof.
  intros l n. induction l as [|x l IH]; cbn [existsb map In].
  - split; [discriminate | intros []].
  - rewrite orb_true_iff, IH, beqb_eq. reflexivity.
Qed.

Lemma NoDup_snoc : forall (l : list bytes) a, NoDup l -> ~ In a l -> NoDup (l ++ [a]).
Proof.
  induction l as [|x l IH]; intros a Hnd Hin; cbn [app].
  - constructor; [intros [] | constructor].
  - inversion Hnd as [|y l' Hx Hl]. subst y l'. constructor.
    + intro Hc. apply in_app_or in Hc. destruct Hc as [Hc|Hc]; [exact (Hx Hc)|].
      destruct Hc as [Hc|[]]. apply Hin. left. symmetry. exact Hc.
    + apply IH; [exact Hl | intro Hc; apply Hin; right; exact Hc].
Qed.

Lemma names_unique : forall g m r rec g',
    NoDup (map gr_name (g_routers g)) -> g_add g m r rec = Some g' -> NoDup (map gr_name (g_routers g')).
Proof.
  intros g m r rec g' Hnd H. unfold g_add in H.
  destruct (existsb (fun x => beqb (gr_name x) (tname (rtree r))) (g_routers g)) eqn:E.
  - discriminate H.
  - inversion H. cbn [g_routers]. rewrite map_app. cbn [map].
    unfold gr_name at 2. cbn [gr_router]. rewrite r_use_name.
    apply NoDup_snoc; [exact Hnd|].
    intro Hc. apply existsb_name in Hc. rewrite Hc in E. discriminate E.
Qed.

Lemma add_duplicate_rejected : forall g m r rec,
    In (tname (rtree r)) (map gr_name (g_routers g)) -> g_add g m r rec = None.
Proof.
  intros g m r rec H. unfold g_add. apply existsb_name in H. rewrite H. reflexivity.
Qed.

Lemma remove_spec : forall g name,
    ~ In name (map gr_name (g_routers (g_remove g name))) /\
    (forall x, In x (g_routers g) -> gr_name x <> name -> In x (g_routers (g_remove g name))) /\
    g_routers (g_remove g name) = filter (fun x => negb (beqb (gr_name x) name)) (g_routers g).
Proof.
  intros g name. cbn [g_remove g_routers]. split; [|split].
  - intro Hc. apply in_map_iff in Hc. destruct Hc as [x [Hn Hx]].
    apply filter_In in Hx. destruct Hx as [_ Hb]. subst name. rewrite beqb_refl in Hb. discriminate Hb.
  - intros x Hx Hn. apply filter_In. split; [exact Hx|].
    apply beqb_neq in Hn. rewrite Hn. reflexivity.
  - reflexivity.
Qed.

(* ------------------------------------------------------------------ C16: recovery *)
Lemma contained : forall rs h rname path ps n,
    exists s, finish true rs h rname path ps n = SOk s /\ s_escaped s = None /\
      (forall v, run_h rs h = Raised v -> s_recovered s = [v]) /\ (run_h rs h = Done -> s_recovered s = []).
Proof.
  intros rs h rname path ps n. unfold finish. destruct (run_h rs h) as [|w] eqn:E.
  - eexists. split; [reflexivity|]. cbn [s_escaped s_recovered].
    split; [reflexivity|]. split; [intros v Hv; discriminate Hv | reflexivity].
  - eexists. split; [reflexivity|]. cbn [s_escaped s_recovered].
    split; [reflexivity|]. split; [intros v Hv; inversion Hv; reflexivity | intro Hd; discriminate Hd].
Qed.

Lemma passthrough : forall rs h rname path ps n,
    exists s, finish false rs h rname path ps n = SOk s /\ s_recovered s = [] /\
      (forall v, run_h rs h = Raised v -> s_escaped s = Some v) /\ (run_h rs h = Done -> s_escaped s = None).
Proof.
  intros rs h rname path ps n. unfold finish. destruct (run_h rs h) as [|w] eqn:E.
  - eexists. split; [reflexivity|]. cbn [s_escaped s_recovered].
    split; [reflexivity|]. split; [intros v Hv; discriminate Hv | reflexivity].
  - eexists. split; [reflexivity|]. cbn [s_escaped s_recovered].
    split; [reflexivity|]. split; [intros v Hv; inversion Hv; reflexivity | intro Hd; discriminate Hd].
Qed.

Lemma finish_spec : forall recover rs h rname path ps n,
    exists s, finish recover rs h rname path ps n = SOk s /\ s_handler s = h /\
      (length (s_recovered s) <= 1)%nat /\
      (recover = true -> s_escaped s = None) /\ (recover = false -> s_recovered s = []) /\
      (run_h rs h = Done -> s_recovered s = [] /\ s_escaped s = None) /\
      (forall v, run_h rs h = Raised v ->
                 (recover = true -> s_recovered s = [v]) /\ (recover = false -> s_escaped s = Some v)).
Proof.
  intros recover rs h rname path ps n. unfold finish. destruct (run_h rs h) as [|w] eqn:E.
  - eexists. split; [reflexivity|]. cbn [s_handler s_escaped s_recovered length].
    split; [reflexivity|]. split; [lia|]. split; [reflexivity|]. split; [reflexivity|].
    split; [intros _; split; reflexivity | intros v Hv; discriminate Hv].
  - eexists. split; [reflexivity|]. cbn [s_handler s_escaped s_recovered].
    split; [reflexivity|].
    split; [destruct recover; cbn [length]; lia|].
    split; [intro Hr; rewrite Hr; reflexivity|].
    split; [intro Hr; rewrite Hr; reflexivity|].
    split; [intro Hd; discriminate Hd|].
    intros v Hv. inversion Hv. subst w.
    split; intro Hr; rewrite Hr; reflexivity.
Qed.

Lemma router_recovery : forall r recover rs method path ps0,
    serve_ctx r recover rs method path ps0 = SPanic \/
    exists s, serve_ctx r recover rs method path ps0 = SOk s /\ (length (s_recovered s) <= 1)%nat /\
      (recover = true -> s_escaped s = None) /\ (recover = false -> s_recovered s = []) /\
      (run_h rs (s_handler s) = Done -> s_recovered s = [] /\ s_escaped s = None) /\
      (forall v, run_h rs (s_handler s) = Raised v ->
                 (recover = true -> s_recovered s = [v]) /\ (recover = false -> s_escaped s = Some v)).
Proof.
  intros r recover rs method path ps0. unfold serve_ctx.
  destruct (tree_handler (rtree r) method path ps0) as [ok n h ps|site] eqn:E.
  - right.
    destruct (finish_spec recover rs h (tname (rtree r)) path ps n)
      as [s [Hs [Hh [Hlen [Ht [Hf [Hd Hv]]]]]]].
    exists s. rewrite Hh. split; [exact Hs|]. split; [exact Hlen|]. split; [exact Ht|].
    split; [exact Hf|]. split; [exact Hd | exact Hv].
  - left. reflexivity.
Qed.

Lemma first_value_wins : forall rs mw m p r inner v,
    raise_at rs mw (bs "before") = Some v -> run_h rs (HWrap mw m p r inner) = Raised v.
Proof. intros rs mw m p r inner v H. cbn [run_h]. rewrite H. reflexivity. Qed.

Lemma inner_before_after : forall rs mw m p r inner v,
    raise_at rs mw (bs "before") = None -> run_h rs inner = Raised v ->
    run_h rs (HWrap mw m p r inner) = Raised v.
Proof. intros rs mw m p r inner v H Hi. cbn [run_h]. rewrite H, Hi. reflexivity. Qed.

Lemma after_phase : forall rs mw m p r inner,
    raise_at rs mw (bs "before") = None -> run_h rs inner = Done ->
    run_h rs (HWrap mw m p r inner) =
    match raise_at rs mw (bs "after") with Some v => Raised v | None => Done end.
Proof. intros rs mw m p r inner H Hi. cbn [run_h]. rewrite H, Hi. reflexivity. Qed.

Lemma no_raise_no_recovery : forall rs h, (forall l p, raise_at rs l p = None) -> run_h rs h = Done.
Proof.
  intros rs h H. induction h as [id| | | | | |mw m p r inner IH]; cbn [run_h];
    try (rewrite H; reflexivity).
  rewrite H, IH, H. reflexivity.
Qed.

Lemma group_notfound : forall g q rs method,
    (forall x, In x (g_routers g) -> matcher_ok (gr_matcher x)) ->
    (forall x, In x (g_routers g) -> exists a b, m_match (gr_matcher x) q [] = MR false a b) ->
    exists s, g_serve g q rs method = SOk s /\ s_handler s = g_notfound g /\
      (g_recover g = true -> s_escaped s = None) /\ (g_recover g = false -> s_recovered s = []).
Proof.
  intros g q rs method Hok Hrej. rewrite (none_accepts g q rs method Hok Hrej).
  destruct (finish_spec (g_recover g) rs (g_notfound g) [] (m_path q) [] None)
    as [s [Hs [Hh [_ [Ht [Hf _]]]]]].
  exists s. split; [exact Hs|]. split; [exact Hh|]. split; [exact Ht | exact Hf].
Qed.

(* ------------------------------------------------------------------ examples *)
Definition ex_req : mreq :=
  {| m_host := bs "example.com"; m_path := bs "/v1/users"; m_accept := bs "application/json; version=2";
     m_parsed := Some [(bs "version", bs "2")] |}.
Definition ex_and : matcher := MAnd [MPathVer [] [bs "/v1/"]; MHeaderVer [] [] [bs "1"]].

Example ex_ok : matcher_ok ex_and /\ matcher_ok (MOr [ex_and; MAny]).
Proof. cbn. tauto. Qed.

(* the first member accepts and strips /v1, the second rejects: the ORIGINAL request comes back *)
Example ex_and_restores :
  m_match (MPathVer [] [bs "/v1/"]) ex_req [] = MR true (with_path ex_req (bs "/users")) [] /\
  m_match (MHeaderVer [] [] [bs "1"]) (with_path ex_req (bs "/users")) [] = MR false (with_path ex_req (bs "/users")) [] /\
  m_match ex_and ex_req [] = MR false ex_req [].
Proof. split; [|split]; vm_compute; reflexivity. Qed.

Example ex_and_accepts :
  m_match (MAnd [MPathVer (bs "pv") [bs "/v1/"]; MHeaderVer (bs "hv") [] [bs "1"; bs "2"]]) ex_req []
  = MR true (with_path ex_req (bs "/users")) [(bs "pv", bs "/v1"); (bs "hv", bs "2")].
Proof. vm_compute. reflexivity. Qed.

Example ex_or_first :
  m_match (MOr [ex_and; MPathVer (bs "pv") [bs "/v2/"]; MPathVer (bs "pv") [bs "/v1/"]; MAny]) ex_req []
  = MR true (with_path ex_req (bs "/users")) [(bs "pv", bs "/v1")].
Proof. vm_compute. reflexivity. Qed.

(* a raising middleware: "b" raises before calling on, so neither the core nor "a" is reached;
   if only the core raises, its value passes through both layers *)
Example ex_run_raise :
  run_h [(bs "b", bs "before", bs "boom"); (bs "U:h", bs "core", bs "late")]
        (apply_mw (HUser (bs "h")) [] [] [] [bs "a"; bs "b"]) = Raised (bs "boom") /\
  run_h [(bs "U:h", bs "core", bs "late"); (bs "a", bs "after", bs "never")]
        (apply_mw (HUser (bs "h")) [] [] [] [bs "a"; bs "b"]) = Raised (bs "late") /\
  run_h [(bs "a", bs "after", bs "tail")]
        (apply_mw (HUser (bs "h")) [] [] [] [bs "a"; bs "b"]) = Raised (bs "tail") /\
  run_h [] (apply_mw (HUser (bs "h")) [] [] [] [bs "a"; bs "b"]) = Done.
Proof. repeat split; vm_compute; reflexivity. Qed.

(* a group of two routers; the second one serves /v2/... with the stripped path *)
Definition ex_router (name : bytes) : router :=
  match r_handle (new_router name [] false []) (bs "/users") (HUser name) [] [GET] with
  | Ok r => r
  | _ => new_router name [] false []
  end.

Definition ex_group : group :=
  let g0 := g_use (g_new_group true) [bs "log"] in
  match g_add g0 (MPathVer (bs "pv") [bs "/v1/"]) (ex_router (bs "r1")) true with
  | Some g1 => match g_add g1 (MPathVer (bs "pv") [bs "/v2/"]) (ex_router (bs "r2")) false with
               | Some g2 => g2
               | None => g0
               end
  | None => g0
  end.

Example ex_group_serve :
  map gr_name (g_routers ex_group) = [bs "r1"; bs "r2"] /\
  g_add ex_group MAny (ex_router (bs "r1")) true = None /\
  (exists s, g_serve ex_group (with_path ex_req (bs "/v2/users")) [(bs "U:r2", bs "core", bs "boom")] GET = SOk s /\
             s_router s = bs "r2" /\ s_path s = bs "/users" /\ s_params s = [(bs "pv", bs "/v2")] /\
             s_handler s = HWrap (bs "log") GET (bs "/users") (bs "r2") (HUser (bs "r2")) /\
             s_recovered s = [] /\ s_escaped s = Some (bs "boom")) /\
  (exists s, g_serve ex_group (with_path ex_req (bs "/v1/users")) [(bs "U:r1", bs "core", bs "boom")] GET = SOk s /\
             s_router s = bs "r1" /\ s_recovered s = [bs "boom"] /\ s_escaped s = None) /\
  (exists s, g_serve ex_group (with_path ex_req (bs "/v3/users")) [(bs "log", bs "after", bs "boom")] GET = SOk s /\
             s_handler s = HWrap (bs "log") [] [] [] HGroupNotFound /\ s_path s = bs "/v3/users" /\
             s_recovered s = [bs "boom"] /\ s_escaped s = None) /\
  map gr_name (g_routers (g_remove ex_group (bs "r1"))) = [bs "r2"].
Proof.
  split; [vm_compute; reflexivity|]. split; [vm_compute; reflexivity|].
  split; [eexists; split; [vm_compute; reflexivity|]; repeat split|].
  split; [eexists; split; [vm_compute; reflexivity|]; repeat split|].
  split; [eexists; split; [vm_compute; reflexivity|]; repeat split|].
  vm_compute; reflexivity.
Qed.
