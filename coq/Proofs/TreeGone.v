(* C03 "a removed pattern/method pair is no longer served", on every tree reachable by a history of
   registrations, removals, cleans and middleware applications whose registered patterns are
   accepted by the specification's tokenizer ([hist_tokens], Proofs/TokensSplit.v).
   - Part 1-5: ONE NODE PER PATTERN.  [pattern_once p root] (Proofs/TreeFind.v) is an invariant of
     the reachable trees under [hist_tokens] (pattern_once_reachable); it is false without the
     guard (TreeFind.C03_pattern_once_refuted).  The invariant behind it ([uq]): the parameter
     children of a node have pairwise different "token + first byte of the suffix" texts, and a
     parameter label that ends with its '}' has no children.
   - Part 6: Tree.Remove and Tree.Clean never fault on a reachable tree (so [tstep] really removes).
   - Part 7: after Remove(p, ms) no request with a removed method is dispatched successfully to
     route p (p <> "": TRACE is answered at the root, removed_pair_root_refuted); GET takes the
     automatic HEAD with it (HEAD cannot be registered: head_not_registrable; Remove(p, [HEAD]) is
     a no-op); Remove(p) leaves no live node spelling p.
   - Part 8: after Clean(prefix) no route whose pattern starts with the prefix answers (for the
     empty prefix only the root is left: cleaned_not_served_refuted for the unqualified form).
   - Part 9: the node-level statements on reachable trees; examples.
   Theorems are re-exported by Props/C03gone.v. *)
From Coq Require Import String Permutation.
From Mux Require Import Model.Bytes Model.Regex Model.Context Model.Syntax Model.Tree
  Proofs.BytesFacts Proofs.MatchSound Proofs.TreeSafe Proofs.TreeOrder Proofs.MatchOrder.
From Mux Require Spec.Table Proofs.Misc1 Proofs.ParseTotal Proofs.RegTotal Proofs.TreeText Proofs.TreeOnion
  Proofs.TreeNames Proofs.TokensSplit Proofs.TreeFind Proofs.TreeLit.

Local Open Scope nat_scope.

Notation NB := TokensSplit.NB.
Notation isparam := TreeNames.isparam.
Notation chunk_text := TokensSplit.chunk_text.
Notation chunk_ok := TokensSplit.chunk_ok.
Notation chunk_nb := TokensSplit.chunk_nb.
Notation nbseg := TreeLit.nbseg.
Notation hd1 := TreeLit.hd1.
Notation G := TreeLit.G.
Notation kG := TreeLit.kG.

(* ================================================================ Part 1 : longest_prefix on tokens *)

Lemma NB_cons_inv : forall a l, NB (a :: l) -> a <> 123%N /\ a <> 125%N /\ NB l.
Proof.
  intros a l [H3 H5]. split; [intro E; apply H3; now left|]. split; [intro E; apply H5; now left|].
  split; intro I; [apply H3 | apply H5]; now right.
Qed.

(* two positions or more after the closing brace: the current position or later *)
Lemma lp_far : forall s1 s2 i st e, NB s1 -> (e + 1 < Z.of_nat i)%Z ->
  (Z.of_nat i <= lp_loop s1 s2 i st e false)%Z.
Proof.
  induction s1 as [|a s1 IH]; intros s2 i st e Hnb He.
  - cbn [lp_loop]. destruct (Z.eqb_spec e (Z.of_nat i - 1)%Z) as [E|_]; lia.
  - destruct s2 as [|c s2].
    + cbn [lp_loop]. destruct (Z.eqb_spec e (Z.of_nat i - 1)%Z) as [E|_]; lia.
    + cbn [lp_loop]. destruct (NB_cons_inv _ _ Hnb) as [N3 [N5 Hnb']].
      destruct (negb (N.eqb a c)).
      * cbn [orb]. destruct (Z.eqb_spec (e + 1)%Z (Z.of_nat i)) as [E|_]; lia.
      * destruct (N.eqb_spec a 123) as [E|_]; [now elim N3|].
        destruct (N.eqb_spec a 125) as [E|_]; [now elim N5|].
        specialize (IH s2 (S i) st e Hnb'). lia.
Qed.

(* right after the closing brace: the start, or at least one byte of the suffix *)
Lemma lp_close : forall s1 s2 i st, NB s1 ->
  lp_loop s1 s2 (S i) st (Z.of_nat i) false = st \/
  (Z.of_nat (S (S i)) <= lp_loop s1 s2 (S i) st (Z.of_nat i) false)%Z.
Proof.
  intros s1 s2 i st Hnb.
  assert (E0 : Z.eqb (Z.of_nat i) (Z.of_nat (S i) - 1) = true) by (apply Z.eqb_eq; lia).
  assert (E1 : Z.eqb (Z.of_nat i + 1) (Z.of_nat (S i)) = true) by (apply Z.eqb_eq; lia).
  destruct s1 as [|a s1]; [cbn [lp_loop]; rewrite E0; now left|].
  destruct s2 as [|c s2]; [cbn [lp_loop]; rewrite E0; now left|].
  cbn [lp_loop]. destruct (NB_cons_inv _ _ Hnb) as [N3 [N5 Hnb']].
  destruct (negb (N.eqb a c)); [cbn [orb]; rewrite E1; now left|].
  destruct (N.eqb_spec a 123) as [E|_]; [now elim N3|].
  destruct (N.eqb_spec a 125) as [E|_]; [now elim N5|].
  right. apply lp_far; [exact Hnb' | lia].
Qed.

(* inside the braces: the start, or the whole token and at least one byte of the suffix *)
Lemma lp_inside : forall b1 r1 s2 i st en, NB b1 -> NB r1 -> In 125%N s2 ->
  lp_loop (b1 ++ 125%N :: r1) s2 i st en true = st \/
  (Z.of_nat (i + length b1 + 2) <= lp_loop (b1 ++ 125%N :: r1) s2 i st en true)%Z.
Proof.
  induction b1 as [|a b1 IH]; intros r1 s2 i st en Hb Hr I2.
  - destruct s2 as [|c s2]; [destruct I2|]. cbn [app lp_loop].
    destruct (N.eqb_spec 125 c) as [<-|Nc]; cbn [negb orb]; [|now left].
    cbn [N.eqb Pos.eqb].
    destruct (lp_close r1 s2 i st Hr) as [E|L]; [now left | right].
    cbn [length]. replace (i + 0 + 2) with (S (S i)) by lia. exact L.
  - destruct s2 as [|c s2]; [destruct I2|]. cbn [app lp_loop].
    destruct (NB_cons_inv _ _ Hb) as [N3 [N5 Hb']].
    destruct (N.eqb_spec a c) as [<-|Nc]; cbn [negb orb]; [|now left].
    destruct (N.eqb_spec a 123) as [E|_]; [now elim N3|].
    destruct (N.eqb_spec a 125) as [E|_]; [now elim N5|].
    assert (I2' : In 125%N s2) by (destruct I2 as [E|I2]; [now elim N5 | exact I2]).
    destruct (IH r1 s2 (S i) st en Hb' Hr I2') as [E|L]; [now left | right].
    cbn [length]. replace (i + S (length b1) + 2) with (S i + length b1 + 2) by lia. exact L.
Qed.

Lemma lp_chunk : forall b r v, NB b -> NB r -> index_byte v 123%N = Some 0 -> In 125%N v ->
  (longest_prefix (123%N :: b ++ 125%N :: r) v <= 0)%Z \/
  (Z.of_nat (length b + 3) <= longest_prefix (123%N :: b ++ 125%N :: r) v)%Z.
Proof.
  intros b r v Hb Hr Iv Jv. destruct v as [|c tv]; [destruct Jv|]. cbn [index_byte] in Iv.
  destruct (N.eqb_spec c 123) as [->|Nc]; [|destruct (index_byte tv 123%N); discriminate Iv].
  assert (J2 : In 125%N tv) by (destruct Jv as [Jv|Jv]; [discriminate Jv | exact Jv]).
  unfold longest_prefix. cbn [lp_loop N.eqb Pos.eqb negb Z.of_nat].
  destruct (lp_inside b r tv 1 0%Z (-10)%Z Hb Hr J2) as [E|L].
  - left. rewrite E. lia.
  - right. replace (length b + 3) with (1 + length b + 2) by lia. exact L.
Qed.

(* same token, same first byte after it: a positive common prefix *)
Lemma lp_inside_same : forall b c r1 r2 i st en, NB b -> NB (c :: r1) ->
  (Z.of_nat (i + length b + 2) <= lp_loop (b ++ 125%N :: c :: r1) (b ++ 125%N :: c :: r2) i st en true)%Z.
Proof.
  induction b as [|a b IH]; intros c r1 r2 i st en Hb Hr.
  - cbn [app lp_loop]. rewrite N.eqb_refl. cbn [negb N.eqb Pos.eqb].
    destruct (NB_cons_inv _ _ Hr) as [N3 [N5 Hr']].
    rewrite N.eqb_refl. cbn [negb].
    destruct (N.eqb_spec c 123) as [E|_]; [now elim N3|].
    destruct (N.eqb_spec c 125) as [E|_]; [now elim N5|].
    pose proof (lp_far r1 r2 (S (S i)) st (Z.of_nat i) Hr') as L. cbn [length]. lia.
  - cbn [app lp_loop]. rewrite N.eqb_refl. cbn [negb].
    destruct (NB_cons_inv _ _ Hb) as [N3 [N5 Hb']].
    destruct (N.eqb_spec a 123) as [E|_]; [now elim N3|].
    destruct (N.eqb_spec a 125) as [E|_]; [now elim N5|].
    specialize (IH c r1 r2 (S i) st en Hb' Hr). cbn [length]. lia.
Qed.

Lemma lp_chunk_same : forall b c r1 r2, NB b -> NB (c :: r1) ->
  (0 < longest_prefix (123%N :: b ++ 125%N :: c :: r1) (123%N :: b ++ 125%N :: c :: r2))%Z.
Proof.
  intros b c r1 r2 Hb Hr. unfold longest_prefix. cbn [lp_loop N.eqb Pos.eqb negb Z.of_nat].
  pose proof (lp_inside_same b c r1 r2 1 0%Z (-10)%Z Hb Hr). lia.
Qed.

(* ================================================================ Part 2 : token texts *)

(* the text of a parameter label: a token the tokenizer accepts, then brace-free text *)
Definition cshape (v : bytes) : Prop := exists c, chunk_ok c /\ v = chunk_text c.
Definition cseg (s : segment) : Prop := isparam s = true -> cshape (sval s).
(* the label ends with the '}' of its token *)
Definition closed (v : bytes) : bool := ends_with v 125%N.
(* the token and the first byte after it *)
Definition pkey (v : bytes) : bytes :=
  match index_byte v 125%N with Some e => firstn (e + 2) v | None => v end.
Definition pk1 (s : segment) : list bytes := if isparam s then [pkey (sval s)] else [].

Lemma app_until : forall (c : N) a1 a2 x1 x2, ~ In c a1 -> ~ In c a2 ->
  a1 ++ c :: x1 = a2 ++ c :: x2 -> a1 = a2 /\ x1 = x2.
Proof.
  induction a1 as [|y a1 IH]; intros a2 x1 x2 H1 H2 E; destruct a2 as [|z a2]; cbn [app] in E.
  - injection E as E. now split.
  - injection E as E1 E2. elim H2. left. now symmetry.
  - injection E as E1 E2. elim H1. now left.
  - injection E as E1 E2. subst z.
    destruct (IH a2 x1 x2) as [-> ->]; [intro I; apply H1; now right | intro I; apply H2; now right | exact E2|].
    now split.
Qed.

Lemma chunk_index : forall b s, ~ In 125%N b -> index_byte (chunk_text (b, s)) 125%N = Some (S (length b)).
Proof.
  intros b s Hb. unfold chunk_text. cbn [fst snd index_byte].
  destruct (N.eqb_spec 123 125) as [E|_]; [discriminate E|].
  now rewrite (TokensSplit.ib_app_notin b 125%N s Hb).
Qed.

Lemma firstn_chunk : forall b s m, firstn (length b + 2 + m) (chunk_text (b, s)) = chunk_text (b, firstn m s).
Proof.
  intros b s m. unfold chunk_text. cbn [fst snd].
  replace (length b + 2 + m) with (S (length b + S m)) by lia. cbn [firstn]. f_equal.
  rewrite firstn_app. rewrite firstn_all2 by lia. f_equal.
  replace (length b + S m - length b) with (S m) by lia. reflexivity.
Qed.

Lemma skipn_chunk : forall b s m, skipn (length b + 2 + m) (chunk_text (b, s)) = skipn m s.
Proof.
  intros b s m. unfold chunk_text. cbn [fst snd].
  replace (length b + 2 + m) with (S (length b + S m)) by lia. cbn [skipn].
  rewrite skipn_app. rewrite skipn_all2 by lia. cbn [app].
  replace (length b + S m - length b) with (S m) by lia. reflexivity.
Qed.

Lemma length_chunk : forall b s, length (chunk_text (b, s)) = length b + 2 + length s.
Proof. intros b s. unfold chunk_text. cbn [fst snd length]. rewrite app_length. cbn [length]. lia. Qed.

Lemma pkey_chunk : forall b s, ~ In 125%N b -> pkey (chunk_text (b, s)) = chunk_text (b, firstn 1 s).
Proof.
  intros b s Hb. unfold pkey. rewrite (chunk_index b s Hb).
  replace (S (length b) + 2) with (length b + 2 + 1) by lia. apply firstn_chunk.
Qed.

Lemma closed_chunk_nil : forall b, closed (chunk_text (b, [])) = true.
Proof.
  intro b. unfold closed, chunk_text. cbn [fst snd].
  change (123%N :: b ++ [125%N]) with ((123%N :: b) ++ [125%N]). apply TokensSplit.ends_with_snoc.
Qed.

Lemma closed_chunk_cons : forall b s, chunk_nb (b, s) -> s <> [] -> closed (chunk_text (b, s)) = false.
Proof. intros b s Hc Hs. unfold closed. now apply TokensSplit.ends_with_chunk. Qed.

Lemma closed_nb : forall v, NB v -> closed v = false.
Proof. intros v [_ H5]. unfold closed. now apply TokensSplit.ends_with_notin. Qed.

(* the kind of a parameter label is decided by its token *)
Lemma chunk_styp : forall ic b l1 l2 s1 s2, chunk_ok (b, l1) -> chunk_ok (b, l2) ->
  new_segment ic (chunk_text (b, l1)) = Ok s1 -> new_segment ic (chunk_text (b, l2)) = Ok s2 ->
  styp s1 = styp s2.
Proof.
  intros ic b l1 l2 s1 s2 C1 C2 H1 H2.
  rewrite (TokensSplit.new_segment_chunk_text ic _ C1) in H1.
  rewrite (TokensSplit.new_segment_chunk_text ic _ C2) in H2.
  unfold TokensSplit.chunk_seg, TokensSplit.c_rule, TokensSplit.c_ign, TokensSplit.c_name in H1, H2.
  cbn [fst snd] in H1, H2.
  destruct (N.ltb max_int16 (N.of_nat (length (chunk_text (b, l1))))); [discriminate H1|].
  destruct (N.ltb max_int16 (N.of_nat (length (chunk_text (b, l2))))); [discriminate H2|].
  destruct (TokensSplit.b_rule b) as [|r0 rule].
  - injection H1 as <-. injection H2 as <-. reflexivity.
  - destruct (alookup (r0 :: rule) ic) as [f|].
    + injection H1 as <-. injection H2 as <-. reflexivity.
    + destruct (negb (TokensSplit.b_ign b) && _); [discriminate H1|].
      destruct (re_parse (r0 :: rule)) as [r| |]; try discriminate H1.
      injection H1 as <-. injection H2 as <-. reflexivity.
Qed.

Lemma isparam_string_seg : forall v, isparam (string_seg v) = false.
Proof. reflexivity. Qed.

Lemma cseg_string : forall v, cseg (string_seg v).
Proof. intros v Q. discriminate Q. Qed.

Lemma pk1_string : forall v, pk1 (string_seg v) = [].
Proof. reflexivity. Qed.

(* two sibling labels whose texts, continued below them, coincide *)
Lemma sib_clash : forall ic sx sy rx ry, nbseg ic sx -> nbseg ic sy -> cseg sx -> cseg sy ->
  (closed (sval sx) = true -> rx = []) -> (closed (sval sy) = true -> ry = []) ->
  sval sx ++ rx = sval sy ++ ry ->
  (exists b, hd1 sx = [b] /\ hd1 sy = [b]) \/ (exists k, pk1 sx = [k] /\ pk1 sy = [k]).
Proof.
  intros ic sx sy rx ry [_ [Nx [Lx _]]] [_ [Ny [Ly _]]] Cx Cy Ox Oy E.
  unfold hd1, pk1, cseg in *.
  destruct (isparam sx) eqn:Px, (isparam sy) eqn:Py.
  - right. destruct (Cx eq_refl) as [[b1 s1] [[[B1 S1] _] E1]].
    destruct (Cy eq_refl) as [[b2 s2] [[[B2 S2] _] E2]]. cbn [fst snd] in *.
    rewrite E1, E2 in *. unfold chunk_text in E. cbn [fst snd app] in E.
    injection E as E. rewrite <- !app_assoc in E. cbn [app] in E.
    destruct (app_until 125%N b1 b2 _ _ (proj2 B1) (proj2 B2) E) as [<- E'].
    rewrite !pkey_chunk by exact (proj2 B1).
    assert (F : firstn 1 s1 = firstn 1 s2).
    { destruct s1 as [|c1 s1], s2 as [|c2 s2].
      - reflexivity.
      - rewrite (Ox (closed_chunk_nil b1)) in E'. discriminate E'.
      - rewrite (Oy (closed_chunk_nil b1)) in E'. discriminate E'.
      - cbn [app] in E'. injection E' as -> _. reflexivity. }
    rewrite F. eexists. split; reflexivity.
  - exfalso. destruct (Cx eq_refl) as [[b1 s1] [_ E1]]. rewrite E1 in E.
    specialize (Ly eq_refl). destruct (sval sy) as [|c v]; [now elim Ny|].
    unfold chunk_text in E. cbn [app] in E. injection E as E _.
    destruct (NB_cons_inv _ _ Ly) as [N3 _]. now elim N3.
  - exfalso. destruct (Cy eq_refl) as [[b2 s2] [_ E2]]. rewrite E2 in E.
    specialize (Lx eq_refl). destruct (sval sx) as [|c v]; [now elim Nx|].
    unfold chunk_text in E. cbn [app] in E. injection E as E _.
    destruct (NB_cons_inv _ _ Lx) as [N3 _]. now elim N3.
  - left. destruct (sval sx) as [|c v]; [now elim Nx|]. destruct (sval sy) as [|d w]; [now elim Ny|].
    cbn [app] in E. injection E as -> _. exists d. split; reflexivity.
Qed.

(* ================================================================ Part 3 : keys of the children *)

Section Keys.
Context {A : Type}.
Variable f : segment -> list A.

Definition keys (cs : list node) : list A := flat_map (fun x => f (nseg x)) cs.

Lemma keys_cons : forall x c, keys (x :: c) = f (nseg x) ++ keys c.
Proof. reflexivity. Qed.

Lemma keys_app : forall a b, keys (a ++ b) = keys a ++ keys b.
Proof. intros a b. unfold keys. apply flat_map_app. Qed.

Lemma keys_one : forall x, keys [x] = f (nseg x).
Proof. intro x. unfold keys. cbn [flat_map]. apply app_nil_r. Qed.

Lemma keys_In : forall cs x k, In x cs -> In k (f (nseg x)) -> In k (keys cs).
Proof. intros cs x k Ix Ik. unfold keys. apply in_flat_map. exists x. now split. Qed.

Lemma In_keys : forall cs k, In k (keys cs) -> exists x, In x cs /\ In k (f (nseg x)).
Proof. intros cs k H. unfold keys in H. apply in_flat_map in H. exact H. Qed.

Lemma keys_perm : forall cs cs', Permutation cs cs' -> Permutation (keys cs) (keys cs').
Proof. intros cs cs' P. unfold keys. now apply Permutation_flat_map. Qed.

Lemma nodup_app_r : forall (l m : list A), NoDup (l ++ m) -> NoDup m.
Proof.
  induction l as [|a l IH]; intros m H; [exact H|].
  cbn [app] in H. inversion H as [|x t _ Ht]; subst. exact (IH m Ht).
Qed.

Lemma nodup_app_sub : forall (l m m' : list A), NoDup (l ++ m) -> NoDup m' -> incl m' m -> NoDup (l ++ m').
Proof.
  induction l as [|a l IH]; intros m m' ND ND' Hin; [exact ND'|].
  cbn [app] in *. inversion ND as [|x t Nin NDt]; subst. constructor.
  - intro I. apply Nin. apply in_app_or in I. apply in_or_app.
    destruct I as [I|I]; [now left | right; now apply Hin].
  - exact (IH m m' NDt ND' Hin).
Qed.

Lemma nodup_snoc : forall (l h : list A), NoDup l -> NoDup h -> (forall b, In b h -> ~ In b l) -> NoDup (l ++ h).
Proof.
  induction l as [|a l IH]; intros h NDl NDh Hd; [exact NDh|].
  cbn [app]. inversion NDl as [|x t Nin NDt]; subst. constructor.
  - intro I. apply in_app_or in I. destruct I as [I|I]; [now apply Nin|].
    apply (Hd a I). now left.
  - apply IH; [exact NDt | exact NDh|]. intros b Ib I. apply (Hd b Ib). now right.
Qed.

Lemma nodup_app_disj : forall (l m : list A) k, NoDup (l ++ m) -> In k l -> In k m -> False.
Proof.
  induction l as [|a l IH]; intros m k ND Il Im; [destruct Il|].
  cbn [app] in ND. inversion ND as [|x t Nin NDt]; subst.
  destruct Il as [->|Il]; [apply Nin; apply in_or_app; now right | exact (IH m k NDt Il Im)].
Qed.

Lemma keys_remove_incl : forall c i b, In b (keys (remove_nth i c)) -> In b (keys c).
Proof.
  induction c as [|x c IH]; intros i b H; [destruct i; exact H|].
  destruct i as [|i]; cbn [remove_nth] in H.
  - rewrite keys_cons. apply in_or_app. now right.
  - rewrite keys_cons in *. apply in_app_or in H. apply in_or_app.
    destruct H as [H|H]; [now left | right; exact (IH i b H)].
Qed.

Lemma keys_remove_nodup : forall c i, NoDup (keys c) -> NoDup (keys (remove_nth i c)).
Proof.
  induction c as [|x c IH]; intros i ND; [destruct i; exact ND|].
  destruct i as [|i]; cbn [remove_nth].
  - rewrite keys_cons in ND. exact (nodup_app_r _ _ ND).
  - rewrite keys_cons in *. apply (nodup_app_sub _ (keys c)); [exact ND | |].
    + apply IH. exact (nodup_app_r _ _ ND).
    + intros b Ib. exact (keys_remove_incl c i b Ib).
Qed.

Lemma keys_replace : forall c i ch ch', nth_error c i = Some ch -> nseg ch' = nseg ch ->
  keys (replace_nth i ch' c) = keys c.
Proof.
  induction c as [|x c IH]; intros i ch ch' H E; [destruct i; discriminate H|].
  destruct i as [|i]; cbn [nth_error replace_nth] in *.
  - injection H as ->. rewrite !keys_cons. now rewrite E.
  - rewrite !keys_cons. f_equal. exact (IH i ch ch' H E).
Qed.

Lemma keys_map_nseg : forall (g : node -> node) c, (forall x, nseg (g x) = nseg x) -> keys (map g c) = keys c.
Proof.
  intros g c Hg. induction c as [|x c IH]; [reflexivity|]. cbn [map]. rewrite !keys_cons, Hg. now f_equal.
Qed.

(* the first of a list and a later element cannot share a key *)
Lemma keys_clash : forall x l y k, NoDup (keys (x :: l)) -> In y l ->
  f (nseg x) = [k] -> f (nseg y) = [k] -> False.
Proof.
  intros x l y k ND Iy Fx Fy. rewrite keys_cons in ND.
  apply (nodup_app_disj _ _ k ND); [rewrite Fx; now left|].
  apply (keys_In l y k Iy). rewrite Fy. now left.
Qed.
End Keys.

Lemma heads_keys : forall cs, TreeLit.heads cs = keys hd1 cs.
Proof. reflexivity. Qed.

(* ================================================================ Part 4 : the invariant *)

Lemma firstn_chunk_body : forall b s, firstn (S (length b)) (chunk_text (b, s)) = 123%N :: b.
Proof.
  intros b s. unfold chunk_text. cbn [fst snd firstn]. f_equal.
  rewrite firstn_app, firstn_all, Nat.sub_diag. cbn [firstn]. apply app_nil_r.
Qed.

Lemma chunk_first : forall c, index_byte (chunk_text c) 123%N = Some 0.
Proof. intro c. reflexivity. Qed.

Lemma chunk_has_close : forall c, In 125%N (chunk_text c).
Proof. intro c. unfold chunk_text. right. apply in_or_app. right. now left. Qed.

Section Uniq.
Variable ic : icpts.

(* a child: its parameter label is token text; when the label ends with the token, no children *)
Definition child_ok (ch : node) : Prop :=
  cseg (nseg ch) /\ (closed (sval (nseg ch)) = true -> nchildren ch = []).

Definition uq (n : node) : Prop :=
  NoDup (keys pk1 (nchildren n)) /\ forall ch, In ch (nchildren n) -> child_ok ch.
Definition U (n : node) : Prop := all_nodes uq n.

Lemma U_children : forall n cs ix, NoDup (keys pk1 cs) -> (forall ch, In ch cs -> child_ok ch /\ U ch) ->
  U (set_children n cs ix).
Proof.
  intros n cs ix ND Hc. apply all_nodes_intro.
  - unfold uq. rewrite nchildren_set_children. split; [exact ND|].
    intros ch Ich. exact (proj1 (Hc ch Ich)).
  - rewrite nchildren_set_children. intros ch Ich. exact (proj2 (Hc ch Ich)).
Qed.

Lemma U_same_children : forall n n', U n -> nchildren n' = nchildren n -> U n'.
Proof.
  intros n n' Hn Hc. apply all_nodes_intro.
  - pose proof (all_nodes_here _ _ Hn) as [H1 H2]. unfold uq. rewrite Hc. now split.
  - rewrite Hc. intros ch Ich. exact (all_nodes_child _ n ch Hn Ich).
Qed.

Lemma U_set_handlers : forall n hs i, U n -> U (set_handlers n hs i).
Proof. intros n hs i Hn. apply (U_same_children n); [exact Hn | apply nchildren_set_handlers]. Qed.

Lemma U_set_seg : forall n sg, U n -> U (set_seg n sg).
Proof. intros n sg Hn. apply (U_same_children n); [exact Hn | apply nchildren_set_seg]. Qed.

Lemma U_leaf : forall n, nchildren n = [] -> U n.
Proof.
  intros n E. apply all_nodes_intro.
  - unfold uq. rewrite E. split; [constructor | intros ch []].
  - rewrite E. intros ch [].
Qed.

Lemma U_replace : forall n i ch ch' ix, U n -> nth_error (nchildren n) i = Some ch -> U ch' ->
  nseg ch' = nseg ch -> (closed (sval (nseg ch)) = true -> nchildren ch' = []) ->
  U (set_children n (replace_nth i ch' (nchildren n)) ix).
Proof.
  intros n i ch ch' ix Hn Hi Hc E Hl. pose proof (all_nodes_here _ _ Hn) as [H1 H2].
  apply U_children.
  - now rewrite (keys_replace pk1 _ i ch ch' Hi E).
  - intros x Ix. apply In_replace_nth in Ix. destruct Ix as [->|Ix].
    + split; [|exact Hc]. unfold child_ok. rewrite E. split; [|exact Hl].
      exact (proj1 (H2 ch (nth_error_In _ _ Hi))).
    + split; [now apply H2 | exact (all_nodes_child _ n x Hn Ix)].
Qed.

Lemma U_sort : forall n keyed n', sort_node n keyed = Ok n' ->
  (forall x, In x (map snd keyed) -> child_ok x /\ U x) -> NoDup (keys pk1 (map snd keyed)) -> U n'.
Proof.
  intros n keyed n' H Hk ND. apply sort_node_inv in H. destruct H as [ix [_ ->]].
  apply U_children.
  - apply (Permutation_NoDup (l := keys pk1 (map snd keyed))); [|exact ND].
    apply keys_perm, Permutation_sym, TreeLit.ssort_perm.
  - intros ch Ich. exact (Hk ch (In_ssort _ _ Ich)).
Qed.

(* ---------------------------------------------------------------- the split of addSegment *)

Lemma split_c : forall sch seg l, nbseg ic sch -> nbseg ic seg -> cseg sch -> cseg seg ->
  (0 < similarity sch seg)%Z -> l = Z.to_nat (similarity sch seg) ->
  closed (firstn l (sval sch)) = false /\
  (forall s1, new_segment ic (firstn l (sval sch)) = Ok s1 -> cseg s1 /\ pk1 s1 = pk1 sch) /\
  NB (skipn l (sval sch)) /\ NB (skipn l (sval seg)).
Proof.
  intros sch seg l Hch Hseg Cch Cseg Hpos Hl.
  destruct (TreeNames.similarity_pos _ _ Hpos) as [Hty Hlp].
  pose proof (TreeNames.stype_eqb_isparam _ _ Hty) as Hip.
  pose proof (TreeOnion.similarity_cpre sch seg) as [C1 [C2 C3]]. rewrite <- Hl in C1, C2, C3.
  assert (L0 : 0 < l) by lia.
  destruct Hch as [_ [Ech [Lch _]]]. destruct Hseg as [_ [_ [Lseg _]]].
  destruct (isparam sch) eqn:Qch.
  - destruct (Cch Qch) as [[bv sv] [[[Bv Sv] Nm] Ev]]. destruct (Cseg Hip) as [[bw sw] [[[Bw Sw] _] Ew]].
    cbn [fst snd] in *.
    assert (Lt : length bw + 3 <= l).
    { rewrite Ew, Ev in Hlp. unfold chunk_text in Hlp at 1. cbn [fst snd] in Hlp.
      destruct (lp_chunk bw sw (chunk_text (bv, sv)) Bw Sw (chunk_first _) (chunk_has_close _)) as [Le|Ge]; lia. }
    assert (Iv : index_byte (sval sch) 125%N = Some (S (length bw))).
    { apply (TreeNames.index_byte_cpre _ _ _ _ _ C3); [|lia]. rewrite Ew. apply chunk_index. exact (proj2 Bw). }
    rewrite Ev in Iv. rewrite chunk_index in Iv by exact (proj2 Bv). injection Iv as Elen.
    assert (Eb : bv = bw).
    { assert (F : firstn (S (length bw)) (firstn l (sval sch)) = firstn (S (length bw)) (firstn l (sval seg)))
        by now rewrite C3.
      rewrite !TreeNames.firstn_firstn_le in F by lia. rewrite Ev, Ew in F. rewrite <- Elen in F at 1.
      rewrite !firstn_chunk_body in F. now injection F. }
    subst bw. clear Elen.
    assert (El : l = length bv + 2 + (l - (length bv + 2))) by lia.
    set (m := l - (length bv + 2)) in *. assert (Hm : 1 <= m) by lia.
    rewrite Ev, Ew, El, !firstn_chunk, !skipn_chunk.
    assert (Hmv : m <= length sv).
    { rewrite Ev, length_chunk in C1. lia. }
    assert (Hne : firstn m sv <> []).
    { destruct m as [|m']; [lia|]. destruct sv as [|c sv']; [simpl in Hmv; lia | discriminate]. }
    assert (Hnb : chunk_nb (bv, firstn m sv)) by (split; [exact Bv | now apply TreeLit.NB_firstn]).
    split; [exact (closed_chunk_cons _ _ Hnb Hne)|].
    split; [|split; now apply TreeLit.NB_skipn].
    intros s1 H1. pose proof (TreeText.new_segment_value _ _ _ H1) as V1.
    assert (Q1 : isparam s1 = true).
    { apply (TreeNames.new_segment_braces_param ic _ s1 0 (S (length bv)) H1); [reflexivity|].
      apply chunk_index. exact (proj2 Bv). }
    split.
    + intros _. exists (bv, firstn m sv). split; [split; [exact Hnb | exact Nm] | exact V1].
    + unfold pk1. rewrite Q1, Qch, V1, Ev. rewrite !pkey_chunk by exact (proj2 Bv).
      rewrite firstn_firstn. replace (Nat.min 1 m) with 1 by lia. reflexivity.
  - specialize (Lch eq_refl). specialize (Lseg Hip).
    split; [apply closed_nb; now apply TreeLit.NB_firstn|].
    split; [|split; now apply TreeLit.NB_skipn].
    intros s1 H1.
    assert (Hf : firstn l (sval sch) <> []).
    { intro E. apply (f_equal (@length N)) in E. rewrite firstn_length in E. simpl in E. lia. }
    destruct (TreeLit.nbseg_new_nb ic _ _ H1 Hf (TreeLit.NB_firstn _ l Lch)) as [_ ->].
    split; [apply cseg_string|]. unfold pk1 at 2. rewrite Qch. reflexivity.
Qed.

(* a new parameter sibling: no parameter child has its token and first suffix byte *)
Lemma new_child_pkey : forall seg c, nbseg ic seg -> cseg seg ->
  (forall x, In x c -> nbseg ic (nseg x) /\ cseg (nseg x)) ->
  scan_sim seg c 0 None = (None, None) -> forall k, In k (pk1 seg) -> ~ In k (keys pk1 c).
Proof.
  intros seg c Hseg Cseg Hc SC k Ik I.
  destruct (TreeLit.scan_sim_none _ _ _ _ SC) as [_ Hsim].
  destruct (In_keys pk1 c k I) as [x [Ix Ikx]].
  destruct (Hsim x Ix) as [N1 N0]. destruct (Hc x Ix) as [Hx Cx].
  unfold pk1 in Ik, Ikx.
  destruct (isparam seg) eqn:Ps; [|destruct Ik]. destruct (isparam (nseg x)) eqn:Px; [|destruct Ikx].
  destruct Ik as [<-|[]]. destruct Ikx as [Ek|[]].
  destruct (Cseg Ps) as [[bw sw] [Cw Ew]]. destruct (Cx Px) as [[bv sv] [Cv Ev]].
  pose proof Cw as [[Bw Sw] _]. pose proof Cv as [[Bv Sv] _]. cbn [fst snd] in *.
  rewrite Ew, Ev in Ek. rewrite pkey_chunk in Ek by exact (proj2 Bv). rewrite pkey_chunk in Ek by exact (proj2 Bw).
  unfold chunk_text in Ek. cbn [fst snd] in Ek. injection Ek as Ek.
  destruct (app_until 125%N bv bw _ _ (proj2 Bv) (proj2 Bw) Ek) as [-> Ef].
  assert (T : styp seg = styp (nseg x)).
  { destruct Hseg as [Ns _]. destruct Hx as [Nx _]. rewrite Ew in Ns. rewrite Ev in Nx.
    exact (chunk_styp ic bw sw sv _ _ Cw Cv Ns Nx). }
  unfold similarity in N1, N0. rewrite T in N1, N0.
  assert (R : stype_eqb (styp (nseg x)) (styp (nseg x)) = true) by (unfold stype_eqb; apply Nat.eqb_refl).
  rewrite R in N1, N0. cbn [negb] in N1, N0.
  destruct (beqb (sval seg) (sval (nseg x))) eqn:B; [now apply N1|].
  apply beqb_neq in B. rewrite Ew, Ev in B, N0.
  destruct sw as [|cw sw], sv as [|cv sv].
  - now apply B.
  - discriminate Ef.
  - discriminate Ef.
  - cbn [firstn] in Ef. injection Ef as ->.
    pose proof (lp_chunk_same bw cw sw sv Bw Sw). unfold chunk_text in N0. cbn [fst snd] in N0. lia.
Qed.

(* ---------------------------------------------------------------- registration *)

Definition kU (k : node -> res node) : Prop :=
  forall ch ch', G ic ch -> U ch -> k ch = Ok ch' -> U ch'.
Definition kleaf (k : node -> res node) : Prop :=
  forall ch ch', k ch = Ok ch' -> nchildren ch' = nchildren ch.

Lemma child_ok_lit : forall x, NB (sval (nseg x)) -> isparam (nseg x) = false -> child_ok x.
Proof.
  intros x Hnb Q. split; [intro P; congruence|]. intro Cl. rewrite (closed_nb _ Hnb) in Cl. discriminate Cl.
Qed.

Lemma add_segment_U : forall fuel n seg k n', G ic n -> U n -> nbseg ic seg -> cseg seg ->
  kG ic k -> kU k -> (closed (sval seg) = true -> kleaf k) ->
  add_segment fuel ic n seg k = Ok n' -> U n'.
Proof.
  induction fuel as [|f IH]; intros n seg k n' Gn Hn Hseg Cseg HkG HkU Hkl H; [discriminate|].
  rewrite add_segment_S in H. cbv zeta in H.
  pose proof (all_nodes_here _ _ Gn) as [Hlab [Hnd Hix]].
  pose proof (all_nodes_here _ _ Hn) as [Hpk Hco].
  destruct (scan_sim seg (nchildren n) 0 None) as [[i|] best] eqn:SC.
  - (* identical child *)
    destruct (nth_error (nchildren n) i) as [ch|] eqn:NTH; [|discriminate].
    apply bind_ok in H. destruct H as [ch' [K H]]. injection H as <-.
    assert (Ich : In ch (nchildren n)) by (eapply nth_error_In; eassumption).
    destruct (TreeOnion.scan_sim_some _ _ _ _ _ _ SC) as [ch0 [_ [N0 S0]]].
    rewrite Nat.sub_0_r, NTH in N0. injection N0 as <-.
    apply TreeOnion.similarity_same in S0.
    pose proof (all_nodes_child _ n ch Gn Ich) as Gch. pose proof (all_nodes_child _ n ch Hn Ich) as Uch.
    destruct (HkG ch ch' Gch K) as [_ Es].
    apply (U_replace n i ch ch' _ Hn NTH (HkU ch ch' Gch Uch K) Es).
    intro Cl. rewrite (Hkl (eq_trans (f_equal closed (eq_sym S0)) Cl) ch ch' K).
    exact (proj2 (Hco ch Ich) Cl).
  - destruct best as [[i l]|].
    + (* a child shares a prefix *)
      destruct (nth_error (nchildren n) i) as [ch|] eqn:NTH; [|discriminate].
      assert (Ich : In ch (nchildren n)) by (eapply nth_error_In; eassumption).
      pose proof (all_nodes_child _ n ch Gn Ich) as Gch. pose proof (all_nodes_child _ n ch Hn Ich) as Uch.
      assert (Hpos : (0 < l)%Z).
      { apply (TreeNames.scan_sim_pos _ _ _ _ _ _ SC). intros j' l' E. discriminate E. }
      assert (Hsim : similarity (nseg ch) seg = l).
      { destruct (TreeOnion.scan_sim_best _ _ _ _ _ _ SC) as [E|[ch0 [_ [N0 S0]]]]; [discriminate E|].
        rewrite Nat.sub_0_r, NTH in N0. now injection N0 as <-. }
      rewrite <- Hsim in Hpos.
      destruct (TreeLit.split_nb ic (nseg ch) seg (Z.to_nat l) (Hlab ch Ich) Hseg Hpos (f_equal Z.to_nat (eq_sym Hsim)))
        as [F1 [F2 F3]].
      destruct (split_c (nseg ch) seg (Z.to_nat l) (Hlab ch Ich) Hseg (proj1 (Hco ch Ich)) Cseg Hpos
                  (f_equal Z.to_nat (eq_sym Hsim))) as [D1 [D2 [D3 D4]]].
      pose proof (TreeOnion.similarity_cpre (nseg ch) seg) as [C1 [C2 _]]. rewrite Hsim in C1, C2.
      assert (Hrest : forall s, length (sval seg) <> Z.to_nat l ->
                new_segment ic (skipn (Z.to_nat l) (sval seg)) = Ok s ->
                nbseg ic s /\ s = string_seg (skipn (Z.to_nat l) (sval seg))).
      { intros s NE S. apply (TreeLit.nbseg_new_nb ic _ _ S); [|exact D4].
        intro E. apply (f_equal (@length N)) in E. rewrite skipn_length in E. simpl in E. lia. }
      assert (HcontG : kG ic (cont_of f ic seg (Z.to_nat l) k)).
      { intros p p' Hp Hc. unfold cont_of in Hc.
        destruct (Nat.eqb_spec (length (sval seg)) (Z.to_nat l)) as [E|NE]; [exact (HkG _ _ Hp Hc)|].
        apply bind_ok in Hc. destruct Hc as [rest [R Hc]].
        apply bind_ok in Hc. destruct Hc as [s [S Hc]].
        apply TreeText.slice_or_panic_ok in R. apply TreeText.gslice_to_end in R. subst rest.
        exact (TreeLit.add_segment_G ic f p s k p' Hp (proj1 (Hrest s NE S)) HkG Hc). }
      assert (HcontU : kU (cont_of f ic seg (Z.to_nat l) k)).
      { intros p p' Gp Up Hc. unfold cont_of in Hc.
        destruct (Nat.eqb_spec (length (sval seg)) (Z.to_nat l)) as [E|NE]; [exact (HkU _ _ Gp Up Hc)|].
        apply bind_ok in Hc. destruct Hc as [rest [R Hc]].
        apply bind_ok in Hc. destruct Hc as [s [S Hc]].
        apply TreeText.slice_or_panic_ok in R. apply TreeText.gslice_to_end in R. subst rest.
        destruct (Hrest s NE S) as [Hs Es].
        apply (IH p s k p' Gp Up Hs); [rewrite Es; apply cseg_string | exact HkG | exact HkU | | exact Hc].
        intro Cl. rewrite Es in Cl. cbn [sval string_seg] in Cl. rewrite (closed_nb _ D4) in Cl. discriminate Cl. }
      destruct (Nat.leb_spec (length (sval (nseg ch))) (Z.to_nat l)) as [LE|GT].
      * apply bind_ok in H. destruct H as [ch' [K H]]. injection H as <-.
        destruct (HcontG ch ch' Gch K) as [_ Es].
        apply (U_replace n i ch ch' _ Hn NTH (HcontU ch ch' Gch Uch K) Es).
        intro Cl. rewrite firstn_all2 in D1 by exact LE. rewrite D1 in Cl. discriminate Cl.
      * apply bind_ok in H. destruct H as [[s1 s2] [SP H]].
        apply bind_ok in H. destruct H as [ret [SR H]].
        apply bind_ok in H. destruct H as [ret' [K H]].
        destruct (TreeNames.seg_split_inv ic _ _ _ _ SP) as [N1 N2].
        destruct (F1 _ N1) as [L1 H1]. pose proof (F2 _ N2 GT) as L2.
        destruct (D2 _ N1) as [Cs1 Pk1].
        pose proof (TreeText.new_segment_value _ _ _ N1) as V1.
        assert (Es2 : s2 = string_seg (skipn (Z.to_nat l) (sval (nseg ch)))).
        { apply (TreeLit.nbseg_new_nb ic _ _ N2); [|exact D3].
          intro E. apply (f_equal (@length N)) in E. rewrite skipn_length in E. simpl in E. lia. }
        assert (Gret : G ic ret /\ nseg ret = s1).
        { apply (TreeLit.G_sort ic _ _ _ SR).
          - rewrite map_snd_with_prio. intros x [<-|[]]. rewrite TreeNames.nseg_set_seg.
            split; [exact L2 | now apply TreeLit.G_set_seg].
          - rewrite map_snd_with_prio. apply TreeLit.NoDup_heads_one. }
        destruct Gret as [Gret Sret].
        assert (Uret : U ret).
        { apply (U_sort _ _ _ SR).
          - rewrite map_snd_with_prio. intros x [<-|[]]. split; [|now apply U_set_seg].
            apply child_ok_lit; rewrite TreeNames.nseg_set_seg, Es2; [exact D3 | reflexivity].
          - rewrite map_snd_with_prio, keys_one, TreeNames.nseg_set_seg, Es2. constructor. }
        destruct (HcontG ret ret' Gret K) as [Gret' Sret'].
        pose proof (HcontU ret ret' Gret Uret K) as Uret'.
        apply (U_sort _ _ _ H).
        -- intros x Ix. apply In_keyed_app in Ix. destruct Ix as [Ix| ->].
           ++ apply In_remove_nth in Ix. split; [now apply Hco | exact (all_nodes_child _ n x Hn Ix)].
           ++ split; [|exact Uret']. unfold child_ok. rewrite Sret', Sret. split; [exact Cs1|].
              intro Cl. rewrite V1, D1 in Cl. discriminate Cl.
        -- rewrite map_app, map_snd_with_prio. cbn [map snd]. rewrite keys_app, keys_one.
           apply (Permutation_NoDup (l := keys pk1 (nchildren n))); [|exact Hpk].
           eapply Permutation_trans; [apply keys_perm; exact (TreeLit.remove_nth_perm _ i ch NTH)|].
           rewrite keys_cons, Sret', Sret, Pk1. apply Permutation_app_comm.
    + (* a new child *)
      apply bind_ok in H. destruct H as [nn' [K H]].
      assert (Gnn : G ic (new_node n seg)) by apply TreeLit.G_leaf.
      assert (Unn : U (new_node n seg)) by (apply U_leaf; reflexivity).
      destruct (HkG (new_node n seg) nn' Gnn K) as [_ Snn']. cbn [new_node nseg] in Snn'.
      apply (U_sort _ _ _ H).
      * intros x Ix. apply In_keyed_app in Ix. destruct Ix as [Ix| ->].
        -- split; [now apply Hco | exact (all_nodes_child _ n x Hn Ix)].
        -- split; [|exact (HkU _ _ Gnn Unn K)]. unfold child_ok. rewrite Snn'. split; [exact Cseg|].
           intro Cl. now rewrite (Hkl Cl _ _ K).
      * rewrite map_app, map_snd_with_prio. cbn [map snd]. rewrite keys_app, keys_one, Snn'.
        apply nodup_snoc; [exact Hpk | unfold pk1; destruct (isparam seg); repeat constructor; intros []|].
        apply (new_child_pkey seg (nchildren n) Hseg Cseg); [|exact SC].
        intros x Ix. split; [now apply Hlab | exact (proj1 (Hco x Ix))].
Qed.

(* between two segments of a pattern there is text: a segment that ends with '}' is the last one *)
Fixpoint opens (segs : list segment) : Prop :=
  match segs with
  | s :: ((_ :: _) as r) => closed (sval s) = false /\ opens r
  | _ => True
  end.

Lemma get_node_U : forall segs fuel n upd n', G ic n -> U n -> Forall (nbseg ic) segs -> Forall cseg segs ->
  opens segs -> kG ic upd -> kU upd -> kleaf upd -> get_node fuel ic n segs upd = Ok n' -> U n'.
Proof.
  induction segs as [|seg rest IH]; intros fuel n upd n' Gn Hn HL HC HO HkG HkU Hkl H; [discriminate|].
  inversion HL as [|s0 r0 Lseg Lrest]; subst. inversion HC as [|s1 r1 Cseg Crest]; subst.
  destruct rest as [|seg2 rest].
  - cbn [get_node] in H. exact (add_segment_U _ _ _ _ _ Gn Hn Lseg Cseg HkG HkU (fun _ => Hkl) H).
  - cbn [get_node] in H. cbn [opens] in HO. destruct HO as [Op HO].
    refine (add_segment_U _ _ _ _ _ Gn Hn Lseg Cseg _ _ _ H).
    + intros ch ch' Gch Hc. exact (TreeLit.get_node_G ic _ fuel ch upd ch' Gch Lrest HkG Hc).
    + intros ch ch' Gch Uch Hc. exact (IH fuel ch upd ch' Gch Uch Lrest Crest HO HkG HkU Hkl Hc).
    + intro Cl. rewrite Op in Cl. discriminate Cl.
Qed.

Lemma add_methods_kU : forall trace router h pattern mws ms, kU (add_methods trace router h pattern mws ms).
Proof.
  intros trace router h pattern mws ms ch ch' _ Hch H. unfold add_methods in H.
  apply bind_ok in H. destruct H as [u [_ H]]. injection H as <-. now apply U_set_handlers.
Qed.

Lemma add_methods_kleaf : forall trace router h pattern mws ms, kleaf (add_methods trace router h pattern mws ms).
Proof.
  intros trace router h pattern mws ms ch ch' H. unfold add_methods in H.
  apply bind_ok in H. destruct H as [u [_ H]]. injection H as <-. apply nchildren_set_handlers.
Qed.

(* ---------------------------------------------------------------- Remove *)

Lemma remove_at_node_U : forall trace ms n n' rm, U n -> remove_at_node trace ms n = (n', rm) ->
  U n' /\ nchildren n' = nchildren n.
Proof.
  intros trace ms n n' rm Hn H. unfold remove_at_node in H.
  destruct (match ms with [] => _ | _ => _ end) as [hs removed].
  injection H as <- _. split; [now apply U_set_handlers | apply nchildren_set_handlers].
Qed.

Lemma remove_finish_U : forall n i ch ch' rm n' rm', U n -> nth_error (nchildren n) i = Some ch ->
  U ch' -> nseg ch' = nseg ch -> (nchildren ch = [] -> nchildren ch' = []) ->
  remove_finish n i ch' rm = Ok (Some (n', rm')) -> U n'.
Proof.
  intros n i ch ch' rm n' rm' Hn Hi Hc Es Hl H. unfold remove_finish in H.
  pose proof (all_nodes_here _ _ Hn) as [Hpk Hco].
  destruct (prunable ch').
  - cbv zeta in H. apply bind_ok in H. destruct H as [ix [B H]]. injection H as <- _.
    apply U_children; [now apply keys_remove_nodup|].
    intros x Ix. apply In_remove_nth in Ix. split; [now apply Hco | exact (all_nodes_child _ n x Hn Ix)].
  - injection H as <- _. apply (U_replace n i ch ch' _ Hn Hi Hc Es).
    intro Cl. apply Hl. exact (proj2 (Hco ch (nth_error_In _ _ Hi)) Cl).
Qed.

Lemma remove_in_leaf : forall fuel trace ms n pattern x, nchildren n = [] ->
  remove_in fuel trace ms n pattern <> Ok (Some x).
Proof.
  intros [|f] trace ms n pattern x E H; [discriminate H|].
  rewrite remove_in_S, E in H. cbn [remove_go] in H. discriminate H.
Qed.

Lemma remove_in_U : forall fuel trace ms n pattern n' rm, G ic n -> U n ->
  remove_in fuel trace ms n pattern = Ok (Some (n', rm)) -> U n'.
Proof.
  induction fuel as [|f IH]; intros trace ms n pattern n' rm Gn Hn H; [discriminate|].
  rewrite remove_in_S in H.
  assert (Hgo : forall c i,
            (forall j ch, nth_error c j = Some ch -> nth_error (nchildren n) (i + j) = Some ch) ->
            remove_go f trace ms n pattern c i = Ok (Some (n', rm)) -> U n').
  { induction c as [|ch c IHc]; intros i Hc Hg; cbn [remove_go] in Hg; [discriminate|].
    assert (Hpos : nth_error (nchildren n) i = Some ch).
    { rewrite <- (Nat.add_0_r i). now apply Hc. }
    assert (Ich : In ch (nchildren n)) by now apply (nth_error_In _ i).
    pose proof (all_nodes_child _ n ch Gn Ich) as Gch. pose proof (all_nodes_child _ n ch Hn Ich) as Uch.
    assert (Hc' : forall j x, nth_error c j = Some x -> nth_error (nchildren n) (S i + j) = Some x).
    { intros j x Hj. replace (S i + j) with (i + S j) by lia. now apply Hc. }
    destruct (beqb (sval (nseg ch)) pattern).
    - destruct (remove_at_node trace ms ch) as [ch' removed] eqn:RA.
      destruct (remove_at_node_U _ _ _ _ _ Uch RA) as [Uc Ec].
      destruct (TreeLit.remove_at_node_G ic _ _ _ _ _ Gch RA) as [_ Es].
      refine (remove_finish_U _ _ _ _ _ _ _ Hn Hpos Uc Es _ Hg). intro E. now rewrite Ec.
    - destruct (has_prefix pattern (sval (nseg ch))); [|now apply (IHc (S i))].
      apply bind_ok in Hg. destruct Hg as [r [R Hg]].
      destruct r as [[ch' removed]|]; [|now apply (IHc (S i))].
      destruct (TreeLit.remove_in_G ic _ _ _ _ _ _ _ Gch R) as [_ Es].
      refine (remove_finish_U _ _ _ _ _ _ _ Hn Hpos (IH _ _ _ _ _ _ Gch Uch R) Es _ Hg).
      intro E. elim (remove_in_leaf _ _ _ _ _ _ E R). }
  apply (Hgo (nchildren n) O); [|exact H]. intros j ch Hj. exact Hj.
Qed.

(* ---------------------------------------------------------------- Clean *)

Lemma clean_in_U : forall fuel n prefix n', U n -> clean_in fuel n prefix = Ok n' ->
  U n' /\ nseg n' = nseg n /\ (nchildren n = [] -> nchildren n' = []).
Proof.
  induction fuel as [|f IH]; intros n prefix n' Hn H; [discriminate|].
  rewrite clean_in_S in H. destruct prefix as [|b prefix].
  - injection H as <-. split; [|split; [apply nseg_set_children | intros _; apply nchildren_set_children]].
    apply U_children; [constructor | intros ch []].
  - remember (b :: prefix) as pf eqn:Epf. clear Epf.
    assert (Hgo : forall c cs, (forall ch, In ch c -> child_ok ch /\ U ch) ->
              clean_go f pf c = Ok cs ->
              (forall x, In x cs -> child_ok x /\ U x) /\
              (forall y, In y (keys pk1 cs) -> In y (keys pk1 c)) /\
              (NoDup (keys pk1 c) -> NoDup (keys pk1 cs))).
    { induction c as [|ch c IHc]; intros cs Hc Hg; cbn [clean_go] in Hg.
      - injection Hg as <-. split; [intros x []|]. split; [intros y [] | intros _; constructor].
      - destruct (Hc ch (or_introl eq_refl)) as [[Cch Lch] Uch].
        assert (Hc' : forall y, In y c -> child_ok y /\ U y) by (intros y Iy; apply Hc; now right).
        cbv zeta in Hg. apply bind_ok in Hg. destruct Hg as [ch' [C Hg]].
        apply bind_ok in Hg. destruct Hg as [rest [R Hg]].
        assert (Hch' : U ch' /\ nseg ch' = nseg ch /\ (nchildren ch = [] -> nchildren ch' = [])).
        { destruct (Nat.ltb (length (sval (nseg ch))) (length pf) && has_prefix pf (sval (nseg ch))).
          - exact (IH _ _ _ Uch C).
          - injection C as <-. split; [exact Uch|]. split; [reflexivity | tauto]. }
        destruct Hch' as [Uch' [Es El]].
        destruct (IHc rest Hc' R) as [Hall [Hin Hnd]].
        rewrite keys_cons.
        destruct (has_prefix (sval (nseg ch)) pf); injection Hg as <-.
        + split; [exact Hall|]. split.
          * intros y Iy. apply in_or_app. right. now apply Hin.
          * intro ND. apply Hnd. exact (nodup_app_r _ _ ND).
        + rewrite keys_cons, Es. split; [|split].
          * intros x [<-|Ix]; [|now apply Hall]. split; [|exact Uch']. unfold child_ok. rewrite Es.
            split; [exact Cch | intro Cl; exact (El (Lch Cl))].
          * intros y Iy. apply in_app_or in Iy. apply in_or_app.
            destruct Iy as [Iy|Iy]; [now left | right; now apply Hin].
          * intro ND. apply (nodup_app_sub _ (keys pk1 c)); [exact ND | | exact Hin].
            apply Hnd. exact (nodup_app_r _ _ ND). }
    apply bind_ok in H. destruct H as [cs [Hg H]].
    apply bind_ok in H. destruct H as [ix [B H]]. injection H as <-.
    pose proof (all_nodes_here _ _ Hn) as [Hpk Hco].
    split; [|split; [apply nseg_set_children|]].
    + destruct (Hgo (nchildren n) cs) as [Hall [_ Hnd']];
        [intros ch Ich; split; [now apply Hco | exact (all_nodes_child _ n ch Hn Ich)] | exact Hg |].
      apply U_children; [now apply Hnd' | exact Hall].
    + intro E. rewrite E in Hg. cbn [clean_go] in Hg. injection Hg as <-. apply nchildren_set_children.
Qed.

(* ---------------------------------------------------------------- Use *)

Lemma apply_mw_node_leaf : forall fuel router mws n, nchildren n = [] ->
  nchildren (apply_mw_node fuel router mws n) = [].
Proof.
  intros [|f] router mws [s p i h x c] E; [exact E|]. cbn [nchildren] in E. subst c. reflexivity.
Qed.

Lemma apply_mw_node_U : forall fuel router mws n, U n -> U (apply_mw_node fuel router mws n).
Proof.
  induction fuel as [|f IH]; intros router mws n Hn; [exact Hn|].
  pose proof (all_nodes_here _ _ Hn) as [Hpk Hco].
  destruct n as [s p i h x c]. cbn [apply_mw_node]. cbn [nchildren] in *.
  apply all_nodes_intro.
  - unfold uq. cbn [nchildren]. split.
    + rewrite keys_map_nseg; [exact Hpk | intro y; apply apply_mw_node_nseg].
    + intros ch Ich. apply in_map_iff in Ich. destruct Ich as [ch0 [<- Ich]].
      destruct (Hco ch0 Ich) as [C0 L0]. unfold child_ok. rewrite apply_mw_node_nseg.
      split; [exact C0 | intro Cl; apply apply_mw_node_leaf; exact (L0 Cl)].
  - cbn [nchildren]. intros ch Ich. apply in_map_iff in Ich. destruct Ich as [ch0 [<- Ich]].
    apply IH. exact (all_nodes_child _ _ ch0 Hn Ich).
Qed.
End Uniq.

(* ================================================================ Part 5 : trees and histories *)

Definition tree_gu (ic : icpts) (t : tree) : Prop := tic t = ic /\ G ic (troot t) /\ U (troot t).

Lemma build_methods_gu : forall ic t root num ms, tic t = ic -> G ic root -> U root ->
  tree_gu ic (tree_build_methods t root num ms).
Proof.
  intros ic t root num ms Hic Hg Hu. unfold tree_gu, tree_build_methods. cbn [tic troot].
  split; [exact Hic|]. split; [now apply TreeLit.G_set_handlers | now apply U_set_handlers].
Qed.

Lemma gu_new_tree : forall name ic trace, tree_gu ic (new_tree name ic trace).
Proof.
  intros name ic trace. unfold new_tree.
  apply build_methods_gu; [reflexivity | apply TreeLit.G_leaf | apply U_leaf; reflexivity].
Qed.

Lemma opens_lit_app : forall l0 rest, NB l0 -> opens rest -> opens (TokensSplit.lit_segs l0 ++ rest).
Proof.
  intros l0 rest N0 Hr. destruct l0 as [|c l0]; [exact Hr|]. cbn [TokensSplit.lit_segs app].
  destruct rest as [|s rest]; [exact I|]. cbn [opens]. split; [|exact Hr].
  cbn [sval string_seg]. now apply closed_nb.
Qed.

Lemma chunks_cseg : forall ic rest cs, Forall2 (TokensSplit.seg_chunk ic) rest cs ->
  Forall chunk_ok cs -> TokensSplit.gaps_ok cs -> Forall cseg rest /\ opens rest.
Proof.
  intros ic rest cs F. induction F as [|s c rest cs CS F IH]; intros Hcs Hg; [split; [constructor | exact I]|].
  inversion Hcs as [|c0 cs0 Hc Hcs']; subst.
  destruct (TokensSplit.chunk_seg_ok _ _ _ _ _ _ _ CS) as [Hv _].
  assert (Hg' : TokensSplit.gaps_ok cs) by exact (TokensSplit.gaps_ok_tl _ _ Hg).
  destruct (IH Hcs' Hg') as [IH1 IH2]. split.
  - constructor; [|exact IH1]. intros _. exists c. now split.
  - destruct rest as [|s' rest]; [exact I|]. cbn [opens]. split; [|exact IH2].
    inversion F as [|s0 c' r0 cs' _ _]; subst. cbn [TokensSplit.gaps_ok] in Hg. destruct Hg as [Hne _].
    rewrite Hv. destruct c as [b l]. exact (closed_chunk_cons b l (proj1 Hc) Hne).
Qed.

Lemma split_cseg : forall ic p ts segs, Table.tokens p = Some ts -> split ic p = Ok segs ->
  Forall cseg segs /\ opens segs.
Proof.
  intros ic p ts segs T H.
  destruct (TokensSplit.tokens_shape p ts T) as [l0 [cs [E [Hne [N0 [Hcs [Hg _]]]]]]]. subst p.
  destruct (TokensSplit.split_ok_shape ic l0 cs segs N0 Hcs Hne H) as [rest [-> [F _]]].
  destruct (chunks_cseg ic rest cs F Hcs Hg) as [C O]. split.
  - apply Forall_app. split; [|exact C]. destruct l0 as [|c l0]; [constructor|].
    cbn [TokensSplit.lit_segs]. constructor; [apply cseg_string | constructor].
  - now apply opens_lit_app.
Qed.

Lemma gu_add : forall ic t p ts h mws ms t', tree_gu ic t -> Table.tokens p = Some ts ->
  tree_add t p h mws ms = Ok t' -> tree_gu ic t'.
Proof.
  intros ic t p ts h mws ms t' [Hic [Hg Hu]] T H. unfold tree_add in H. cbv zeta in H.
  apply bind_ok in H. destruct H as [amb [_ H]].
  assert (Hm : forall ms0,
    (do segs <- split (tic t) p;
     do _ <- check_methods (has_trace t)
               (match find (tree_fuel t + length p + 2) (troot t) p with Some n => nhandlers n | None => [] end) [] ms0;
     do root' <- get_node (tree_fuel t + length p + 2) (tic t) (troot t) segs
                   (add_methods (has_trace t) (tname t) h p mws ms0);
     Ok (tree_build_methods t root' 1 ms0)) = Ok t' -> tree_gu ic t').
  { intros ms0 H0. rewrite Hic in H0.
    apply bind_ok in H0. destruct H0 as [segs [SP H0]].
    apply bind_ok in H0. destruct H0 as [u [_ H0]].
    apply bind_ok in H0. destruct H0 as [root' [GN H0]]. injection H0 as <-.
    pose proof (TreeLit.split_nbseg ic p ts segs T SP) as HL.
    destruct (split_cseg ic p ts segs T SP) as [HC HO].
    destruct (TreeLit.get_node_G ic segs _ _ _ _ Hg HL (TreeLit.add_methods_kG ic _ _ _ _ _ _) GN) as [Hg' _].
    pose proof (get_node_U ic segs _ _ _ _ Hg Hu HL HC HO (TreeLit.add_methods_kG ic _ _ _ _ _ _)
                  (add_methods_kU ic _ _ _ _ _ _) (add_methods_kleaf _ _ _ _ _ _) GN) as Hu'.
    now apply build_methods_gu. }
  destruct amb as [[p0 [|]]|]; [discriminate H | exact (Hm _ H) | exact (Hm _ H)].
Qed.

Lemma gu_remove : forall ic t p ms t', tree_gu ic t -> tree_remove t p ms = Ok t' -> tree_gu ic t'.
Proof.
  intros ic t p ms t' [Hic [Hg Hu]] H. unfold tree_remove in H.
  apply bind_ok in H. destruct H as [r [R H]].
  destruct r as [[root' removed]|]; injection H as <-; [|now split].
  destruct (TreeLit.remove_in_G ic _ _ _ _ _ _ _ Hg R) as [Hg' _].
  pose proof (remove_in_U ic _ _ _ _ _ _ _ Hg Hu R) as Hu'. now apply build_methods_gu.
Qed.

Lemma gu_clean : forall ic t prefix t', tree_gu ic t -> tree_clean t prefix = Ok t' -> tree_gu ic t'.
Proof.
  intros ic t prefix t' [Hic [Hg Hu]] H. unfold tree_clean in H.
  apply bind_ok in H. destruct H as [root' [C H]]. injection H as <-.
  destruct (TreeLit.clean_in_G ic _ _ _ _ Hg C) as [Hg' _].
  destruct (clean_in_U _ _ _ _ Hu C) as [Hu' _]. now apply build_methods_gu.
Qed.

Lemma gu_use : forall ic t mws, tree_gu ic t -> tree_gu ic (tree_apply_mw t mws).
Proof.
  intros ic t mws [Hic [Hg Hu]]. unfold tree_gu, tree_apply_mw. cbn [tic troot].
  split; [exact Hic|]. split; [now apply TreeLit.apply_mw_node_G | now apply apply_mw_node_U].
Qed.

Lemma gu_tstep : forall ic t op, tree_gu ic t -> TokensSplit.op_tokens op = true -> tree_gu ic (tstep t op).
Proof.
  intros ic t op Ht W. destruct op as [p h mws ms|p ms|prefix|mws]; cbn [tstep].
  - destruct (tree_add t p h mws ms) as [t'| | |] eqn:E; cbn [keep]; try exact Ht.
    cbn [TokensSplit.op_tokens] in W. destruct (Table.tokens p) as [ts|] eqn:T; [|discriminate W].
    exact (gu_add _ _ _ _ _ _ _ _ Ht T E).
  - destruct (tree_remove t p ms) as [t'| | |] eqn:E; cbn [keep]; try exact Ht.
    exact (gu_remove _ _ _ _ _ Ht E).
  - destruct (tree_clean t prefix) as [t'| | |] eqn:E; cbn [keep]; try exact Ht.
    exact (gu_clean _ _ _ _ Ht E).
  - now apply gu_use.
Qed.

Lemma gu_fold : forall ic hist t, tree_gu ic t -> TokensSplit.hist_tokens hist = true ->
  tree_gu ic (fold_left tstep hist t).
Proof.
  intros ic hist. induction hist as [|op hist IH]; intros t Ht W; [exact Ht|].
  unfold TokensSplit.hist_tokens in W. cbn [forallb] in W.
  apply andb_true_iff in W. destruct W as [W1 W2].
  cbn [fold_left]. apply IH; [now apply gu_tstep | exact W2].
Qed.

Theorem gu_reachable : forall name ic trace hist, TokensSplit.hist_tokens hist = true ->
  tree_gu ic (fold_left tstep hist (new_tree name ic trace)).
Proof. intros name ic trace hist W. exact (gu_fold ic hist _ (gu_new_tree name ic trace) W). Qed.

(* ---------------------------------------------------------------- one node per pattern *)

Section Once.
Variable ic : icpts.
Variable p : bytes.

Definition wt (x : node) : nat := TreeFind.b2n (TreeFind.pat_is p x) + TreeFind.cnt (TreeFind.pat_is p) x.

Lemma once_node : forall fuel x, height x <= fuel -> G ic x -> U x -> all_nodes TreeText.pat_ok x ->
  wt x <= 1 /\ (1 <= wt x -> exists r, p = npat x ++ r /\ (nchildren x = [] -> r = [])).
Proof.
  induction fuel as [|f IH]; intros x Hh Gx Ux Px; [rewrite height_eq in Hh; lia|].
  pose proof (all_nodes_here _ _ Gx) as [Hlab [Hnd _]].
  pose proof (all_nodes_here _ _ Ux) as [Hpk Hco].
  pose proof (all_nodes_here _ _ Px) as Hpat.
  assert (Hl : forall l, incl l (nchildren x) -> NoDup (keys hd1 l) -> NoDup (keys pk1 l) ->
            TreeFind.cnts (TreeFind.pat_is p) l <= 1 /\
            (1 <= TreeFind.cnts (TreeFind.pat_is p) l -> exists y r, In y l /\
               p = npat x ++ sval (nseg y) ++ r /\ (nchildren y = [] -> r = []))).
  { induction l as [|y l IHl]; intros Hin ND1 ND2; [split; [simpl; lia | simpl; lia]|].
    assert (Iy : In y (nchildren x)) by (apply Hin; now left).
    assert (Hin' : incl l (nchildren x)) by (intros z Hz; apply Hin; now right).
    destruct (IHl Hin' (nodup_app_r _ _ ND1) (nodup_app_r _ _ ND2)) as [L1 L2].
    destruct (IH y) as [Y1 Y2];
      [apply height_child in Iy; lia | exact (all_nodes_child _ x y Gx Iy) |
       exact (all_nodes_child _ x y Ux Iy) | exact (all_nodes_child _ x y Px Iy) |].
    change (TreeFind.cnts (TreeFind.pat_is p) (y :: l)) with (wt y + TreeFind.cnts (TreeFind.pat_is p) l).
    assert (Hy : 1 <= wt y -> exists r, p = npat x ++ sval (nseg y) ++ r /\ (nchildren y = [] -> r = [])).
    { intro W. destruct (Y2 W) as [r [E Hr]]. exists r. split; [|exact Hr].
      now rewrite E, (Hpat y Iy), app_assoc. }
    assert (Hno : 1 <= wt y -> 1 <= TreeFind.cnts (TreeFind.pat_is p) l -> False).
    { intros W1 W2. destruct (Hy W1) as [r [E Hr]]. destruct (L2 W2) as [y' [r' [Iy' [E' Hr']]]].
      assert (Iy'x : In y' (nchildren x)) by now apply Hin'.
      rewrite E in E'. apply app_inv_head in E'.
      destruct (sib_clash ic (nseg y) (nseg y') r r' (Hlab y Iy) (Hlab y' Iy'x)
                  (proj1 (Hco y Iy)) (proj1 (Hco y' Iy'x))
                  (fun Cl => Hr (proj2 (Hco y Iy) Cl)) (fun Cl => Hr' (proj2 (Hco y' Iy'x) Cl)) E')
        as [[b [F1 F2]]|[k [F1 F2]]].
      - exact (keys_clash hd1 y l y' b ND1 Iy' F1 F2).
      - exact (keys_clash pk1 y l y' k ND2 Iy' F1 F2). }
    split.
    - destruct (le_lt_dec 1 (wt y)) as [A|A], (le_lt_dec 1 (TreeFind.cnts (TreeFind.pat_is p) l)) as [B|B];
        [elim (Hno A B) | lia | lia | lia].
    - intro W. destruct (le_lt_dec 1 (wt y)) as [A|A].
      + destruct (Hy A) as [r [E Hr]]. exists y, r. split; [now left | now split].
      + destruct L2 as [y' [r' [Iy' Hy']]]; [lia|]. exists y', r'. split; [now right | exact Hy']. }
  destruct (Hl (nchildren x) (incl_refl _) Hnd Hpk) as [L1 L2].
  unfold wt. rewrite TreeFind.cnt_eq.
  assert (Hx : TreeFind.pat_is p x = true -> 1 <= TreeFind.cnts (TreeFind.pat_is p) (nchildren x) -> False).
  { intros Xx W. unfold TreeFind.pat_is in Xx. apply beqb_eq in Xx.
    destruct (L2 W) as [y [r [Iy [E _]]]]. rewrite <- Xx in E at 1.
    rewrite <- (app_nil_r (npat x)) in E at 1. apply app_inv_head in E.
    symmetry in E. apply app_eq_nil in E. exact (proj1 (proj2 (Hlab y Iy)) (proj1 E)). }
  split.
  - destruct (TreeFind.pat_is p x) eqn:Xx; cbn [TreeFind.b2n]; [|lia].
    destruct (le_lt_dec 1 (TreeFind.cnts (TreeFind.pat_is p) (nchildren x))) as [B|B]; [elim (Hx eq_refl B) | lia].
  - intro W. destruct (TreeFind.pat_is p x) eqn:Xx.
    + exists []. split; [|reflexivity]. unfold TreeFind.pat_is in Xx. apply beqb_eq in Xx.
      now rewrite app_nil_r.
    + cbn [TreeFind.b2n] in W. destruct L2 as [y [r [Iy [E _]]]]; [lia|].
      exists (sval (nseg y) ++ r). split; [exact E|]. intro En. rewrite En in Iy. destruct Iy.
Qed.

Lemma pattern_once_gu : forall n, G ic n -> U n -> all_nodes TreeText.pat_ok n -> TreeFind.pattern_once p n.
Proof.
  intros n Gn Un Pn. unfold TreeFind.pattern_once.
  destruct (once_node (height n) n (Nat.le_refl _) Gn Un Pn) as [W _]. unfold wt in W. lia.
Qed.
End Once.

(* ONE NODE PER PATTERN, on every tree reached by a history of tokenizer-accepted patterns *)
Theorem pattern_once_reachable : forall name ic trace hist p, TokensSplit.hist_tokens hist = true ->
  TreeFind.pattern_once p (troot (fold_left tstep hist (new_tree name ic trace))).
Proof.
  intros name ic trace hist p W.
  destruct (gu_reachable name ic trace hist W) as [_ [Hg Hu]].
  destruct (TreeFind.C03_pat_reachable_l name ic trace hist) as [Hp _].
  exact (pattern_once_gu ic p _ Hg Hu Hp).
Qed.

(* ================================================================ Part 6 : Remove and Clean never fault *)

Definition lab_ne (n : node) : Prop := forall ch, In ch (nchildren n) -> sval (nseg ch) <> [].

Lemma G_lab_ne : forall ic n, G ic n -> all_nodes lab_ne n.
Proof.
  intros ic n Hg. apply (all_nodes_impl (TreeLit.good ic) lab_ne); [|exact Hg].
  intros m Hm. exact (TreeLit.good_lit_nonempty_all ic m Hm).
Qed.

Lemma build_indexes_total : forall c, (forall x, In x c -> sval (nseg x) <> []) ->
  exists ix, build_indexes c = Ok ix.
Proof.
  intros c H. unfold build_indexes. destruct (Nat.ltb (length c) indexes_size); [now eexists|].
  destruct (RegTotal.build_indexes_from_some c 0 [] H) as [ix ->]. now eexists.
Qed.

Lemma remove_finish_total : forall n i ch' rm, lab_ne n -> exists r, remove_finish n i ch' rm = Ok (Some r).
Proof.
  intros n i ch' rm Hn. unfold remove_finish. destruct (prunable ch'); [|now eexists].
  cbv zeta. destruct (build_indexes_total (remove_nth i (nchildren n))) as [ix ->]; [|cbn [bind]; now eexists].
  intros x Ix. apply In_remove_nth in Ix. now apply Hn.
Qed.

Lemma remove_in_total : forall fuel trace ms n p, height n <= fuel -> all_nodes lab_ne n ->
  exists r, remove_in fuel trace ms n p = Ok r.
Proof.
  induction fuel as [|f IH]; intros trace ms n p Hh Hn; [rewrite height_eq in Hh; lia|].
  rewrite remove_in_S. pose proof (all_nodes_here _ _ Hn) as Hne.
  assert (Hgo : forall c i, incl c (nchildren n) -> exists r, remove_go f trace ms n p c i = Ok r).
  { induction c as [|ch c IHc]; intros i Hin; cbn [remove_go]; [now eexists|].
    assert (Ich : In ch (nchildren n)) by (apply Hin; now left).
    assert (Hin' : incl c (nchildren n)) by (intros y Hy; apply Hin; now right).
    destruct (beqb (sval (nseg ch)) p).
    - destruct (remove_at_node trace ms ch) as [ch' removed].
      destruct (remove_finish_total n i ch' removed Hne) as [r ->]. now eexists.
    - destruct (has_prefix p (sval (nseg ch))); [|exact (IHc (S i) Hin')].
      destruct (IH trace ms ch (skipn (length (sval (nseg ch))) p)) as [r ->];
        [apply height_child in Ich; lia | exact (all_nodes_child _ n ch Hn Ich) |].
      cbn [bind]. destruct r as [[ch' removed]|]; [|exact (IHc (S i) Hin')].
      destruct (remove_finish_total n i ch' removed Hne) as [r ->]. now eexists. }
  exact (Hgo _ O (incl_refl _)).
Qed.

Theorem tree_remove_total : forall ic t p ms, tree_gu ic t -> exists t', tree_remove t p ms = Ok t'.
Proof.
  intros ic t p ms [_ [Hg _]]. unfold tree_remove.
  destruct (remove_in_total (tree_fuel t) (has_trace t) ms (troot t) p) as [r ->];
    [unfold tree_fuel; lia | exact (G_lab_ne ic _ Hg) |].
  cbn [bind]. destruct r as [[root' removed]|]; now eexists.
Qed.

Lemma clean_in_nseg : forall fuel n prefix n', clean_in fuel n prefix = Ok n' -> nseg n' = nseg n.
Proof.
  intros [|f] n prefix n' H; [discriminate H|]. rewrite clean_in_S in H. destruct prefix as [|b prefix].
  - injection H as <-. apply nseg_set_children.
  - apply bind_ok in H. destruct H as [cs [_ H]]. apply bind_ok in H. destruct H as [ix [_ H]].
    injection H as <-. apply nseg_set_children.
Qed.

Lemma clean_in_total : forall fuel n prefix, height n <= fuel -> all_nodes lab_ne n ->
  exists n', clean_in fuel n prefix = Ok n'.
Proof.
  induction fuel as [|f IH]; intros n prefix Hh Hn; [rewrite height_eq in Hh; lia|].
  rewrite clean_in_S. destruct prefix as [|b prefix]; [now eexists|].
  remember (b :: prefix) as pf eqn:Epf. clear Epf. pose proof (all_nodes_here _ _ Hn) as Hne.
  assert (Hgo : forall c, incl c (nchildren n) ->
            exists cs, clean_go f pf c = Ok cs /\ forall x, In x cs -> sval (nseg x) <> []).
  { induction c as [|ch c IHc]; intro Hin; cbn [clean_go]; [exists []; split; [reflexivity | intros x []]|].
    assert (Ich : In ch (nchildren n)) by (apply Hin; now left).
    assert (Hin' : incl c (nchildren n)) by (intros y Hy; apply Hin; now right).
    cbv zeta.
    assert (Hch : exists ch', (if Nat.ltb (length (sval (nseg ch))) (length pf) && has_prefix pf (sval (nseg ch))
                               then clean_in f ch (skipn (length (sval (nseg ch))) pf) else Ok ch) = Ok ch' /\
                              nseg ch' = nseg ch).
    { destruct (Nat.ltb (length (sval (nseg ch))) (length pf) && has_prefix pf (sval (nseg ch))).
      - destruct (IH ch (skipn (length (sval (nseg ch))) pf)) as [ch' E];
          [apply height_child in Ich; lia | exact (all_nodes_child _ n ch Hn Ich) |].
        exists ch'. split; [exact E | exact (clean_in_nseg _ _ _ _ E)].
      - exists ch. now split. }
    destruct Hch as [ch' [-> Es]]. cbn [bind].
    destruct (IHc Hin') as [rest [-> Hrest]]. cbn [bind].
    destruct (has_prefix (sval (nseg ch)) pf).
    - exists rest. now split.
    - exists (ch' :: rest). split; [reflexivity|]. intros x [<-|Ix]; [rewrite Es; now apply Hne | now apply Hrest]. }
  destruct (Hgo _ (incl_refl _)) as [cs [-> Hcs]]. cbn [bind].
  destruct (build_indexes_total cs Hcs) as [ix ->]. cbn [bind]. now eexists.
Qed.

Theorem tree_clean_total : forall ic t prefix, tree_gu ic t -> exists t', tree_clean t prefix = Ok t'.
Proof.
  intros ic t prefix [_ [Hg _]]. unfold tree_clean.
  destruct (clean_in_total (tree_fuel t) (troot t) prefix) as [root' ->];
    [unfold tree_fuel; lia | exact (G_lab_ne ic _ Hg) |].
  cbn [bind]. now eexists.
Qed.

(* ================================================================ Part 7 : removed is gone *)

(* the node named by the answer of Tree.Handler: the root (TRACE, "*", the empty path) or a node
   below it that has handlers; a successful answer comes from the node's handler of the method *)
Lemma handler_node : forall t method path ok n h ps,
  tree_handler t method path [] = HFound ok (Some n) h ps ->
  n = troot t \/
  (desc (troot t) n /\ nhandlers n <> [] /\ (ok = true -> lookup_handler method (nhandlers n) = Some h)).
Proof.
  intros t method path ok n h ps H. rewrite tree_handler_eq in H.
  destruct (match ttrace t with Some h0 => if beqb method TRACE then Some h0 else None | None => None end) as [h0|].
  - injection H as _ <- _ _. now left.
  - destruct (beqb path (bs "*") || beqb path []).
    + unfold handler_of in H. destruct (Nat.eqb (nsize (troot t)) 0); [discriminate H|].
      destruct (lookup_handler method (nhandlers (troot t))); [injection H as _ <- _ _; now left|].
      destruct (alookup M405 (nhandlers (troot t))); [injection H as _ <- _ _; now left | discriminate H].
    + destruct (match_children (tree_fuel t) (troot t) path []) as [r q|q|s] eqn:MC; unfold handler_of in H;
        [|discriminate H | discriminate H].
      destruct (TreeLit.match_found_below _ _ _ _ _ _ MC) as [Hb Hs].
      destruct (Nat.eqb (nsize r) 0); [discriminate H|].
      assert (Hne : nhandlers r <> []) by (intro E; unfold nsize in Hs; rewrite E in Hs; simpl in Hs; lia).
      destruct (lookup_handler method (nhandlers r)) as [h1|] eqn:L.
      * injection H as _ <- <- _. destruct Hb as [->|D]; [now left | right].
        split; [exact D|]. split; [exact Hne | intros _; exact L].
      * destruct (alookup M405 (nhandlers r)); [|discriminate H].
        injection H as <- <- _ _. destruct Hb as [->|D]; [now left | right].
        split; [exact D|]. split; [exact Hne | intro E; discriminate E].
Qed.

(* ---------------------------------------------------------------- what Remove(p, ms) takes away *)
Definition removes (ms : list bytes) (method : bytes) : Prop :=
  ms = [] \/ (In method ms /\ is_auto method = false) \/ (method = HEAD /\ In GET ms).

Lemma alookup_adelete_none : forall (l : list (bytes * hterm)) k k',
  alookup k l = None -> alookup k (adelete k' l) = None.
Proof. intros l k k' H. rewrite alookup_adelete. destruct (beqb k k'); [reflexivity | exact H]. Qed.

Lemma remove_methods_kills : forall method ms hs rm,
  (In method ms /\ is_auto method = false) \/ (method = HEAD /\ In GET ms) \/ alookup method hs = None ->
  alookup method (fst (remove_methods ms hs rm)) = None.
Proof.
  intros method. induction ms as [|m ms IH]; intros hs rm H.
  - cbn [remove_methods fst]. destruct H as [[[] _]|[[_ []]|H]]. exact H.
  - cbn [remove_methods]. destruct (is_auto m) eqn:A.
    + apply IH. destruct H as [[[E|I] Na]|[[Eh [E|I]]|H]].
      * subst m. congruence.
      * left. now split.
      * subst m. vm_compute in A. discriminate A.
      * right. left. now split.
      * right. right. exact H.
    + set (hs1 := if beqb m GET then adelete HEAD hs else hs).
      assert (Hcase : (In method ms /\ is_auto method = false) \/ (method = HEAD /\ In GET ms) \/
                      alookup method hs1 = None \/ m = method).
      { destruct H as [[[E|I] Na]|[[Eh [E|I]]|H]].
        - right. right. right. exact E.
        - left. now split.
        - right. right. left. subst m method. unfold hs1. rewrite beqb_refl.
          rewrite alookup_adelete, beqb_refl. reflexivity.
        - right. left. now split.
        - right. right. left. unfold hs1. destruct (beqb m GET); [now apply alookup_adelete_none | exact H]. }
      destruct (ahas m hs1) eqn:Ah; apply IH.
      * destruct Hcase as [C|[C|[C|C]]]; [now left | right; now left | right; right | right; right].
        -- now apply alookup_adelete_none.
        -- subst m. rewrite alookup_adelete, beqb_refl. reflexivity.
      * destruct Hcase as [C|[C|[C|C]]]; [now left | right; now left | right; right; exact C | right; right].
        subst m. unfold ahas in Ah. destruct (alookup method hs1); [discriminate Ah | reflexivity].
Qed.

Lemma lookup_handler_nil : forall method, lookup_handler method [] = None.
Proof. intro method. unfold lookup_handler. destruct (beqb method M405); reflexivity. Qed.

Lemma remove_at_node_children : forall trace ms n, nchildren (fst (remove_at_node trace ms n)) = nchildren n.
Proof.
  intros trace ms n. unfold remove_at_node.
  destruct (match ms with [] => _ | _ => _ end) as [hs removed]. cbn [fst]. apply nchildren_set_handlers.
Qed.

Lemma remove_at_node_kills : forall trace ms n method, removes ms method ->
  lookup_handler method (nhandlers (fst (remove_at_node trace ms n))) = None.
Proof.
  intros trace ms n method H. unfold remove_at_node. destruct ms as [|m0 ms0].
  - cbn [fst]. rewrite nhandlers_set_handlers. apply lookup_handler_nil.
  - assert (K : alookup method (fst (remove_methods (m0 :: ms0) (nhandlers n) [])) = None).
    { apply remove_methods_kills. destruct H as [E|[C|C]]; [discriminate E | now left | right; now left]. }
    destruct (remove_methods (m0 :: ms0) (nhandlers n) []) as [hs1 rm]. cbn [fst] in K.
    destruct (Nat.eqb (length hs1) 2 && ahas OPTIONS hs1 && ahas M405 hs1); cbn [fst];
      rewrite nhandlers_set_handlers; [apply lookup_handler_nil|].
    unfold lookup_handler. destruct (beqb method M405); [reflexivity | exact K].
Qed.

(* the core: the pattern occurs once, so the node Remove changed is THE node of the pattern *)
Lemma remove_kills : forall t p ms t' method, TreeText.tree_pat_ok t -> TreeFind.pattern_once p (troot t) ->
  tree_remove t p ms = Ok t' -> removes ms method ->
  forall n, desc (troot t') n -> npat n = p -> lookup_handler method (nhandlers n) = None.
Proof.
  intros t p ms t' method Hpat Honce H Hrm n D Ep. pose proof Hpat as [Ha Hroot].
  unfold tree_remove in H. apply bind_ok in H. destruct H as [x [E H]].
  destruct x as [[root' removed]|]; injection H as <-.
  - destruct (TreeFind.C03_remove_effect_l _ _ _ _ _ _ _ E) as [r [F [_ OC]]].
    destruct (TreeFind.C03_find_sound_l _ _ _ _ Ha F) as [Dr Pr]. rewrite Hroot in Pr. cbn [app] in Pr.
    set (r' := fst (remove_at_node (has_trace t) ms r)) in OC.
    set (hasm := fun d : node => match lookup_handler method (nhandlers d) with Some _ => true | None => false end).
    set (X := fun d : node => beqb (npat d) p && hasm d).
    set (Y := fun d : node => beqb (npat d) p && negb (hasm d)).
    assert (HS : forall m c ix, X (set_children m c ix) = X m) by (intros [s q i h x c0] c ix; reflexivity).
    assert (HP : forall d, prunable d = true -> X d = false).
    { intros d Hd. unfold X, hasm. rewrite (proj1 (TreeFind.prunable_facts _ Hd)), lookup_handler_nil.
      apply andb_false_r. }
    assert (Hr' : X r' = false).
    { unfold X, hasm, r'. rewrite (remove_at_node_kills _ _ _ _ Hrm). apply andb_false_r. }
    assert (Hc : TreeFind.cnt X r' = TreeFind.cnt X r).
    { unfold r'. now rewrite !TreeFind.cnt_eq, remove_at_node_children. }
    pose proof (TreeFind.one_changed_cnt X r r' _ _ HS HP Hr' Hc OC) as Hcnt.
    assert (Hsplit : TreeFind.cnt (TreeFind.pat_is p) (troot t) = TreeFind.cnt X (troot t) + TreeFind.cnt Y (troot t)).
    { apply (TreeFind.cnt_split _ _ _) with (fuel := height (troot t)); [|lia].
      intro d. unfold TreeFind.pat_is, X, Y. destruct (beqb (npat d) p), (hasm d); reflexivity. }
    unfold TreeFind.pattern_once in Honce.
    assert (Hz : TreeFind.cnt X root' = O).
    { destruct (X r) eqn:Xr; cbn [TreeFind.b2n] in Hcnt; [lia|].
      assert (Hd : Y r = true).
      { unfold X in Xr. unfold Y. rewrite Pr, beqb_refl in *. cbn [andb] in *. now rewrite Xr. }
      pose proof (TreeFind.cnt_desc_pos _ _ _ Dr Hd). lia. }
    unfold tree_build_methods in D. cbn [troot] in D.
    apply (TreeFind.desc_same_children _ root') in D; [|now rewrite nchildren_set_handlers].
    pose proof (TreeFind.cnt_zero_desc X _ _ Hz D) as Xn. unfold X, hasm in Xn.
    rewrite Ep, beqb_refl in Xn. cbn [andb] in Xn.
    destruct (lookup_handler method (nhandlers n)); [discriminate Xn | reflexivity].
  - exfalso. exact (TreeFind.C03_absent_not_found_l t p Hpat (TreeFind.remove_in_none _ _ _ _ _ E) n D Ep).
Qed.

(* the step of the history really is the removal, on a tree that satisfies everything needed *)
Lemma remove_step : forall name ic trace hist p ms, TokensSplit.hist_tokens hist = true ->
  let t := fold_left tstep hist (new_tree name ic trace) in
  TreeText.tree_pat_ok t /\ TreeFind.pattern_once p (troot t) /\
  tree_remove t p ms = Ok (tstep t (ORemove p ms)) /\ TreeText.tree_pat_ok (tstep t (ORemove p ms)).
Proof.
  intros name ic trace hist p ms W t.
  pose proof (TreeFind.C03_pat_reachable_l name ic trace hist) as Hpat. fold t in Hpat.
  destruct (tree_remove_total ic t p ms (gu_reachable name ic trace hist W)) as [t1 R].
  split; [exact Hpat|]. split; [exact (pattern_once_reachable name ic trace hist p W)|].
  cbn [tstep]. rewrite R. cbn [keep]. split; [reflexivity | exact (TreeText.pat_remove _ _ _ _ Hpat R)].
Qed.

Theorem removed_not_served : forall name ic trace hist p ms method path ok n h ps,
  TokensSplit.hist_tokens hist = true ->
  let t := fold_left tstep hist (new_tree name ic trace) in
  let t' := tstep t (ORemove p ms) in
  removes ms method -> p <> [] ->
  tree_handler t' method path [] = HFound ok (Some n) h ps -> npat n = p -> ok = false.
Proof.
  intros name ic trace hist p ms method path ok n h ps W t t' Hrm Hne H Ep.
  destruct (remove_step name ic trace hist p ms W) as [Hpat [Honce [R Hpat']]]. fold t in Hpat, Honce, R, Hpat'.
  fold t' in R, Hpat'.
  destruct (handler_node _ _ _ _ _ _ _ H) as [->|[D [_ Hok]]].
  - rewrite (proj2 Hpat') in Ep. now elim Hne.
  - destruct ok; [|reflexivity].
    pose proof (remove_kills t p ms t' method Hpat Honce R Hrm n D Ep) as K.
    rewrite (Hok eq_refl) in K. discriminate K.
Qed.

(* the statement of the task: a plain user method that was removed *)
Theorem removed_pair_not_served : forall name ic trace hist p ms method path ok n h ps,
  TokensSplit.hist_tokens hist = true ->
  let t := fold_left tstep hist (new_tree name ic trace) in
  let t' := tstep t (ORemove p ms) in
  (ms = [] \/ In method ms) -> is_auto method = false -> p <> [] ->
  tree_handler t' method path [] = HFound ok (Some n) h ps -> npat n = p -> ok = false.
Proof.
  intros name ic trace hist p ms method path ok n h ps W t t' Hms Ha.
  apply (removed_not_served name ic trace hist p ms method path ok n h ps W).
  destruct Hms as [E|I]; [now left | right; left; now split].
Qed.

(* GET takes the automatic HEAD with it *)
Theorem removed_get_removes_head : forall name ic trace hist p ms path ok n h ps,
  TokensSplit.hist_tokens hist = true ->
  let t := fold_left tstep hist (new_tree name ic trace) in
  let t' := tstep t (ORemove p ms) in
  (ms = [] \/ In GET ms) -> p <> [] ->
  tree_handler t' HEAD path [] = HFound ok (Some n) h ps -> npat n = p -> ok = false.
Proof.
  intros name ic trace hist p ms path ok n h ps W t t' Hms.
  apply (removed_not_served name ic trace hist p ms HEAD path ok n h ps W).
  destruct Hms as [E|I]; [now left | right; right; now split].
Qed.

(* HEAD cannot be registered by the user: Tree.Add refuses it *)
Lemma check_methods_head : forall trace existing ms seen u, In HEAD ms ->
  check_methods trace existing seen ms <> Ok u.
Proof.
  intros trace existing ms. induction ms as [|m ms IH]; intros seen u I H; [destruct I|].
  cbn [check_methods] in H. destruct (beqb m HEAD) eqn:B.
  - rewrite orb_true_r in H. discriminate H.
  - destruct (beqb m OPTIONS || false || trace && beqb m TRACE); [discriminate H|].
    destruct (negb (is_method m)); [discriminate H|].
    destruct (ahas m existing || mem m seen); [discriminate H|].
    destruct I as [E|I]; [subst m; rewrite beqb_refl in B; discriminate B | exact (IH _ _ I H)].
Qed.

Theorem head_not_registrable : forall t p h mws ms t', In HEAD ms -> tree_add t p h mws ms <> Ok t'.
Proof.
  intros t p h mws ms t' I H. unfold tree_add in H. cbv zeta in H.
  apply bind_ok in H. destruct H as [amb [_ H]].
  assert (Hm : (do segs <- split (tic t) p;
     do _ <- check_methods (has_trace t)
               (match find (tree_fuel t + length p + 2) (troot t) p with Some n => nhandlers n | None => [] end) []
               (match ms with [] => any_methods | _ => ms end);
     do root' <- get_node (tree_fuel t + length p + 2) (tic t) (troot t) segs
                   (add_methods (has_trace t) (tname t) h p mws (match ms with [] => any_methods | _ => ms end));
     Ok (tree_build_methods t root' 1 (match ms with [] => any_methods | _ => ms end))) = Ok t' -> False).
  { intro H0. apply bind_ok in H0. destruct H0 as [segs [_ H0]].
    apply bind_ok in H0. destruct H0 as [u [CM _]].
    destruct ms as [|m0 ms0]; [destruct I|]. exact (check_methods_head _ _ _ _ _ I CM). }
  destruct amb as [[p0 [|]]|]; [discriminate H | exact (Hm H) | exact (Hm H)].
Qed.

(* the whole route: after Remove(p) no node spelling p has handlers, no request is answered by p *)
Theorem removed_route_gone : forall name ic trace hist p, TokensSplit.hist_tokens hist = true ->
  let t := fold_left tstep hist (new_tree name ic trace) in
  let t' := tstep t (ORemove p []) in
  forall n, desc (troot t') n -> npat n = p -> nhandlers n = [].
Proof.
  intros name ic trace hist p W t t' n D Ep.
  destruct (remove_step name ic trace hist p [] W) as [Hpat [Honce [R _]]]. fold t in Hpat, Honce, R. fold t' in R.
  exact (TreeFind.C03_remove_all_clears_partial_l t p t' Hpat Honce R n D Ep).
Qed.

Theorem removed_route_not_answered : forall name ic trace hist p method path ok n h ps,
  TokensSplit.hist_tokens hist = true ->
  let t := fold_left tstep hist (new_tree name ic trace) in
  let t' := tstep t (ORemove p []) in
  p <> [] -> tree_handler t' method path [] = HFound ok (Some n) h ps -> npat n <> p.
Proof.
  intros name ic trace hist p method path ok n h ps W t t' Hne H Ep.
  destruct (remove_step name ic trace hist p [] W) as [_ [_ [_ Hpat']]]. fold t in Hpat'. fold t' in Hpat'.
  destruct (handler_node _ _ _ _ _ _ _ H) as [->|[D [Hh _]]].
  - rewrite (proj2 Hpat') in Ep. now elim Hne.
  - exact (Hh (removed_route_gone name ic trace hist p W n D Ep)).
Qed.

(* the hypothesis [p <> []] is needed: Remove("") is a no-op and TRACE is answered at the root,
   whose pattern text is empty *)
Theorem removed_pair_root_refuted :
  ~ (forall name ic trace hist p ms method path ok n h ps,
       TokensSplit.hist_tokens hist = true ->
       let t := fold_left tstep hist (new_tree name ic trace) in
       let t' := tstep t (ORemove p ms) in
       (ms = [] \/ In method ms) -> is_auto method = false ->
       tree_handler t' method path [] = HFound ok (Some n) h ps -> npat n = p -> ok = false).
Proof.
  intro H.
  pose proof (H (bs "r") [] true [] [] [] TRACE (bs "/x") true
                (troot (new_tree (bs "r") [] true)) HTrace [] eq_refl) as K.
  cbv zeta in K. assert (E : true = false); [|discriminate E].
  apply K; [now left | reflexivity | vm_compute; reflexivity | reflexivity].
Qed.

(* ================================================================ Part 8 : Clean *)

Lemma has_prefix_app_both : forall v a b, has_prefix (v ++ a) (v ++ b) = has_prefix a b.
Proof.
  induction v as [|c v IH]; intros a b; [reflexivity|]. cbn [app has_prefix]. now rewrite N.eqb_refl, IH.
Qed.

Lemma prefix_incomparable : forall q v x, has_prefix v q = false ->
  Nat.ltb (length v) (length q) && has_prefix q v = false -> has_prefix (v ++ x) q = false.
Proof.
  induction q as [|c q IH]; intros v x H1 H2; [destruct v; discriminate H1|].
  destruct v as [|a v]; [cbn in H2; discriminate H2|].
  cbn [app has_prefix] in *. destruct (N.eqb_spec c a) as [->|Nca]; [|reflexivity].
  cbn [andb] in *. apply IH; [exact H1|].
  rewrite N.eqb_refl in H2. cbn [andb length] in H2. exact H2.
Qed.

Lemma npat_set_children : forall n c ix, npat (set_children n c ix) = npat n.
Proof. intros [s p i h x c0] c ix. reflexivity. Qed.

Lemma clean_go_elems : forall f pf c cs, clean_go f pf c = Ok cs -> forall y, In y cs ->
  exists ch, In ch c /\ has_prefix (sval (nseg ch)) pf = false /\
    ((Nat.ltb (length (sval (nseg ch))) (length pf) && has_prefix pf (sval (nseg ch)) = true /\
      clean_in f ch (skipn (length (sval (nseg ch))) pf) = Ok y) \/
     (Nat.ltb (length (sval (nseg ch))) (length pf) && has_prefix pf (sval (nseg ch)) = false /\ y = ch)).
Proof.
  intros f pf. induction c as [|ch c IH]; intros cs H y Iy; cbn [clean_go] in H.
  - injection H as <-. destruct Iy.
  - cbv zeta in H. apply bind_ok in H. destruct H as [ch' [C H]].
    apply bind_ok in H. destruct H as [rest [R H]].
    assert (Hrest : In y rest -> exists ch0, In ch0 (ch :: c) /\ has_prefix (sval (nseg ch0)) pf = false /\
      ((Nat.ltb (length (sval (nseg ch0))) (length pf) && has_prefix pf (sval (nseg ch0)) = true /\
        clean_in f ch0 (skipn (length (sval (nseg ch0))) pf) = Ok y) \/
       (Nat.ltb (length (sval (nseg ch0))) (length pf) && has_prefix pf (sval (nseg ch0)) = false /\ y = ch0))).
    { intro I. destruct (IH rest R y I) as [ch0 [I0 H0]]. exists ch0. split; [now right | exact H0]. }
    destruct (has_prefix (sval (nseg ch)) pf) eqn:HP; injection H as <-; [exact (Hrest Iy)|].
    destruct Iy as [<-|Iy]; [|exact (Hrest Iy)].
    exists ch. split; [now left|]. split; [exact HP|].
    destruct (Nat.ltb (length (sval (nseg ch))) (length pf) && has_prefix pf (sval (nseg ch))).
    + left. now split.
    + right. injection C as <-. now split.
Qed.

(* below a cleaned node every pattern leaves the prefix *)
Lemma clean_in_prefix : forall fuel m q m', all_nodes TreeText.pat_ok m -> clean_in fuel m q = Ok m' ->
  q <> [] ->
  npat m' = npat m /\ forall d, desc m' d -> exists x, npat d = npat m ++ x /\ has_prefix x q = false.
Proof.
  induction fuel as [|f IH]; intros m q m' Pm H Hq; [discriminate H|].
  rewrite clean_in_S in H. destruct q as [|b q]; [now elim Hq|].
  remember (b :: q) as pf eqn:Epf.
  apply bind_ok in H. destruct H as [cs [Hg H]].
  apply bind_ok in H. destruct H as [ix [_ H]]. injection H as <-.
  split; [apply npat_set_children|]. intros d D.
  destruct (TreeFind.desc_first _ _ D) as [y [Iy Hd]]. rewrite nchildren_set_children in Iy.
  destruct (clean_go_elems f pf _ cs Hg y Iy) as [ch [Ich [HP Hcase]]].
  pose proof (all_nodes_here _ _ Pm ch Ich) as Pch.
  pose proof (all_nodes_child _ m ch Pm Ich) as Ach.
  destruct Hcase as [[Bt C]|[Bf ->]].
  - apply andb_true_iff in Bt. destruct Bt as [Lt Hpre].
    apply Nat.ltb_lt in Lt. pose proof (has_prefix_skipn _ _ Hpre) as Epre.
    assert (Hq' : skipn (length (sval (nseg ch))) pf <> []).
    { intro E. apply (f_equal (@length N)) in E. rewrite skipn_length in E. simpl in E. lia. }
    destruct (IH ch _ y Ach C Hq') as [Py Hy].
    destruct Hd as [->|Dy].
    + exists (sval (nseg ch)). split; [now rewrite Py, Pch | exact HP].
    + destruct (Hy d Dy) as [x' [Ex Hx]]. exists (sval (nseg ch) ++ x').
      split; [now rewrite Ex, Pch, app_assoc|].
      rewrite Epre. now rewrite has_prefix_app_both.
  - assert (Hx : exists x', npat d = npat ch ++ x').
    { destruct Hd as [->|Dy]; [exists []; now rewrite app_nil_r | exact (TreeFind.desc_pat _ _ Ach Dy)]. }
    destruct Hx as [x' Ex]. exists (sval (nseg ch) ++ x').
    split; [now rewrite Ex, Pch, app_assoc|]. now apply prefix_incomparable.
Qed.

Lemma clean_kills : forall t prefix t', TreeText.tree_pat_ok t -> tree_clean t prefix = Ok t' ->
  (prefix <> [] -> forall n, desc (troot t') n -> has_prefix (npat n) prefix = false) /\
  (prefix = [] -> nchildren (troot t') = []).
Proof.
  intros t prefix t' [Ha Hroot] H. unfold tree_clean in H.
  apply bind_ok in H. destruct H as [root' [C H]]. injection H as <-.
  unfold tree_build_methods. cbn [troot]. split.
  - intros Hne n D. apply (TreeFind.desc_same_children _ root') in D; [|now rewrite nchildren_set_handlers].
    destruct (clean_in_prefix _ _ _ _ Ha C Hne) as [_ Hd]. destruct (Hd n D) as [x [Ex Hx]].
    rewrite Hroot in Ex. cbn [app] in Ex. now rewrite Ex.
  - intros ->. rewrite nchildren_set_handlers. unfold tree_fuel in C. rewrite clean_in_S in C.
    injection C as <-. apply nchildren_set_children.
Qed.

(* after Clean(prefix) no route whose pattern starts with the prefix answers; with the empty
   prefix only the root is left (it answers "*" and the empty path) *)
Theorem cleaned_not_served : forall name ic trace hist prefix method path ok n h ps,
  TokensSplit.hist_tokens hist = true ->
  let t := fold_left tstep hist (new_tree name ic trace) in
  let t' := tstep t (OClean prefix) in
  tree_handler t' method path [] = HFound ok (Some n) h ps ->
  (prefix <> [] -> has_prefix (npat n) prefix = false) /\ (prefix = [] -> n = troot t').
Proof.
  intros name ic trace hist prefix method path ok n h ps W t t' H.
  pose proof (TreeFind.C03_pat_reachable_l name ic trace hist) as Hpat. fold t in Hpat.
  destruct (tree_clean_total ic t prefix (gu_reachable name ic trace hist W)) as [t1 R].
  assert (Et : t' = t1) by (unfold t'; cbn [tstep]; now rewrite R).
  pose proof (TreeText.pat_clean _ _ _ Hpat R) as Hpat1.
  destruct (clean_kills t prefix t1 Hpat R) as [K1 K2]. rewrite Et in *.
  destruct (handler_node _ _ _ _ _ _ _ H) as [->|[D _]].
  - split; [|reflexivity]. intro Hne. rewrite (proj2 Hpat1). destruct prefix; [now elim Hne | reflexivity].
  - split; [intro Hne; exact (K1 Hne n D)|]. intro E. exfalso.
    destruct (TreeFind.desc_first _ _ D) as [y [Iy _]]. rewrite (K2 E) in Iy. destruct Iy.
Qed.

(* the statement without the case distinction is false: after Clean("") the root still answers
   OPTIONS "*", and its (empty) pattern text starts with the empty prefix *)
Theorem cleaned_not_served_refuted :
  ~ (forall name ic trace hist prefix method path ok n h ps,
       TokensSplit.hist_tokens hist = true ->
       let t := fold_left tstep hist (new_tree name ic trace) in
       let t' := tstep t (OClean prefix) in
       tree_handler t' method path [] = HFound ok (Some n) h ps -> has_prefix (npat n) prefix = false).
Proof.
  intro H.
  pose proof (H (bs "r") [] false [] [] OPTIONS (bs "*") true
                (troot (tstep (new_tree (bs "r") [] false) (OClean []))) HOptions [] eq_refl) as K.
  cbv zeta in K. assert (E : true = false); [|discriminate E].
  apply K. vm_compute. reflexivity.
Qed.

(* ================================================================ Part 9 : the statements on reachable trees *)

Theorem pattern_unique_reachable : forall name ic trace hist a b, TokensSplit.hist_tokens hist = true ->
  let t := fold_left tstep hist (new_tree name ic trace) in
  desc (troot t) a -> desc (troot t) b -> npat a = npat b -> a = b.
Proof.
  intros name ic trace hist a b W t Da Db E.
  exact (TreeFind.C03_pattern_once_unique_l (npat b) (troot t) a b
           (pattern_once_reachable name ic trace hist (npat b) W) Da Db E eq_refl).
Qed.

Theorem remove_total_reachable : forall name ic trace hist p ms, TokensSplit.hist_tokens hist = true ->
  exists t', tree_remove (fold_left tstep hist (new_tree name ic trace)) p ms = Ok t'.
Proof. intros name ic trace hist p ms W. exact (tree_remove_total ic _ p ms (gu_reachable name ic trace hist W)). Qed.

Theorem clean_total_reachable : forall name ic trace hist prefix, TokensSplit.hist_tokens hist = true ->
  exists t', tree_clean (fold_left tstep hist (new_tree name ic trace)) prefix = Ok t'.
Proof. intros name ic trace hist prefix W. exact (tree_clean_total ic _ prefix (gu_reachable name ic trace hist W)). Qed.

Theorem removed_method_gone : forall name ic trace hist p ms method, TokensSplit.hist_tokens hist = true ->
  let t := fold_left tstep hist (new_tree name ic trace) in
  let t' := tstep t (ORemove p ms) in
  removes ms method ->
  forall n, desc (troot t') n -> npat n = p -> lookup_handler method (nhandlers n) = None.
Proof.
  intros name ic trace hist p ms method W t t' Hrm n D Ep.
  destruct (remove_step name ic trace hist p ms W) as [Hpat [Honce [R _]]]. fold t in Hpat, Honce, R. fold t' in R.
  exact (remove_kills t p ms t' method Hpat Honce R Hrm n D Ep).
Qed.

Theorem cleaned_nodes_gone : forall name ic trace hist prefix, TokensSplit.hist_tokens hist = true ->
  let t := fold_left tstep hist (new_tree name ic trace) in
  let t' := tstep t (OClean prefix) in
  (prefix <> [] -> forall n, desc (troot t') n -> has_prefix (npat n) prefix = false) /\
  (prefix = [] -> nchildren (troot t') = []).
Proof.
  intros name ic trace hist prefix W t t'.
  pose proof (TreeFind.C03_pat_reachable_l name ic trace hist) as Hpat. fold t in Hpat.
  destruct (tree_clean_total ic t prefix (gu_reachable name ic trace hist W)) as [t1 R].
  assert (Et : t' = t1) by (unfold t'; cbn [tstep]; now rewrite R).
  rewrite Et. exact (clean_kills t prefix t1 Hpat R).
Qed.

(* ================================================================ examples *)

Definition exg_add (p : String.string) : top := OAdd (bs p) (HUser (bs p)) [] [GET].
Definition exg_users : bytes := bs "/users/{id:\d+}/posts".
Definition exg_hist : list top :=
  [OAdd (bs "/a") (HUser (bs "/a")) [] [GET; POST]; exg_add "/b"; exg_add "/c"; exg_add "/d"; exg_add "/e";
   exg_add "/{id}"; exg_add "/a/x"; OAdd exg_users (HUser (bs "up")) [] [GET; DELETE]].
(* remove one method of "/a", then the whole route, then one method of the parameter route *)
Definition exg_hist1 : list top := exg_hist ++ [ORemove (bs "/a") [GET]].
Definition exg_hist2 : list top := exg_hist1 ++ [ORemove (bs "/a") []].
Notation exg_new := (new_tree (bs "r") [] false).
Notation exg_t0 := (fold_left tstep exg_hist exg_new).
Notation exg_t1 := (tstep (fold_left tstep exg_hist exg_new) (ORemove (bs "/a") [GET])).
Notation exg_t2 := (tstep (fold_left tstep exg_hist1 exg_new) (ORemove (bs "/a") [])).
Notation exg_t3 := (tstep (fold_left tstep exg_hist2 exg_new) (ORemove exg_users [DELETE])).

(* what an answer shows: success, the pattern of the answering node, the handler *)
Definition exg_show (r : hres) : option (bool * bytes * hterm) :=
  match r with HFound ok (Some n) h _ => Some (ok, npat n, h) | _ => None end.

(* the premises: the histories are accepted by the tokenizer and by the router; six literal
   siblings below "/" (the first-byte index is in use) and a parameter sibling *)
Example exg_premises :
  TokensSplit.hist_tokens exg_hist = true /\ TokensSplit.hist_tokens exg_hist1 = true /\
  TokensSplit.hist_tokens exg_hist2 = true /\ all_accepted exg_new exg_hist = true /\
  length (nindexes (TreeNames.kid 0 (troot exg_t0))) = 6 /\
  removes [GET] GET /\ removes [GET] HEAD /\ removes [] POST /\ removes [DELETE] DELETE /\
  is_auto GET = false /\ is_auto POST = false /\ is_auto DELETE = false /\ is_auto HEAD = true.
Proof.
  repeat (split; [vm_compute; reflexivity|]).
  split; [right; left; split; [now left | reflexivity]|].
  split; [right; right; split; [reflexivity | now left]|].
  split; [now left|].
  split; [right; left; split; [now left | reflexivity]|].
  repeat split.
Qed.

(* before: "/a" answers GET, POST and the automatic HEAD *)
Example exg_before :
  map (fun m => exg_show (tree_handler exg_t0 m (bs "/a") [])) [GET; POST; HEAD] =
  [Some (true, bs "/a", HUser (bs "/a")); Some (true, bs "/a", HUser (bs "/a")); Some (true, bs "/a", HUser (bs "/a"))].
Proof. vm_compute. reflexivity. Qed.

(* after Remove("/a", GET): GET and HEAD get the 405 of the node "/a", POST is still served *)
Example exg_after_get :
  map (fun m => exg_show (tree_handler exg_t1 m (bs "/a") [])) [GET; HEAD; POST] =
  [Some (false, bs "/a", HNotAllowed); Some (false, bs "/a", HNotAllowed); Some (true, bs "/a", HUser (bs "/a"))].
Proof. vm_compute. reflexivity. Qed.

(* after Remove("/a"): the requests fall through to the parameter route "/{id}"; "/a/x" is untouched *)
Example exg_after_all :
  map (fun m => exg_show (tree_handler exg_t2 m (bs "/a") [])) [GET; HEAD; POST] =
  [Some (true, bs "/{id}", HUser (bs "/{id}")); Some (true, bs "/{id}", HUser (bs "/{id}"));
   Some (false, bs "/{id}", HNotAllowed)] /\
  exg_show (tree_handler exg_t2 GET (bs "/a/x") []) = Some (true, bs "/a/x", HUser (bs "/a/x")).
Proof. vm_compute. split; reflexivity. Qed.

(* a parameter route: DELETE removed, GET and HEAD stay *)
Example exg_after_delete :
  map (fun m => exg_show (tree_handler exg_t3 m (bs "/users/7/posts") [])) [DELETE; GET; HEAD] =
  [Some (false, exg_users, HNotAllowed); Some (true, exg_users, HUser (bs "up")); Some (true, exg_users, HUser (bs "up"))].
Proof. vm_compute. reflexivity. Qed.

(* Remove(p, HEAD) removes nothing: HEAD is skipped like OPTIONS *)
Example exg_remove_head_noop :
  exg_show (tree_handler (tstep exg_t0 (ORemove (bs "/a") [HEAD])) HEAD (bs "/a") []) =
  Some (true, bs "/a", HUser (bs "/a")).
Proof. vm_compute. reflexivity. Qed.

(* the theorems applied to the example *)
Example exg_theorem_get : forall path ok n h ps,
  tree_handler exg_t1 GET path [] = HFound ok (Some n) h ps -> npat n = bs "/a" -> ok = false.
Proof.
  intros path ok n h ps.
  apply (removed_pair_not_served (bs "r") [] false exg_hist (bs "/a") [GET] GET path ok n h ps);
    [vm_compute; reflexivity | right; now left | reflexivity | discriminate].
Qed.

Example exg_theorem_head : forall path ok n h ps,
  tree_handler exg_t1 HEAD path [] = HFound ok (Some n) h ps -> npat n = bs "/a" -> ok = false.
Proof.
  intros path ok n h ps.
  apply (removed_get_removes_head (bs "r") [] false exg_hist (bs "/a") [GET] path ok n h ps);
    [vm_compute; reflexivity | right; now left | discriminate].
Qed.

Example exg_theorem_all : forall method path ok n h ps,
  tree_handler exg_t2 method path [] = HFound ok (Some n) h ps -> npat n <> bs "/a".
Proof.
  intros method path ok n h ps.
  apply (removed_route_not_answered (bs "r") [] false exg_hist1 (bs "/a") method path ok n h ps);
    [vm_compute; reflexivity | discriminate].
Qed.

Example exg_theorem_delete : forall path ok n h ps,
  tree_handler exg_t3 DELETE path [] = HFound ok (Some n) h ps -> npat n = exg_users -> ok = false.
Proof.
  intros path ok n h ps.
  apply (removed_pair_not_served (bs "r") [] false exg_hist2 exg_users [DELETE] DELETE path ok n h ps);
    [vm_compute; reflexivity | right; now left | reflexivity | discriminate].
Qed.

Example exg_once : TreeFind.pattern_once (bs "/a") (troot exg_t0) /\
  TreeFind.cnt (TreeFind.pat_is (bs "/a")) (troot exg_t0) = 1 /\
  TreeFind.cnt (TreeFind.pat_is exg_users) (troot exg_t0) = 1 /\
  TreeFind.cnt (TreeFind.pat_is (bs "/users/")) (troot exg_t0) = 1 /\
  TreeFind.cnt (TreeFind.pat_is (bs "/zz")) (troot exg_t0) = 0.
Proof.
  split; [exact (pattern_once_reachable (bs "r") [] false exg_hist (bs "/a") (proj1 exg_premises))|].
  vm_compute. repeat split.
Qed.

(* Clean("/a") takes "/a" and "/a/x" away, the other routes stay *)
Notation exg_tc := (tstep (fold_left tstep exg_hist exg_new) (OClean (bs "/a"))).
Example exg_clean :
  map (fun q => exg_show (tree_handler exg_tc GET q [])) [bs "/a"; bs "/a/x"; bs "/b"; bs "/users/7/posts"] =
  [Some (true, bs "/{id}", HUser (bs "/{id}")); Some (true, bs "/{id}", HUser (bs "/{id}"));
   Some (true, bs "/b", HUser (bs "/b")); Some (true, exg_users, HUser (bs "up"))].
Proof. vm_compute. reflexivity. Qed.

Example exg_theorem_clean : forall method path ok n h ps,
  tree_handler exg_tc method path [] = HFound ok (Some n) h ps -> has_prefix (npat n) (bs "/a") = false.
Proof.
  intros method path ok n h ps H.
  destruct (cleaned_not_served (bs "r") [] false exg_hist (bs "/a") method path ok n h ps
              (proj1 exg_premises) H) as [K _].
  apply K. discriminate.
Qed.
