(* C11 / C12 - the CORS decision procedure (options.go : cors.sanitize / cors.handle). Proof work. *)
From Coq Require Import String.
From Mux Require Import Model.Bytes Model.Http Model.Cors Proofs.BytesFacts.

(* the values of one response header after cors.handle ran on an empty header map *)
Definition acao c ms al q := h_get_all ACAO (cors_handle c ms al q []).
Definition acac c ms al q := h_get_all ACAC (cors_handle c ms al q []).
Definition acam c ms al q := h_get_all ACAM (cors_handle c ms al q []).
Definition acah c ms al q := h_get_all ACAH (cors_handle c ms al q []).
Definition aceh c ms al q := h_get_all ACEH (cors_handle c ms al q []).
Definition acma c ms al q := h_get_all ACMA (cors_handle c ms al q []).
Definition vary c ms al q := h_get_all VARY (cors_handle c ms al q []).

Definition granted (o : cors_opt) (q : creq) : bool := mem star (o_origins o) || mem (q_origin q) (o_origins o).

(* ------------------------------------------------------------ generic facts *)
Lemma mem_In : forall x l, mem x l = true <-> In x l.
Proof.
  intros x l. induction l as [|y l IH]; cbn [mem In]; [split; [discriminate | contradiction]|].
  rewrite orb_true_iff, IH, beqb_eq. split; intros [H|H]; auto.
Qed.

Lemma mem_false_In : forall x l, mem x l = false <-> ~ In x l.
Proof.
  intros x l. rewrite <- mem_In. destruct (mem x l); split; intro H; congruence.
Qed.

(* header-map laws (not needed for the concrete keys below, kept as documentation of Http.v) *)
Lemma h_get_all_del : forall k k' h, h_get_all k (h_del k' h) = if beqb k k' then [] else h_get_all k h.
Proof.
  intros k k' h. induction h as [|[k0 v0] h IH]; cbn [h_del h_get_all].
  - now destruct (beqb k k').
  - destruct (beqb_spec k' k0) as [E0|N0].
    + subst k0. rewrite IH. now destruct (beqb k k').
    + cbn [h_get_all]. destruct (beqb_spec k k0) as [E1|N1]; [|exact IH].
      subst k0. destruct (beqb_spec k k') as [E2|N2]; [congruence | reflexivity].
Qed.

Lemma h_get_all_set : forall k k' v h, h_get_all k (h_set k' v h) = if beqb k k' then [v] else h_get_all k h.
Proof.
  intros k k' v h. unfold h_set. cbn [h_get_all]. rewrite h_get_all_del. now destruct (beqb k k').
Qed.

Lemma h_get_all_add : forall k k' v h,
  h_get_all k (h_add k' v h) = if beqb k k' then h_get_all k' h ++ [v] else h_get_all k h.
Proof.
  intros k k' v h. unfold h_add. cbn [h_get_all]. rewrite h_get_all_del. now destruct (beqb k k').
Qed.

(* ------------------------------------------------------------ cors.sanitize *)
Lemma sanitize_fields : forall o c, cors_sanitize o = Some c ->
  (o_max_age o <? -1)%Z = false /\ mem star (o_origins o) && o_creds o = false /\
  c_origins c = o_origins o /\ c_allow_headers c = o_allow_headers o /\ c_creds c = o_creds o /\
  c_deny c = match o_origins o with [] => true | _ => false end /\
  c_any_origins c = mem star (o_origins o) /\ c_any_headers c = mem star (o_allow_headers o) /\
  c_allow_headers_string c = (if mem star (o_allow_headers o) then bs "*,Authorization"
                              else match o_allow_headers o with [] => [] | l => join (bs ",") l end) /\
  c_exposed_string c = match o_exposed o with [] => [] | l => join (bs ",") l end /\
  c_max_age_string c = (if (o_max_age o =? 0)%Z then [] else Z_to_dec (o_max_age o)).
Proof.
  intros o c H. unfold cors_sanitize in H. cbv zeta in H.
  destruct (o_max_age o <? -1)%Z; [discriminate|].
  destruct (mem star (o_origins o) && o_creds o); [discriminate|].
  injection H as <-. cbn. repeat split.
Qed.

Lemma sanitize_rejects : forall o,
  cors_sanitize o = None <-> ((o_max_age o < -1)%Z \/ (mem star (o_origins o) = true /\ o_creds o = true)).
Proof.
  intro o. unfold cors_sanitize. cbv zeta.
  destruct (o_max_age o <? -1)%Z eqn:E1.
  - apply Z.ltb_lt in E1. split; [intros _; now left | reflexivity].
  - apply Z.ltb_ge in E1.
    destruct (mem star (o_origins o) && o_creds o) eqn:E2.
    + apply andb_true_iff in E2. split; [intros _; now right | reflexivity].
    + split; [discriminate|]. intros [H|[H1 H2]]; [lia|]. rewrite H1, H2 in E2. discriminate.
Qed.

Lemma N_to_dec_fuel_nonempty : forall f n d acc, N_to_dec_fuel f n (d :: acc) <> [].
Proof.
  induction f as [|f IH]; intros n d acc; cbn [N_to_dec_fuel]; [discriminate|].
  destruct (n <? 10); [discriminate | apply IH].
Qed.

Lemma N_to_dec_nonempty : forall n, N_to_dec n <> [].
Proof.
  intro n. unfold N_to_dec. cbn [N_to_dec_fuel].
  destruct (n <? 10); [discriminate | apply N_to_dec_fuel_nonempty].
Qed.

Lemma Z_to_dec_nonempty : forall z, Z_to_dec z <> [].
Proof. intros [|p|p]; cbn [Z_to_dec]; [discriminate | apply N_to_dec_nonempty | discriminate]. Qed.

(* ------------------------------------------------------------ closed forms of cors.handle on an empty map *)
(* the request gets past the preflight checks *)
Definition pass (c : cors) (ms : list bytes) (q : creq) : bool :=
  negb (is_preflight q) || (mem (q_acrm q) ms && header_is_allowed c (q_acrh q)).
Definition origin_ok (c : cors) (q : creq) : bool := c_any_origins c || mem (q_origin q) (c_origins c).

Ltac handle_cases c ms q :=
  unfold pass, origin_ok; cbv beta zeta delta [cors_handle];
  destruct (c_deny c); [reflexivity|];
  destruct (is_preflight q);
  destruct (mem (q_acrm q) ms); try reflexivity;
  destruct (header_is_allowed c (q_acrh q)); try reflexivity;
  destruct (c_allow_headers_string c); destruct (c_max_age_string c);
  destruct (c_any_origins c); try reflexivity;
  destruct (mem (q_origin q) (c_origins c)); try reflexivity;
  destruct (c_creds c); destruct (c_exposed_string c); reflexivity.

Lemma handle_deny : forall c ms al q, c_deny c = true -> cors_handle c ms al q [] = [].
Proof. intros c ms al q H. unfold cors_handle. now rewrite H. Qed.

Lemma handle_unserved : forall c ms al q,
  is_preflight q = true -> mem (q_acrm q) ms = false -> cors_handle c ms al q [] = [].
Proof.
  intros c ms al q Hp Hm. unfold cors_handle. rewrite Hp, Hm. cbn [negb]. now destruct (c_deny c).
Qed.

Lemma acao_cf : forall c ms al q,
  acao c ms al q = if negb (c_deny c) && pass c ms q && origin_ok c q
                   then [if c_any_origins c then star else q_origin q] else [].
Proof. intros c ms al q. unfold acao. handle_cases c ms q. Qed.

Lemma acac_cf : forall c ms al q,
  acac c ms al q = if negb (c_deny c) && pass c ms q && origin_ok c q && c_creds c then [bs "true"] else [].
Proof. intros c ms al q. unfold acac. handle_cases c ms q. Qed.

Lemma aceh_cf : forall c ms al q,
  aceh c ms al q = if negb (c_deny c) && pass c ms q && origin_ok c q
                   then match c_exposed_string c with [] => [] | s => [s] end else [].
Proof. intros c ms al q. unfold aceh. handle_cases c ms q. Qed.

Lemma acam_cf : forall c ms al q,
  acam c ms al q = if negb (c_deny c) && is_preflight q && mem (q_acrm q) ms then [al] else [].
Proof. intros c ms al q. unfold acam. handle_cases c ms q. Qed.

Lemma acah_cf : forall c ms al q,
  acah c ms al q = if negb (c_deny c) && is_preflight q && mem (q_acrm q) ms && header_is_allowed c (q_acrh q)
                   then match c_allow_headers_string c with [] => [] | s => [s] end else [].
Proof. intros c ms al q. unfold acah. handle_cases c ms q. Qed.

Lemma acma_cf : forall c ms al q,
  acma c ms al q = if negb (c_deny c) && is_preflight q && mem (q_acrm q) ms && header_is_allowed c (q_acrh q)
                   then match c_max_age_string c with [] => [] | s => [s] end else [].
Proof. intros c ms al q. unfold acma. handle_cases c ms q. Qed.

Lemma vary_cf : forall c ms al q,
  vary c ms al q =
  if c_deny c then [] else
  (if is_preflight q && mem (q_acrm q) ms
   then H_ACRM :: (if header_is_allowed c (q_acrh q)
                   then match c_allow_headers_string c with [] => [] | _ => [H_ACRH] end else [])
   else [])
  ++ (if pass c ms q && origin_ok c q && negb (c_any_origins c) then [H_ORIGIN] else []).
Proof. intros c ms al q. unfold vary. handle_cases c ms q. Qed.

(* ------------------------------------------------------------ C11 *)
Section WithSanitized.
  Variables (o : cors_opt) (c : cors).
  Hypothesis Hs : cors_sanitize o = Some c.
  Variables (ms : list bytes) (al : bytes) (q : creq).

  Lemma acao_sound : forall v, In v (acao c ms al q) ->
    (v = star /\ In star (o_origins o)) \/ (v = q_origin q /\ In (q_origin q) (o_origins o)).
  Proof.
    destruct (sanitize_fields o c Hs) as [_ [_ [Eor [_ [_ [_ [Eany _]]]]]]].
    intros v Hv. rewrite acao_cf in Hv.
    destruct (negb (c_deny c) && pass c ms q && origin_ok c q) eqn:E; [|contradiction].
    apply andb_true_iff in E. destruct E as [_ Eok]. unfold origin_ok in Eok.
    destruct (c_any_origins c) eqn:Ea; destruct Hv as [Hv|[]]; subst v.
    - left. split; [reflexivity|]. apply mem_In. now rewrite <- Eany.
    - right. split; [reflexivity|]. apply mem_In. rewrite <- Eor. exact Eok.
  Qed.

  Lemma acao_single : (length (acao c ms al q) <= 1)%nat.
  Proof.
    rewrite acao_cf. destruct (negb (c_deny c) && pass c ms q && origin_ok c q); cbn [length]; lia.
  Qed.

  Lemma credentials : acac c ms al q <> [] ->
    acac c ms al q = [bs "true"] /\ acao c ms al q = [q_origin q] /\
    In (q_origin q) (o_origins o) /\ ~ In star (o_origins o).
  Proof.
    destruct (sanitize_fields o c Hs) as [_ [Ecr [Eor [_ [Ecreds [_ [Eany _]]]]]]].
    rewrite acac_cf, acao_cf.
    destruct (negb (c_deny c) && pass c ms q && origin_ok c q) eqn:E; cbn [andb]; [|congruence].
    destruct (c_creds c) eqn:Ec; [|congruence]. intros _.
    rewrite <- Ecreds, andb_true_r in Ecr. rewrite <- Eany in Ecr.
    apply andb_true_iff in E. destruct E as [_ Eok]. unfold origin_ok in Eok.
    rewrite Ecr in Eok, Eany |- *. cbn [orb] in Eok.
    split; [reflexivity|]. split; [reflexivity|]. split.
    - apply mem_In. now rewrite <- Eor.
    - apply mem_false_In. now rewrite <- Eany.
  Qed.

  Lemma no_origins_no_grant : o_origins o = [] -> cors_handle c ms al q [] = [].
  Proof.
    destruct (sanitize_fields o c Hs) as [_ [_ [_ [_ [_ [Edeny _]]]]]].
    intro H. apply handle_deny. now rewrite Edeny, H.
  Qed.

  Lemma unserved_preflight_method :
    is_preflight q = true -> mem (q_acrm q) ms = false -> cors_handle c ms al q [] = [].
  Proof. apply handle_unserved. Qed.

  Lemma disallowed_header :
    is_preflight q = true -> header_is_allowed c (q_acrh q) = false ->
    acao c ms al q = [] /\ acac c ms al q = [].
  Proof.
    intros Hp Hh. rewrite acao_cf, acac_cf. unfold pass. rewrite Hp, Hh.
    cbn [negb orb]. rewrite andb_false_r. rewrite andb_false_r. split; reflexivity.
  Qed.

  Lemma existsb_ext' : forall (f g : bytes -> bool) l, (forall a, f a = g a) -> existsb f l = existsb g l.
  Proof.
    intros f g l H. induction l as [|a l IH]; cbn [existsb]; [reflexivity|]. now rewrite H, IH.
  Qed.

  Lemma forallb_ext' : forall (f g : bytes -> bool) l, (forall a, f a = g a) -> forallb f l = forallb g l.
  Proof.
    intros f g l H. induction l as [|a l IH]; cbn [forallb]; [reflexivity|]. now rewrite H, IH.
  Qed.

  Lemma header_check_is_case_insensitive : forall acrh,
    header_is_allowed c acrh = (mem star (o_allow_headers o) ||
       match trim_space acrh with [] => true
       | h => forallb (fun item => existsb (fun a => beqb (to_lower a) (to_lower (trim_space item)))
                                           (o_allow_headers o)) (split_byte 44 h) end).
  Proof.
    destruct (sanitize_fields o c Hs) as [_ [_ [_ [Eah [_ [_ [_ [Eanyh _]]]]]]]].
    intro acrh. unfold header_is_allowed. rewrite Eanyh, Eah.
    destruct (mem star (o_allow_headers o)); [reflexivity|]. cbn [orb].
    destruct (trim_space acrh) as [|x h]; [reflexivity|].
    apply forallb_ext'. intro item. apply existsb_ext'. intro a. unfold equal_fold. apply beqb_sym.
  Qed.

  (* ------------------------------------------------------------ C12 *)
  Lemma not_preflight : is_preflight q = false ->
    acam c ms al q = [] /\ acah c ms al q = [] /\ acma c ms al q = [].
  Proof.
    intro Hp. rewrite acam_cf, acah_cf, acma_cf, Hp. rewrite andb_false_r. cbn [andb].
    split; [reflexivity|]. split; reflexivity.
  Qed.

  Section Granted.
    Hypothesis Hne : o_origins o <> [].
    Hypothesis Hg : granted o q = true.
    Hypothesis Hpre : is_preflight q = true -> mem (q_acrm q) ms = true /\ header_is_allowed c (q_acrh q) = true.

    Lemma granted_conds : c_deny c = false /\ pass c ms q = true /\ origin_ok c q = true.
    Proof.
      destruct (sanitize_fields o c Hs) as [_ [_ [Eor [_ [_ [Edeny [Eany _]]]]]]].
      split; [|split].
      - rewrite Edeny. destruct (o_origins o); [congruence | reflexivity].
      - unfold pass. destruct (is_preflight q); [|reflexivity].
        destruct (Hpre eq_refl) as [H1 H2]. now rewrite H1, H2.
      - unfold origin_ok. now rewrite Eany, Eor.
    Qed.

    (* repaired conclusion: the Expose-Headers value is absent exactly when the joined string is empty
       (o_exposed = [] or o_exposed = [""]) *)
    Lemma grant :
      acao c ms al q = [if mem star (o_origins o) then star else q_origin q] /\
      acac c ms al q = (if o_creds o then [bs "true"] else []) /\
      aceh c ms al q = (match join (bs ",") (o_exposed o) with [] => [] | s => [s] end).
    Proof.
      destruct granted_conds as [Hd [Hp Ho]].
      destruct (sanitize_fields o c Hs) as [_ [_ [_ [_ [Ecreds [_ [Eany [_ [_ [Eex _]]]]]]]]]].
      rewrite acao_cf, acac_cf, aceh_cf, Hd, Hp, Ho, Eany, Ecreds, Eex. cbn [negb andb].
      split; [reflexivity|]. split; [reflexivity|]. destruct (o_exposed o); reflexivity.
    Qed.

    (* the statement as given holds when the joined Expose-Headers string is not empty *)
    Lemma grant_as_given : (o_exposed o = [[]] -> False) ->
      acao c ms al q = [if mem star (o_origins o) then star else q_origin q] /\
      acac c ms al q = (if o_creds o then [bs "true"] else []) /\
      aceh c ms al q = (match o_exposed o with [] => [] | l => [join (bs ",") l] end).
    Proof.
      intro Hx. destruct grant as [H1 [H2 H3]]. split; [exact H1|]. split; [exact H2|].
      rewrite H3. destruct (o_exposed o) as [|x l]; [reflexivity|].
      destruct (join (bs ",") (x :: l)) eqn:E; [|reflexivity].
      exfalso. apply Hx. cbn [join] in E. destruct l as [|y l].
      - now subst x.
      - destruct x; cbn in E; discriminate.
    Qed.

    (* repaired conclusion: same remark for Allow-Headers *)
    Lemma preflight : is_preflight q = true ->
      acam c ms al q = [al] /\
      acah c ms al q = (if mem star (o_allow_headers o) then [bs "*,Authorization"]
                        else match join (bs ",") (o_allow_headers o) with [] => [] | s => [s] end) /\
      acma c ms al q = (if (o_max_age o =? 0)%Z then [] else [Z_to_dec (o_max_age o)]).
    Proof.
      intro Hp. destruct granted_conds as [Hd _]. destruct (Hpre Hp) as [Hm Hh].
      destruct (sanitize_fields o c Hs) as [_ [_ [_ [_ [_ [_ [_ [_ [Eahs [_ Ema]]]]]]]]]].
      rewrite acam_cf, acah_cf, acma_cf, Hd, Hp, Hm, Hh, Eahs, Ema. cbn [negb andb].
      split; [reflexivity|]. split.
      - destruct (mem star (o_allow_headers o)); [reflexivity|]. destruct (o_allow_headers o); reflexivity.
      - destruct (o_max_age o =? 0)%Z; [reflexivity|].
        destruct (Z_to_dec (o_max_age o)) eqn:E; [|reflexivity].
        exfalso. exact (Z_to_dec_nonempty _ E).
    Qed.

    Lemma preflight_as_given : (mem star (o_allow_headers o) = false -> o_allow_headers o = [[]] -> False) ->
      is_preflight q = true ->
      acam c ms al q = [al] /\
      acah c ms al q = (if mem star (o_allow_headers o) then [bs "*,Authorization"]
                        else match o_allow_headers o with [] => [] | l => [join (bs ",") l] end) /\
      acma c ms al q = (if (o_max_age o =? 0)%Z then [] else [Z_to_dec (o_max_age o)]).
    Proof.
      intros Hx Hp. destruct (preflight Hp) as [H1 [H2 H3]]. split; [exact H1|]. split; [|exact H3].
      rewrite H2. destruct (mem star (o_allow_headers o)); [reflexivity|].
      destruct (o_allow_headers o) as [|x l]; [reflexivity|].
      destruct (join (bs ",") (x :: l)) eqn:E; [|reflexivity].
      exfalso. apply Hx; [reflexivity|]. cbn [join] in E. destruct l as [|y l].
      - now subst x.
      - destruct x; cbn in E; discriminate.
    Qed.

    Lemma vary_spec :
      vary c ms al q = (if is_preflight q
                        then H_ACRM :: (match c_allow_headers_string c with [] => [] | _ => [H_ACRH] end)
                        else [])
                       ++ (if mem star (o_origins o) then [] else [H_ORIGIN]).
    Proof.
      destruct granted_conds as [Hd [Hp Ho]].
      destruct (sanitize_fields o c Hs) as [_ [_ [_ [_ [_ [_ [Eany _]]]]]]].
      rewrite vary_cf, Hd, Hp, Ho, Eany. cbn [andb].
      destruct (is_preflight q) eqn:Epre.
      - destruct (Hpre eq_refl) as [Hm Hh]. rewrite Hm, Hh. cbn [andb].
        destruct (mem star (o_origins o)); reflexivity.
      - cbn [andb]. destruct (mem star (o_origins o)); reflexivity.
    Qed.
  End Granted.
End WithSanitized.

(* ------------------------------------------------------------ the statements in prenex form (used by Props/C11.v, Props/C12.v) *)
Lemma C11_acao_sound_l : forall o c ms al q, cors_sanitize o = Some c ->
  forall v, In v (acao c ms al q) ->
    (v = star /\ In star (o_origins o)) \/ (v = q_origin q /\ In (q_origin q) (o_origins o)).
Proof. intros o c ms al q Hs. exact (acao_sound o c Hs ms al q). Qed.

Lemma C11_acao_single_l : forall o c ms al q, cors_sanitize o = Some c -> (length (acao c ms al q) <= 1)%nat.
Proof. intros o c ms al q _. exact (acao_single c ms al q). Qed.

Lemma C11_credentials_l : forall o c ms al q, cors_sanitize o = Some c -> acac c ms al q <> [] ->
  acac c ms al q = [bs "true"] /\ acao c ms al q = [q_origin q] /\
  In (q_origin q) (o_origins o) /\ ~ In star (o_origins o).
Proof. intros o c ms al q Hs. exact (credentials o c Hs ms al q). Qed.

Lemma C11_no_origins_no_grant_l : forall o c ms al q, cors_sanitize o = Some c ->
  o_origins o = [] -> cors_handle c ms al q [] = [].
Proof. intros o c ms al q Hs. exact (no_origins_no_grant o c Hs ms al q). Qed.

Lemma C11_unserved_preflight_method_l : forall o c ms al q, cors_sanitize o = Some c ->
  is_preflight q = true -> mem (q_acrm q) ms = false -> cors_handle c ms al q [] = [].
Proof. intros o c ms al q _. exact (unserved_preflight_method c ms al q). Qed.

Lemma C11_disallowed_header_l : forall o c ms al q, cors_sanitize o = Some c ->
  is_preflight q = true -> header_is_allowed c (q_acrh q) = false ->
  acao c ms al q = [] /\ acac c ms al q = [].
Proof. intros o c ms al q _. exact (disallowed_header c ms al q). Qed.

Lemma C11_header_check_is_case_insensitive_l : forall o c acrh, cors_sanitize o = Some c ->
  header_is_allowed c acrh = (mem star (o_allow_headers o) ||
     match trim_space acrh with [] => true
     | h => forallb (fun item => existsb (fun a => beqb (to_lower a) (to_lower (trim_space item)))
                                         (o_allow_headers o)) (split_byte 44 h) end).
Proof. intros o c acrh Hs. exact (header_check_is_case_insensitive o c Hs acrh). Qed.

Lemma C12_grant_partial_l : forall o c ms al q, cors_sanitize o = Some c -> o_origins o <> [] -> granted o q = true ->
  (is_preflight q = true -> mem (q_acrm q) ms = true /\ header_is_allowed c (q_acrh q) = true) ->
  acao c ms al q = [if mem star (o_origins o) then star else q_origin q] /\
  acac c ms al q = (if o_creds o then [bs "true"] else []) /\
  aceh c ms al q = (match join (bs ",") (o_exposed o) with [] => [] | s => [s] end).
Proof. intros o c ms al q Hs. exact (grant o c Hs ms al q). Qed.

Lemma C12_grant_as_given_l : forall o c ms al q, cors_sanitize o = Some c -> o_origins o <> [] -> granted o q = true ->
  (is_preflight q = true -> mem (q_acrm q) ms = true /\ header_is_allowed c (q_acrh q) = true) ->
  o_exposed o <> [[]] ->
  acao c ms al q = [if mem star (o_origins o) then star else q_origin q] /\
  acac c ms al q = (if o_creds o then [bs "true"] else []) /\
  aceh c ms al q = (match o_exposed o with [] => [] | l => [join (bs ",") l] end).
Proof. intros o c ms al q Hs Hne Hg Hpre Hx. exact (grant_as_given o c Hs ms al q Hne Hg Hpre Hx). Qed.

Lemma C12_preflight_partial_l : forall o c ms al q, cors_sanitize o = Some c -> o_origins o <> [] -> granted o q = true ->
  (is_preflight q = true -> mem (q_acrm q) ms = true /\ header_is_allowed c (q_acrh q) = true) ->
  is_preflight q = true ->
  acam c ms al q = [al] /\
  acah c ms al q = (if mem star (o_allow_headers o) then [bs "*,Authorization"]
                    else match join (bs ",") (o_allow_headers o) with [] => [] | s => [s] end) /\
  acma c ms al q = (if (o_max_age o =? 0)%Z then [] else [Z_to_dec (o_max_age o)]).
Proof. intros o c ms al q Hs. exact (preflight o c Hs ms al q). Qed.

Lemma C12_preflight_as_given_l : forall o c ms al q, cors_sanitize o = Some c -> o_origins o <> [] -> granted o q = true ->
  (is_preflight q = true -> mem (q_acrm q) ms = true /\ header_is_allowed c (q_acrh q) = true) ->
  o_allow_headers o <> [[]] ->
  is_preflight q = true ->
  acam c ms al q = [al] /\
  acah c ms al q = (if mem star (o_allow_headers o) then [bs "*,Authorization"]
                    else match o_allow_headers o with [] => [] | l => [join (bs ",") l] end) /\
  acma c ms al q = (if (o_max_age o =? 0)%Z then [] else [Z_to_dec (o_max_age o)]).
Proof.
  intros o c ms al q Hs Hne Hg Hpre Hx. apply (preflight_as_given o c Hs ms al q Hne Hg Hpre).
  intros _ H. exact (Hx H).
Qed.

Lemma C12_not_preflight_l : forall o c ms al q, cors_sanitize o = Some c -> is_preflight q = false ->
  acam c ms al q = [] /\ acah c ms al q = [] /\ acma c ms al q = [].
Proof. intros o c ms al q _. exact (not_preflight c ms al q). Qed.

Lemma C12_vary_l : forall o c ms al q, cors_sanitize o = Some c -> o_origins o <> [] -> granted o q = true ->
  (is_preflight q = true -> mem (q_acrm q) ms = true /\ header_is_allowed c (q_acrh q) = true) ->
  vary c ms al q = (if is_preflight q
                    then H_ACRM :: (match c_allow_headers_string c with [] => [] | _ => [H_ACRH] end)
                    else [])
                   ++ (if mem star (o_origins o) then [] else [H_ORIGIN]).
Proof. intros o c ms al q Hs. exact (vary_spec o c Hs ms al q). Qed.

(* ------------------------------------------------------------ counterexamples to the statements as first given *)
Definition o_cex : cors_opt :=
  {| o_origins := [star]; o_allow_headers := [[]]; o_exposed := [[]]; o_max_age := 0; o_creds := false |}.
Definition q_cex : creq :=
  {| q_method := bs "OPTIONS"; q_path := bs "/a"; q_origin := bs "http://x"; q_acrm := bs "GET"; q_acrh := [] |}.

(* Expose-Headers: [""] is joined to "", which handle treats as "not configured": no header, not [""] *)
Example cex_grant_aceh :
  exists c, cors_sanitize o_cex = Some c /\ o_origins o_cex <> [] /\ granted o_cex q_cex = true /\
    (is_preflight q_cex = true -> mem (q_acrm q_cex) [bs "GET"] = true /\ header_is_allowed c (q_acrh q_cex) = true) /\
    aceh c [bs "GET"] (bs "GET, OPTIONS") q_cex = [] /\
    (match o_exposed o_cex with [] => [] | l => [join (bs ",") l] end) = [[]].
Proof.
  eexists. split; [vm_compute; reflexivity|]. split; [discriminate|]. split; [reflexivity|].
  split; [intros _; split; reflexivity|]. split; reflexivity.
Qed.

Example cex_preflight_acah :
  exists c, cors_sanitize o_cex = Some c /\ is_preflight q_cex = true /\
    acah c [bs "GET"] (bs "GET, OPTIONS") q_cex = [] /\
    (if mem star (o_allow_headers o_cex) then [bs "*,Authorization"]
     else match o_allow_headers o_cex with [] => [] | l => [join (bs ",") l] end) = [[]].
Proof.
  eexists. split; [vm_compute; reflexivity|]. split; [reflexivity|]. split; reflexivity.
Qed.

(* ------------------------------------------------------------ the hypotheses are satisfiable *)
Definition o_ex : cors_opt :=
  {| o_origins := [bs "http://a"; bs "http://b"]; o_allow_headers := [bs "X-Token"; bs "Content-Type"];
     o_exposed := [bs "X-Id"]; o_max_age := 50; o_creds := true |}.
Definition q_ex : creq :=
  {| q_method := bs "OPTIONS"; q_path := bs "/users"; q_origin := bs "http://b"; q_acrm := bs "PUT";
     q_acrh := bs " x-token , CONTENT-TYPE" |}.

Example ex_preflight :
  exists c, cors_sanitize o_ex = Some c /\ granted o_ex q_ex = true /\ is_preflight q_ex = true /\
    mem (q_acrm q_ex) [bs "GET"; bs "PUT"] = true /\ header_is_allowed c (q_acrh q_ex) = true /\
    cors_handle c [bs "GET"; bs "PUT"] (bs "GET, PUT") q_ex [] =
      [ (ACEH, [bs "X-Id"]); (ACAC, [bs "true"]); (ACAO, [bs "http://b"]);
        (VARY, [H_ACRM; H_ACRH; H_ORIGIN]); (ACMA, [bs "50"]); (ACAH, [bs "X-Token,Content-Type"]);
        (ACAM, [bs "GET, PUT"]) ].
Proof.
  eexists. split; [vm_compute; reflexivity|]. repeat (split; [vm_compute; reflexivity|]).
  vm_compute. reflexivity.
Qed.

Example ex_simple :
  exists c, cors_sanitize o_cex = Some c /\
    cors_handle c [bs "GET"] (bs "GET") {| q_method := bs "GET"; q_path := bs "/"; q_origin := bs "http://x";
                                           q_acrm := []; q_acrh := [] |} [] = [ (ACAO, [star]) ].
Proof. eexists. split; vm_compute; reflexivity. Qed.
