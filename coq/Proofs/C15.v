(* C15 - version matchers (match.go : pathVersion / headerVersion). Proof work. *)
From Coq Require Import String.
From Mux Require Import Model.Bytes Model.Context Model.Syntax Model.Match Proofs.BytesFacts.

(* a normalised version: "/.../" *)
Definition norm_ok (v : bytes) : bool := match v with 47 :: _ => ends_with v 47 | _ => false end.

Lemma norm_ok_47 : forall t, norm_ok (47 :: t) = ends_with (47 :: t) 47.
Proof. intro t. reflexivity. Qed.

Lemma norm_ok_alt : forall v,
  norm_ok v = match v with [] => false | c :: _ => N.eqb c 47 && ends_with v 47 end.
Proof.
  intro v. destruct v as [|c t]; [reflexivity|].
  destruct c as [|p]; [reflexivity|].
  do 6 (destruct p as [p|p|]; try reflexivity).
Qed.

Lemma ends_with_snoc : forall s x c, ends_with (s ++ [x]) c = N.eqb x c.
Proof.
  intros s x c. unfold ends_with, last_byte.
  destruct (s ++ [x]) as [|y l] eqn:E; [destruct s; discriminate|]. rewrite <- E.
  rewrite app_length. simpl length.
  replace (length s + 1 - 1)%nat with (length s) by lia.
  rewrite nth_error_app2 by lia. rewrite Nat.sub_diag. reflexivity.
Qed.

Lemma ends_with_inv : forall s c, ends_with s c = true -> exists s', s = s' ++ [c].
Proof.
  intros s c. induction s as [|x s _] using rev_ind; intro H.
  - discriminate.
  - rewrite ends_with_snoc in H. apply N.eqb_eq in H. subst x. now exists s.
Qed.

Lemma norm_ok_shape : forall v, norm_ok v = true ->
  exists s', v = s' ++ [47] /\ firstn (length v - 1) v = s' /\ (length v - 1)%nat = length s'.
Proof.
  intros v H. rewrite norm_ok_alt in H. destruct v as [|c t]; [discriminate|].
  apply andb_true_iff in H. destruct H as [_ H]. apply ends_with_inv in H. destruct H as [s' E].
  exists s'. rewrite E. rewrite app_length. simpl length.
  replace (length s' + 1 - 1)%nat with (length s') by lia.
  split; [reflexivity|]. split; [|reflexivity].
  rewrite firstn_app, Nat.sub_diag, firstn_all. simpl. apply app_nil_r.
Qed.

(* ------------------------------------------------------------ norm_version *)
Lemma norm : forall v n, norm_version v = Some n ->
  norm_ok n = true /\ (n = v \/ n = 47 :: v \/ n = v ++ [47] \/ n = 47 :: v ++ [47]).
Proof.
  intros v n H. unfold norm_version in H. destruct v as [|c t]; [discriminate|].
  cbv zeta in H. injection H as H.
  destruct (N.eqb_spec c 47) as [Ec|Nc].
  - subst c. destruct (ends_with (47 :: t) 47) eqn:E; subst n.
    + split; [|now left]. now rewrite norm_ok_47.
    + split; [|right; right; now left].
      change ((47 :: t) ++ [47]) with (47 :: (t ++ [47])). rewrite norm_ok_47.
      change (47 :: (t ++ [47])) with ((47 :: t) ++ [47]). rewrite ends_with_snoc. reflexivity.
  - destruct (ends_with (47 :: c :: t) 47) eqn:E; subst n.
    + split; [|right; now left]. now rewrite norm_ok_47.
    + split; [|right; right; right; reflexivity].
      change ((47 :: c :: t) ++ [47]) with (47 :: ((c :: t) ++ [47])). rewrite norm_ok_47.
      change (47 :: ((c :: t) ++ [47])) with ((47 :: c :: t) ++ [47]). rewrite ends_with_snoc. reflexivity.
Qed.

Lemma norm_none : forall v, norm_version v = None <-> v = [].
Proof.
  intro v. split; intro H.
  - destruct v as [|c t]; [reflexivity | discriminate].
  - subst v. reflexivity.
Qed.

(* ------------------------------------------------------------ pathVersion.Match *)
Lemma has_prefix_app_l : forall s p r, has_prefix s (p ++ r) = true -> has_prefix s p = true.
Proof.
  intros s p r H. apply has_prefix_spec in H. destruct H as [x Hx].
  apply has_prefix_spec. exists (r ++ x). now rewrite Hx, app_assoc.
Qed.

Lemma path_closed_form : forall name vs path ps, forallb norm_ok vs = true ->
   pathver_match name vs path ps =
   match List.find (fun v => has_prefix path v) vs with
   | Some v => (true, skipn (length v - 1) path,
                match name with [] => ps | _ => ctx_set ps name (firstn (length v - 1) v) end)
   | None => (false, path, ps) end.
Proof.
  intros name vs path ps. induction vs as [|v vs IH]; intro H; [reflexivity|].
  cbn [forallb] in H. apply andb_true_iff in H. destruct H as [Hv Hvs].
  cbn [pathver_match find]. destruct (has_prefix path v) eqn:E; [|now apply IH].
  destruct (norm_ok_shape v Hv) as [s' [Ev [Ef El]]].
  unfold trim_prefix. rewrite Ef, El.
  assert (Hp : has_prefix path s' = true).
  { rewrite Ev in E. now apply has_prefix_app_l in E. }
  rewrite Hp. reflexivity.
Qed.

Lemma path_one_segment : forall name vs path ps path' ps', forallb norm_ok vs = true ->
   pathver_match name vs path ps = (true, path', ps') ->
   exists v rest, In v vs /\ path = firstn (length v - 1) v ++ 47 :: rest /\ path' = 47 :: rest /\
                  ps' = match name with [] => ps | _ => ctx_set ps name (firstn (length v - 1) v) end /\
                  (forall u, In u vs -> has_prefix path u = true -> True).
Proof.
  intros name vs path ps path' ps' Hok Hm.
  rewrite path_closed_form in Hm by assumption.
  destruct (find (fun v => has_prefix path v) vs) as [v|] eqn:F; [|discriminate].
  apply find_some in F. destruct F as [Hin Hp].
  injection Hm as Hpath Hps.
  assert (Hv : norm_ok v = true) by (rewrite forallb_forall in Hok; now apply Hok).
  destruct (norm_ok_shape v Hv) as [s' [Ev [Ef El]]].
  apply has_prefix_spec in Hp. destruct Hp as [r Hr].
  exists v, r. rewrite Ef. rewrite El in Hpath.
  assert (Hpa : path = s' ++ 47 :: r).
  { rewrite Hr. rewrite Ev at 1. rewrite <- app_assoc. reflexivity. }
  split; [assumption|]. split; [assumption|]. split.
  - rewrite <- Hpath, Hpa. rewrite skipn_app, skipn_all, Nat.sub_diag. reflexivity.
  - split; [rewrite Ef in Hps; now rewrite <- Hps | intros u _ _; exact I].
Qed.

Lemma find_first : forall (f : bytes -> bool) vs1 v vs2,
  (forall u, In u vs1 -> f u = false) -> f v = true -> find f (vs1 ++ v :: vs2) = Some v.
Proof.
  intros f vs1 v vs2 Hno Hv. induction vs1 as [|u vs1 IH]; cbn [app find].
  - now rewrite Hv.
  - rewrite (Hno u) by now left. apply IH. intros w Hw. apply Hno. now right.
Qed.

Lemma path_first_wins : forall name vs1 v vs2 path ps, forallb norm_ok (vs1 ++ v :: vs2) = true ->
   (forall u, In u vs1 -> has_prefix path u = false) -> has_prefix path v = true ->
   fst (fst (pathver_match name (vs1 ++ v :: vs2) path ps)) = true /\
   snd (fst (pathver_match name (vs1 ++ v :: vs2) path ps)) = skipn (length v - 1) path.
Proof.
  intros name vs1 v vs2 path ps Hok Hno Hv.
  rewrite path_closed_form by assumption.
  rewrite (find_first (fun v0 => has_prefix path v0) vs1 v vs2 Hno Hv).
  split; reflexivity.
Qed.

Lemma path_reject_untouched : forall name vs path ps r,
  pathver_match name vs path ps = r -> fst (fst r) = false -> r = (false, path, ps).
Proof.
  intros name vs path ps r Hr Hf. subst r.
  induction vs as [|v vs IH]; cbn [pathver_match] in *; [reflexivity|].
  destruct (has_prefix path v); [cbn [fst] in Hf; discriminate | now apply IH].
Qed.

(* ------------------------------------------------------------ headerVersion.Match *)
Lemma find_version_some : forall ver vs v, find_version ver vs = Some v -> In v vs /\ v = ver.
Proof.
  intros ver vs v. induction vs as [|y vs IH]; cbn [find_version]; intro H; [discriminate|].
  destruct (beqb_spec y ver) as [E|N].
  - injection H as <-. split; [now left | assumption].
  - destruct (IH H) as [Hin Hv]. split; [now right | assumption].
Qed.

Lemma find_version_mem : forall ver vs, mem ver vs = true -> find_version ver vs = Some ver.
Proof.
  intros ver vs. induction vs as [|y vs IH]; cbn [mem find_version]; intro H; [discriminate|].
  destruct (beqb_spec y ver) as [E|N]; [now subst y|].
  rewrite beqb_sym in H. apply beqb_neq in N. rewrite N in H. now apply IH.
Qed.

Lemma header_reject_untouched : forall name key vs accept parsed ps ps',
  headerver_match name key vs accept parsed ps = (false, ps') -> ps' = ps.
Proof.
  intros name key vs accept parsed ps ps' H. unfold headerver_match in H.
  destruct accept as [|a accept]; [now injection H as <-|].
  destruct parsed as [kv|]; [|now injection H as <-].
  cbv zeta in H.
  destruct (find_version _ vs) as [v|]; [discriminate | now injection H as <-].
Qed.

Lemma header_accept : forall name key vs accept parsed ps ps',
  headerver_match name key vs accept parsed ps = (true, ps') ->
   accept <> [] /\ exists kv v, parsed = Some kv /\ In v vs /\
     v = opt_default [] (alookup (match key with [] => bs "version" | _ => key end) kv) /\
     ps' = match name with [] => ps | _ => ctx_set ps name v end.
Proof.
  intros name key vs accept parsed ps ps' H. unfold headerver_match in H.
  destruct accept as [|a accept]; [discriminate|].
  destruct parsed as [kv|]; [|discriminate].
  cbv zeta in H.
  destruct (find_version _ vs) as [v|] eqn:F; [|discriminate].
  apply find_version_some in F. destruct F as [Hin Hv].
  injection H as Hps.
  split; [discriminate|]. exists kv, v.
  split; [reflexivity|]. split; [assumption|]. split; [assumption | now symmetry].
Qed.

Lemma header_complete : forall name key vs accept kv ps, accept <> [] ->
   mem (opt_default [] (alookup (match key with [] => bs "version" | _ => key end) kv)) vs = true ->
   fst (headerver_match name key vs accept (Some kv) ps) = true.
Proof.
  intros name key vs accept kv ps Ha Hm. unfold headerver_match.
  destruct accept as [|a accept]; [congruence|].
  cbv beta iota zeta. pose proof (find_version_mem _ _ Hm) as F. unfold bytes in *. rewrite F. reflexivity.
Qed.

(* ------------------------------------------------------------ the hypotheses are satisfiable *)
Example ex_norm : norm_versions [bs "v1"; bs "/v2"; bs "v3/"; bs "/v4/"]
                  = Some [bs "/v1/"; bs "/v2/"; bs "/v3/"; bs "/v4/"]
                  /\ forallb norm_ok [bs "/v1/"; bs "/v2/"; bs "/v3/"; bs "/v4/"] = true.
Proof. split; vm_compute; reflexivity. Qed.

Example ex_path : pathver_match (bs "ver") [bs "/v1/"; bs "/v2/"] (bs "/v2/users/5") []
                  = (true, bs "/users/5", [(bs "ver", bs "/v2")]).
Proof. vm_compute. reflexivity. Qed.

Example ex_path_reject : pathver_match (bs "ver") [bs "/v1/"; bs "/v2/"] (bs "/v22/users") [(bs "a", bs "b")]
                  = (false, bs "/v22/users", [(bs "a", bs "b")]).
Proof. vm_compute. reflexivity. Qed.

Example ex_header : headerver_match (bs "ver") [] [bs "1.0"; bs "2.0"] (bs "application/json; version=2.0")
                      (Some [(bs "charset", bs "utf-8"); (bs "version", bs "2.0")]) []
                  = (true, [(bs "ver", bs "2.0")]).
Proof. vm_compute. reflexivity. Qed.
