(* C04, the `OPTIONS *` clause: in every reachable tree the tree-wide method counters are exactly
   the per-method cardinalities of the live routes, and the root's bit-set (the answer to
   `OPTIONS *`) renders exactly OPTIONS, TRACE when configured, and the methods registered on at
   least one live route. *)
From Coq Require Import String Permutation.
From Mux Require Import Model.Bytes Model.Regex Model.Context Model.Syntax Model.Tree
  Proofs.BytesFacts Proofs.MatchSound Proofs.Misc2 Proofs.Misc5 Proofs.TreeSafe Proofs.TreeAllow.

(* number of nodes strictly below n whose handler keys contain m *)
Fixpoint occ (fuel : nat) (m : bytes) (n : node) : nat :=
  match fuel with
  | O => O
  | S f => fold_right (fun ch acc => ((if ahas m (nhandlers ch) then 1 else 0) + occ f m ch + acc)%nat)
             O (nchildren n)
  end.

Definition count_of (t : tree) (m : bytes) : Z := opt_default 0%Z (alookup m (tcounts t)).

Definition counters_exact (t : tree) : Prop :=
  forall m, is_auto m = false -> count_of t m = Z.of_nat (occ (tree_fuel t) m (troot t)).

(* ================================================================ sums over children *)

Definition sumf (g : node -> nat) (l : list node) : nat := fold_right (fun ch acc => (g ch + acc)%nat) O l.

Lemma sumf_cons : forall g x l, sumf g (x :: l) = (g x + sumf g l)%nat.
Proof. reflexivity. Qed.

Lemma sumf_app : forall g l1 l2, sumf g (l1 ++ l2) = (sumf g l1 + sumf g l2)%nat.
Proof.
  intros g l1 l2. induction l1 as [|x l1 IH]; [reflexivity|].
  rewrite <- app_comm_cons, !sumf_cons, IH. lia.
Qed.

Lemma sumf_ext : forall g1 g2 l, (forall x, In x l -> g1 x = g2 x) -> sumf g1 l = sumf g2 l.
Proof.
  intros g1 g2 l. induction l as [|x l IH]; intro H; [reflexivity|].
  rewrite !sumf_cons, (H x (or_introl eq_refl)), IH; [reflexivity|].
  intros y Iy. apply H. now right.
Qed.

Lemma sumf_map : forall g (h : node -> node) l, sumf g (map h l) = sumf (fun x => g (h x)) l.
Proof.
  intros g h l. induction l as [|x l IH]; [reflexivity|].
  cbn [map]. now rewrite !sumf_cons, IH.
Qed.

Lemma sumf_replace_nth : forall g c i ch ch', nth_error c i = Some ch ->
  (sumf g (replace_nth i ch' c) + g ch = sumf g c + g ch')%nat.
Proof.
  intros g c. induction c as [|x c IH]; intros i ch ch' H.
  - destruct i; discriminate H.
  - destruct i as [|i]; cbn [nth_error replace_nth] in *.
    + injection H as ->. rewrite !sumf_cons. lia.
    + rewrite !sumf_cons. specialize (IH i ch ch' H). lia.
Qed.

Lemma sumf_remove_nth : forall g c i ch, nth_error c i = Some ch ->
  (sumf g (remove_nth i c) + g ch = sumf g c)%nat.
Proof.
  intros g c. induction c as [|x c IH]; intros i ch H.
  - destruct i; discriminate H.
  - destruct i as [|i]; cbn [nth_error remove_nth] in *.
    + injection H as ->. rewrite !sumf_cons. lia.
    + rewrite !sumf_cons. specialize (IH i ch H). lia.
Qed.

Lemma sumf_sinsert : forall g x l,
  sumf g (map snd (sinsert x l)) = (g (snd x) + sumf g (map snd l))%nat.
Proof.
  intros g x l. induction l as [|y l IH]; [reflexivity|].
  cbn [sinsert]. destruct (Nat.ltb (fst y) (fst x)).
  - cbn [map]. rewrite !sumf_cons, IH. lia.
  - reflexivity.
Qed.

Lemma sumf_ssort : forall g l, sumf g (ssort l) = sumf g (map snd l).
Proof.
  intros g l. unfold ssort. induction l as [|x l IH]; [reflexivity|].
  cbn [fold_right map]. now rewrite sumf_sinsert, IH, sumf_cons.
Qed.

Lemma sumf_keyed_app : forall g c p y,
  sumf g (ssort (with_prio c ++ [(p, y)])) = (sumf g c + g y)%nat.
Proof.
  intros g c p y. rewrite sumf_ssort, map_app, map_snd_with_prio, sumf_app.
  cbn [map snd]. rewrite sumf_cons. cbn [sumf fold_right]. lia.
Qed.

(* ================================================================ occ without fuel *)

Definition wgt (m : bytes) (n : node) : nat := if ahas m (nhandlers n) then 1 else 0.

Lemma occ_S : forall f m n, occ (S f) m n = sumf (fun ch => (wgt m ch + occ f m ch)%nat) (nchildren n).
Proof. reflexivity. Qed.

Lemma heights_In : forall c ch, In ch c -> (height ch <= heights c)%nat.
Proof.
  induction c as [|y c IH]; intros ch I; [destruct I|]. cbn [heights].
  destruct I as [->|I]; [apply Nat.le_max_l|].
  etransitivity; [now apply IH | apply Nat.le_max_r].
Qed.

Lemma occ_stable : forall m f1 f2 n, (height n <= f1)%nat -> (height n <= f2)%nat ->
  occ f1 m n = occ f2 m n.
Proof.
  intros m. induction f1 as [|f1 IH]; intros f2 n H1 H2.
  - rewrite height_eq in H1. lia.
  - destruct f2 as [|f2]; [rewrite height_eq in H2; lia|].
    rewrite !occ_S. apply sumf_ext. intros ch Ich.
    apply height_child in Ich. rewrite (IH f2 ch); [reflexivity | lia | lia].
Qed.

Definition below (m : bytes) (n : node) : nat := occ (height n) m n.
Definition tot (m : bytes) (n : node) : nat := (wgt m n + below m n)%nat.

Lemma occ_below : forall m f n, (height n <= f)%nat -> occ f m n = below m n.
Proof. intros m f n H. unfold below. apply occ_stable; [exact H | lia]. Qed.

Lemma below_eq : forall m n, below m n = sumf (tot m) (nchildren n).
Proof.
  intros m n. unfold below at 1. rewrite height_eq, occ_S. apply sumf_ext.
  intros ch Ich. unfold tot. rewrite (occ_below m _ ch); [reflexivity | now apply heights_In].
Qed.

Lemma occ_tree : forall t m, occ (tree_fuel t) m (troot t) = below m (troot t).
Proof. intros t m. apply occ_below. unfold tree_fuel. lia. Qed.

Lemma counters_exact_iff : forall t,
  counters_exact t <-> (forall m, is_auto m = false -> count_of t m = Z.of_nat (below m (troot t))).
Proof.
  intro t. unfold counters_exact. split; intros H m A.
  - rewrite <- occ_tree. now apply H.
  - rewrite occ_tree. now apply H.
Qed.

Lemma below_set_children : forall m n c ix, below m (set_children n c ix) = sumf (tot m) c.
Proof. intros m n c ix. now rewrite below_eq, nchildren_set_children. Qed.

Lemma wgt_same : forall m n n', nhandlers n' = nhandlers n -> wgt m n' = wgt m n.
Proof. intros m n n' E. unfold wgt. now rewrite E. Qed.

Lemma tot_set_children : forall m n c ix, tot m (set_children n c ix) = (wgt m n + sumf (tot m) c)%nat.
Proof.
  intros m n c ix. unfold tot. rewrite below_set_children.
  now rewrite (wgt_same m n _ (nhandlers_set_children n c ix)).
Qed.

Lemma tot_eq : forall m n, tot m n = (wgt m n + sumf (tot m) (nchildren n))%nat.
Proof. intros m n. unfold tot. now rewrite below_eq. Qed.

Lemma tot_set_seg : forall m n sg, tot m (set_seg n sg) = tot m n.
Proof.
  intros m n sg. rewrite (tot_eq m (set_seg n sg)), (tot_eq m n), nchildren_set_seg.
  now rewrite (wgt_same m n _ (nhandlers_set_seg n sg)).
Qed.

Lemma below_set_handlers : forall m n hs i, below m (set_handlers n hs i) = below m n.
Proof. intros m n hs i. now rewrite !below_eq, nchildren_set_handlers. Qed.

Lemma tot_leaf : forall m sg p i ix, tot m (Node sg p i [] ix []) = O.
Proof. intros m sg p i ix. rewrite tot_eq. reflexivity. Qed.

Lemma tot_sort : forall m n keyed n', sort_node n keyed = Ok n' ->
  tot m n' = (wgt m n + sumf (tot m) (map snd keyed))%nat.
Proof.
  intros m n keyed n' H. apply sort_node_inv in H. destruct H as [ix [_ ->]].
  now rewrite tot_set_children, sumf_ssort.
Qed.

(* ================================================================ registration *)

Section AddWalk.
  Variable m : bytes.
  Variable d : nat.

  Definition k_delta (k : node -> res node) : Prop :=
    forall ch ch', k ch = Ok ch' -> tot m ch' = (tot m ch + d)%nat.

  Lemma tot_replace : forall n i ch ch', nth_error (nchildren n) i = Some ch ->
    tot m ch' = (tot m ch + d)%nat ->
    tot m (set_children n (replace_nth i ch' (nchildren n)) (nindexes n)) = (tot m n + d)%nat.
  Proof.
    intros n i ch ch' NTH E. rewrite tot_set_children, (tot_eq m n).
    pose proof (sumf_replace_nth (tot m) _ _ _ ch' NTH) as R. lia.
  Qed.

  Lemma add_segment_tot : forall fuel ic n seg k n', k_delta k ->
    add_segment fuel ic n seg k = Ok n' -> tot m n' = (tot m n + d)%nat.
  Proof.
    induction fuel as [|f IH]; intros ic n seg k n' Hk H; [discriminate|].
    rewrite add_segment_S in H. cbv zeta in H.
    destruct (scan_sim seg (nchildren n) 0 None) as [[i|] best] eqn:SC.
    - destruct (nth_error (nchildren n) i) as [ch|] eqn:NTH; [|discriminate].
      apply bind_ok in H. destruct H as [ch' [K H]]. injection H as <-.
      apply (tot_replace n i ch ch' NTH). now apply Hk.
    - destruct best as [[i l]|].
      + destruct (nth_error (nchildren n) i) as [ch|] eqn:NTH; [|discriminate].
        assert (Hcont : k_delta (cont_of f ic seg (Z.to_nat l) k)).
        { intros p p' Hc. unfold cont_of in Hc.
          destruct (Nat.eqb (length (sval seg)) (Z.to_nat l)); [now apply Hk|].
          apply bind_ok in Hc. destruct Hc as [rest [_ Hc]].
          apply bind_ok in Hc. destruct Hc as [s [_ Hc]].
          exact (IH ic p s k p' Hk Hc). }
        destruct (Nat.leb (length (sval (nseg ch))) (Z.to_nat l)).
        * apply bind_ok in H. destruct H as [ch' [K H]]. injection H as <-.
          apply (tot_replace n i ch ch' NTH). now apply Hcont.
        * apply bind_ok in H. destruct H as [[s1 s2] [_ H]].
          apply bind_ok in H. destruct H as [ret [SR H]].
          apply bind_ok in H. destruct H as [ret' [K H]].
          assert (Eret : tot m ret = tot m ch).
          { rewrite (tot_sort m _ _ _ SR), map_snd_with_prio, sumf_cons, tot_set_seg.
            cbn [sumf fold_right]. unfold wgt. cbn [nhandlers ahas alookup]. lia. }
          assert (Eret' : tot m ret' = (tot m ch + d)%nat) by (rewrite <- Eret; now apply Hcont).
          rewrite (tot_sort m _ _ _ H), map_app, map_snd_with_prio, sumf_app.
          cbn [map snd]. rewrite sumf_cons. cbn [sumf fold_right]. fold (sumf (tot m) (remove_nth i (nchildren n))).
          rewrite (tot_eq m n).
          pose proof (sumf_remove_nth (tot m) _ _ _ NTH) as R. lia.
      + apply bind_ok in H. destruct H as [nn' [K H]].
        assert (Enn : tot m nn' = d).
        { rewrite (Hk _ _ K). unfold new_node. now rewrite tot_leaf. }
        rewrite (tot_sort m _ _ _ H), map_app, map_snd_with_prio, sumf_app.
        cbn [map snd]. rewrite sumf_cons. cbn [sumf fold_right]. fold (sumf (tot m) (nchildren n)).
        rewrite (tot_eq m n). lia.
  Qed.

  Lemma get_node_tot : forall segs fuel ic n upd n', k_delta upd ->
    get_node fuel ic n segs upd = Ok n' -> tot m n' = (tot m n + d)%nat.
  Proof.
    induction segs as [|seg rest IH]; intros fuel ic n upd n' Hk H; simpl in H; [discriminate|].
    destruct rest as [|seg2 rest].
    - exact (add_segment_tot _ _ _ _ _ _ Hk H).
    - apply (add_segment_tot _ _ _ _ _ _) in H; [exact H|].
      intros ch ch' Hc. exact (IH fuel ic ch upd ch' Hk Hc).
  Qed.
End AddWalk.

(* ---------------------------------------------------------------- addMethods on one node *)

Definition b2n (b : bool) : nat := if b then 1%nat else O.
Definition look (m : bytes) (cs : list (bytes * Z)) : Z := opt_default 0%Z (alookup m cs).

Lemma bool_eq_iff : forall a b : bool, (a = true <-> b = true) -> a = b.
Proof. intros [|] [|] H; try reflexivity; [symmetry|]; now apply H. Qed.

Lemma ahas_add_hs : forall router h pattern mws ms hs m, is_auto m = false ->
  ahas m (add_hs router h pattern mws ms hs) = ahas m hs || mem m ms.
Proof.
  intros router h pattern mws ms hs m A. destruct (not_auto_facts m A) as [NO [NH N4]].
  apply bool_eq_iff. rewrite orb_true_iff, !ahas_In, add_hs_keys, mem_In. tauto.
Qed.

Lemma add_methods_delta : forall trace router h pattern mws ms m, is_auto m = false ->
  k_delta m (b2n (mem m ms)) (add_methods trace router h pattern mws ms).
Proof.
  intros trace router h pattern mws ms m A n n' H. rewrite add_methods_eq in H.
  apply bind_ok in H. destruct H as [u [C H]]. destruct u.
  apply C17_check_methods_ok_iff_l in C. destruct C as [_ C]. injection H as <-.
  unfold tot. rewrite below_set_handlers. unfold wgt. rewrite nhandlers_set_handlers.
  rewrite (ahas_add_hs _ _ _ _ _ _ _ A).
  destruct (mem m ms) eqn:M; cbn [b2n].
  - apply mem_In in M. destruct (C m M) as [_ [_ [_ [_ E]]]]. rewrite E. cbn [orb]. lia.
  - rewrite orb_false_r. lia.
Qed.

Lemma get_node_handlers : forall segs fuel ic n upd n',
  get_node fuel ic n segs upd = Ok n' -> nhandlers n' = nhandlers n.
Proof.
  intros [|seg [|seg2 rest]] fuel ic n upd n' H; simpl in H; [discriminate| |];
    exact (add_segment_handlers _ _ _ _ _ _ H).
Qed.

(* ---------------------------------------------------------------- the counters *)

Lemma look_aset : forall m x v cs, look m (aset x v cs) = if beqb m x then v else look m cs.
Proof. intros m x v cs. unfold look. rewrite alookup_aset. now destruct (beqb m x). Qed.

Lemma look_counts_add : forall num ms cs m, NoDup ms ->
  look m (counts_add num ms cs) = (look m cs + (if mem m ms then num else 0))%Z.
Proof.
  intros num. induction ms as [|x ms IH]; intros cs m ND; cbn [counts_add mem].
  - lia.
  - inversion ND as [|? ? NI ND']; subst. rewrite (IH _ m ND'), look_aset.
    destruct (beqb_spec m x) as [->|N]; cbn [orb].
    + apply mem_false in NI. rewrite NI. fold (look x cs). lia.
    + reflexivity.
Qed.

Lemma below_build : forall t root num ms m,
  below m (troot (tree_build_methods t root num ms)) = below m root.
Proof. intros t root num ms m. unfold tree_build_methods. cbn [troot]. apply below_set_handlers. Qed.

Lemma count_build : forall t root num ms m,
  count_of (tree_build_methods t root num ms) m = look m (counts_add num ms (tcounts t)).
Proof. reflexivity. Qed.

Lemma tree_add_inv2 : forall t p h mws ms t', tree_add t p h mws ms = Ok t' ->
  exists segs ms' root' ex,
    check_methods (has_trace t) ex [] ms' = Ok tt /\
    get_node (tree_fuel t + length p + 2) (tic t) (troot t) segs
      (add_methods (has_trace t) (tname t) h p mws ms') = Ok root' /\
    t' = tree_build_methods t root' 1 ms'.
Proof.
  intros t p h mws ms t' H. unfold tree_add in H.
  apply bind_ok in H. destruct H as [amb [_ H]].
  assert (H' : (do segs <- split (tic t) p;
                do _ <- check_methods (has_trace t)
                  (match find (tree_fuel t + length p + 2) (troot t) p with
                   | Some n => nhandlers n | None => [] end) []
                  (match ms with [] => any_methods | _ => ms end);
                do root' <- get_node (tree_fuel t + length p + 2) (tic t) (troot t) segs
                  (add_methods (has_trace t) (tname t) h p mws (match ms with [] => any_methods | _ => ms end));
                Ok (tree_build_methods t root' 1 (match ms with [] => any_methods | _ => ms end))) = Ok t').
  { destruct amb as [[p0 [|]]|]; [discriminate | exact H | exact H]. }
  clear H. apply bind_ok in H'. destruct H' as [segs [_ H]].
  apply bind_ok in H. destruct H as [u [C H]]. destruct u.
  apply bind_ok in H. destruct H as [root' [G H]]. injection H as <-.
  exists segs, (match ms with [] => any_methods | _ => ms end), root',
    (match find (tree_fuel t + length p + 2) (troot t) p with Some n => nhandlers n | None => [] end).
  split; [exact C | split; [exact G | reflexivity]].
Qed.

Theorem counters_add : forall t p h mws ms t', counters_exact t -> tree_hs_ok t ->
  tree_add t p h mws ms = Ok t' -> counters_exact t'.
Proof.
  intros t p h mws ms t' Hc _ H. apply tree_add_inv2 in H.
  destruct H as [segs [ms' [root' [ex [C [G ->]]]]]].
  apply C17_check_methods_ok_iff_l in C. destruct C as [ND _].
  apply counters_exact_iff. intros m A. rewrite below_build, count_build, (look_counts_add _ _ _ _ ND).
  pose proof (proj1 (counters_exact_iff t) Hc m A) as E. unfold count_of in E. fold (look m (tcounts t)) in E.
  pose proof (get_node_tot m (b2n (mem m ms')) _ _ _ _ _ _ (add_methods_delta _ _ _ _ _ _ m A) G) as T.
  unfold tot in T. rewrite (wgt_same m _ _ (get_node_handlers _ _ _ _ _ _ G)) in T.
  rewrite E. destruct (mem m ms'); cbn [b2n] in T; lia.
Qed.

(* ================================================================ removal *)

Lemma ahas_adelete : forall (l : list (bytes * hterm)) k x,
  ahas x (adelete k l) = if beqb x k then false else ahas x l.
Proof. intros l k x. unfold ahas. rewrite alookup_adelete. now destruct (beqb x k). Qed.

Lemma mem_akeys : forall (l : list (bytes * hterm)) m, mem m (akeys l) = ahas m l.
Proof. intros l m. apply bool_eq_iff. now rewrite mem_In, ahas_In. Qed.

Lemma mem_user_methods : forall m l, is_auto m = false -> mem m (user_methods l) = mem m l.
Proof.
  intros m l A. apply bool_eq_iff. unfold user_methods. rewrite !mem_In, filter_In, A. cbn [negb]. tauto.
Qed.

Lemma user_methods_auto : forall l x, In x (user_methods l) -> is_auto x = false.
Proof. intros l x I. unfold user_methods in I. apply filter_In in I. now apply negb_true_iff. Qed.

Lemma remove_methods_spec : forall ms hs rm hs1 rm1,
  remove_methods ms hs rm = (hs1, rm1) -> NoDup rm -> (forall x, In x rm -> ahas x hs = false) ->
  NoDup rm1 /\
  forall m, is_auto m = false ->
    (b2n (ahas m hs1) + b2n (mem m rm1) = b2n (ahas m hs) + b2n (mem m rm))%nat.
Proof.
  induction ms as [|m0 ms IH]; intros hs rm hs1 rm1 H ND Inv; cbn [remove_methods] in H.
  - injection H as <- <-. split; [exact ND | reflexivity].
  - destruct (is_auto m0) eqn:A0; [exact (IH _ _ _ _ H ND Inv)|].
    set (hs' := if beqb m0 GET then adelete HEAD hs else hs) in *.
    assert (F1 : forall x, ahas x hs = false -> ahas x hs' = false).
    { intros x E. unfold hs'. destruct (beqb m0 GET); [|exact E].
      rewrite ahas_adelete. now destruct (beqb x HEAD). }
    assert (F2 : forall m, is_auto m = false -> ahas m hs' = ahas m hs).
    { intros m A. unfold hs'. destruct (beqb m0 GET); [|reflexivity].
      rewrite ahas_adelete. destruct (not_auto_facts m A) as [_ [NH _]].
      apply beqb_neq in NH. now rewrite NH. }
    destruct (ahas m0 hs') eqn:E0.
    + assert (NI : ~ In m0 rm).
      { intro I. apply Inv, F1 in I. congruence. }
      apply IH in H.
      * destruct H as [ND1 Q]. split; [exact ND1|]. intros m A. rewrite (Q m A).
        rewrite ahas_adelete. cbn [mem]. destruct (beqb_spec m m0) as [->|N]; cbn [orb].
        -- rewrite <- (F2 m0 A0), E0. apply mem_false in NI. rewrite NI. reflexivity.
        -- now rewrite (F2 m A).
      * now constructor.
      * intros x Ix. rewrite ahas_adelete. destruct (beqb_spec x m0) as [->|N]; [reflexivity|].
        destruct Ix as [E|Ix]; [congruence|]. now apply F1, Inv.
    + apply IH in H.
      * destruct H as [ND1 Q]. split; [exact ND1|]. intros m A. now rewrite (Q m A), (F2 m A).
      * exact ND.
      * intros x Ix. now apply F1, Inv.
Qed.

Lemma collapse_no_user : forall (hs : list (bytes * hterm)) m, length hs = 2%nat ->
  ahas OPTIONS hs = true -> ahas M405 hs = true -> is_auto m = false -> ahas m hs = false.
Proof.
  intros hs m L HO H4 A. destruct (not_auto_facts m A) as [NO [_ N4]].
  destruct hs as [|[k1 v1] [|[k2 v2] [|kv hs]]]; try discriminate L.
  unfold ahas in *. cbn [alookup] in *.
  destruct (beqb_spec m k1) as [->|N1].
  - destruct (beqb_spec OPTIONS k1) as [E|_]; [congruence|].
    destruct (beqb_spec M405 k1) as [E|_]; [congruence|].
    destruct (beqb_spec OPTIONS k2) as [E1|_]; [|discriminate HO].
    destruct (beqb_spec M405 k2) as [E2|_]; [|discriminate H4].
    exfalso. rewrite <- E2 in E1. discriminate E1.
  - destruct (beqb_spec m k2) as [->|N2]; [|reflexivity].
    destruct (beqb_spec OPTIONS k2) as [E|_]; [congruence|].
    destruct (beqb_spec M405 k2) as [E|_]; [congruence|].
    destruct (beqb_spec OPTIONS k1) as [E1|_]; [|discriminate HO].
    destruct (beqb_spec M405 k1) as [E2|_]; [|discriminate H4].
    exfalso. rewrite <- E2 in E1. discriminate E1.
Qed.

Lemma remove_at_node_delta : forall trace ms n n' rm, NoDup (akeys (nhandlers n)) ->
  remove_at_node trace ms n = (n', rm) ->
  NoDup (user_methods rm) /\
  forall m, is_auto m = false -> (tot m n' + b2n (mem m rm) = tot m n)%nat.
Proof.
  intros trace ms n n' rm NDk H. unfold remove_at_node in H.
  destruct ms as [|m0 ms].
  - injection H as <- <-. split; [apply NoDup_filter; exact NDk|].
    intros m A. unfold tot. rewrite below_set_handlers. unfold wgt.
    rewrite nhandlers_set_handlers, mem_akeys. cbn [ahas alookup].
    destruct (ahas m (nhandlers n)); cbn [b2n]; lia.
  - remember (m0 :: ms) as ms0 eqn:Ems. clear Ems.
    destruct (remove_methods ms0 (nhandlers n) []) as [hs1 rm1] eqn:RM.
    apply remove_methods_spec in RM; [|constructor|intros x []].
    destruct RM as [ND1 Q].
    destruct (Nat.eqb (length hs1) 2 && ahas OPTIONS hs1 && ahas M405 hs1) eqn:Col.
    + injection H as <- <-. split; [now apply NoDup_filter|].
      intros m A. specialize (Q m A). cbn [mem b2n] in Q.
      apply andb_true_iff in Col. destruct Col as [Col C4].
      apply andb_true_iff in Col. destruct Col as [CL CO]. apply Nat.eqb_eq in CL.
      rewrite (collapse_no_user hs1 m CL CO C4 A) in Q. cbn [b2n] in Q.
      unfold tot. rewrite below_set_handlers. unfold wgt. rewrite nhandlers_set_handlers.
      cbn [ahas alookup]. fold (b2n (ahas m (nhandlers n))). lia.
    + injection H as <- <-. split; [now apply NoDup_filter|].
      intros m A. specialize (Q m A). cbn [mem b2n] in Q.
      unfold tot. rewrite below_set_handlers. unfold wgt. rewrite nhandlers_set_handlers.
      fold (b2n (ahas m hs1)) (b2n (ahas m (nhandlers n))). lia.
Qed.

Lemma prunable_tot : forall m n, prunable n = true -> tot m n = O.
Proof.
  intros m n H. unfold prunable in H. apply andb_true_iff in H. destruct H as [H1 H2].
  apply Nat.eqb_eq in H1. unfold nsize in H1. rewrite tot_eq. unfold wgt.
  destruct (nhandlers n); [|discriminate H1]. destruct (nchildren n); [reflexivity | discriminate H2].
Qed.

Lemma remove_finish_delta : forall m D n i ch ch' rm n' rm',
  nth_error (nchildren n) i = Some ch -> (tot m ch' + D = tot m ch)%nat ->
  remove_finish n i ch' rm = Ok (Some (n', rm')) -> (tot m n' + D = tot m n)%nat /\ rm' = rm.
Proof.
  intros m D n i ch ch' rm n' rm' NTH E H. unfold remove_finish in H.
  destruct (prunable ch') eqn:P.
  - cbv zeta in H. apply bind_ok in H. destruct H as [ix [_ H]]. injection H as <- <-.
    split; [|reflexivity]. rewrite tot_set_children, (tot_eq m n).
    pose proof (sumf_remove_nth (tot m) _ _ _ NTH) as R.
    rewrite (prunable_tot m ch' P) in E. lia.
  - injection H as <- <-. split; [|reflexivity]. rewrite tot_set_children, (tot_eq m n).
    pose proof (sumf_replace_nth (tot m) _ _ _ ch' NTH) as R. lia.
Qed.

Definition rm_post (n n' : node) (rm : list bytes) : Prop :=
  NoDup (user_methods rm) /\
  forall m, is_auto m = false -> (tot m n' + b2n (mem m rm) = tot m n)%nat.

Lemma nth_error_mid : forall (A : Type) (pre : list A) x post, nth_error (pre ++ x :: post) (length pre) = Some x.
Proof. intros A pre x post. rewrite nth_error_app2, Nat.sub_diag; [reflexivity | lia]. Qed.

Lemma remove_in_delta : forall trace ms fuel n pattern n' rm, kids_ok (hs_ok trace) n ->
  remove_in fuel trace ms n pattern = Ok (Some (n', rm)) -> rm_post n n' rm.
Proof.
  intros trace ms. induction fuel as [|f IH]; intros n pattern n' rm Hn H; [discriminate|].
  rewrite remove_in_S in H.
  assert (Hgo : forall c i pre, nchildren n = pre ++ c -> length pre = i ->
            remove_go f trace ms n pattern c i = Ok (Some (n', rm)) -> rm_post n n' rm).
  { induction c as [|ch c IHc]; intros i pre Ec Ei G; simpl in G; [discriminate|].
    assert (NTH : nth_error (nchildren n) i = Some ch) by (rewrite Ec, <- Ei; apply nth_error_mid).
    assert (Hch : all_nodes (hs_ok trace) ch) by (apply Hn; now apply (nth_error_In _ i)).
    assert (Enext : nchildren n = (pre ++ [ch]) ++ c) by (now rewrite <- app_assoc).
    assert (Elen : length (pre ++ [ch]) = S i) by (rewrite app_length; simpl; lia).
    destruct (beqb (sval (nseg ch)) pattern).
    - destruct (remove_at_node trace ms ch) as [ch' removed] eqn:RA.
      apply remove_at_node_delta in RA.
      + destruct RA as [ND Q]. split.
        * assert (E0 : (tot GET ch' + b2n (mem GET removed) = tot GET ch)%nat) by (apply Q; reflexivity).
          destruct (remove_finish_delta GET _ n i ch ch' removed n' rm NTH E0 G) as [_ ->]. exact ND.
        * intros m A.
          destruct (remove_finish_delta m (b2n (mem m removed)) n i ch ch' removed n' rm NTH (Q m A) G) as [T ->].
          exact T.
      + destruct (hs_ok_core trace ch (all_nodes_here _ _ Hch)) as [ND _]. exact ND.
    - destruct (has_prefix pattern (sval (nseg ch))); [|exact (IHc (S i) _ Enext Elen G)].
      apply bind_ok in G. destruct G as [r [R G]].
      destruct r as [[ch' removed]|]; [|exact (IHc (S i) _ Enext Elen G)].
      apply IH in R; [|now apply kids_of_all]. destruct R as [ND Q]. split.
      + assert (E0 : (tot GET ch' + b2n (mem GET removed) = tot GET ch)%nat) by (apply Q; reflexivity).
        destruct (remove_finish_delta GET _ n i ch ch' removed n' rm NTH E0 G) as [_ ->]. exact ND.
      + intros m A.
        destruct (remove_finish_delta m (b2n (mem m removed)) n i ch ch' removed n' rm NTH (Q m A) G) as [T ->].
        exact T. }
  apply (Hgo (nchildren n) O []); [reflexivity | reflexivity | exact H].
Qed.

Theorem counters_remove : forall t p ms t', counters_exact t -> tree_hs_ok t ->
  tree_remove t p ms = Ok t' -> counters_exact t'.
Proof.
  intros t p ms t' Hc Ht H. apply tree_remove_inv in H.
  destruct H as [->|[root' [removed [R ->]]]]; [exact Hc|].
  pose proof (remove_in_delta _ _ _ _ _ _ _ Ht R) as [ND Q].
  apply (remove_in_kids (hs_ok (has_trace t)) (hs_ok_ext _) (has_trace t) ms
           (remove_at_node_all (has_trace t) ms)) in R; [|exact Ht].
  destruct R as [_ [Eh _]].
  apply counters_exact_iff. intros m A. rewrite below_build, count_build, (look_counts_add _ _ _ _ ND).
  pose proof (proj1 (counters_exact_iff t) Hc m A) as E. unfold count_of in E. fold (look m (tcounts t)) in E.
  specialize (Q m A). unfold tot in Q. rewrite (wgt_same m _ _ Eh) in Q.
  rewrite (mem_user_methods m removed A), E.
  destruct (mem m removed); cbn [b2n] in Q; lia.
Qed.

(* ================================================================ middleware *)

Lemma wgt_apply_mw : forall m fa router mws n, wgt m (apply_mw_node fa router mws n) = wgt m n.
Proof.
  intros m [|fa] router mws [s p i h x c]; [reflexivity|]. unfold wgt. cbn [apply_mw_node nhandlers].
  now rewrite (ahas_map_keys (fun kv => apply_mw (snd kv) (fst kv) p router mws)).
Qed.

Lemma tot_apply_mw : forall m router mws fa n, tot m (apply_mw_node fa router mws n) = tot m n.
Proof.
  intros m router mws. induction fa as [|fa IH]; intro n; [reflexivity|].
  rewrite (tot_eq m (apply_mw_node (S fa) router mws n)), (tot_eq m n), wgt_apply_mw.
  destruct n as [s p i h x c]. cbn [apply_mw_node nchildren]. rewrite sumf_map.
  f_equal. apply sumf_ext. intros ch _. apply IH.
Qed.

Lemma below_apply_mw : forall m router mws fa n, below m (apply_mw_node fa router mws n) = below m n.
Proof.
  intros m router mws fa n. pose proof (tot_apply_mw m router mws fa n) as T.
  unfold tot in T. rewrite wgt_apply_mw in T. lia.
Qed.

Theorem counters_use : forall t mws, counters_exact t -> counters_exact (tree_apply_mw t mws).
Proof.
  intros t mws Hc. apply counters_exact_iff. intros m A.
  unfold tree_apply_mw at 2. cbn [troot]. rewrite below_apply_mw.
  exact (proj1 (counters_exact_iff t) Hc m A).
Qed.

Theorem counters_new_tree : forall name ic trace, counters_exact (new_tree name ic trace).
Proof. intros name ic trace m A. reflexivity. Qed.

(* ================================================================ clean *)

Lemma clean_in_height : forall fuel n prefix n', clean_in fuel n prefix = Ok n' ->
  (height n' <= height n)%nat.
Proof.
  induction fuel as [|f IH]; intros n prefix n' H; [discriminate|].
  rewrite clean_in_S in H. destruct prefix as [|b prefix].
  - injection H as <-. rewrite !height_eq, nchildren_set_children. cbn [heights]. lia.
  - remember (b :: prefix) as pf eqn:Epf. clear Epf.
    assert (Hgo : forall c cs, clean_go f pf c = Ok cs -> (heights cs <= heights c)%nat).
    { induction c as [|ch c IHc]; intros cs G; simpl in G.
      - injection G as <-. apply le_n.
      - apply bind_ok in G. destruct G as [ch' [C G]].
        apply bind_ok in G. destruct G as [rest [R G]].
        assert (Hch' : (height ch' <= height ch)%nat).
        { destruct (Nat.ltb (length (sval (nseg ch))) (length pf) && has_prefix pf (sval (nseg ch))).
          - exact (IH _ _ _ C).
          - injection C as <-. apply le_n. }
        specialize (IHc rest R). cbn [heights].
        destruct (has_prefix (sval (nseg ch)) pf); injection G as <-; cbn [heights]; lia. }
    apply bind_ok in H. destruct H as [cs [G H]].
    apply bind_ok in H. destruct H as [ix [_ H]]. injection H as <-.
    rewrite !height_eq, nchildren_set_children. specialize (Hgo _ _ G). lia.
Qed.

Lemma count_methods_look : forall trace m, is_auto m = false ->
  forall f n acc, kids_ok (hs_ok trace) n ->
  look m (count_methods f n acc) = (look m acc + Z.of_nat (occ f m n))%Z.
Proof.
  intros trace m A. induction f as [|f IH]; intros n acc Hn; [cbn [count_methods occ]; lia|].
  rewrite occ_S. cbn [count_methods].
  assert (Hgo : forall c a, (forall ch, In ch c -> all_nodes (hs_ok trace) ch) ->
            look m (fold_left (fun a ch => count_methods f ch
                       (counts_add 1 (user_methods (akeys (nhandlers ch))) a)) c a) =
            (look m a + Z.of_nat (sumf (fun ch => (wgt m ch + occ f m ch)%nat) c))%Z).
  { induction c as [|ch c IHc]; intros a Hc; [cbn [fold_left sumf fold_right]; lia|].
    cbn [fold_left]. rewrite IHc; [|intros x Ix; apply Hc; now right].
    assert (Hch : all_nodes (hs_ok trace) ch) by (apply Hc; now left).
    rewrite (IH ch _ (kids_of_all _ _ Hch)).
    destruct (hs_ok_core trace ch (all_nodes_here _ _ Hch)) as [ND _].
    rewrite look_counts_add; [|apply NoDup_filter; exact ND].
    rewrite (mem_user_methods m _ A), mem_akeys, sumf_cons. unfold wgt.
    destruct (ahas m (nhandlers ch)); lia. }
  apply Hgo. exact Hn.
Qed.

(* the statement asked for has no hypothesis on [t]; it is false on a (non-reachable) tree whose
   node holds a repeated key, see [ex_clean_counter]; with [tree_hs_ok t] it holds *)
Theorem counters_clean_partial : forall t prefix t', tree_hs_ok t ->
  tree_clean t prefix = Ok t' -> counters_exact t'.
Proof.
  intros t prefix t' Ht H. apply tree_clean_inv in H. destruct H as [root' [C ->]].
  pose proof (clean_in_height _ _ _ _ C) as Hh.
  apply (clean_in_kids (hs_ok (has_trace t)) (hs_ok_ext _)) in C; [|exact Ht].
  destruct C as [Hk _].
  apply counters_exact_iff. intros m A. rewrite below_build, count_build.
  cbn [tcounts counts_add].
  rewrite (count_methods_look (has_trace t) m A _ _ _ Hk).
  rewrite (occ_below m (tree_fuel t) root'); [reflexivity | unfold tree_fuel; lia].
Qed.

(* ================================================================ shape of the counter table *)

Definition cok (cs : list (bytes * Z)) : Prop :=
  NoDup (akeys cs) /\ forall k, In k (akeys cs) -> is_auto k = false.
Definition counts_ok (t : tree) : Prop := cok (tcounts t).
Definition root_midx_ok (t : tree) : Prop := nmidx (troot t) = root_midx (has_trace t) (tcounts t).

Lemma cok_counts_add : forall num ms cs, (forall m, In m ms -> is_auto m = false) -> cok cs ->
  cok (counts_add num ms cs).
Proof.
  intros num. induction ms as [|x ms IH]; intros cs Hms Hc; cbn [counts_add]; [exact Hc|].
  apply IH; [intros m I; apply Hms; now right|].
  destruct Hc as [ND Hk]. split; [now apply nodup_aset|].
  intros k Ik. apply akeys_aset_in in Ik. destruct Ik as [->|Ik]; [apply Hms; now left | now apply Hk].
Qed.

Lemma cok_count_methods : forall f n acc, cok acc -> cok (count_methods f n acc).
Proof.
  induction f as [|f IH]; intros n acc Hc; [exact Hc|]. cbn [count_methods].
  generalize (nchildren n) acc Hc. clear n acc Hc.
  induction l as [|ch c IHc]; intros acc Hc; [exact Hc|].
  cbn [fold_left]. apply IHc, IH, cok_counts_add; [apply user_methods_auto | exact Hc].
Qed.

Lemma cok_nil : cok [].
Proof. split; [constructor | intros k []]. Qed.

Lemma root_midx_build : forall t root num ms, root_midx_ok (tree_build_methods t root num ms).
Proof. intros t root num ms. unfold root_midx_ok, tree_build_methods. cbn [troot tcounts]. apply nmidx_set_handlers. Qed.

Lemma check_methods_not_auto : forall trace ex ms, check_methods trace ex [] ms = Ok tt ->
  forall m, In m ms -> is_auto m = false.
Proof.
  intros trace ex ms C m I. apply C17_check_methods_ok_iff_l in C. destruct C as [_ C].
  destruct (C m I) as [IM [E1 [E2 _]]]. unfold is_auto. rewrite E1, E2. cbn [orb].
  apply beqb_neq. intros ->. vm_compute in IM. discriminate IM.
Qed.

Definition shape_ok (t : tree) : Prop := counts_ok t /\ root_midx_ok t.

Lemma shape_new_tree : forall name ic trace, shape_ok (new_tree name ic trace).
Proof. intros name ic trace. split; [apply cok_nil | apply root_midx_build]. Qed.

Lemma shape_add : forall t p h mws ms t', shape_ok t -> tree_add t p h mws ms = Ok t' -> shape_ok t'.
Proof.
  intros t p h mws ms t' [Hc _] H. apply tree_add_inv2 in H.
  destruct H as [segs [ms' [root' [ex [C [_ ->]]]]]]. split; [|apply root_midx_build].
  apply cok_counts_add; [exact (check_methods_not_auto _ _ _ C) | exact Hc].
Qed.

Lemma shape_remove : forall t p ms t', shape_ok t -> tree_remove t p ms = Ok t' -> shape_ok t'.
Proof.
  intros t p ms t' Hs H. apply tree_remove_inv in H.
  destruct H as [->|[root' [removed [_ ->]]]]; [exact Hs|]. split; [|apply root_midx_build].
  apply cok_counts_add; [apply user_methods_auto | exact (proj1 Hs)].
Qed.

Lemma shape_clean : forall t prefix t', tree_clean t prefix = Ok t' -> shape_ok t'.
Proof.
  intros t prefix t' H. apply tree_clean_inv in H. destruct H as [root' [_ ->]].
  split; [|apply root_midx_build]. apply cok_count_methods, cok_nil.
Qed.

Lemma nmidx_apply_mw : forall fa router mws n, nmidx (apply_mw_node fa router mws n) = nmidx n.
Proof. intros [|fa] router mws [s p i h x c]; reflexivity. Qed.

Lemma shape_use : forall t mws, shape_ok t -> shape_ok (tree_apply_mw t mws).
Proof.
  intros t mws [Hc Hr]. split; [exact Hc|]. unfold root_midx_ok. rewrite has_trace_apply_mw.
  unfold tree_apply_mw at 1 2. cbn [troot tcounts]. rewrite nmidx_apply_mw. exact Hr.
Qed.

(* ================================================================ histories *)

Definition inv (t : tree) : Prop := counters_exact t /\ tree_hs_ok t /\ shape_ok t.

Lemma tstep_inv : forall t op, inv t -> inv (tstep t op).
Proof.
  intros t op [Hc [Ht Hs]]. destruct op as [p h mws ms|p ms|prefix|mws]; cbn [tstep].
  - destruct (tree_add t p h mws ms) as [t'|e|s0|] eqn:E; cbn [keep]; try (split; [|split]; assumption).
    split; [exact (counters_add _ _ _ _ _ _ Hc Ht E) | split; [exact (hs_add _ _ _ _ _ _ Ht E) | exact (shape_add _ _ _ _ _ _ Hs E)]].
  - destruct (tree_remove t p ms) as [t'|e|s0|] eqn:E; cbn [keep]; try (split; [|split]; assumption).
    split; [exact (counters_remove _ _ _ _ Hc Ht E) | split; [exact (hs_remove _ _ _ _ Ht E) | exact (shape_remove _ _ _ _ Hs E)]].
  - destruct (tree_clean t prefix) as [t'|e|s0|] eqn:E; cbn [keep]; try (split; [|split]; assumption).
    split; [exact (counters_clean_partial _ _ _ Ht E) | split; [exact (hs_clean _ _ _ Ht E) | exact (shape_clean _ _ _ E)]].
  - split; [now apply counters_use | split; [now apply hs_use | now apply shape_use]].
Qed.

Lemma hist_inv : forall hist t, inv t -> inv (fold_left tstep hist t).
Proof.
  induction hist as [|op hist IH]; intros t Ht; simpl; [exact Ht|]. apply IH. now apply tstep_inv.
Qed.

Lemma inv_reachable : forall name ic trace hist, inv (fold_left tstep hist (new_tree name ic trace)).
Proof.
  intros name ic trace hist. apply hist_inv.
  split; [apply counters_new_tree | split; [apply hs_new_tree | apply shape_new_tree]].
Qed.

Theorem counters_reachable : forall name ic trace hist,
  counters_exact (fold_left tstep hist (new_tree name ic trace)).
Proof. intros name ic trace hist. exact (proj1 (inv_reachable name ic trace hist)). Qed.

(* ================================================================ rendering `OPTIONS *` *)

Definition posk (cs : list (bytes * Z)) : list bytes := map fst (filter (fun kv => Z.ltb 0 (snd kv)) cs).
Definition fake (cs : list (bytes * Z)) : list (bytes * hterm) :=
  (OPTIONS, HOptions) :: map (fun k => (k, HOptions)) (posk cs).

Lemma fake_keys : forall cs, map fst (fake cs) = OPTIONS :: posk cs.
Proof.
  intro cs. unfold fake. cbn [map fst]. f_equal. rewrite map_map. cbn [fst]. apply map_id.
Qed.

Lemma root_midx_fake : forall trace cs, root_midx trace cs = node_midx trace (fake cs).
Proof.
  intros trace cs. unfold root_midx, node_midx, fake. cbn [fold_right fst].
  assert (E : fold_right (fun (kv : bytes * Z) acc => (if Z.ltb 0 (snd kv) then method_bit (fst kv) else 0) + acc) 0 cs =
              fold_right (fun (kv : bytes * hterm) acc => method_bit (fst kv) + acc) 0
                (map (fun k => (k, HOptions)) (posk cs))).
  { unfold posk. induction cs as [|[k v] cs IH]; [reflexivity|].
    cbn [fold_right filter snd fst]. destruct (Z.ltb 0 v); cbn [map fold_right fst]; rewrite IH; lia. }
  rewrite E. destruct trace; cbn [andb negb]; lia.
Qed.

Lemma NoDup_map_filter : forall (A B : Type) (g : A -> B) (f : A -> bool) l,
  NoDup (map g l) -> NoDup (map g (filter f l)).
Proof.
  intros A B g f l. induction l as [|x l IH]; intro ND; [constructor|].
  cbn [map] in ND. inversion ND as [|? ? NI ND']; subst. cbn [filter].
  destruct (f x); [|now apply IH]. cbn [map]. constructor; [|now apply IH].
  intro I. apply NI. apply in_map_iff in I. destruct I as [y [E Iy]].
  apply filter_In in Iy. apply in_map_iff. exists y. split; [exact E | exact (proj1 Iy)].
Qed.

Lemma posk_In : forall cs k, NoDup (akeys cs) -> (In k (posk cs) <-> (0 < look k cs)%Z).
Proof.
  intros cs k ND. unfold posk, look. split.
  - intro I. apply in_map_iff in I. destruct I as [[k0 v] [E I]]. cbn [fst] in E. subst k0.
    apply filter_In in I. destruct I as [I P]. cbn [snd] in P. apply Z.ltb_lt in P.
    rewrite (In_alookup_nodup cs k v ND I). exact P.
  - intro P. destruct (alookup k cs) as [v|] eqn:E; cbn [opt_default] in P; [|lia].
    apply alookup_In in E. apply in_map_iff. exists (k, v). split; [reflexivity|].
    apply filter_In. split; [exact E|]. cbn [snd]. now apply Z.ltb_lt.
Qed.

Lemma sumf_pos : forall g c, (0 < sumf g c)%nat -> exists ch, In ch c /\ (0 < g ch)%nat.
Proof.
  intros g c. induction c as [|x c IH]; intro H; [cbn in H; lia|].
  rewrite sumf_cons in H. destruct (g x) as [|gx] eqn:E.
  - destruct (IH H) as [ch [I P]]. exists ch. split; [now right | exact P].
  - exists x. split; [now left | lia].
Qed.

Lemma occ_pos_node : forall (P : node -> Prop) m f n, kids_ok P n -> (0 < occ f m n)%nat ->
  exists x, P x /\ ahas m (nhandlers x) = true.
Proof.
  intros P m. induction f as [|f IH]; intros n Hn H; [cbn in H; lia|].
  rewrite occ_S in H. apply sumf_pos in H. destruct H as [ch [Ich H]].
  assert (Hch : all_nodes P ch) by now apply Hn.
  unfold wgt in H. destruct (ahas m (nhandlers ch)) eqn:E.
  - exists ch. split; [now apply all_nodes_here | exact E].
  - apply (IH ch); [now apply kids_of_all | lia].
Qed.

Lemma live_method : forall t m, tree_hs_ok t -> (0 < occ (tree_fuel t) m (troot t))%nat ->
  (m = M405 \/ In m methods_list) /\ (has_trace t = true -> m <> TRACE).
Proof.
  intros t m Ht H. apply (occ_pos_node (hs_ok (has_trace t))) in H; [|exact Ht].
  destruct H as [x [Hx E]]. apply ahas_In in E.
  destruct Hx as [[Hnil _]|[_ [Sub [_ [_ [_ [NT _]]]]]]].
  - rewrite Hnil in E. destruct E.
  - split; [now apply Sub|]. intros T ->. now apply (NT T).
Qed.

Lemma options_star_inv : forall t m, inv t ->
  In m (methods_of (nmidx (troot t))) <->
  (m = OPTIONS \/ (has_trace t = true /\ m = TRACE) \/
   (is_auto m = false /\ In m methods_list /\ (0 < occ (tree_fuel t) m (troot t))%nat)).
Proof.
  intros t m [Hc [Ht [[NDc Kc] Hr]]]. unfold root_midx_ok in Hr. rewrite Hr, root_midx_fake.
  assert (Hpos : forall k, In k (posk (tcounts t)) <->
            (is_auto k = false /\ (0 < occ (tree_fuel t) k (troot t))%nat)).
  { intro k. rewrite (posk_In _ k NDc). split.
    - intro P. assert (A : is_auto k = false).
      { apply Kc. destruct (alookup k (tcounts t)) as [v|] eqn:E; [|unfold look in P; rewrite E in P; cbn in P; lia].
        apply alookup_In in E. unfold akeys. change k with (fst (k, v)). now apply in_map. }
      split; [exact A|]. pose proof (Hc k A) as E. unfold count_of in E. fold (look k (tcounts t)) in E. lia.
    - intros [A P]. pose proof (Hc k A) as E. unfold count_of in E. fold (look k (tcounts t)) in E. lia. }
  rewrite (C04_bits_render_l (has_trace t) (fake (tcounts t))).
  - rewrite fake_keys. cbn [In]. rewrite Hpos. split.
    + intros [[[E|[A P]] Ne]|[T [_ E]]].
      * left. now symmetry.
      * right. right. split; [exact A|]. split; [|exact P].
        destruct (live_method t m Ht P) as [[E|I] _]; [|exact I].
        subst m. discriminate A.
      * right. left. split; assumption.
    + intros [E|[[T E]|[A [I P]]]].
      * left. split; [left; now symmetry|]. subst m. discriminate.
      * right. split; [exact T|]. split; [discriminate | exact E].
      * left. split; [right; split; assumption|]. intros ->. discriminate A.
  - rewrite fake_keys. constructor.
    + intro I. apply Hpos in I. destruct I as [A _]. discriminate A.
    + unfold posk. apply NoDup_map_filter. exact NDc.
  - intros k Ik. rewrite fake_keys in Ik. destruct Ik as [<-|Ik].
    + right. apply mem_In. reflexivity.
    + apply Hpos in Ik. destruct Ik as [_ P]. exact (proj1 (live_method t k Ht P)).
  - intros T Ik. rewrite fake_keys in Ik. destruct Ik as [E|Ik]; [discriminate E|].
    apply Hpos in Ik. destruct Ik as [_ P]. exact (proj2 (live_method t TRACE Ht P) T eq_refl).
Qed.

Theorem options_star_exact : forall name ic trace hist m,
  let t := fold_left tstep hist (new_tree name ic trace) in
  In m (methods_of (nmidx (troot t))) <->
    (m = OPTIONS \/ (trace = true /\ m = TRACE) \/
     (is_auto m = false /\ In m methods_list /\ (0 < occ (tree_fuel t) m (troot t))%nat)).
Proof.
  intros name ic trace hist m t.
  rewrite (options_star_inv t m (inv_reachable name ic trace hist)).
  unfold t at 1. rewrite has_trace_hist, has_trace_new_tree. reflexivity.
Qed.

(* ================================================================ examples *)

Definition ex_count_hist : list top :=
  [ OAdd (bs "/a") (HUser (bs "h1")) [] [GET; POST];
    OAdd (bs "/b") (HUser (bs "h2")) [] [GET];
    ORemove (bs "/a") [GET];
    ORemove (bs "/b") [] ].

Definition ex_count_tree : tree := fold_left tstep ex_count_hist (new_tree (bs "r") [] false).

Example ex_count_accepted : all_accepted (new_tree (bs "r") [] false) ex_count_hist = true.
Proof. vm_compute. reflexivity. Qed.

(* both GET routes are gone, POST on /a is still live: `OPTIONS *` answers OPTIONS, POST *)
Example ex_count_counters :
  count_of ex_count_tree GET = 0%Z /\ count_of ex_count_tree POST = 1%Z /\
  occ (tree_fuel ex_count_tree) GET (troot ex_count_tree) = 0%nat /\
  occ (tree_fuel ex_count_tree) POST (troot ex_count_tree) = 1%nat /\
  methods_of (nmidx (troot ex_count_tree)) = [OPTIONS; POST].
Proof. vm_compute. repeat split. Qed.

(* in between, GET is registered on two live routes *)
Example ex_count_before :
  let t := fold_left tstep (firstn 2 ex_count_hist) (new_tree (bs "r") [] true) in
  count_of t GET = 2%Z /\ occ (tree_fuel t) GET (troot t) = 2%nat /\
  occ (tree_fuel t) HEAD (troot t) = 2%nat /\ count_of t HEAD = 0%Z /\
  methods_of (nmidx (troot t)) = [GET; OPTIONS; POST; TRACE].
Proof. vm_compute. repeat split. Qed.

(* C04_counters_clean without a hypothesis on [t] is false: a (non-reachable) tree whose node holds
   the key GET twice has exact counters, Clean recounts the repeated key twice *)
Definition bad_child : node :=
  Node (string_seg (bs "/a")) (bs "/a") 0 [(GET, HUser []); (GET, HUser [])] [] [].
Definition bad_tree : tree :=
  {| troot := Node (string_seg []) [] 0 [(OPTIONS, HOptions); (M405, HNotAllowed)] [] [bad_child];
     tcounts := [(GET, 1%Z)]; tname := bs "r"; tnotfound := HNotFound; ttrace := None; tic := [] |}.
Definition bad_clean : tree := match tree_clean bad_tree (bs "/b") with Ok t' => t' | _ => bad_tree end.

Example ex_clean_counter :
  counters_exact bad_tree /\ tree_clean bad_tree (bs "/b") = Ok bad_clean /\
  count_of bad_clean GET = 2%Z /\ occ (tree_fuel bad_clean) GET (troot bad_clean) = 1%nat /\
  ~ counters_exact bad_clean.
Proof.
  split; [|split; [|split; [|split]]].
  - intros m A. destruct (beqb_spec m GET) as [->|N]; [reflexivity|].
    apply beqb_neq in N. unfold count_of, tree_fuel.
    cbn [bad_tree troot tcounts alookup height bad_child occ nchildren fold_right nhandlers].
    unfold ahas. cbn [alookup]. rewrite N. reflexivity.
  - vm_compute. reflexivity.
  - vm_compute. reflexivity.
  - vm_compute. reflexivity.
  - intro H. specialize (H GET eq_refl). vm_compute in H. discriminate H.
Qed.

Theorem counters_clean_false :
  ~ (forall t prefix t', tree_clean t prefix = Ok t' -> counters_exact t').
Proof.
  intro H. destruct ex_clean_counter as [_ [E [_ [_ N]]]]. exact (N (H _ _ _ E)).
Qed.
