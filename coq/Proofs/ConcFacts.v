(* Applying the generic lock-protocol theorems to the facts regenerated from the source. *)
From Coq Require Import String List Bool.
From Mux Require Import Model.Conc Proofs.Conc Gen.LockFacts Gen.GlobalFacts.
Import ListNotations.
Open Scope string_scope.
Open Scope list_scope.

Fixpoint lookup_summary (name : string) (l : list (string * list sev)) : option (list sev) :=
  match l with
  | [] => None
  | (n, s) :: l' => if String.eqb n name then Some s else lookup_summary name l'
  end.

Fixpoint smem (x : string) (l : list string) : bool :=
  match l with [] => false | y :: l' => String.eqb x y || smem x l' end.

(* every field of node / Tree that some method of the package assigns after construction *)
Definition written_locs : list string :=
  flat_map (fun ns => flat_map (fun e => match e with SAcc true loc _ => [loc] | _ => [] end) (snd ns)) summaries.

Definition is_field (loc : string) : bool := String.prefix "node." loc || String.prefix "Tree." loc.

(* the routing state the optional RWMutex has to protect *)
Definition tree_lock : string := "Tree.locker".
Definition tree_prot (loc : string) : bool := is_field loc && smem loc written_locs.

(* the process-wide memo of rendered method sets and its mutex *)
Definition memo_lock : string := "global.methodIndexesLocker".
Definition memo_prot (loc : string) : bool := String.eqb loc "global.methodIndexes".

(* what user goroutines can reach on a WithLock(true) router: Handle/Remove/Clean/Routes/URL/ServeHTTP/Use
   and the types.Node methods handed to handlers.  (Tree.Find, Tree.Print and Tree.Name are helpers: Find is
   only called by Remove and URL inside their regions, Print is a debugging aid, Name reads an immutable field.) *)
Definition entry_points : list string :=
  ["Tree.Add"; "Tree.Remove"; "Tree.Clean"; "Tree.Routes"; "Tree.URL"; "Tree.Handler"; "Tree.ApplyMiddleware";
   "node.AllowHeader"; "node.Methods"; "node.Pattern"].

Definition entry_ok (lock : string) (prot : string -> bool) (name : string) : bool :=
  match lookup_summary name summaries with
  | Some s => summary_ok (project lock prot s)
  | None => false                      (* an entry point that disappeared is a broken obligation too *)
  end.

(* atomicity: an entry point touches the protected state inside ONE critical section (an operation that
   looks something up under the read lock and acts on it later under the write lock is not atomic) *)
Definition single_region (lock : string) (prot : string -> bool) (name : string) : bool :=
  match lookup_summary name summaries with
  | Some s => Nat.leb (length (filter (fun e => match e with Acq _ => true | _ => false end) (project lock prot s))) 1
  | None => false
  end.

(* diagnostics printed when the obligation fails *)
Definition violations (lock : string) (prot : string -> bool) : list (string * option sev) :=
  filter (fun x => match snd x with Some _ => true | None => false end)
         (map (fun name => (name, match lookup_summary name summaries with
                                  | Some s => first_violation None s lock prot
                                  | None => Some (SAcc false "missing entry point" "")
                                  end)) entry_points).

(* serving entry points never write routing state *)
Definition serve_entries : list string := ["Tree.Handler"; "node.AllowHeader"; "node.Methods"; "node.Pattern"].
Definition readonly (name : string) : bool :=
  match lookup_summary name summaries with
  | Some s => forallb (fun e => match e with SAcc true loc _ => negb (is_field loc) | _ => true end) s
  | None => false
  end.

(* any number of goroutines, each running any sequence of entry points, never race on routing state *)
Lemma entry_threads_race_free :
  forallb (entry_ok tree_lock tree_prot) entry_points = true ->
  forall (progs : list (list string)),
    Forall (Forall (fun n => In n entry_points)) progs ->
    forall s,
      reachable (map (fun p => {| prog := concat (map (fun n => match lookup_summary n summaries with
                                                                | Some sm => project tree_lock tree_prot sm
                                                                | None => [] end) p);
                                  held := None |}) progs) s ->
      ~ race s.
Proof.
  intros Hok progs Hin s Hr.
  eapply race_free; [| exact Hr].
  rewrite forallb_forall in Hok.
  set (f := fun p : list string => map (fun n => match lookup_summary n summaries with
                                                | Some sm => project tree_lock tree_prot sm | None => [] end) p).
  replace (map _ progs) with (map (fun p => {| prog := concat p; held := None |}) (map f progs)).
  2:{ rewrite map_map. reflexivity. }
  apply well_started_of_summaries.
  rewrite Forall_map. eapply Forall_impl; [| exact Hin].
  intros p Hp. unfold f. rewrite Forall_map. eapply Forall_impl; [| exact Hp].
  intros n Hn. cbv beta. specialize (Hok n Hn). unfold entry_ok in Hok.
  destruct (lookup_summary n summaries); [exact Hok | discriminate].
Qed.
