(* C02 "every path resolves exactly as the documented procedure prescribes", part 2:
   the invariants of Proofs/TreeResolve.v on trees reached by add-only histories, and the top-level theorems. *)
From Coq Require Import String Permutation.
From Mux Require Import Model.Bytes Model.Regex Model.Context Model.Syntax Model.Tree Spec.Table Spec.Resolve
  Proofs.BytesFacts Proofs.MatchSound Proofs.TreeSafe Proofs.TreeOrder Proofs.MatchOrder.
From Mux Require Proofs.TreeText Proofs.TreeNames Proofs.TokensSplit Proofs.TreeFind Proofs.TreeLit
  Proofs.TreeGone Proofs.TreeFrame Proofs.TreeOnion.
From Mux Require Import Proofs.TreeResolve.

Local Open Scope nat_scope.

Notation NB := TokensSplit.NB.
Notation isparam := TreeNames.isparam.
Notation nbseg := TreeLit.nbseg.
Notation G := TreeLit.G.
Notation U := TreeGone.U.

(* ================================================================ Part A : structural invariants give [res1] *)

(* the canonical spelling of a token body: no empty rule after a colon ("{name:}") *)
Definition canon_body (b : bytes) : bool :=
  match span_until 58%N b with Some (_, []) => false | _ => true end.

Definition Lc (s : segment) : Prop :=
  isparam s = true -> forall b l, sval s = 123%N :: b ++ 125%N :: l -> ~ In 125%N b -> canon_body b = true.

(* exactly one child, a literal one *)
Definition SLn (n : node) : Prop := exists x, nchildren n = [x] /\ isparam (nseg x) = false.

Definition cok (c : node) : Prop :=
  (nhandlers c <> [] \/ nchildren c <> []) /\
  (isparam (nseg c) = true -> nhandlers c = [] -> ~ SLn c) /\
  Lc (nseg c).
Definition rd (n : node) : Prop := forall c, In c (nchildren n) -> cok c.
Definition RD (n : node) : Prop := all_nodes rd n.

(* ---------------------------------------------------------------- token bodies *)
Lemma body_inj : forall b1 b2, canon_body b1 = true -> canon_body b2 = true ->
  TokensSplit.b_ign b1 = TokensSplit.b_ign b2 -> TokensSplit.b_name b1 = TokensSplit.b_name b2 ->
  TokensSplit.b_rule b1 = TokensSplit.b_rule b2 -> b1 = b2.
Proof.
  intros b1 b2 C1 C2 Hi Hn Hr.
  unfold TokensSplit.b_ign, TokensSplit.b_name, TokensSplit.b_rule, TokensSplit.body_nr, canon_body in *.
  assert (DS : forall x, (exists n, x = 45%N :: n /\ TokensSplit.dash x = (true, n)) \/
                         TokensSplit.dash x = (false, x)).
  { intro x. destruct x as [|c x]; [now right|]. destruct (N.eq_dec c 45) as [->|Nc].
    - left. now exists x.
    - right. unfold TokensSplit.dash. destruct c as [|p]; [reflexivity|].
      repeat (destruct p as [p|p|]; try reflexivity). now elim Nc. }
  assert (D : forall x y, fst (TokensSplit.dash x) = fst (TokensSplit.dash y) ->
                          snd (TokensSplit.dash x) = snd (TokensSplit.dash y) -> x = y).
  { intros x y. destruct (DS x) as [[n1 [-> ->]]| ->]; destruct (DS y) as [[n2 [-> ->]]| ->]; cbn [fst snd].
    - intros _ ->. reflexivity.
    - discriminate.
    - discriminate.
    - intros _ E. exact E. }
  destruct (span_until 58%N b1) as [[n1 r1]|] eqn:S1; destruct (span_until 58%N b2) as [[n2 r2]|] eqn:S2;
    cbn [fst snd] in *.
  - apply TokensSplit.span_until_some in S1. apply TokensSplit.span_until_some in S2.
    destruct S1 as [-> _]. destruct S2 as [-> _]. rewrite (D n1 n2 Hi Hn), Hr. reflexivity.
  - subst r1. discriminate C1.
  - subst r2. discriminate C2.
  - exact (D b1 b2 Hi Hn).
Qed.

(* ---------------------------------------------------------------- common prefixes *)
Definition is_pre (p e : bytes) : Prop := exists r, e = p ++ r.

Lemma lcp_pre_l : forall a b, is_pre (lcp a b) a.
Proof.
  induction a as [|x a IH]; intro b; [now exists []|]. destruct b as [|y b]; [now exists (x :: a)|].
  cbn [lcp]. destruct (N.eqb x y); [|now exists (x :: a)]. destruct (IH b) as [r E]. exists r. cbn [app]. now rewrite <- E.
Qed.

Lemma lcp_pre_r : forall a b, is_pre (lcp a b) b.
Proof.
  induction a as [|x a IH]; intro b; [now exists b|]. destruct b as [|y b]; [now exists []|].
  cbn [lcp]. destruct (N.eqb_spec x y) as [->|]; [|now exists (y :: b)]. destruct (IH b) as [r E]. exists r. cbn [app]. now rewrite <- E.
Qed.

Lemma is_pre_trans : forall a b c, is_pre a b -> is_pre b c -> is_pre a c.
Proof. intros a b c [r1 ->] [r2 ->]. exists (r1 ++ r2). now rewrite app_assoc. Qed.

Lemma fold_lcp_pre : forall ls l, is_pre (fold_left lcp ls l) l /\ forall e, In e ls -> is_pre (fold_left lcp ls l) e.
Proof.
  induction ls as [|x ls IH]; intro l; cbn [fold_left].
  - split; [exists []; now rewrite app_nil_r | intros e []].
  - destruct (IH (lcp l x)) as [H1 H2]. split.
    + exact (is_pre_trans _ _ _ H1 (lcp_pre_l l x)).
    + intros e [<-|I]; [exact (is_pre_trans _ _ _ H1 (lcp_pre_r l x)) | now apply H2].
Qed.

Lemma lcp_all_pre : forall L e, In e L -> is_pre (lcp_all L) e.
Proof.
  intros L e I. destruct L as [|l ls]; [destruct I|]. cbn [lcp_all].
  destruct (fold_lcp_pre ls l) as [H1 H2]. destruct I as [<-|I]; [exact H1 | now apply H2].
Qed.

Lemma lcp_all_nil_in : forall L, In [] L -> lcp_all L = [].
Proof.
  intros L I. destruct (lcp_all_pre L [] I) as [r E]. symmetry in E. apply app_eq_nil in E. exact (proj1 E).
Qed.

Lemma lcp_all_two : forall L x1 r1 x2 r2, In (x1 :: r1) L -> In (x2 :: r2) L -> x1 <> x2 -> lcp_all L = [].
Proof.
  intros L x1 r1 x2 r2 I1 I2 Hne. destruct (lcp_all_pre L _ I1) as [s1 E1]. destruct (lcp_all_pre L _ I2) as [s2 E2].
  destruct (lcp_all L) as [|y p]; [reflexivity|]. cbn [app] in E1, E2. congruence.
Qed.

(* ---------------------------------------------------------------- alive and radix *)
Lemma bel_ne : forall f n, height n <= f -> cok n -> RD n -> bel n <> [].
Proof.
  induction f as [|f IH]; intros n Hh [Hal _] Hrd; [rewrite height_eq in Hh; lia|].
  rewrite bel_eq. destruct Hal as [Hh0|Hc].
  - unfold self_res. destruct (nhandlers n); [congruence | discriminate].
  - destruct (nchildren n) as [|c cs] eqn:E; [congruence|]. cbn [flat_map]. intro E0.
    apply app_eq_nil in E0. destruct E0 as [_ E0]. apply app_eq_nil in E0. destruct E0 as [E0 _].
    unfold blk in E0. apply map_eq_nil in E0. revert E0.
    assert (Ic : In c (nchildren n)) by (rewrite E; now left).
    apply IH.
    + pose proof (height_child n c Ic). lia.
    + exact (all_nodes_here _ _ Hrd c Ic).
    + exact (all_nodes_child _ n c Hrd Ic).
Qed.

Lemma blk_head_param : forall c r, isparam (nseg c) = true -> In r (blk c) -> head_lit (rts r) = [].
Proof.
  intros c r P I. unfold blk in I. apply in_map_iff in I. destruct I as [r0 [<- _]].
  cbn [wrap rts]. unfold seg_toks. now rewrite P.
Qed.

Lemma blk_head_lit : forall c b l r, isparam (nseg c) = false -> sval (nseg c) = b :: l -> In r (blk c) ->
  exists l', head_lit (rts r) = b :: l'.
Proof.
  intros c b l r P S I. unfold blk in I. apply in_map_iff in I. destruct I as [r0 [<- _]].
  cbn [wrap rts]. unfold seg_toks. rewrite P, S, head_lit_lit_cons. cbn [app]. now eexists.
Qed.

Section Struct.
Variable ic : icpts.

Lemma res1_here : forall n, G ic n -> U n -> RD n -> res1 ic n.
Proof.
  intros n Hg Hu Hrd.
  pose proof (all_nodes_here _ _ Hg) as [Hlab [Hnd _]].
  pose proof (all_nodes_here _ _ Hu) as [Hkeys Hcok].
  pose proof (all_nodes_here _ _ Hrd) as Hrd1.
  assert (Hpl : forall c, In c (nchildren n) -> isparam (nseg c) = true ->
            plabel ic (nseg c) /\ exists b, TokensSplit.chunk_ok (b, ssuffix (nseg c)) /\
              sval (nseg c) = TokensSplit.chunk_text (b, ssuffix (nseg c)) /\
              signore (nseg c) = TokensSplit.b_ign b /\ sname (nseg c) = TokensSplit.b_name b /\
              srule (nseg c) = TokensSplit.b_rule b).
  { intros c Ic P. exact (nbseg_plabel ic (nseg c) (Hlab c Ic) (proj1 (Hcok c Ic)) P). }
  assert (Hal : forall c, In c (nchildren n) -> bel c <> []).
  { intros c Ic. apply (bel_ne (height c) c (le_n _) (Hrd1 c Ic) (all_nodes_child _ n c Hrd Ic)). }
  constructor.
  - intros c Ic. split; [exact (Hlab c Ic) | exact (proj1 (Hcok c Ic))].
  - intros c Ic P ES. destruct (Hpl c Ic P) as [_ [b [_ [Ev _]]]]. apply (proj2 (Hcok c Ic)).
    rewrite Ev, ES. apply TreeGone.closed_chunk_nil.
  - exact Hnd.
  - (* keys *)
    assert (EK : TreeGone.keys TreeGone.pk1 (nchildren n) =
                 map (fun c => TreeGone.pkey (sval (nseg c))) (filter (fun c => isparam (nseg c)) (nchildren n))).
    { unfold TreeGone.keys, TreeGone.pk1. generalize (nchildren n) as cs0.
      induction cs0 as [|c0 cs0 IHc]; [reflexivity|].
      cbn [flat_map filter]. destruct (isparam (nseg c0)); cbn [map app]; now rewrite IHc. }
    rewrite EK in Hkeys.
    assert (Hsub : forall c, In c (filter (fun c => isparam (nseg c)) (nchildren n)) ->
              In c (nchildren n) /\ isparam (nseg c) = true) by (intros c I; now apply filter_In in I).
    revert Hkeys Hsub. generalize (filter (fun c => isparam (nseg c)) (nchildren n)) as L.
    induction L as [|x L IHL]; intros ND Hsub; [constructor|]. cbn [map] in *.
    inversion ND as [|y l Nx ND']; subst. constructor; [|apply IHL; [exact ND' | intros c I; apply Hsub; now right]].
    intro I. apply Nx. apply in_map_iff in I. destruct I as [y [Ey Iy]]. apply in_map_iff. exists y. split; [|exact Iy].
    destruct (Hsub x (or_introl eq_refl)) as [Ix Px]. destruct (Hsub y (or_intror Iy)) as [Iyc Py].
    destruct (Hpl x Ix Px) as [_ [bx [[[Nbx _] _] [Evx [Eix [Enx Erx]]]]]].
    destruct (Hpl y Iyc Py) as [_ [by_ [[[Nby _] _] [Evy [Eiy [Eny Ery]]]]]].
    cbn [fst] in Nbx, Nby.
    unfold key_of in Ey.
    assert (E1 : signore (nseg y) = signore (nseg x)) by congruence.
    assert (E2 : sname (nseg y) = sname (nseg x)) by congruence.
    assert (E3 : srule (nseg y) = srule (nseg x)) by congruence.
    assert (E4 : firstn 1 (ssuffix (nseg y)) = firstn 1 (ssuffix (nseg x))).
    { destruct (ssuffix (nseg y)) as [|a sa]; destruct (ssuffix (nseg x)) as [|c sc]; try reflexivity; try congruence.
      cbn [firstn]. congruence. }
    assert (Eb : by_ = bx).
    { apply body_inj; try congruence.
      - apply (proj2 (proj2 (Hrd1 y Iyc)) Py by_ (ssuffix (nseg y))); [exact Evy | exact (proj2 Nby)].
      - apply (proj2 (proj2 (Hrd1 x Ix)) Px bx (ssuffix (nseg x))); [exact Evx | exact (proj2 Nbx)]. }
    rewrite Evy, Evx, !TreeGone.pkey_chunk by (subst; apply Nbx || apply Nby). now rewrite Eb, E4.
  - exact Hal.
  - (* radix *)
    intros c Ic P Hs.
    destruct (Hrd1 c Ic) as [Halive [Hrad _]].
    pose proof (all_nodes_here _ _ (all_nodes_child _ n c Hg Ic)) as [Hlabc [Hndc _]].
    pose proof (all_nodes_here _ _ (all_nodes_child _ n c Hrd Ic)) as Hrdc.
    assert (Halc : forall d, In d (nchildren c) -> blk d <> []).
    { intros d Id E. unfold blk in E. apply map_eq_nil in E. revert E.
      apply (bel_ne (height d) d (le_n _) (Hrdc d Id)).
      exact (all_nodes_child _ c d (all_nodes_child _ n c Hrd Ic) Id). }
    rewrite bel_eq. unfold self_res. destruct (nhandlers c) as [|h0 hs] eqn:Eh.
    + cbn [app]. destruct (nchildren c) as [|x1 rest] eqn:Ec.
      { destruct Halive as [Hx|Hx]; congruence. }
      assert (I1 : In x1 (x1 :: rest)) by now left.
      destruct (blk x1) as [|e1 B1] eqn:EB1; [now elim (Halc x1 I1)|].
      assert (Ie1 : In e1 (blk x1)) by (rewrite EB1; now left).
      destruct (isparam (nseg x1)) eqn:P1.
      * apply lcp_all_nil_in. apply in_map_iff. exists e1. split; [exact (blk_head_param x1 e1 P1 Ie1)|].
        cbn [flat_map]. rewrite EB1. now left.
      * destruct rest as [|x2 rest].
        { elim (Hrad P eq_refl). exists x1. now split. }
        assert (I2 : In x2 (x1 :: x2 :: rest)) by (right; now left).
        destruct (blk x2) as [|e2 B2] eqn:EB2; [now elim (Halc x2 I2)|].
        assert (Ie2 : In e2 (blk x2)) by (rewrite EB2; now left).
        assert (In1 : In e1 (flat_map blk (x1 :: x2 :: rest))) by (cbn [flat_map]; rewrite EB1; now left).
        assert (In2 : In e2 (flat_map blk (x1 :: x2 :: rest))).
        { cbn [flat_map]. apply in_or_app. right. rewrite EB2. now left. }
        destruct (sval (nseg x1)) as [|b1 l1] eqn:S1; [now elim (proj1 (proj2 (Hlabc x1 I1)))|].
        destruct (blk_head_lit x1 b1 l1 e1 P1 S1 Ie1) as [l1' H1'].
        destruct (isparam (nseg x2)) eqn:P2.
        -- apply lcp_all_nil_in. apply in_map_iff. exists e2. split; [exact (blk_head_param x2 e2 P2 Ie2) | exact In2].
        -- destruct (sval (nseg x2)) as [|b2 l2] eqn:S2; [now elim (proj1 (proj2 (Hlabc x2 I2)))|].
           destruct (blk_head_lit x2 b2 l2 e2 P2 S2 Ie2) as [l2' H2'].
           apply (lcp_all_two _ b1 l1' b2 l2').
           ++ rewrite <- H1'. apply in_map_iff. now exists e1.
           ++ rewrite <- H2'. apply in_map_iff. now exists e2.
           ++ intros ->. rewrite !TreeLit.heads_cons in Hndc.
              assert (L1 : is_lit x1 = true) by (rewrite TreeLit.is_lit_isparam, P1; reflexivity).
              assert (L2 : is_lit x2 = true) by (rewrite TreeLit.is_lit_isparam, P2; reflexivity).
              rewrite (TreeLit.hd1_lit x1 b2 l1 L1 S1), (TreeLit.hd1_lit x2 b2 l2 L2 S2) in Hndc.
              cbn [app] in Hndc. inversion Hndc as [|y l Ny _]; subst. apply Ny. now left.
    + apply lcp_all_nil_in. cbn [app map rts head_lit]. now left.
Qed.

Theorem res1_all : forall n, G ic n -> U n -> RD n -> all_nodes (res1 ic) n.
Proof.
  intros n Hg. induction Hg as [n Hn Hc IH]. intros Hu Hrd. constructor.
  - apply res1_here; [now constructor | exact Hu | exact Hrd].
  - intros c Ic. apply (IH c Ic); [exact (all_nodes_child _ n c Hu Ic) | exact (all_nodes_child _ n c Hrd Ic)].
Qed.

End Struct.

(* ================================================================ Part B : [RD] is kept by Tree.Add *)

(* longestPrefix returns the first position where the two texts differ (or a '{' position) *)
Lemma lp_loop_max : forall s1 s2 i st en br, (st < Z.of_nat i)%Z ->
  lp_loop s1 s2 i st en br = st \/
  exists j, lp_loop s1 s2 i st en br = Z.of_nat j /\ i <= j /\
    forall x r1 y r2, skipn (j - i) s1 = x :: r1 -> skipn (j - i) s2 = y :: r2 -> x = 123%N \/ x <> y.
Proof.
  induction s1 as [|a s1 IH]; intros s2 i st en br Hst.
  - cbn [lp_loop]. destruct (Z.eqb en (Z.of_nat i - 1)); [now left|]. right. exists i.
    split; [reflexivity|]. split; [lia|]. intros x r1 y r2 E. rewrite Nat.sub_diag in E. discriminate E.
  - destruct s2 as [|b s2].
    + cbn [lp_loop]. destruct (Z.eqb en (Z.of_nat i - 1)); [now left|]. right. exists i.
      split; [reflexivity|]. split; [lia|]. intros x r1 y r2 _ E. rewrite Nat.sub_diag in E. discriminate E.
    + cbn [lp_loop].
      assert (Lift : forall st' en' br', (st' = st \/ (st' = Z.of_nat i /\ a = 123%N)) ->
                lp_loop s1 s2 (S i) st' en' br' = st \/
                exists j, lp_loop s1 s2 (S i) st' en' br' = Z.of_nat j /\ i <= j /\
                  forall x r1 y r2, skipn (j - i) (a :: s1) = x :: r1 -> skipn (j - i) (b :: s2) = y :: r2 ->
                                    x = 123%N \/ x <> y).
      { intros st' en' br' Hst'.
        assert (Hlt : (st' < Z.of_nat (S i))%Z) by (destruct Hst' as [->|[-> _]]; lia).
        destruct (IH s2 (S i) st' en' br' Hlt) as [E|[j [E [Hj Hp]]]].
        - destruct Hst' as [->|[-> Ea]]; [now left|]. right. exists i. split; [exact E|]. split; [lia|].
          intros x r1 y r2 E1 _. rewrite Nat.sub_diag in E1. cbn [skipn] in E1. left. congruence.
        - right. exists j. split; [exact E|]. split; [lia|].
          replace (j - i) with (S (j - S i)) by lia. cbn [skipn]. exact Hp. }
      destruct (N.eqb_spec a b) as [Eab|Nab]; cbn [negb].
      * destruct (N.eqb_spec a 123) as [E3|N3]; [apply Lift; right; now split|].
        destruct (N.eqb a 125); apply Lift; now left.
      * destruct (br || Z.eqb (en + 1) (Z.of_nat i)); [now left|]. right. exists i.
        split; [reflexivity|]. split; [lia|]. intros x r1 y r2 E1 E2. rewrite Nat.sub_diag in E1, E2.
        cbn [skipn] in E1, E2. right. congruence.
Qed.

Lemma longest_prefix_differ : forall x r1 y r2, x <> y -> longest_prefix (x :: r1) (y :: r2) = 0%Z.
Proof.
  intros x r1 y r2 H. unfold longest_prefix. cbn [lp_loop]. apply N.eqb_neq in H. rewrite H. reflexivity.
Qed.

Lemma replace_nth_single : forall (A : Type) (c : list A) i ch ch' x, nth_error c i = Some ch ->
  replace_nth i ch' c = [x] -> c = [ch] /\ x = ch'.
Proof.
  intros A c i ch ch' x Hi E. destruct c as [|a c]; [destruct i; discriminate Hi|].
  destruct i as [|i]; cbn [replace_nth nth_error] in *.
  - injection Hi as ->. injection E as <- ->. now split.
  - destruct c as [|b c]; [destruct i; discriminate Hi|]. destruct i; discriminate E.
Qed.

Lemma remove_nth_nil : forall (A : Type) (c : list A) i ch, nth_error c i = Some ch -> remove_nth i c = [] -> c = [ch].
Proof.
  intros A c i ch Hi E. destruct c as [|a c]; [destruct i; discriminate Hi|].
  destruct i as [|i]; cbn [remove_nth nth_error] in *; [injection Hi as ->; now subst c | discriminate E].
Qed.

Lemma ssort_single : forall keyed x, ssort keyed = [x] -> map snd keyed = [x].
Proof.
  intros keyed x E. pose proof (TreeLit.ssort_perm keyed) as P. rewrite E in P.
  apply Permutation_length_1_inv in P. exact P.
Qed.

Lemma ssort_not_nil : forall keyed, keyed <> [] -> ssort keyed <> [].
Proof.
  intros keyed H E. pose proof (TreeLit.ssort_perm keyed) as P. rewrite E in P.
  apply Permutation_nil in P. apply map_eq_nil in P. congruence.
Qed.

Lemma RD_intro : forall n, (forall c, In c (nchildren n) -> cok c /\ RD c) -> RD n.
Proof.
  intros n H. apply all_nodes_intro; [intros c Ic; exact (proj1 (H c Ic)) | intros c Ic; exact (proj2 (H c Ic))].
Qed.

Lemma RD_child : forall n c, RD n -> In c (nchildren n) -> cok c /\ RD c.
Proof. intros n c H Ic. split; [exact (all_nodes_here _ _ H c Ic) | exact (all_nodes_child _ n c H Ic)]. Qed.

Lemma RD_same_children : forall n n', RD n -> nchildren n' = nchildren n -> RD n'.
Proof. intros n n' H E. apply RD_intro. rewrite E. intros c Ic. exact (RD_child n c H Ic). Qed.

Section Add.
Variable ic : icpts.

(* split_nb of Proofs/TreeLit.v with the kinds of the pieces *)
Lemma split_nb2 : forall sch seg l, nbseg ic sch -> nbseg ic seg ->
  (0 < similarity sch seg)%Z -> l = Z.to_nat (similarity sch seg) ->
  (forall s1, new_segment ic (firstn l (sval sch)) = Ok s1 -> nbseg ic s1 /\ isparam s1 = isparam sch) /\
  (forall s2, new_segment ic (skipn l (sval sch)) = Ok s2 -> l < length (sval sch) ->
     nbseg ic s2 /\ isparam s2 = false /\ NB (sval s2)) /\
  (forall s, new_segment ic (skipn l (sval seg)) = Ok s -> l < length (sval seg) ->
     nbseg ic s /\ isparam s = false /\ NB (sval s)).
Proof.
  intros sch seg l Hch Hseg Hpos Hl.
  destruct (TreeNames.similarity_pos _ _ Hpos) as [Hty Hlp].
  pose proof (TreeNames.stype_eqb_isparam _ _ Hty) as Hip.
  pose proof (TreeOnion.similarity_cpre sch seg) as [C1 [C2 C3]]. rewrite <- Hl in C1, C2, C3.
  assert (L0 : 0 < l) by lia.
  assert (Hne : forall (v : bytes) k, k < length v -> skipn k v <> []).
  { intros v k Hk E. apply (f_equal (@length N)) in E. rewrite skipn_length in E. simpl in E. lia. }
  assert (Hlit : forall v s, new_segment ic v = Ok s -> v <> [] -> NB v ->
            nbseg ic s /\ isparam s = false /\ NB (sval s)).
  { intros v s H Hv Hnb. destruct (TreeLit.nbseg_new_nb ic v s H Hv Hnb) as [R ->]. split; [exact R|].
    split; [reflexivity | exact Hnb]. }
  destruct Hch as [Nch [Ech [Lch Pch]]]. destruct Hseg as [Nseg [Eseg [Lseg Pseg]]].
  destruct (isparam sch) eqn:Qch.
  - specialize (Pch eq_refl). specialize (Pseg Hip).
    pose proof (TreeLit.pshape_tok1 _ Pch) as Tv. pose proof (TreeLit.pshape_tok1 _ Pseg) as Tw.
    destruct (TreeLit.pshape_close _ Pseg) as [ew [Iw Cw]]. destruct (TreeLit.pshape_close _ Pch) as [ev [Iv0 Cv]].
    assert (Lt : ew < l).
    { destruct (TreeNames.longest_prefix_tok _ _ _ Tw Iw (TreeNames.tok1_index _ Tv)
                  (TreeNames.index_byte_In _ _ _ Iv0)) as [Gt|Gt]; lia. }
    assert (Iv : index_byte (sval sch) 125%N = Some ew) by exact (TreeNames.index_byte_cpre _ _ _ _ _ C3 Iw Lt).
    rewrite Iv in Iv0. injection Iv0 as <-.
    destruct (Cv l Lt) as [NBv PSv]. destruct (Cw l Lt) as [NBw _].
    split; [|split].
    + intros s1 H1. exact (TreeLit.nbseg_new_param ic _ _ H1 PSv).
    + intros s2 H2 Hlt. exact (Hlit _ _ H2 (Hne _ _ Hlt) NBv).
    + intros s H2 Hlt. exact (Hlit _ _ H2 (Hne _ _ Hlt) NBw).
  - specialize (Lch eq_refl). specialize (Lseg Hip).
    split; [|split].
    + intros s1 H1.
      assert (Hf : firstn l (sval sch) <> []).
      { intro E. apply (f_equal (@length N)) in E. rewrite firstn_length in E. simpl in E. lia. }
      destruct (Hlit _ _ H1 Hf (TreeLit.NB_firstn _ l Lch)) as [R [Q _]]. now split.
    + intros s2 H2 Hlt. exact (Hlit _ _ H2 (Hne _ _ Hlt) (TreeLit.NB_skipn _ l Lch)).
    + intros s H2 Hlt. exact (Hlit _ _ H2 (Hne _ _ Hlt) (TreeLit.NB_skipn _ l Lseg)).
Qed.

(* after the split the two remainders start with different bytes: the new one becomes a sibling *)
Lemma split_rest_sim : forall sch seg l s2 s, nbseg ic sch -> nbseg ic seg ->
  (0 < similarity sch seg)%Z -> l = Z.to_nat (similarity sch seg) ->
  l < length (sval sch) -> l < length (sval seg) ->
  new_segment ic (skipn l (sval sch)) = Ok s2 -> new_segment ic (skipn l (sval seg)) = Ok s ->
  similarity s2 s = 0%Z.
Proof.
  intros sch seg l s2 s Hch Hseg Hpos Hl L1 L2 N2 Ns.
  destruct (split_nb2 sch seg l Hch Hseg Hpos Hl) as [_ [F2 F3]].
  destruct (F2 s2 N2 L1) as [_ [_ NB2]]. destruct (F3 s Ns L2) as [_ [_ NBs]].
  rewrite (TreeText.new_segment_value _ _ _ N2) in NB2. rewrite (TreeText.new_segment_value _ _ _ Ns) in NBs.
  destruct (TreeNames.similarity_pos _ _ Hpos) as [_ Hlp]. rewrite Hlp in Hpos, Hl.
  unfold longest_prefix in Hpos, Hl.
  destruct (lp_loop_max (sval seg) (sval sch) 0 (-10)%Z (-10)%Z false) as [E|[j [E [_ Hp]]]]; [lia|lia|].
  rewrite E in Hl. rewrite Nat2Z.id in Hl. subst j. rewrite Nat.sub_0_r in Hp.
  destruct (skipn l (sval seg)) as [|x r1] eqn:E1.
  { apply (f_equal (@length N)) in E1. rewrite skipn_length in E1. cbn in E1. lia. }
  destruct (skipn l (sval sch)) as [|y r2] eqn:E2.
  { apply (f_equal (@length N)) in E2. rewrite skipn_length in E2. cbn in E2. lia. }
  assert (Hxy : x <> y).
  { destruct (Hp x r1 y r2 eq_refl eq_refl) as [E3|Hn]; [|exact Hn]. exfalso. apply (proj1 NBs). left. now symmetry. }
  unfold similarity. rewrite (TreeText.new_segment_value _ _ _ N2), (TreeText.new_segment_value _ _ _ Ns).
  cbn [beqb]. apply N.eqb_neq in Hxy. rewrite Hxy. cbn [andb].
  destruct (negb (stype_eqb (styp s) (styp s2))); [reflexivity|]. apply longest_prefix_differ. now apply N.eqb_neq.
Qed.

(* a literal child and a parameter segment never share a prefix *)
Lemma sim_lit_param : forall sy seg, nbseg ic sy -> nbseg ic seg -> isparam sy = false -> isparam seg = true ->
  similarity sy seg = 0%Z.
Proof.
  intros sy seg [_ [_ [Ly _]]] [_ [_ [_ Ps]]] Py Pp. unfold similarity.
  destruct (Ps Pp) as [body [suf [Ev _]]]. specialize (Ly Py).
  destruct (beqb_spec (sval seg) (sval sy)) as [E|_].
  - exfalso. apply (proj1 Ly). rewrite <- E, Ev. now left.
  - unfold isparam in Py, Pp. destruct (stype_eqb (styp seg) (styp sy)) eqn:T; [|reflexivity].
    exfalso. destruct (styp seg), (styp sy); cbn in *; congruence.
Qed.

Definition kR (k : node -> res node) : Prop :=
  forall x x', G ic x -> RD x -> Lc (nseg x) -> k x = Ok x' -> RD x' /\ nseg x' = nseg x /\ cok x'.

Definition post (n : node) (seg : segment) (n' : node) : Prop :=
  RD n' /\ nseg n' = nseg n /\ nhandlers n' = nhandlers n /\ nchildren n' <> [] /\
  (SLn n' -> (nchildren n = [] /\ isparam seg = false) \/
             (SLn n /\ exists y, In y (nchildren n) /\ similarity (nseg y) seg <> 0%Z)).

Lemma cok_post_cok : forall p s p', cok p -> post p s p' -> cok p'.
Proof.
  intros p s p' [Hal [Hrad Hlc]] [_ [Es [Eh [Hne Hsl]]]]. split; [now right|]. split; [|now rewrite Es].
  intros P Hh S. rewrite Es in P. rewrite Eh in Hh.
  destruct (Hsl S) as [[Hc _]|[S0 _]].
  - destruct Hal as [Hx|Hx]; congruence.
  - exact (Hrad P Hh S0).
Qed.

Lemma cok_post_zero : forall p s p', Lc (nseg p) ->
  (forall y, In y (nchildren p) -> similarity (nseg y) s = 0%Z) -> nchildren p <> [] ->
  post p s p' -> cok p'.
Proof.
  intros p s p' Hlc Hz Hc [_ [Es [Eh [Hne Hsl]]]]. split; [now right|]. split; [|now rewrite Es].
  intros _ _ S. destruct (Hsl S) as [[Hc0 _]|[_ [y [Iy Hy]]]]; [congruence | exact (Hy (Hz y Iy))].
Qed.

Lemma cok_post_param : forall p s p', G ic p -> nbseg ic s -> isparam s = true -> Lc (nseg p) ->
  post p s p' -> cok p'.
Proof.
  intros p s p' Hg Hs Ps Hlc [_ [Es [Eh [Hne Hsl]]]]. split; [now right|]. split; [|now rewrite Es].
  intros _ _ S. destruct (Hsl S) as [[_ Hc0]|[[x [Ex Px]] [y [Iy Hy]]]]; [congruence|].
  rewrite Ex in Iy. destruct Iy as [<-|[]]. apply Hy. apply sim_lit_param; try assumption.
  apply (proj1 (all_nodes_here _ _ Hg)). rewrite Ex. now left.
Qed.

Lemma scan_sim_zero : forall seg cs i, (forall x, In x cs -> similarity (nseg x) seg = 0%Z) ->
  scan_sim seg cs i None = (None, None).
Proof.
  intros seg cs. induction cs as [|x cs IH]; intros i H; [reflexivity|]. cbn [scan_sim]. cbv zeta.
  rewrite (H x (or_introl eq_refl)). cbn [Z.eqb Z.ltb Z.compare]. apply IH. intros y Iy. apply H. now right.
Qed.

Lemma RD_sorted : forall n keyed n', sort_node n keyed = Ok n' ->
  (forall x, In x (map snd keyed) -> cok x /\ RD x) -> RD n'.
Proof.
  intros n keyed n' H Hk. apply sort_node_inv in H. destruct H as [ix [_ ->]]. apply RD_intro.
  rewrite nchildren_set_children. intros c Ic. apply Hk. now apply In_ssort.
Qed.

Lemma add_segment_RD : forall fuel n seg k n', G ic n -> RD n -> nbseg ic seg -> Lc seg -> kR k ->
  add_segment fuel ic n seg k = Ok n' -> post n seg n'.
Proof.
  induction fuel as [|f IH]; intros n seg k n' Hn Hrd Hseg Hlc Hk H; [discriminate|].
  rewrite add_segment_S in H. cbv zeta in H.
  pose proof (all_nodes_here _ _ Hn) as [Hlab [Hnd Hix]].
  destruct (scan_sim seg (nchildren n) 0 None) as [[i|] best] eqn:SC.
  - (* identical child *)
    destruct (nth_error (nchildren n) i) as [ch|] eqn:NTH; [|discriminate].
    apply bind_ok in H. destruct H as [ch' [K H]]. injection H as <-.
    assert (Ich : In ch (nchildren n)) by (eapply nth_error_In; eassumption).
    destruct (RD_child n ch Hrd Ich) as [Cch Rch].
    destruct (Hk ch ch' (all_nodes_child _ n ch Hn Ich) Rch (proj2 (proj2 Cch)) K) as [Rch' [Es Cch']].
    destruct (TreeOnion.scan_sim_some _ _ _ _ _ _ SC) as [ch0 [_ [N0 S0]]].
    rewrite Nat.sub_0_r, NTH in N0. injection N0 as <-.
    split; [|split; [apply TreeNames.nseg_set_children | split; [apply nhandlers_set_children | split]]].
    + apply RD_intro. rewrite nchildren_set_children. intros c Ic. apply In_replace_nth in Ic.
      destruct Ic as [->|Ic]; [now split | exact (RD_child n c Hrd Ic)].
    + rewrite nchildren_set_children. intro E. apply (f_equal (@length node)) in E.
      rewrite length_replace_nth in E. destruct (nchildren n); [destruct Ich | discriminate E].
    + intros [x [Ex Px]]. rewrite nchildren_set_children in Ex.
      destruct (replace_nth_single _ _ _ _ _ _ NTH Ex) as [Ec ->]. right. split.
      * exists ch. split; [exact Ec | now rewrite <- Es].
      * exists ch. split; [exact Ich | rewrite S0; discriminate].
  - destruct best as [[i l]|].
    + (* a child shares a prefix *)
      destruct (nth_error (nchildren n) i) as [ch|] eqn:NTH; [|discriminate].
      assert (Ich : In ch (nchildren n)) by (eapply nth_error_In; eassumption).
      pose proof (all_nodes_child _ n ch Hn Ich) as Hch.
      destruct (RD_child n ch Hrd Ich) as [Cch Rch].
      assert (Hpos : (0 < l)%Z).
      { apply (TreeNames.scan_sim_pos _ _ _ _ _ _ SC). intros j' l' E. discriminate E. }
      assert (Hsim : similarity (nseg ch) seg = l).
      { destruct (TreeOnion.scan_sim_best _ _ _ _ _ _ SC) as [E|[ch0 [_ [N0 S0]]]]; [discriminate E|].
        rewrite Nat.sub_0_r, NTH in N0. now injection N0 as <-. }
      rewrite <- Hsim in Hpos.
      pose proof (f_equal Z.to_nat (eq_sym Hsim)) as Hl.
      destruct (split_nb2 (nseg ch) seg (Z.to_nat l) (Hlab ch Ich) Hseg Hpos Hl) as [F1 [F2 F3]].
      pose proof (TreeOnion.similarity_cpre (nseg ch) seg) as [C1 [C2 _]]. rewrite Hsim in C1, C2.
      (* the continuation on a parent that is fine, or on the fresh upper half *)
      assert (Hcont : forall p p', G ic p -> RD p -> Lc (nseg p) ->
                (cok p \/ (nchildren p <> [] /\ Z.to_nat l < length (sval (nseg ch)) /\
                           forall y, In y (nchildren p) -> new_segment ic (skipn (Z.to_nat l) (sval (nseg ch))) = Ok (nseg y))) ->
                cont_of f ic seg (Z.to_nat l) k p = Ok p' -> RD p' /\ nseg p' = nseg p /\ cok p').
      { intros p p' Gp Rp Lp Hp Hc. unfold cont_of in Hc.
        destruct (Nat.eqb_spec (length (sval seg)) (Z.to_nat l)) as [E|NE]; [exact (Hk _ _ Gp Rp Lp Hc)|].
        apply bind_ok in Hc. destruct Hc as [rest [R Hc]].
        apply bind_ok in Hc. destruct Hc as [s [S Hc]].
        apply TreeText.slice_or_panic_ok in R. apply TreeText.gslice_to_end in R. subst rest.
        assert (Lt : Z.to_nat l < length (sval seg)) by lia.
        destruct (F3 s S Lt) as [Hs [Ps _]].
        assert (Ls : Lc s) by (intro Q; congruence).
        pose proof (IH p s k p' Gp Rp Hs Ls Hk Hc) as Po.
        split; [exact (proj1 Po)|]. split; [exact (proj1 (proj2 Po))|].
        destruct Hp as [Cp|[Hne [Lt2 Hy]]]; [exact (cok_post_cok p s p' Cp Po)|].
        apply (cok_post_zero p s p' Lp); [|exact Hne | exact Po].
        intros y Iy. exact (split_rest_sim (nseg ch) seg (Z.to_nat l) (nseg y) s (Hlab ch Ich) Hseg Hpos Hl Lt2 Lt (Hy y Iy) S). }
      destruct (Nat.leb_spec (length (sval (nseg ch))) (Z.to_nat l)) as [LE|GT].
      * apply bind_ok in H. destruct H as [ch' [K H]]. injection H as <-.
        destruct (Hcont ch ch' Hch Rch (proj2 (proj2 Cch)) (or_introl Cch) K) as [Rch' [Es Cch']].
        split; [|split; [apply TreeNames.nseg_set_children | split; [apply nhandlers_set_children | split]]].
        -- apply RD_intro. rewrite nchildren_set_children. intros c Ic. apply In_replace_nth in Ic.
           destruct Ic as [->|Ic]; [now split | exact (RD_child n c Hrd Ic)].
        -- rewrite nchildren_set_children. intro E. apply (f_equal (@length node)) in E.
           rewrite length_replace_nth in E. destruct (nchildren n); [destruct Ich | discriminate E].
        -- intros [x [Ex Px]]. rewrite nchildren_set_children in Ex.
           destruct (replace_nth_single _ _ _ _ _ _ NTH Ex) as [Ec ->]. right. split.
           ++ exists ch. split; [exact Ec | now rewrite <- Es].
           ++ exists ch. split; [exact Ich | lia].
      * apply bind_ok in H. destruct H as [[s1 s2] [SP H]].
        apply bind_ok in H. destruct H as [ret [SR H]].
        apply bind_ok in H. destruct H as [ret' [K H]].
        destruct (TreeNames.seg_split_inv _ _ _ _ _ SP) as [N1 N2].
        destruct (F1 _ N1) as [L1 Q1]. destruct (F2 _ N2 GT) as [L2 [Q2 NB2]].
        pose proof (TreeText.seg_split_value _ _ _ _ _ SP) as Vsp.
        assert (Hret : G ic ret /\ nseg ret = s1).
        { apply (TreeLit.G_sort ic _ _ _ SR).
          - rewrite map_snd_with_prio. intros x [<-|[]]. rewrite TreeNames.nseg_set_seg.
            split; [exact L2 | now apply TreeLit.G_set_seg].
          - rewrite map_snd_with_prio. apply TreeLit.NoDup_heads_one. }
        destruct Hret as [Gret Sret].
        assert (Cret : nchildren ret = [set_seg ch s2]).
        { apply sort_node_inv in SR. destruct SR as [ix [_ ->]]. rewrite nchildren_set_children. reflexivity. }
        assert (Clow : cok (set_seg ch s2) /\ RD (set_seg ch s2)).
        { split; [|exact (RD_same_children ch _ Rch (nchildren_set_seg ch s2))].
          destruct Cch as [Hal _]. split; [|split].
          - rewrite nhandlers_set_seg, nchildren_set_seg. exact Hal.
          - rewrite TreeNames.nseg_set_seg. congruence.
          - rewrite TreeNames.nseg_set_seg. intro Q. congruence. }
        assert (Rret : RD ret).
        { apply RD_intro. rewrite Cret. intros c [<-|[]]. exact Clow. }
        assert (Ls1 : Lc s1).
        { intros P1 b l0 Ev Nb. rewrite Q1 in P1. apply (proj2 (proj2 Cch) P1 b (l0 ++ sval s2)); [|exact Nb].
          rewrite <- Vsp, Ev. cbn [app]. now rewrite <- app_assoc. }
        assert (Hret' : RD ret' /\ nseg ret' = nseg ret /\ cok ret').
        { apply (Hcont ret ret' Gret Rret); [now rewrite Sret | | exact K].
          right. split; [rewrite Cret; discriminate|]. split; [exact GT|].
          intros y Iy. rewrite Cret in Iy. destruct Iy as [<-|[]]. now rewrite TreeNames.nseg_set_seg. }
        destruct Hret' as [Rret' [Sret' Cret']].
        split; [|split; [exact (sort_node_nseg _ _ _ H) | split; [exact (sort_node_handlers _ _ _ H) | split]]].
        -- apply (RD_sorted _ _ _ H). intros x Ix. apply In_keyed_app in Ix. destruct Ix as [Ix| ->].
           ++ apply In_remove_nth in Ix. exact (RD_child n x Hrd Ix).
           ++ now split.
        -- apply sort_node_inv in H. destruct H as [ix [_ ->]]. rewrite nchildren_set_children.
           apply ssort_not_nil. destruct (with_prio (remove_nth i (nchildren n))); discriminate.
        -- intros [x [Ex Px]]. apply sort_node_inv in H. destruct H as [ix [_ ->]].
           rewrite nchildren_set_children in Ex. apply ssort_single in Ex.
           rewrite map_app, map_snd_with_prio in Ex. cbn [map snd] in Ex.
           destruct (remove_nth i (nchildren n)) as [|o os] eqn:Er; [|destruct os; discriminate Ex].
           cbn [app] in Ex. injection Ex as <-.
           pose proof (remove_nth_nil _ _ _ _ NTH Er) as Ec. right. split.
           ++ exists ch. split; [exact Ec|]. rewrite <- Q1, <- Sret, <- Sret'. exact Px.
           ++ exists ch. split; [exact Ich | lia].
    + (* a new child *)
      apply bind_ok in H. destruct H as [nn' [K H]].
      assert (Rleaf : RD (new_node n seg)) by (apply RD_intro; intros c []).
      destruct (Hk (new_node n seg) nn' (TreeLit.G_leaf ic _ _ _ _) Rleaf Hlc K) as [Rnn' [Snn' Cnn']].
      cbn [new_node nseg] in Snn'.
      split; [|split; [exact (sort_node_nseg _ _ _ H) | split; [exact (sort_node_handlers _ _ _ H) | split]]].
      * apply (RD_sorted _ _ _ H). intros x Ix. apply In_keyed_app in Ix. destruct Ix as [Ix| ->].
        -- exact (RD_child n x Hrd Ix).
        -- now split.
      * apply sort_node_inv in H. destruct H as [ix [_ ->]]. rewrite nchildren_set_children.
        apply ssort_not_nil. destruct (with_prio (nchildren n)); discriminate.
      * intros [x [Ex Px]]. apply sort_node_inv in H. destruct H as [ix [_ ->]].
        rewrite nchildren_set_children in Ex. apply ssort_single in Ex.
        rewrite map_app, map_snd_with_prio in Ex. cbn [map snd] in Ex.
        destruct (nchildren n) as [|o os]; [|destruct os; discriminate Ex].
        cbn [app] in Ex. injection Ex as <-. left. split; [reflexivity | now rewrite <- Snn'].
Qed.

End Add.

(* ================================================================ Part C : registration, middlewares, histories *)

Definition pat_canon (p : bytes) : Prop :=
  forall l0 cs, p = l0 ++ TokensSplit.render cs -> NB l0 -> Forall TokensSplit.chunk_ok cs ->
    Forall (fun c => canon_body (fst c) = true) cs.

Section AddTree.
Variable ic : icpts.

Lemma get_node_RD : forall segs fuel n upd n', G ic n -> RD n -> Forall (nbseg ic) segs -> Forall Lc segs ->
  (forall s, In s (tl segs) -> isparam s = true) -> kR ic upd ->
  get_node fuel ic n segs upd = Ok n' -> exists seg, hd_error segs = Some seg /\ post n seg n'.
Proof.
  induction segs as [|seg rest IH]; intros fuel n upd n' Hn Hrd HL HC HP Hk H; [discriminate|].
  inversion HL as [|s0 r0 Lseg Lrest]; subst. inversion HC as [|s1 r1 Cseg Crest]; subst.
  exists seg. split; [reflexivity|].
  destruct rest as [|seg2 rest].
  - cbn [get_node] in H. exact (add_segment_RD ic _ _ _ _ _ Hn Hrd Lseg Cseg Hk H).
  - cbn [get_node] in H. refine (add_segment_RD ic _ _ _ _ _ Hn Hrd Lseg Cseg _ H).
    intros x x' Gx Rx Lx Hc.
    assert (HP' : forall s, In s (tl (seg2 :: rest)) -> isparam s = true).
    { intros s Is. apply HP. cbn [tl]. now right. }
    destruct (IH fuel x upd x' Gx Rx Lrest Crest HP' Hk Hc) as [sg [Es Po]]. cbn [hd_error] in Es. injection Es as <-.
    split; [exact (proj1 Po)|]. split; [exact (proj1 (proj2 Po))|].
    apply (cok_post_param ic x seg2 x' Gx); [now inversion Lrest | | exact Lx | exact Po].
    apply HP. cbn [tl]. now left.
Qed.

Lemma add_methods_kR : forall trace router h pattern mws ms, kR ic (add_methods trace router h pattern mws ms).
Proof.
  intros trace router h pattern mws ms x x' Gx Rx Lx H. unfold add_methods in H.
  apply bind_ok in H. destruct H as [u [_ H]]. injection H as <-.
  split; [exact (RD_same_children x _ Rx (nchildren_set_handlers _ _ _))|].
  split; [apply TreeNames.nseg_set_handlers|].
  split; [|split; [|now rewrite TreeNames.nseg_set_handlers]].
  - left. rewrite nhandlers_set_handlers.
    match goal with |- (if ahas M405 ?hs then _ else _) <> [] => destruct (ahas M405 hs) eqn:A end.
    + intro E. rewrite E in A. discriminate A.
    + match goal with |- aset ?k ?v ?l <> [] => destruct l as [|[k0 v0] l0]; cbn [aset]; [discriminate|] end.
      destruct (beqb M405 k0); discriminate.
  - intros _ Hh. exfalso. rewrite nhandlers_set_handlers in Hh. revert Hh.
    match goal with |- (if ahas M405 ?hs then _ else _) = [] -> False => destruct (ahas M405 hs) eqn:A end.
    + intro E. rewrite E in A. discriminate A.
    + match goal with |- aset ?k ?v ?l = [] -> False => destruct l as [|[k0 v0] l0]; cbn [aset]; [discriminate|] end.
      destruct (beqb M405 k0); discriminate.
Qed.

Lemma split_props : forall p ts segs, tokens p = Some ts -> pat_canon p -> split ic p = Ok segs ->
  Forall Lc segs /\ (forall s, In s (tl segs) -> isparam s = true).
Proof.
  intros p ts segs T HC H.
  destruct (TokensSplit.tokens_shape p ts T) as [l0 [cs [E [Hne [N0 [Hcs _]]]]]].
  pose proof (HC l0 cs E N0 Hcs) as Hcan. subst p.
  destruct (TokensSplit.split_ok_shape ic l0 cs segs N0 Hcs Hne H) as [rest [-> [F _]]].
  assert (HR : Forall Lc rest /\ forall s, In s rest -> isparam s = true).
  { clear H Hne HC T. induction F as [|s c rest cs CS F IH]; [split; [constructor | intros s []]|].
    inversion Hcs as [|c0 cs0 Hc Hcs']; subst. inversion Hcan as [|c1 cs1 Hb Hcan']; subst.
    destruct (IH Hcs' Hcan') as [IH1 IH2].
    destruct (TokensSplit.chunk_seg_ok _ _ _ _ _ _ _ CS) as [Hv [_ [_ [_ [_ [P _]]]]]].
    split.
    - constructor; [|exact IH1]. intros _ b l Ev Nb. rewrite Hv in Ev. unfold TokensSplit.chunk_text in Ev.
      injection Ev as Ev. destruct Hc as [[[_ Hb5] _] _].
      destruct (TreeGone.app_until 125%N (fst c) b (snd c) l Hb5 Nb Ev) as [<- _]. exact Hb.
    - intros s0 [<-|I0]; [exact P | now apply IH2]. }
  destruct HR as [HR1 HR2]. split.
  - apply Forall_app. split; [|exact HR1]. destruct l0 as [|c l0]; [constructor|].
    cbn [TokensSplit.lit_segs]. constructor; [|constructor]. intro Q. discriminate Q.
  - intros s Is. apply HR2. destruct l0 as [|c l0]; cbn [TokensSplit.lit_segs app tl] in Is; [|exact Is].
    destruct rest; [destruct Is | now right].
Qed.

Lemma rd_add : forall t p ts h mws ms t', TreeLit.tree_lit_ok ic t -> RD (troot t) ->
  tokens p = Some ts -> pat_canon p -> tree_add t p h mws ms = Ok t' -> RD (troot t').
Proof.
  intros t p ts h mws ms t' [Hic Hg] Hrd T HC H. unfold tree_add in H. cbv zeta in H.
  apply bind_ok in H. destruct H as [amb [_ H]].
  assert (Hm : forall ms0,
    (do segs <- split (tic t) p;
     do _ <- check_methods (has_trace t)
               (match find (tree_fuel t + length p + 2) (troot t) p with Some n => nhandlers n | None => [] end) [] ms0;
     do root' <- get_node (tree_fuel t + length p + 2) (tic t) (troot t) segs
                   (add_methods (has_trace t) (tname t) h p mws ms0);
     Ok (tree_build_methods t root' 1 ms0)) = Ok t' -> RD (troot t')).
  { intros ms0 H0. rewrite Hic in H0.
    apply bind_ok in H0. destruct H0 as [segs [SP H0]].
    apply bind_ok in H0. destruct H0 as [u [_ H0]].
    apply bind_ok in H0. destruct H0 as [root' [GN H0]]. injection H0 as <-.
    pose proof (TreeLit.split_nbseg ic p ts segs T SP) as HL.
    destruct (split_props p ts segs T HC SP) as [HLc HP].
    destruct (get_node_RD segs _ _ _ _ Hg Hrd HL HLc HP (add_methods_kR _ _ _ _ _ _) GN) as [sg [_ Po]].
    unfold tree_build_methods. cbn [troot].
    exact (RD_same_children root' _ (proj1 Po) (nchildren_set_handlers _ _ _)). }
  destruct amb as [[p0 [|]]|]; [discriminate H | exact (Hm _ H) | exact (Hm _ H)].
Qed.

End AddTree.

(* ---------------------------------------------------------------- middlewares *)
Lemma cok_shape : forall n n', nseg n' = nseg n -> (nhandlers n' = [] <-> nhandlers n = []) ->
  map nseg (nchildren n') = map nseg (nchildren n) -> cok n -> cok n'.
Proof.
  intros n n' Es Eh Ec [Hal [Hrad Hlc]]. split; [|split; [|now rewrite Es]].
  - destruct Hal as [Hx|Hx]; [left; intro E; apply Hx; now apply Eh|].
    right. intro E. apply Hx. rewrite E in Ec. cbn [map] in Ec. symmetry in Ec. now apply map_eq_nil in Ec.
  - intros P Hh [x [Ex Px]]. rewrite Es in P. apply (Hrad P (proj1 Eh Hh)).
    rewrite Ex in Ec. cbn [map] in Ec. unfold SLn. destruct (nchildren n) as [|y ys]; [discriminate Ec|].
    destruct ys; [|discriminate Ec]. cbn [map] in Ec. injection Ec as Ec. exists y. split; [reflexivity | congruence].
Qed.

Lemma apply_mw_node_RD : forall fuel router mws n, RD n -> RD (apply_mw_node fuel router mws n).
Proof.
  induction fuel as [|f IH]; intros router mws n Hn; [exact Hn|].
  destruct n as [s p i h x c]. cbn [apply_mw_node]. apply RD_intro. cbn [nchildren].
  intros ch Ich. apply in_map_iff in Ich. destruct Ich as [c0 [<- I0]].
  destruct (RD_child _ c0 Hn I0) as [C0 R0]. split; [|now apply IH].
  apply (cok_shape c0); [apply apply_mw_node_nseg | | | exact C0].
  - destruct f as [|f']; [reflexivity|]. destruct c0 as [s0 p0 i0 h0 x0 cs0]. cbn [apply_mw_node nhandlers].
    split; intro E; [now apply map_eq_nil in E | now rewrite E].
  - destruct f as [|f']; [reflexivity|]. destruct c0 as [s0 p0 i0 h0 x0 cs0]. cbn [apply_mw_node nchildren].
    rewrite map_map. apply map_ext. intro y. apply apply_mw_node_nseg.
Qed.

(* ---------------------------------------------------------------- add-only histories *)
Definition op_add_only (op : top) : bool :=
  match op with OAdd _ _ _ _ | OUse _ => true | _ => false end.
Definition add_only (hist : list top) : bool := forallb op_add_only hist.

Definition op_canon (op : top) : Prop := match op with OAdd p _ _ _ => pat_canon p | _ => True end.
Definition hist_canon (hist : list top) : Prop := Forall op_canon hist.

Definition tree_rd (ic : icpts) (t : tree) : Prop := TreeLit.tree_lit_ok ic t /\ RD (troot t).

Lemma rd_new_tree : forall name ic trace, tree_rd ic (new_tree name ic trace).
Proof.
  intros name ic trace. split; [apply TreeLit.lit_new_tree|].
  apply RD_intro. intros c [].
Qed.

Lemma rd_tstep : forall ic t op, tree_rd ic t -> TokensSplit.op_tokens op = true -> op_add_only op = true ->
  op_canon op -> tree_rd ic (tstep t op).
Proof.
  intros ic t op [Hl Hrd] Ht Ha Hc.
  split; [exact (TreeLit.lit_tstep ic t op Hl Ht)|].
  destruct op as [p h mws ms|p ms|prefix|mws]; try discriminate Ha; cbn [tstep].
  - unfold keep. destruct (tree_add t p h mws ms) as [t'| | |] eqn:A; try exact Hrd.
    cbn [TokensSplit.op_tokens] in Ht. destruct (tokens p) as [ts|] eqn:T; [|discriminate Ht].
    exact (rd_add ic t p ts h mws ms t' Hl Hrd T Hc A).
  - unfold tree_apply_mw. cbn [troot]. now apply apply_mw_node_RD.
Qed.

Lemma rd_fold : forall ic hist t, tree_rd ic t -> TokensSplit.hist_tokens hist = true -> add_only hist = true ->
  hist_canon hist -> tree_rd ic (fold_left tstep hist t).
Proof.
  intros ic hist. induction hist as [|op hist IH]; intros t Ht W A C; [exact Ht|].
  cbn [fold_left]. unfold TokensSplit.hist_tokens in W. cbn [forallb] in W. apply andb_true_iff in W.
  unfold add_only in A. cbn [forallb] in A. apply andb_true_iff in A. inversion C as [|o l Co Cl]; subst.
  apply IH; [apply rd_tstep; tauto | exact (proj2 W) | exact (proj2 A) | exact Cl].
Qed.

Theorem rd_reachable : forall name ic trace hist, TokensSplit.hist_tokens hist = true -> add_only hist = true ->
  hist_canon hist -> RD (troot (fold_left tstep hist (new_tree name ic trace))).
Proof.
  intros name ic trace hist W A C. exact (proj2 (rd_fold ic hist _ (rd_new_tree name ic trace) W A C)).
Qed.

(* the invariants of the simulation on every tree reached by an add-only history *)
Theorem res1_reachable : forall name ic trace hist, TokensSplit.hist_tokens hist = true -> add_only hist = true ->
  hist_canon hist -> all_nodes (res1 ic) (troot (fold_left tstep hist (new_tree name ic trace))).
Proof.
  intros name ic trace hist W A C.
  destruct (TreeGone.gu_reachable name ic trace hist W) as [_ [Hg Hu]].
  exact (res1_all ic _ Hg Hu (rd_reachable name ic trace hist W A C)).
Qed.

(* ================================================================ Part D : the patterns of the route nodes
   (the proof of TreeOnion.add_segment_reach, for a property of the pattern of the nodes that answer) *)
Section RoutePat.
Variable Qp : bytes -> Prop.

Definition Tq (n : node) : Prop := nhandlers n <> [] -> npat n <> [] -> Qp (npat n).
Definition qinv (n : node) : Prop := TreeText.pat_ok n /\ Tq n.
Definition qkeeps (n n' : node) : Prop := all_nodes qinv n' /\ npat n' = npat n /\ nseg n' = nseg n.

Lemma Tq_same : forall n n', npat n' = npat n -> nhandlers n' = nhandlers n -> Tq n -> Tq n'.
Proof. intros n n' Hp Hh Hn. unfold Tq. rewrite Hp, Hh. exact Hn. Qed.

Lemma Tq_nil : forall n, nhandlers n = [] -> Tq n.
Proof. intros n Hh H. congruence. Qed.

Lemma qinv_intro : forall n, Tq n ->
  (forall ch, In ch (nchildren n) -> npat ch = npat n ++ sval (nseg ch) /\ all_nodes qinv ch) ->
  all_nodes qinv n.
Proof.
  intros n HT H. constructor; [split; [|exact HT]; intros ch Hch; exact (proj1 (H ch Hch)) |
                               intros ch Hch; exact (proj2 (H ch Hch))].
Qed.

Lemma qinv_child : forall n ch, all_nodes qinv n -> In ch (nchildren n) ->
  npat ch = npat n ++ sval (nseg ch) /\ all_nodes qinv ch.
Proof.
  intros n ch H Hch.
  split; [exact (proj1 (all_nodes_here _ _ H) ch Hch) | exact (all_nodes_child _ _ _ H Hch)].
Qed.

Lemma qinv_T : forall n, all_nodes qinv n -> Tq n.
Proof. intros n H. exact (proj2 (all_nodes_here _ _ H)). Qed.

Lemma qinv_same_shape : forall n n', npat n' = npat n -> nchildren n' = nchildren n -> Tq n' ->
  all_nodes qinv n -> all_nodes qinv n'.
Proof.
  intros n n' Hp Hc HT H. apply qinv_intro; [exact HT|]. rewrite Hc, Hp.
  intros ch Hch. now apply qinv_child.
Qed.

Lemma set_children_qkeeps : forall n c ix, Tq n ->
  (forall x, In x c -> npat x = npat n ++ sval (nseg x) /\ all_nodes qinv x) ->
  qkeeps n (set_children n c ix).
Proof.
  intros n c ix HT H. destruct (TreeOnion.set_children_all n c ix) as [Hp [Hs [Hc Hh]]].
  split; [|now split]. apply qinv_intro; [now apply (Tq_same n)|]. rewrite Hc, Hp. exact H.
Qed.

Lemma replace_child_qkeeps : forall n i ch ch' ix, all_nodes qinv n -> In ch (nchildren n) ->
  qkeeps ch ch' -> qkeeps n (set_children n (replace_nth i ch' (nchildren n)) ix).
Proof.
  intros n i ch ch' ix H Hch [Ha [Hp Hs]]. apply set_children_qkeeps; [now apply qinv_T|].
  intros x Hx. apply In_replace_nth in Hx. destruct Hx as [->|Hx]; [|now apply qinv_child].
  split; [|exact Ha]. rewrite Hp, Hs. exact (proj1 (qinv_child _ _ H Hch)).
Qed.

Lemma sort_node_qkeeps : forall n keyed n', sort_node n keyed = Ok n' -> Tq n ->
  (forall x, In x (map snd keyed) -> npat x = npat n ++ sval (nseg x) /\ all_nodes qinv x) ->
  qkeeps n n'.
Proof.
  intros n keyed n' H HT Hk. apply sort_node_inv in H. destruct H as [ix [_ ->]].
  apply set_children_qkeeps; [exact HT|]. intros y Hy. apply Hk. now apply In_ssort.
Qed.

Definition qcond_at (tp : bytes) (k : node -> res node) : Prop :=
  forall ch ch', all_nodes qinv ch -> npat ch = tp -> k ch = Ok ch' -> qkeeps ch ch'.

Lemma add_segment_qreach : forall fuel ic n seg k n', all_nodes qinv n ->
  qcond_at (npat n ++ sval seg) k -> add_segment fuel ic n seg k = Ok n' -> qkeeps n n'.
Proof.
  induction fuel as [|f IH]; intros ic n seg k n' Hn Hk H; [discriminate|].
  rewrite TreeText.add_segment_S in H. cbv zeta in H.
  pose proof (qinv_T _ Hn) as Tn.
  assert (Hcont : forall l ch ch', all_nodes qinv ch -> npat ch = npat n ++ firstn l (sval seg) ->
            TreeText.add_continue f ic seg l k ch = Ok ch' -> qkeeps ch ch').
  { intros l ch ch' Hch Hp Hc. unfold TreeText.add_continue in Hc.
    destruct (Nat.eqb_spec (length (sval seg)) l) as [El|Nl].
    - apply (Hk _ _ Hch); [|exact Hc]. rewrite Hp. f_equal. apply firstn_all2. lia.
    - repeat TreeText.res_step Hc. refine (IH _ _ _ _ _ Hch _ Hc).
      rewrite (TreeText.new_segment_value _ _ _ E0). apply TreeText.slice_or_panic_ok in E.
      rewrite (TreeText.gslice_to_end _ _ _ E). rewrite Hp, <- app_assoc, firstn_skipn. exact Hk. }
  destruct (scan_sim seg (nchildren n) 0 None) as [[i|] best] eqn:SC.
  - destruct (nth_error (nchildren n) i) as [ch|] eqn:NTH; [|discriminate].
    assert (Ich : In ch (nchildren n)) by (eapply nth_error_In; eassumption).
    destruct (TreeOnion.scan_sim_some _ _ _ _ _ _ SC) as [ch0 [_ [N0 S0]]].
    rewrite Nat.sub_0_r, NTH in N0. injection N0 as <-.
    TreeText.res_step H. injection H as <-.
    apply (replace_child_qkeeps n i ch); [exact Hn | exact Ich|].
    destruct (qinv_child _ _ Hn Ich) as [Pch Ach].
    apply Hk; [exact Ach | | exact E].
    rewrite Pch. f_equal. now apply TreeOnion.similarity_same.
  - destruct best as [[i l]|].
    + destruct (nth_error (nchildren n) i) as [ch|] eqn:NTH; [|discriminate].
      assert (Ich : In ch (nchildren n)) by (eapply nth_error_In; eassumption).
      destruct (qinv_child _ _ Hn Ich) as [Pch Ach].
      assert (CP : TreeOnion.cpre (Z.to_nat l) (sval (nseg ch)) (sval seg)).
      { destruct (TreeOnion.scan_sim_best _ _ _ _ _ _ SC) as [E|[ch0 [_ [N0 S0]]]]; [discriminate E|].
        rewrite Nat.sub_0_r, NTH in N0. injection N0 as <-. rewrite <- S0. apply TreeOnion.similarity_cpre. }
      destruct CP as [L1 [L2 L3]].
      destruct (Nat.leb_spec (length (sval (nseg ch))) (Z.to_nat l)) as [Hle|Hgt].
      * TreeText.res_step H. injection H as <-.
        apply (replace_child_qkeeps n i ch); [exact Hn | exact Ich|].
        refine (Hcont (Z.to_nat l) _ _ Ach _ E).
        rewrite Pch. f_equal. rewrite <- L3. symmetry. now apply firstn_all2.
      * TreeText.res_step H. destruct x as [s1 s2].
        pose proof (TreeOnion.seg_split_first _ _ _ _ _ E) as V1.
        apply TreeText.seg_split_value in E.
        TreeText.res_step H. rename x into ret. TreeText.res_step H. rename x into ret'.
        assert (Hret : qkeeps (Node s1 (npat n ++ sval s1) 0 [] [] []) ret).
        { apply (sort_node_qkeeps _ _ _ E0); [now apply Tq_nil|].
          rewrite map_snd_with_prio. intros y [<-|[]].
          destruct (TreeOnion.set_seg_all ch s2) as [Hp [Hs [Hc Hh]]]. rewrite Hp, Hs. cbn [npat].
          split; [rewrite Pch, <- E; now rewrite app_assoc|].
          apply (qinv_same_shape ch _ Hp Hc); [|exact Ach].
          apply (Tq_same ch); [exact Hp | exact Hh | now apply qinv_T]. }
        destruct Hret as [Aret [Pret Sret]]. cbn [npat nseg] in Pret, Sret.
        assert (Hk1 : qkeeps ret ret').
        { refine (Hcont (Z.to_nat l) _ _ Aret _ E1). rewrite Pret, V1. f_equal. exact L3. }
        destruct Hk1 as [Aret' [Pret' Sret']].
        apply (sort_node_qkeeps _ _ _ H); [exact Tn|].
        rewrite map_app, map_snd_with_prio. cbn [map snd].
        intros y Hy. apply in_app_or in Hy. destruct Hy as [Hy|[<-|[]]].
        -- apply In_remove_nth in Hy. now apply qinv_child.
        -- split; [|exact Aret']. now rewrite Pret', Sret', Pret, Sret.
    + TreeText.res_step H. rename x into nn'.
      assert (Hnn : all_nodes qinv (new_node n seg)).
      { apply qinv_intro; [now apply Tq_nil | intros ch []]. }
      assert (Hk1 : qkeeps (new_node n seg) nn') by (apply Hk; [exact Hnn | reflexivity | exact E]).
      destruct Hk1 as [Ann [Pnn Snn]]. cbn [new_node npat nseg] in Pnn, Snn.
      apply (sort_node_qkeeps _ _ _ H); [exact Tn|].
      rewrite map_app, map_snd_with_prio. cbn [map snd].
      intros y Hy. apply in_app_or in Hy. destruct Hy as [Hy|[<-|[]]].
      * now apply qinv_child.
      * split; [|exact Ann]. now rewrite Pnn, Snn.
Qed.

Lemma get_node_qreach : forall fuel ic segs n upd n', all_nodes qinv n ->
  qcond_at (npat n ++ concat (map sval segs)) upd ->
  get_node fuel ic n segs upd = Ok n' -> qkeeps n n'.
Proof.
  intros fuel ic segs. induction segs as [|seg rest IH]; intros n upd n' Hn Hk H; [discriminate|].
  destruct rest as [|seg2 rest].
  - cbn [get_node] in H. apply (add_segment_qreach _ _ _ _ _ _ Hn) in H; [exact H|].
    cbn [map concat] in Hk. now rewrite app_nil_r in Hk.
  - cbn [get_node] in H. refine (add_segment_qreach _ _ _ _ _ _ Hn _ H).
    intros ch ch' Hch Hp Hc. refine (IH ch upd ch' Hch _ Hc).
    rewrite Hp, <- app_assoc. exact Hk.
Qed.

Lemma add_methods_qcond : forall trace router h pattern mws ms, Qp pattern ->
  qcond_at pattern (add_methods trace router h pattern mws ms).
Proof.
  intros trace router h pattern mws ms HQ ch ch' Hch Hp H. unfold add_methods in H.
  TreeText.res_step H. injection H as <-.
  match goal with |- qkeeps ch (set_handlers ch ?hs ?i) =>
    destruct (TreeOnion.set_handlers_all ch hs i) as [P1 [S1 [C1 H1]]] end.
  split; [|now split].
  apply (qinv_same_shape ch _ P1 C1); [|exact Hch].
  unfold Tq. rewrite P1, Hp. intros _ _. exact HQ.
Qed.

Definition tree_q (t : tree) : Prop := all_nodes qinv (troot t) /\ npat (troot t) = [].

Lemma q_new_tree : forall name ic trace, tree_q (new_tree name ic trace).
Proof.
  intros name ic trace. split; [|reflexivity]. unfold new_tree, tree_build_methods. cbn [troot].
  apply qinv_intro; [|intros ch []]. intros _ Hp. now elim Hp.
Qed.

Lemma q_add : forall t p h mws ms t', tree_q t -> Qp p -> tree_add t p h mws ms = Ok t' -> tree_q t'.
Proof.
  intros t p h mws ms t' [Hn Hroot] HQ H. unfold tree_add in H. cbv zeta in H.
  TreeText.res_step H.
  assert (Gm : forall ms0,
    (do segs <- split (tic t) p;
     do _ <- check_methods (has_trace t)
               (match find (tree_fuel t + length p + 2) (troot t) p with Some n => nhandlers n | None => [] end) [] ms0;
     do root' <- get_node (tree_fuel t + length p + 2) (tic t) (troot t) segs
                   (add_methods (has_trace t) (tname t) h p mws ms0);
     Ok (tree_build_methods t root' 1 ms0)) = Ok t' -> tree_q t').
  { intros ms0 H0. repeat TreeText.res_step H0. injection H0 as <-.
    rename x0 into segs. rename x2 into root'.
    apply (get_node_qreach _ _ _ _ _ _ Hn) in E2.
    - destruct E2 as [Ha [Hp _]]. unfold tree_q, tree_build_methods. cbn [troot].
      match goal with |- all_nodes qinv (set_handlers root' ?hs ?i) /\ _ =>
        destruct (TreeOnion.set_handlers_all root' hs i) as [P1 [S1 [C1 H1]]] end.
      split; [|now rewrite P1, Hp].
      apply (qinv_same_shape root' _ P1 C1); [|exact Ha].
      intros _ Hne. rewrite P1, Hp, Hroot in Hne. now elim Hne.
    - rewrite Hroot, (TreeOnion.split_concat _ _ _ E0). cbn [app]. now apply add_methods_qcond. }
  destruct x as [[amb [|]]|]; [discriminate | exact (Gm _ H) | exact (Gm _ H)].
Qed.

Lemma apply_mw_node_q : forall fuel router mws n, all_nodes qinv n -> all_nodes qinv (apply_mw_node fuel router mws n).
Proof.
  induction fuel as [|f IH]; intros router mws n Hn; [exact Hn|].
  pose proof (all_nodes_here _ _ Hn) as [Hpat HT].
  destruct n as [s p i h x c]. cbn [apply_mw_node]. apply qinv_intro.
  - unfold Tq in *. cbn [nhandlers npat] in *. intros Hh. apply HT. intro E. apply Hh. now rewrite E.
  - cbn [nchildren npat]. intros ch Ich. apply in_map_iff in Ich. destruct Ich as [c0 [<- I0]].
    split; [|apply IH; exact (all_nodes_child _ _ c0 Hn I0)].
    rewrite apply_mw_node_nseg. pose proof (Hpat c0 I0) as E0. cbn [npat] in E0. rewrite <- E0.
    destruct f as [|f']; [reflexivity|]. destruct c0; reflexivity.
Qed.

End RoutePat.

(* every route node spells a pattern that was registered: it satisfies whatever all registered patterns satisfy *)
Definition op_pat (Qp : bytes -> Prop) (op : top) : Prop := match op with OAdd p _ _ _ => Qp p | _ => True end.

Lemma q_fold : forall Qp hist t, tree_q Qp t -> add_only hist = true -> Forall (op_pat Qp) hist ->
  tree_q Qp (fold_left tstep hist t).
Proof.
  intros Qp hist. induction hist as [|op hist IH]; intros t Ht A C; [exact Ht|].
  cbn [fold_left]. unfold add_only in A. cbn [forallb] in A. apply andb_true_iff in A.
  inversion C as [|o l Co Cl]; subst. apply IH; [|exact (proj2 A) | exact Cl].
  destruct A as [A _]. destruct op as [p h mws ms|p ms|prefix|mws]; try discriminate A; cbn [tstep].
  - unfold keep. destruct (tree_add t p h mws ms) as [t'| | |] eqn:E; try exact Ht.
    exact (q_add Qp t p h mws ms t' Ht Co E).
  - destruct Ht as [Ha Hp]. split; [apply apply_mw_node_q; exact Ha|].
    unfold tree_apply_mw. cbn [troot]. destruct (tree_fuel t); [exact Hp|]. destruct (troot t); exact Hp.
Qed.

(* ================================================================ Part E : the residuals are the tokens of the routes *)

(* [ts] is what the tokenizer reads in [rem], whichever way [rem] is cut into text and tokens *)
Definition Dtok (rem : bytes) (ts : list tok) : Prop :=
  forall l0 cs, rem = l0 ++ TokensSplit.render cs -> NB l0 -> Forall TokensSplit.chunk_ok cs ->
    ts = TokensSplit.lit_tok l0 (TokensSplit.toks cs).

Lemma render_nil : forall cs, TokensSplit.render cs = [] -> cs = [].
Proof. intros [|c cs] H; [reflexivity | discriminate H]. Qed.

Lemma Dtok_nil : Dtok [] [].
Proof.
  intros l0 cs E _ _. symmetry in E. apply app_eq_nil in E. destruct E as [-> E].
  now rewrite (render_nil cs E).
Qed.

Lemma lit_cons_lit_tok : forall l l' cs,
  lit_cons l (TokensSplit.lit_tok l' (TokensSplit.toks cs)) = TokensSplit.lit_tok (l ++ l') (TokensSplit.toks cs).
Proof.
  intros l l' cs. destruct l as [|a l]; [reflexivity|]. cbn [lit_cons app TokensSplit.lit_tok].
  destruct l' as [|a' l']; cbn [TokensSplit.lit_tok].
  - rewrite app_nil_r. destruct cs as [|c cs]; reflexivity.
  - reflexivity.
Qed.

Lemma split_lit_prefix : forall l rem l0 cs, NB l -> NB l0 -> l ++ rem = l0 ++ TokensSplit.render cs ->
  exists l0', l0 = l ++ l0' /\ rem = l0' ++ TokensSplit.render cs.
Proof.
  induction l as [|a l IH]; intros rem l0 cs Hl H0 E; [now exists l0|].
  destruct l0 as [|a' l0].
  - exfalso. destruct cs as [|c cs]; [discriminate E|]. cbn in E. injection E as E _. apply (proj1 Hl). now left.
  - cbn [app] in E. injection E as <- E.
    destruct (TreeGone.NB_cons_inv a l Hl) as [_ [_ Hl']]. destruct (TreeGone.NB_cons_inv a l0 H0) as [_ [_ H0']].
    destruct (IH rem l0 cs Hl' H0' E) as [l0' [-> ->]]. now exists l0'.
Qed.

Lemma Dtok_lit : forall l rem ts, NB l -> Dtok rem ts -> Dtok (l ++ rem) (lit_cons l ts).
Proof.
  intros l rem ts Hl HD l0 cs E H0 Hcs.
  destruct (split_lit_prefix l rem l0 cs Hl H0 E) as [l0' [-> ->]].
  rewrite (HD l0' cs eq_refl (proj2 (TreeLit.NB_app _ _ H0)) Hcs). apply lit_cons_lit_tok.
Qed.

Lemma Dtok_par : forall b suf rem ts, NB b -> NB suf -> Dtok rem ts ->
  Dtok (TokensSplit.chunk_text (b, suf) ++ rem) (TokensSplit.tok_par b :: lit_cons suf ts).
Proof.
  intros b suf rem ts Hb Hs HD l0 cs E H0 Hcs. unfold TokensSplit.chunk_text in E. cbn [fst snd app] in E.
  destruct l0 as [|a l0].
  2:{ exfalso. cbn [app] in E. injection E as E _. apply (proj1 H0). left. now symmetry. }
  cbn [app] in E. destruct cs as [|[b' l'] cs]; [discriminate E|].
  rewrite TokensSplit.render_cons in E. cbn [fst snd] in E. injection E as E.
  inversion Hcs as [|c0 cs0 Hc Hcs']; subst. destruct Hc as [[Hb' Hl'] _]. cbn [fst snd] in Hb', Hl'.
  rewrite <- app_assoc in E. cbn [app] in E.
  destruct (TreeGone.app_until 125%N b b' _ _ (proj2 Hb) (proj2 Hb') E) as [<- E'].
  cbn [TokensSplit.lit_tok TokensSplit.toks fst snd]. f_equal.
  exact (Dtok_lit suf rem ts Hs HD l' cs E' Hl' Hcs').
Qed.

Section Bridge.
Variable ic : icpts.

Lemma bel_Dtok : forall f n, height n <= f -> all_nodes TreeText.pat_ok n -> G ic n -> U n ->
  forall r, In r (bel n) -> exists rem, rroute r = npat n ++ rem /\ Dtok rem (rts r) /\
    (In r (self_res n) \/ rem <> []).
Proof.
  induction f as [|f IH]; intros n Hh Hp Hg Hu r Ir; [rewrite height_eq in Hh; lia|].
  rewrite bel_eq in Ir. apply in_app_or in Ir. destruct Ir as [Ir|Ir].
  - exists []. split; [|split; [|now left]].
    + unfold self_res in Ir. destruct (nhandlers n); [destruct Ir|]. destruct Ir as [<-|[]]. cbn [rroute].
      now rewrite app_nil_r.
    + rewrite (self_res_rts n r Ir). exact Dtok_nil.
  - apply in_flat_map in Ir. destruct Ir as [c [Ic Ir]]. unfold blk in Ir. apply in_map_iff in Ir.
    destruct Ir as [r0 [<- I0]].
    assert (Hc : height c <= f) by (pose proof (height_child n c Ic); lia).
    destruct (IH c Hc (all_nodes_child _ n c Hp Ic) (all_nodes_child _ n c Hg Ic) (all_nodes_child _ n c Hu Ic) r0 I0)
      as [rem0 [E0 [D0 _]]].
    pose proof (proj1 (all_nodes_here _ _ Hg) c Ic) as Lab.
    pose proof (proj1 (proj2 (all_nodes_here _ _ Hu) c Ic)) as Cs.
    exists (sval (nseg c) ++ rem0). cbn [wrap rroute rts]. split; [|split].
    + rewrite E0, (all_nodes_here _ _ Hp c Ic). now rewrite app_assoc.
    + unfold seg_toks. destruct (isparam (nseg c)) eqn:P.
      * destruct (nbseg_plabel ic (nseg c) Lab Cs P) as [_ [b [[[Hb Hl] _] [Ev [Ei [En Er]]]]]].
        cbn [fst snd] in Hb, Hl. rewrite Ev, Ei, En, Er. exact (Dtok_par b _ rem0 (rts r0) Hb Hl D0).
      * destruct Lab as [_ [_ [Hnb _]]]. exact (Dtok_lit _ rem0 (rts r0) (Hnb P) D0).
    + right. destruct Lab as [_ [Hne _]]. destruct (sval (nseg c)); [congruence | discriminate].
Qed.

Lemma bel_route : forall f n, height n <= f -> forall r, In r (bel n) ->
  exists d, (d = n \/ desc n d) /\ nhandlers d <> [] /\ npat d = rroute r.
Proof.
  induction f as [|f IH]; intros n Hh r Ir; [rewrite height_eq in Hh; lia|].
  rewrite bel_eq in Ir. apply in_app_or in Ir. destruct Ir as [Ir|Ir].
  - exists n. unfold self_res in Ir. destruct (nhandlers n) eqn:E; [destruct Ir|]. destruct Ir as [<-|[]].
    split; [now left|]. split; [discriminate | reflexivity].
  - apply in_flat_map in Ir. destruct Ir as [c [Ic Ir]]. unfold blk in Ir. apply in_map_iff in Ir.
    destruct Ir as [r0 [<- I0]].
    assert (Hc : height c <= f) by (pose proof (height_child n c Ic); lia).
    destruct (IH c Hc r0 I0) as [d [Hd [Hh0 Hp0]]]. exists d. cbn [wrap rroute].
    split; [|now split]. right. destruct Hd as [->|Dd]; [now apply desc_child | exact (desc_step n c d Ic Dd)].
Qed.

End Bridge.

(* the residuals of a tree carry the tokens of their routes *)
Theorem resid_tokens : forall name ic trace hist, TokensSplit.hist_tokens hist = true -> add_only hist = true ->
  let t := fold_left tstep hist (new_tree name ic trace) in
  forall r, In r (tree_resid t) -> tokens (rroute r) = Some (rts r).
Proof.
  intros name ic trace hist W A t r Ir.
  destruct (TreeGone.gu_reachable name ic trace hist W) as [_ [Hg Hu]]. fold t in Hg, Hu.
  destruct (TreeFind.C03_pat_reachable_l name ic trace hist) as [Hp Hroot]. fold t in Hp, Hroot.
  assert (Hq : tree_q (fun p => tokens p <> None) t).
  { apply q_fold; [apply q_new_tree | exact A|].
    unfold TokensSplit.hist_tokens in W. rewrite forallb_forall in W. apply Forall_forall. intros op Io.
    specialize (W op Io). destruct op as [p h mws ms|p ms|prefix|mws]; try exact I.
    cbn [TokensSplit.op_tokens] in W. cbn [op_pat]. destruct (tokens p); [discriminate | discriminate W]. }
  assert (Ib : In r (bel (troot t))).
  { rewrite bel_eq. apply in_or_app. right. exact Ir. }
  destruct (bel_Dtok ic _ (troot t) (le_n _) Hp Hg Hu r Ib) as [rem [E [D Hne]]].
  rewrite Hroot in E. cbn [app] in E. subst rem.
  destruct (bel_route _ (troot t) (le_n _) r Ib) as [d [Hd [Hh Hpd]]].
  assert (Hrne : rroute r <> []).
  { destruct Hne as [Is|Hne]; [|exact Hne]. exfalso.
    unfold tree_resid in Ir. apply in_flat_map in Ir. destruct Ir as [c [Ic Ir]].
    unfold blk in Ir. apply in_map_iff in Ir. destruct Ir as [r0 [Er _]].
    pose proof (self_res_rts _ r Is) as E0. rewrite <- Er in E0. cbn [wrap rts] in E0. unfold seg_toks in E0.
    destruct (isparam (nseg c)); [discriminate E0|].
    destruct (lit_cons_starts_lit (sval (nseg c)) (rts r0)) as [l' [ts' E']]; [|congruence].
    exact (proj1 (proj2 (proj1 (all_nodes_here _ _ Hg) c Ic))). }
  assert (Tqd : Tq (fun p => tokens p <> None) d).
  { destruct Hd as [->|Dd]; [exact (qinv_T _ _ (proj1 Hq))|].
    exact (qinv_T _ _ (TreeLit.all_nodes_desc _ _ _ (proj1 Hq) Dd)). }
  rewrite <- Hpd in Hrne. specialize (Tqd Hh Hrne). rewrite Hpd in Tqd.
  destruct (tokens (rroute r)) as [ts0|] eqn:T; [|now elim Tqd].
  destruct (TokensSplit.tokens_shape _ _ T) as [l0 [cs [E [_ [N0 [Hcs [_ [-> _]]]]]]]].
  now rewrite (D l0 cs E N0 Hcs).
Qed.

(* ---------------------------------------------------------------- the route table of a tree *)
Fixpoint routes_of (fuel : nat) (n : node) : list bytes :=
  match fuel with
  | O => []
  | S f => (match nhandlers n with [] => [] | _ => [npat n] end) ++ flat_map (routes_of f) (nchildren n)
  end.

(* the patterns of the nodes below the root that have handlers, in depth-first order *)
Definition tree_pats (t : tree) : list bytes := flat_map (routes_of (tree_fuel t)) (nchildren (troot t)).

Definition tree_table (t : tree) : list (bytes * list tok) :=
  flat_map (fun p => match tokens p with Some ts => [(p, ts)] | None => [] end) (tree_pats t).

Lemma map_rroute_below : forall f n, map rroute (below f n) = routes_of f n.
Proof.
  induction f as [|f IH]; intro n; [reflexivity|]. cbn [below routes_of]. rewrite map_app. f_equal.
  - unfold self_res. destruct (nhandlers n); reflexivity.
  - induction (nchildren n) as [|c cs IHc]; [reflexivity|]. cbn [flat_map]. rewrite map_app, IHc. f_equal.
    rewrite map_map. cbn [wrap rroute]. apply IH.
Qed.

Lemma tree_pats_resid : forall t, tree_pats t = map rroute (tree_resid t).
Proof.
  intro t. unfold tree_pats, tree_resid.
  assert (H : forall cs, (forall c, In c cs -> height c <= tree_fuel t) ->
            flat_map (routes_of (tree_fuel t)) cs = map rroute (flat_map blk cs)).
  { induction cs as [|c cs IH]; intro Hh; [reflexivity|]. cbn [flat_map]. rewrite map_app.
    rewrite IH by (intros x Ix; apply Hh; now right). f_equal.
    unfold blk. rewrite map_map. cbn [wrap rroute]. unfold bel.
    rewrite (below_fuel (height c) (tree_fuel t) c (le_n _) (Hh c (or_introl eq_refl))).
    symmetry. apply map_rroute_below. }
  apply H. intros c Ic. pose proof (height_child _ c Ic). unfold tree_fuel. lia.
Qed.

Lemma table_of_resid : forall ic R, (forall r, In r R -> tokens (rroute r) = Some (rts r)) ->
  residuals ic (flat_map (fun p => match tokens p with Some ts => [(p, ts)] | None => [] end) (map rroute R)) = R.
Proof.
  intros ic R. induction R as [|r R IH]; intro H; [reflexivity|]. cbn [map flat_map].
  rewrite (H r (or_introl eq_refl)). cbn [app]. unfold residuals in *. cbn [map fst snd]. f_equal.
  - destruct r; reflexivity.
  - apply IH. intros x Ix. apply H. now right.
Qed.

(* what the table is: the patterns of the live route nodes, each with its tokens *)
Theorem tree_table_spec : forall t p ts, In (p, ts) (tree_table t) <->
  (In p (tree_pats t) /\ tokens p = Some ts).
Proof.
  intros t p ts. unfold tree_table. rewrite in_flat_map. split.
  - intros [q [Iq H]]. destruct (tokens q) as [ts0|] eqn:T; [|destruct H]. destruct H as [H|[]].
    injection H as <- <-. now split.
  - intros [Ip T]. exists p. split; [exact Ip|]. rewrite T. now left.
Qed.

Theorem tree_pats_spec : forall t p, In p (tree_pats t) <->
  exists d, desc (troot t) d /\ nhandlers d <> [] /\ npat d = p.
Proof.
  intros t p. unfold tree_pats.
  assert (H1 : forall f n q, In q (routes_of f n) -> exists d, (d = n \/ desc n d) /\ nhandlers d <> [] /\ npat d = q).
  { induction f as [|f IH]; intros n q I; [destruct I|]. cbn [routes_of] in I. apply in_app_or in I.
    destruct I as [I|I].
    - exists n. destruct (nhandlers n) eqn:E; [destruct I|]. destruct I as [<-|[]].
      split; [now left|]. split; [discriminate | reflexivity].
    - apply in_flat_map in I. destruct I as [c [Ic I]]. destruct (IH c q I) as [d [Hd [Hh Hp]]]. exists d.
      split; [|now split]. right. destruct Hd as [->|Dd]; [now apply desc_child | exact (desc_step n c d Ic Dd)]. }
  assert (H2 : forall f n d, height n <= f -> (d = n \/ desc n d) -> nhandlers d <> [] -> In (npat d) (routes_of f n)).
  { induction f as [|f IH]; intros n d Hh Hd Hne; [rewrite height_eq in Hh; lia|]. cbn [routes_of].
    apply in_or_app. destruct Hd as [->|Dd].
    - left. destruct (nhandlers n); [congruence | now left].
    - right. apply in_flat_map.
      assert (Hc : exists c, In c (nchildren n) /\ (d = c \/ desc c d)).
      { inversion Dd as [m ch Ich|m ch d0 Ich D0]; subst; [exists d | exists ch]; split; auto. }
      destruct Hc as [c [Ic Hdc]]. exists c. split; [exact Ic|].
      apply IH; [pose proof (height_child n c Ic); lia | exact Hdc | exact Hne]. }
  rewrite in_flat_map. split.
  - intros [c [Ic I]]. destruct (H1 _ c p I) as [d [Hd [Hh Hp]]]. exists d. split; [|now split].
    destruct Hd as [->|Dd]; [now apply desc_child | exact (desc_step _ c d Ic Dd)].
  - intros [d [Dd [Hh <-]]].
    assert (Hc : exists c, In c (nchildren (troot t)) /\ (d = c \/ desc c d)).
    { inversion Dd as [m ch Ich|m ch d0 Ich D0]; subst; [exists d | exists ch]; split; auto. }
    destruct Hc as [c [Ic Hdc]]. exists c. split; [exact Ic|].
    apply H2; [pose proof (height_child _ c Ic); unfold tree_fuel; lia | exact Hdc | exact Hh].
Qed.

(* ================================================================ Part F : the theorems *)

Definition refines_table (ic : icpts) (t : tree) (method path : bytes) : Prop :=
  match tree_handler t method path [] with
  | HFound _ (Some n) _ ps => In (npat n, ps) (resolve ic (tree_table t) path)
  | HFound _ None _ _ => resolve ic (tree_table t) path = []
  | HPanic _ => False
  end.

Theorem tree_refines_resolver_partial : forall name ic trace hist method path,
  add_only hist = true -> TokensSplit.hist_tokens hist = true -> hist_canon hist ->
  path <> [] -> path <> bs "*" ->
  let t := fold_left tstep hist (new_tree name ic trace) in
  (ttrace t = None \/ method <> TRACE) ->
  refines_table ic t method path.
Proof.
  intros name ic trace hist method path A W C Hne Hstar t Htr.
  pose proof (tree_handler_refines ic t method path
                (hist_safe hist _ (new_tree_safe name ic trace))
                (TreeFrame.reach_INV name ic trace hist W)
                (res1_reachable name ic trace hist W A C) Hne Hstar Htr) as R.
  unfold refines in R. unfold refines_table. rewrite resolve_out.
  assert (E : residuals ic (tree_table t) = tree_resid t).
  { unfold tree_table. rewrite tree_pats_resid. apply table_of_resid.
    exact (resid_tokens name ic trace hist W A). }
  rewrite E. exact R.
Qed.

(* ================================================================ Part G : a decidable form of the spelling guard *)

(* a scan of the pattern text: state 0 outside a token, 1 in a token before its first ':', 2 after it;
   fails on a ':' that is directly followed by the closing brace *)
Fixpoint colon_ok (st : nat) (s : bytes) : bool :=
  match s with
  | [] => true
  | c :: s' =>
    match st with
    | O => colon_ok (if N.eqb c 123 then 1 else 0) s'
    | S O => if N.eqb c 125 then colon_ok 0 s'
             else if N.eqb c 58 then (match s' with [] => colon_ok 2 s' | d :: _ => if N.eqb d 125 then false else colon_ok 2 s' end)
             else colon_ok 1 s'
    | _ => if N.eqb c 125 then colon_ok 0 s' else colon_ok 2 s'
    end
  end.

Lemma colon_lit : forall l s, NB l -> colon_ok 0 (l ++ s) = colon_ok 0 s.
Proof.
  induction l as [|c l IH]; intros s H; [reflexivity|]. cbn [app colon_ok].
  destruct (TreeGone.NB_cons_inv c l H) as [N3 [_ Hl]]. apply N.eqb_neq in N3. rewrite N3. now apply IH.
Qed.

Lemma colon_rule : forall r s, ~ In 125%N r -> colon_ok 2 (r ++ 125%N :: s) = colon_ok 0 s.
Proof.
  induction r as [|c r IH]; intros s H; cbn [app colon_ok]; [reflexivity|].
  assert (Nc : N.eqb c 125 = false) by (apply N.eqb_neq; intro E; apply H; now left). rewrite Nc.
  apply IH. intro I. apply H. now right.
Qed.

Lemma colon_body : forall b s, ~ In 125%N b -> colon_ok 1 (b ++ 125%N :: s) = canon_body b && colon_ok 0 s.
Proof.
  induction b as [|c b IH]; intros s H; cbn [app colon_ok]; [reflexivity|].
  assert (Nc : N.eqb c 125 = false) by (apply N.eqb_neq; intro E; apply H; now left). rewrite Nc.
  assert (Hb : ~ In 125%N b) by (intro I; apply H; now right).
  unfold canon_body. cbn [span_until]. destruct (N.eqb_spec c 58) as [->|N58].
  - destruct b as [|d b]; cbn [app]; [reflexivity|].
    assert (Nd : N.eqb d 125 = false) by (apply N.eqb_neq; intro E; apply Hb; now left). rewrite Nd.
    cbn [andb]. exact (colon_rule (d :: b) s Hb).
  - rewrite (IH s Hb). unfold canon_body. destruct (span_until 58%N b) as [[a r]|]; reflexivity.
Qed.

Lemma colon_render : forall cs, Forall TokensSplit.chunk_nb cs ->
  colon_ok 0 (TokensSplit.render cs) = forallb (fun c => canon_body (fst c)) cs.
Proof.
  induction cs as [|[b l] cs IH]; intro H; [reflexivity|]. inversion H as [|c0 cs0 [Hb Hl] Hcs]; subst.
  cbn [fst snd] in Hb, Hl. rewrite TokensSplit.render_cons. cbn [fst snd colon_ok forallb N.eqb Pos.eqb].
  rewrite (colon_body b _ (proj2 Hb)), (colon_lit l _ Hl), (IH Hcs). reflexivity.
Qed.

Theorem colon_ok_canon : forall p, colon_ok 0 p = true -> pat_canon p.
Proof.
  intros p H l0 cs -> N0 Hcs. rewrite (colon_lit l0 _ N0), (colon_render cs (TokensSplit.chunk_ok_nb cs Hcs)) in H.
  rewrite forallb_forall in H. apply Forall_forall. exact H.
Qed.

Definition op_canonb (op : top) : bool := match op with OAdd p _ _ _ => colon_ok 0 p | _ => true end.
Definition hist_canonb (hist : list top) : bool := forallb op_canonb hist.

Lemma hist_canonb_canon : forall hist, hist_canonb hist = true -> hist_canon hist.
Proof.
  intros hist H. unfold hist_canonb in H. rewrite forallb_forall in H. apply Forall_forall.
  intros op Io. specialize (H op Io). destruct op; try exact I. now apply colon_ok_canon.
Qed.

(* (D) with the decidable guard *)
Theorem tree_refines_resolver_canon : forall name ic trace hist method path,
  add_only hist = true -> TokensSplit.hist_tokens hist = true -> hist_canonb hist = true ->
  path <> [] -> path <> bs "*" ->
  let t := fold_left tstep hist (new_tree name ic trace) in
  (ttrace t = None \/ method <> TRACE) ->
  match tree_handler t method path [] with
  | HFound _ (Some n) _ ps => In (npat n, ps) (resolve ic (tree_table t) path)
  | HFound _ None _ _ => resolve ic (tree_table t) path = []
  | HPanic _ => False
  end.
Proof.
  intros name ic trace hist method path A W C Hne Hstar t Htr.
  exact (tree_refines_resolver_partial name ic trace hist method path A W (hist_canonb_canon hist C) Hne Hstar Htr).
Qed.

(* ================================================================ Part H : the statement without the guard is false *)

Definition cx_add (p : String.string) : top := OAdd (bs p) (HUser (bs p)) [] [GET].
Definition cx_hist : list top := [cx_add "/{id}/ab"; cx_add "/{id:}/ac"].
Definition cx_tree : tree := fold_left tstep cx_hist (new_tree (bs "r") [] false).
Definition cx_path : bytes := bs "/1/a/2/ab".

Example cx_facts :
  add_only cx_hist = true /\ TokensSplit.hist_tokens cx_hist = true /\ hist_canonb cx_hist = false /\
  all_accepted (new_tree (bs "r") [] false) cx_hist = true /\
  map fst (tree_table cx_tree) = [bs "/{id}/ab"; bs "/{id:}/ac"] /\
  resolve [] (tree_table cx_tree) cx_path = [] /\
  match tree_handler cx_tree GET cx_path [] with
  | HFound true (Some n) (HUser u) ps => npat n = bs "/{id}/ab" /\ ps = [(bs "id", bs "1/a/2")]
  | _ => False
  end.
Proof. vm_compute. repeat split; reflexivity. Qed.

Theorem tree_refines_resolver_refuted :
  ~ (forall name ic trace hist method path,
       add_only hist = true -> TokensSplit.hist_tokens hist = true ->
       path <> [] -> path <> bs "*" ->
       let t := fold_left tstep hist (new_tree name ic trace) in
       (ttrace t = None \/ method <> TRACE) ->
       match tree_handler t method path [] with
       | HFound _ (Some n) _ ps => In (npat n, ps) (resolve ic (tree_table t) path)
       | HFound _ None _ _ => resolve ic (tree_table t) path = []
       | HPanic _ => False
       end).
Proof.
  intro H.
  assert (N1 : cx_path <> []) by discriminate. assert (N2 : cx_path <> bs "*") by discriminate.
  specialize (H (bs "r") [] false cx_hist GET cx_path eq_refl eq_refl N1 N2 (or_introl eq_refl)).
  vm_compute in H. exact H.
Qed.

(* ================================================================ examples *)

Definition ex_ic : icpts := [(bs "digit", match_digit); (bs "word", match_word)].
Definition ex_hist : list top :=
  map cx_add ["/a"; "/b"; "/c"; "/d"; "/e"; "/f/g"; "/f/h"; "/{id}"; "/{id}/x";
              "/users/{id:\d+}"; "/users/{name}"; "/users/{uid:digit}/posts/{pid}"; "/users/me";
              "/p/{x}-{y}"; "/p/{x}-{y}/z"; "/q"; "/q{tail}"]%string ++ [OUse [bs "mw"]].
Definition ex_tree : tree := fold_left tstep ex_hist (new_tree (bs "r") ex_ic false).
Definition ex_paths : list bytes :=
  map bs ["/a"; "/e"; "/f/g"; "/f/"; "/zz"; "/zz/x"; "/zz/y"; "/users/5"; "/users/bob"; "/users/me";
          "/users/5/posts/7"; "/users/x/posts/7"; "/p/1-2"; "/p/1-2/z"; "/p/1-2-3"; "/q"; "/qq"; "/"; "nope"]%string.

Fixpoint ps_eqb (a b : params) : bool :=
  match a, b with
  | [], [] => true
  | (k, v) :: a', (k', v') :: b' => beqb k k' && beqb v v' && ps_eqb a' b'
  | _, _ => false
  end.

Definition ex_agree (t : tree) (ic : icpts) (path : bytes) : bool :=
  let outs := resolve ic (tree_table t) path in
  match tree_handler t GET path [] with
  | HFound _ (Some n) _ ps => existsb (fun o => beqb (fst o) (npat n) && ps_eqb (snd o) ps) outs
  | HFound _ None _ _ => match outs with [] => true | _ => false end
  | HPanic _ => false
  end.

Example ex_premises :
  add_only ex_hist = true /\ TokensSplit.hist_tokens ex_hist = true /\ hist_canonb ex_hist = true /\
  all_accepted (new_tree (bs "r") ex_ic false) ex_hist = true /\ length (tree_table ex_tree) = 17.
Proof. vm_compute. repeat split; reflexivity. Qed.

Example ex_all_agree : forallb (ex_agree ex_tree ex_ic) ex_paths = true.
Proof. vm_compute. reflexivity. Qed.

(* "/q" is answered by the parameter route "/q{tail}" with the empty value; the procedure allows both *)
Example ex_either_may_win :
  map fst (resolve ex_ic (tree_table ex_tree) (bs "/q")) = [bs "/q{tail}"; bs "/q"] /\
  match tree_handler ex_tree GET (bs "/q") [] with
  | HFound true (Some n) _ ps => npat n = bs "/q{tail}" /\ ps = [(bs "tail", [])]
  | _ => False
  end.
Proof. vm_compute. repeat split; reflexivity. Qed.

Example ex_theorem_applies : forall path, In path ex_paths ->
  match tree_handler ex_tree GET path [] with
  | HFound _ (Some n) _ ps => In (npat n, ps) (resolve ex_ic (tree_table ex_tree) path)
  | HFound _ None _ _ => resolve ex_ic (tree_table ex_tree) path = []
  | HPanic _ => False
  end.
Proof.
  intros path Ip.
  assert (N1 : path <> []) by (intro E; subst path; vm_compute in Ip; intuition discriminate).
  assert (N2 : path <> bs "*") by (intro E; subst path; vm_compute in Ip; intuition discriminate).
  exact (tree_refines_resolver_canon (bs "r") ex_ic false ex_hist GET path eq_refl eq_refl eq_refl N1 N2 (or_introl eq_refl)).
Qed.

(* ================================================================ Part I : the order of the table does not matter *)

Definition eqv {A : Type} (a b : list A) : Prop := forall x, In x a <-> In x b.

Lemma eqv_refl : forall (A : Type) (a : list A), eqv a a.
Proof. intros A a x. tauto. Qed.

Lemma eqv_nil : forall (A : Type) (a b : list A), eqv a b -> (a = [] <-> b = []).
Proof.
  intros A a b H. split; intro E; subst.
  - destruct b as [|y b]; [reflexivity|]. destruct (proj2 (H y) (or_introl eq_refl)).
  - destruct a as [|y a]; [reflexivity|]. destruct (proj1 (H y) (or_introl eq_refl)).
Qed.

Lemma eqv_app : forall (A : Type) (a a' b b' : list A), eqv a a' -> eqv b b' -> eqv (a ++ b) (a' ++ b').
Proof.
  intros A a a' b b' H1 H2 x. rewrite !in_app_iff. rewrite (H1 x), (H2 x). tauto.
Qed.

Lemma eqv_pick : forall (A : Type) (a a' x x' : list A), eqv a a' -> eqv x x' ->
  eqv (match a with _ :: _ => a | [] => x end) (match a' with _ :: _ => a' | [] => x' end).
Proof.
  intros A a a' x x' Ha Hx. pose proof (eqv_nil _ a a' Ha) as N.
  destruct a as [|y1 a1]; destruct a' as [|y2 a2].
  - exact Hx.
  - discriminate (proj1 N eq_refl).
  - discriminate (proj2 N eq_refl).
  - exact Ha.
Qed.

Lemma eqv_first_ne : forall (A : Type) (a a' b b' c c' : list A), eqv a a' -> eqv b b' -> eqv c c' ->
  eqv (first_ne a b c) (first_ne a' b' c').
Proof.
  intros A a a' b b' c c' Ha Hb Hc. unfold first_ne.
  apply (eqv_pick A a a' _ _ Ha). apply (eqv_pick A b b' c c' Hb Hc).
Qed.

Lemma eqv_flat_map : forall (A B : Type) (f f' : A -> list B) l l', eqv l l' -> (forall k, eqv (f k) (f' k)) ->
  eqv (flat_map f l) (flat_map f' l').
Proof.
  intros A B f f' l l' Hl Hf x. rewrite !in_flat_map. split; intros [k [Ik Ix]]; exists k.
  - split; [now apply Hl | now apply Hf].
  - split; [now apply Hl | now apply Hf].
Qed.

Lemma perm_eqv : forall (A : Type) (a b : list A), Permutation a b -> eqv a b.
Proof. intros A a b P x. split; intro I; [exact (Permutation_in x P I) | exact (Permutation_in x (Permutation_sym P) I)]. Qed.

Lemma filter_perm : forall (A : Type) (p : A -> bool) l l', Permutation l l' -> Permutation (filter p l) (filter p l').
Proof.
  intros A p l l' P. induction P as [|x l l' P IH|x y l|l l' l'' P1 IH1 P2 IH2]; cbn [filter].
  - constructor.
  - destruct (p x); [now constructor | exact IH].
  - destruct (p x), (p y); try apply Permutation_refl. apply perm_swap.
  - exact (Permutation_trans IH1 IH2).
Qed.

Lemma lit_step_perm : forall b R R', Permutation R R' -> Permutation (lit_step_R b R) (lit_step_R b R').
Proof. intros b R R' P. unfold lit_step_R. apply Permutation_map. now apply filter_perm. Qed.

Lemma existsb_pkey_true : forall key seen, existsb (pkey_eqb key) seen = true -> In key seen.
Proof.
  intros key seen H. apply existsb_exists in H. destruct H as [x [Ix E]]. apply pkey_eqb_eq in E. now subst x.
Qed.

Lemma keys_in : forall ic k R seen key, In key (keys_of_rank ic k R seen) <->
  (In key seen \/ exists r, In r R /\ par_key r = Some key /\ key_rank ic key = k).
Proof.
  intros ic k R. induction R as [|r R IH]; intros seen key.
  - cbn [keys_of_rank]. rewrite <- in_rev. split; [now left | intros [H|[r [[] _]]]; exact H].
  - destruct (par_key r) as [key0|] eqn:EP.
    + rewrite (keys_step ic k r R seen key0 EP), IH.
      destruct (Nat.eqb (key_rank ic key0) k && negb (existsb (pkey_eqb key0) seen)) eqn:C.
      * apply andb_true_iff in C. destruct C as [C1 C2]. apply Nat.eqb_eq in C1. split.
        -- intros [[<-|I]|[r' [I' H']]]; [right; exists r; split; [now left | now split] | now left |].
           right. exists r'. split; [now right | exact H'].
        -- intros [I|[r' [[<-|I'] [H1 H2]]]]; [left; now right | |right; exists r'; now split].
           left. left. congruence.
      * split.
        -- intros [I|[r' [I' H']]]; [now left | right; exists r'; split; [now right | exact H']].
        -- intros [I|[r' [[<-|I'] [H1 H2]]]]; [now left | |right; exists r'; now split].
           left. assert (key0 = key) by congruence. subst key0.
           apply andb_false_iff in C. destruct C as [C|C].
           ++ apply Nat.eqb_neq in C. congruence.
           ++ apply negb_false_iff in C. now apply existsb_pkey_true.
    + cbn [keys_of_rank]. rewrite EP, IH. split.
      * intros [I|[r' [I' H']]]; [now left | right; exists r'; split; [now right | exact H']].
      * intros [I|[r' [[<-|I'] [H1 H2]]]]; [now left | congruence | right; exists r'; now split].
Qed.

Lemma keys_perm_eqv : forall ic k R R', Permutation R R' -> eqv (keys_of_rank ic k R []) (keys_of_rank ic k R' []).
Proof.
  intros ic k R R' P key. rewrite !keys_in. split; intros [[]|[r [I H]]]; right; exists r; split; try exact H.
  - exact (Permutation_in r P I).
  - exact (Permutation_in r (Permutation_sym P) I).
Qed.

(* the longest common prefix of a set of texts *)
Lemma lcp_greatest : forall q a b, is_pre q a -> is_pre q b -> is_pre q (lcp a b).
Proof.
  induction q as [|x q IH]; intros a b [r1 E1] [r2 E2]; [now exists (lcp a b)|]. subst a b. cbn [app lcp].
  rewrite N.eqb_refl. destruct (IH (q ++ r1) (q ++ r2)) as [r E]; [now exists r1 | now exists r2|].
  exists r. cbn [app]. now rewrite <- E.
Qed.

Lemma fold_lcp_greatest : forall q ls l, is_pre q l -> (forall e, In e ls -> is_pre q e) -> is_pre q (fold_left lcp ls l).
Proof.
  intros q ls. induction ls as [|x ls IH]; intros l Hl H; [exact Hl|]. cbn [fold_left]. apply IH.
  - apply lcp_greatest; [exact Hl | apply H; now left].
  - intros e Ie. apply H. now right.
Qed.

Lemma is_pre_antisym : forall a b, is_pre a b -> is_pre b a -> a = b.
Proof.
  intros a b [r1 E1] [r2 E2]. subst b. rewrite <- app_assoc in E2.
  assert (L : length a = length (a ++ r1 ++ r2)) by now rewrite <- E2.
  rewrite !app_length in L. destruct r1; [now rewrite app_nil_r | cbn in L; lia].
Qed.

Lemma lcp_all_eqv : forall L L', eqv L L' -> lcp_all L = lcp_all L'.
Proof.
  intros L L' H.
  assert (G1 : forall A B, eqv A B -> is_pre (lcp_all A) (lcp_all B)).
  { intros A B HAB. destruct B as [|b B]; [destruct A as [|a A]; [now exists [] | destruct (proj1 (HAB a) (or_introl eq_refl))]|].
    cbn [lcp_all]. apply fold_lcp_greatest.
    - apply lcp_all_pre. apply HAB. now left.
    - intros e Ie. apply lcp_all_pre. apply HAB. now right. }
  apply is_pre_antisym; apply G1; [exact H | intro x; symmetry; apply H].
Qed.

Lemma group_S_perm : forall g g', Permutation g g' -> group_S g = group_S g'.
Proof. intros g g' P. unfold group_S. apply lcp_all_eqv. apply perm_eqv. now apply Permutation_map. Qed.

Lemma group_R_perm : forall g g', Permutation g g' -> Permutation (group_R g) (group_R g').
Proof. intros g g' P. unfold group_R. rewrite (group_S_perm g g' P). now apply Permutation_map. Qed.

Lemma outcomes_perm : forall F ic R R' path ps, Permutation R R' ->
  eqv (outcomes F ic R path ps) (outcomes F ic R' path ps).
Proof.
  induction F as [|F IH]; intros ic R R' path ps P; [apply eqv_refl|].
  rewrite !outcomes_S.
  assert (EL : eqv (lit_out F ic R path ps) (lit_out F ic R' path ps)).
  { rewrite !lit_out_eq. destruct path as [|b p]; [apply eqv_refl|]. apply IH. now apply lit_step_perm. }
  assert (EG : forall key, eqv (group_out F ic R path ps key) (group_out F ic R' path ps key)).
  { intros [[[ign name] rule] nb]. unfold group_out.
    pose proof (filter_perm _ (has_key (ign, name, rule, nb)) R R' P) as Pg.
    destruct nb as [b|].
    - rewrite (group_S_perm _ _ Pg).
      destruct (shortest_split _ _ _ _) as [[v rest]|]; [|apply eqv_refl]. apply IH. now apply group_R_perm.
    - destruct (accepts (kind_of ic rule) path); [|apply eqv_refl]. apply perm_eqv. now apply Permutation_map. }
  assert (EK : forall k, eqv (kind_out F ic R path ps k) (kind_out F ic R' path ps k)).
  { intro k. unfold kind_out. apply eqv_flat_map; [now apply keys_perm_eqv | exact EG]. }
  assert (EE : eqv (end_out R path ps) (end_out R' path ps)).
  { unfold end_out. destruct path; [|apply eqv_refl]. apply perm_eqv. apply Permutation_map. now apply filter_perm. }
  apply eqv_pick; [exact EL|]. apply eqv_app; [|exact EE]. apply eqv_first_ne; apply EK.
Qed.

Theorem out_perm : forall ic R R' path ps, Permutation R R' -> eqv (out ic R path ps) (out ic R' path ps).
Proof.
  intros ic R R' path ps P. set (F := Nat.max (need R path) (need R' path)).
  rewrite <- (outcomes_out F ic R path ps) by (unfold F; lia).
  rewrite <- (outcomes_out F ic R' path ps) by (unfold F; lia).
  now apply outcomes_perm.
Qed.

(* the answers of the procedure, as a set, do not depend on the order of the table *)
Theorem resolve_perm : forall ic t t' path, Permutation t t' -> eqv (resolve ic t path) (resolve ic t' path).
Proof.
  intros ic t t' path P. rewrite !resolve_out. apply out_perm. unfold residuals. now apply Permutation_map.
Qed.

(* (D) for a table in any order *)
Theorem tree_refines_resolver_any_order : forall name ic trace hist method path table,
  add_only hist = true -> TokensSplit.hist_tokens hist = true -> hist_canon hist ->
  path <> [] -> path <> bs "*" ->
  let t := fold_left tstep hist (new_tree name ic trace) in
  Permutation table (tree_table t) ->
  (ttrace t = None \/ method <> TRACE) ->
  match tree_handler t method path [] with
  | HFound _ (Some n) _ ps => In (npat n, ps) (resolve ic table path)
  | HFound _ None _ _ => resolve ic table path = []
  | HPanic _ => False
  end.
Proof.
  intros name ic trace hist method path table A W C Hne Hstar t Pt Htr.
  pose proof (tree_refines_resolver_partial name ic trace hist method path A W C Hne Hstar Htr) as R.
  fold t in R. unfold refines_table in R. pose proof (resolve_perm ic table (tree_table t) path Pt) as E.
  destruct (tree_handler t method path []) as [ok [n|] h ps|s]; [| |exact R].
  - apply E. exact R.
  - apply (eqv_nil _ _ _ E). exact R.
Qed.

(* ================================================================ the tests run before the proofs
   (nine add-only histories, 12 to 28 paths each; exact agreement: route and parameter LIST) *)
Definition t_ic : icpts := [(bs "digit", match_digit); (bs "word", match_word); (bs "any", match_any)].
Definition t_mk (l : list String.string) : tree := fold_left tstep (map cx_add l) (new_tree (bs "r") t_ic false).
Definition t_run (l paths : list String.string) : bool :=
  all_accepted (new_tree (bs "r") t_ic false) (map cx_add l) && TokensSplit.hist_tokens (map cx_add l) &&
  hist_canonb (map cx_add l) && forallb (fun p => ex_agree (t_mk l) t_ic (bs p)) paths.

Local Open Scope string_scope.

Example test_literal_siblings :
  t_run ["/a"; "/b"; "/c"; "/d"; "/e"; "/f/g"; "/f/h"; "/{id}"; "/{id}/x"; "/ab"; "/abc"]
        ["/a"; "/ab"; "/abc"; "/abcd"; "/f/g"; "/f/"; "/f"; "/zz"; "/zz/x"; "/zz/y"; "/"; "x"; "/f/g/"; "/a/x"] = true.
Proof. vm_compute. reflexivity. Qed.

Example test_kinds_nested :
  t_run ["/users/{id:\d+}/posts/{pid}"; "/users/{id:\d+}"; "/users/{name}"; "/users/{name}/posts";
         "/users/{id:digit}/x"; "/users/me"; "/users/{name}/posts/{pid:\d+}/c"]
        ["/users/5"; "/users/5/posts/7"; "/users/bob"; "/users/bob/posts"; "/users/5/x"; "/users/me";
         "/users/5/posts"; "/users/5/posts/7/c"; "/users/bob/posts/7/c"; "/users/"; "/users/me/posts"; "/users/5/posts/"] = true.
Proof. vm_compute. reflexivity. Qed.

Example test_param_at_end_next_to_static :
  t_run ["/a"; "/a{id}"; "/a/{x}"; "/a/{x}/"; "/{p}/{q}"; "/{p}/q"; "/{p}x/{q}"; "/{p}y/{q}"]
        ["/a"; "/ab"; "/a/"; "/a/1"; "/a/1/"; "/1/2"; "/1/q"; "/1x/2"; "/1y/2"; "/1x/"; "/xx/yy"; "/x/y/z"; "/"] = true.
Proof. vm_compute. reflexivity. Qed.

Example test_same_kind_competing :
  t_run ["/{a}/1"; "/{b}/2"; "/{a}/{c}"; "/x/{d:\d+}"; "/x/{e:\w+}"; "/x/{f}"; "/x/{g:digit}"; "/x/{h:word}z"]
        ["/q/1"; "/q/2"; "/q/3"; "/x/5"; "/x/ab"; "/x/a-b"; "/x/5z"; "/x/"; "/x/1"; "/x/2"; "/x"; "/x/az"] = true.
Proof. vm_compute. reflexivity. Qed.

Example test_prefix_routes :
  t_run ["/p"; "/p/q"; "/p/q/r"; "/p/{x}"; "/p/{x}/r"; "/p/q{y}"; "/pp"; "/pq"; "/pr"; "/ps"; "/pt"]
        ["/p"; "/p/q"; "/p/q/r"; "/p/z"; "/p/z/r"; "/p/qz"; "/p/q/"; "/pp"; "/pt"; "/pu"; "/p/"; "/p/q/r/s"] = true.
Proof. vm_compute. reflexivity. Qed.

Example test_separators_ignored :
  t_run ["/{a}-{b}"; "/{a}-{b}/c"; "/{a}.{b}"; "/v/{x}/{y}/{z}"; "/v/{x}/k/{z}"; "/v/{x:\d+}/{y}/w"; "/{-ign}/t/{u}"]
        ["/1-2"; "/1-2/c"; "/1.2"; "/1-2-3"; "/v/1/2/3"; "/v/1/k/3"; "/v/1/2/w"; "/v/a/2/w"; "/q/t/5"; "/1-2/t/5"; "/v/1/k/w"; "/-"; "/."] = true.
Proof. vm_compute. reflexivity. Qed.

Example test_mixed_1 :
  t_run ["/{a}/ab"; "/{a}/ac"; "/{a}"; "/{a}-{b}"; "/{a}-{b}/z"; "/{n:digit}"; "/{n:digit}/"; "/{n:digit}/ab";
         "/{w:word}/{n:digit}"; "/{r:\d+}x"; "/{r:\d+}y"; "/{r:\d+}x/{k}"; "/{-i}/x/{j}"; "/{-i}/x/{j}/y"; "/q/{z:\d+}/x"]
        ["/1/a/2/ab"; "/1/ab"; "/1/ac"; "/1/a/2/ac"; "/x"; "/x/"; "/x/y"; "/x-y"; "/x-y/z"; "/12"; "/12/"; "/12/ab";
         "/ab/12"; "/ab"; "/a/b/c"; "/"; "/1x"; "/1y"; "/1x/2"; "/abc/def/ghi"; "/12/34/56"; "/12/ab/34"; "/a-b-c";
         "/a.b"; "/1/x/2"; "/1/x/2/y"; "/q/1/x"] = true.
Proof. vm_compute. reflexivity. Qed.

Example test_mixed_2 :
  t_run ["/{a}x/{b}"; "/{a}x"; "/{a}xy"; "/{c}/1"; "/{c}/2"; "/{c}/{d}/3"; "/{c}/{d:\d+}/4"; "/{c}/{d:digit}/5";
         "/{c}/{e:any}/6"; "/a/{f}"; "/a/{f}/g"; "/ab/{h}"; "/abc"; "/abd"; "/b"; "/c"; "/d"; "/e"]
        ["/1x/2"; "/1x"; "/1xy"; "/1xz"; "/q/1"; "/q/2"; "/q/r/3"; "/q/7/4"; "/q/7/5"; "/q/r/6"; "/q/7/6"; "/q/7/3";
         "/a/1"; "/a/1/g"; "/ab/1"; "/abc"; "/abd"; "/abe"; "/b"; "/e"; "/a/"; "/a"; "/ab/"; "/f"; "/a/x/g/h";
         "/xx/1"; "/xxy"; "/x/x/x/3"] = true.
Proof. vm_compute. reflexivity. Qed.

Example test_mixed_3 :
  t_run ["/u/{id}/p"; "/u/{id}/p/{k}"; "/u/{id}/q"; "/u/{id}"; "/u/{id}/"; "/u/me"; "/u/me/p"; "/u/{id:\d+}/p";
         "/u/{id:\d+}/z"; "/v{x}w"; "/v{x}w/t"; "/v{x}"; "/v"]
        ["/u/1/p"; "/u/1/p/2"; "/u/1/q"; "/u/1"; "/u/1/"; "/u/me"; "/u/me/p"; "/u/me/q"; "/u/me/z"; "/u/1/z"; "/u/a/z";
         "/u/a/p"; "/vw"; "/vaw"; "/vaw/t"; "/va"; "/v"; "/vawt"; "/vww"; "/vwww/t"; "/u/"; "/u"; "/u/me/"; "/u/1/p/";
         "/u/a/b/p"; "/u/1/2/p"] = true.
Proof. vm_compute. reflexivity. Qed.
