(* C17 / C08 : validation of the method list of one Handle call.  C18 : TRACE. *)
From Coq Require Import String.
From Mux Require Import Model.Bytes Model.Regex Model.Context Model.Syntax Model.Tree Proofs.BytesFacts.

Lemma mem_In : forall x l, mem x l = true <-> In x l.
Proof.
  intros x l. induction l as [|y l IH]; cbn [mem In]; [split; [discriminate | contradiction]|].
  rewrite orb_true_iff, IH, beqb_eq. split; (intros [H|H]; [left; now symmetry | now right]).
Qed.

Lemma mem_false : forall x l, mem x l = false <-> ~ In x l.
Proof.
  intros x l. rewrite <- mem_In. destruct (mem x l); split; intro H.
  - discriminate H.
  - exfalso. now apply H.
  - intro E. discriminate E.
  - reflexivity.
Qed.

(* the per-method condition *)
Definition meth_ok (trace : bool) (existing : list (bytes * hterm)) (m : bytes) : Prop :=
  is_method m = true /\ beqb m OPTIONS = false /\ beqb m HEAD = false /\
  (trace && beqb m TRACE) = false /\ ahas m existing = false.

Lemma check_methods_ok_gen : forall trace existing ms seen,
  check_methods trace existing seen ms = Ok tt <->
  (NoDup ms /\ forall m, In m ms -> meth_ok trace existing m /\ mem m seen = false).
Proof.
  intros trace existing. induction ms as [|m ms IH]; intro seen.
  - cbn [check_methods]. split; [intros _; split; [constructor | intros m []] | reflexivity].
  - cbn [check_methods]. split.
    + intro H.
      destruct (beqb m OPTIONS) eqn:E1; [discriminate H|].
      destruct (beqb m HEAD) eqn:E2; [discriminate H|].
      destruct (trace && beqb m TRACE) eqn:E3; [discriminate H|].
      cbn [orb] in H.
      destruct (is_method m) eqn:E4; [|discriminate H]. cbn [negb] in H.
      destruct (ahas m existing) eqn:E5; [discriminate H|].
      destruct (mem m seen) eqn:E6; [discriminate H|]. cbn [orb] in H.
      apply IH in H. destruct H as [ND A]. split.
      * constructor; [|exact ND]. intro I. destruct (A m I) as [_ Hm].
        cbn [mem] in Hm. now rewrite beqb_refl in Hm.
      * intros m' [<-|I].
        -- split; [now repeat split | exact E6].
        -- destruct (A m' I) as [Hok Hm]. split; [exact Hok|].
           cbn [mem] in Hm. apply orb_false_iff in Hm. now destruct Hm.
    + intros [ND A]. inversion ND as [|? ? NI ND']; subst.
      destruct (A m (or_introl eq_refl)) as [[E4 [E1 [E2 [E3 E5]]]] E6].
      rewrite E1, E2, E3, E4, E5, E6. cbn [orb negb].
      apply IH. split; [exact ND'|].
      intros m' I. destruct (A m' (or_intror I)) as [Hok Hm]. split; [exact Hok|].
      cbn [mem]. rewrite Hm, orb_false_r. apply beqb_neq. intros ->. contradiction.
Qed.

Lemma C17_check_methods_ok_iff_l : forall trace existing ms,
  check_methods trace existing [] ms = Ok tt <->
  (NoDup ms /\ forall m, In m ms -> is_method m = true /\ beqb m OPTIONS = false /\ beqb m HEAD = false /\
                                     (trace && beqb m TRACE) = false /\ ahas m existing = false).
Proof.
  intros trace existing ms. rewrite check_methods_ok_gen. split; intros [ND A]; (split; [exact ND|]).
  - intros m I. now destruct (A m I).
  - intros m I. split; [exact (A m I) | reflexivity].
Qed.

Lemma C17_duplicate_rejected_l : forall trace existing ms m,
  In m ms -> ahas m existing = true -> check_methods trace existing [] ms <> Ok tt.
Proof.
  intros trace existing ms m I H C. apply C17_check_methods_ok_iff_l in C. destruct C as [_ A].
  destruct (A m I) as [_ [_ [_ [_ E]]]]. congruence.
Qed.

Lemma C17_repeated_method_rejected_l : forall trace existing a m b,
  check_methods trace existing [] (a ++ m :: b ++ [m]) <> Ok tt.
Proof.
  intros trace existing a m b C. apply C17_check_methods_ok_iff_l in C. destruct C as [ND _].
  apply NoDup_remove_2 in ND. apply ND. rewrite in_app_iff. right. rewrite in_app_iff. right. now left.
Qed.

Lemma C08_reserved_rejected_l : forall trace existing ms m, In m ms ->
  (beqb m OPTIONS = true \/ beqb m HEAD = true \/ (trace = true /\ beqb m TRACE = true) \/ is_method m = false) ->
  check_methods trace existing [] ms <> Ok tt.
Proof.
  intros trace existing ms m I H C. apply C17_check_methods_ok_iff_l in C. destruct C as [_ A].
  destruct (A m I) as [E4 [E1 [E2 [E3 _]]]].
  destruct H as [H|[H|[[H1 H2]|H]]]; [congruence | congruence | | congruence].
  rewrite H1, H2 in E3. discriminate E3.
Qed.

Lemma C17_add_methods_rejects_before_changing_l : forall trace router h pattern mws ms n e,
  add_methods trace router h pattern mws ms n = Err e -> check_methods trace (nhandlers n) [] ms = Err e.
Proof.
  intros trace router h pattern mws ms n e H. unfold add_methods in H.
  destruct (check_methods trace (nhandlers n) [] ms) as [x|e0|s|]; cbn [bind] in H;
    [discriminate H | now inversion H | discriminate H | discriminate H].
Qed.

Lemma C17_check_is_only_error_kind_l : forall trace existing seen ms,
  check_methods trace existing seen ms = Ok tt \/ exists e, check_methods trace existing seen ms = Err e.
Proof.
  intros trace existing seen ms. revert seen. induction ms as [|m ms IH]; intro seen; cbn [check_methods].
  - now left.
  - destruct (beqb m OPTIONS || beqb m HEAD || (trace && beqb m TRACE)); [right; now eexists|].
    destruct (negb (is_method m)); [right; now eexists|].
    destruct (ahas m existing || mem m seen); [right; now eexists|]. apply IH.
Qed.

(* ---------------------------------------------------------------- C18 *)
Lemma C18_trace_any_path_l : forall t h path ps,
  ttrace t = Some h -> tree_handler t TRACE path ps = HFound true (Some (troot t)) h ps.
Proof. intros t h path ps H. unfold tree_handler. rewrite H, beqb_refl. reflexivity. Qed.

Lemma C18_trace_only_use_middlewares_l : forall t mws,
  ttrace (tree_apply_mw t mws) = option_map (fun h => apply_mw h TRACE [] (tname t) mws) (ttrace t).
Proof. reflexivity. Qed.

Lemma C18_trace_cannot_be_registered_l : forall existing ms,
  In TRACE ms -> check_methods true existing [] ms <> Ok tt.
Proof.
  intros existing ms I. apply (C08_reserved_rejected_l true existing ms TRACE I).
  right. right. left. split; [reflexivity | apply beqb_refl].
Qed.

Lemma C18_without_option_trace_is_ordinary_l : forall existing,
  ahas TRACE existing = false -> check_methods false existing [] [TRACE] = Ok tt.
Proof.
  intros existing H. apply C17_check_methods_ok_iff_l. split.
  - constructor; [intros [] | constructor].
  - intros m [<-|[]]. repeat split; try (vm_compute; reflexivity). exact H.
Qed.

Lemma C18_new_tree_trace_l : forall name ic,
  ttrace (new_tree name ic true) = Some HTrace /\ ttrace (new_tree name ic false) = None.
Proof. intros name ic. split; reflexivity. Qed.

(* ---------------------------------------------------------------- non-vacuity *)
Example ex_check_ok : check_methods false [] [] [GET; POST] = Ok tt.
Proof. vm_compute. reflexivity. Qed.
Example ex_check_dup : check_methods false [(GET, HUser [])] [] [POST; GET] = Err (bs "duplicate-method").
Proof. vm_compute. reflexivity. Qed.
Example ex_check_rep : check_methods false [] [] [GET; POST; GET] = Err (bs "duplicate-method").
Proof. vm_compute. reflexivity. Qed.
Example ex_check_reserved : check_methods true [] [] [GET; TRACE] = Err (bs "reserved-method") /\
                            check_methods false [] [] [HEAD] = Err (bs "reserved-method") /\
                            check_methods false [] [] [bs "get"] = Err (bs "unknown-method").
Proof. vm_compute. repeat split. Qed.
Example ex_trace_handler :
  tree_handler (new_tree (bs "r") [] true) TRACE (bs "/no/such/route") [] =
  HFound true (Some (troot (new_tree (bs "r") [] true))) HTrace [].
Proof. vm_compute. reflexivity. Qed.
